// C33: interface between the generated pattern tables (tokenmatch_gen_*.cpp, produced by checks/C33.py and run
// through the working tree's tools/matchcompiler.py) and the fixed harness (tokenmatch_harness.cpp).
#ifndef TOKENMATCH_API_H
#define TOKENMATCH_API_H

class Token;

enum TmKind { TM_MATCH = 0, TM_SIMPLEMATCH = 1, TM_FINDMATCH = 2, TM_FINDSIMPLEMATCH = 3 };

typedef bool (*TmMatchFn)(const Token *tok, int varid);
typedef const Token * (*TmFindFn)(const Token *tok, const Token *end, int varid);

struct TmPattern {
    int pid;            // pattern id (index in the pattern list of this run)
    int kind;           // TmKind
    int nelem;          // number of space separated words of the pattern (window size for real token lists)
    const char *pat;    // the pattern as the C++ compiler sees it (C-unescaped)
    TmMatchFn cmatch;   // call with a string literal: rewritten by matchcompiler (compiled matcher)
    TmMatchFn imatch;   // same pattern through a non-literal: interpreted by lib/token.cpp
    TmFindFn cfind;     // find variants: without end token
    TmFindFn ifind;
    TmFindFn cfindend;  // find variants: with end token
    TmFindFn ifindend;
};

struct TmShard {
    const TmPattern *pats;
    int n;
};

// defined by the generated index file (or by the harness itself when built with -DTM_NO_PATTERNS)
extern const TmShard tm_shards[];
extern const int tm_nshards;

#endif
