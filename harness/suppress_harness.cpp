// C23 harness: replays the (suppression, finding) pairs enumerated by spec/Suppress.tla (step gen, UStrata) into the
// real SuppressionList.
//
// usage: suppress_harness <strata.ndjson> <out.ndjson>
//   strata.ndjson: one stratum per line, as TLC wrote it:
//     {"name": .., "sups": [{"via":"line"|"struct","text":..,"id":..,"file":..,"line":n,"sym":..,"type":"unique"|"block"|"file"|"macro",
//                            "lb":n,"le":n,"macro":..}...],
//      "finds": [{"id":..,"file":..,"line":n,"syms":[..],"macros":[..]}...]}
// For every suppression s (1-based index, as in the TLC sequence) one row is written:
//     {"st": name, "s": i, "err": "<message if parseLine threw or addSuppression refused>", "hit": [j...]}
//   hit = the 1-based indices of the findings for which SuppressionList::isSuppressed(errmsg, true) returned true on a
//   list that holds only this suppression.  via "line": the text goes through SuppressionList::parseLine and
//   addSuppression (the path of --suppress= and --suppressions-list=); via "struct": the fields are filled in the way
//   parseXmlFile / the inline comment reader fill them and the object goes through addSuppression.
// No verdict is computed here.
#include "suppressions.h"
#include "errortypes.h"

#define PICOJSON_USE_INT64
#include "picojson.h"

#include <cstdio>
#include <exception>
#include <fstream>
#include <iostream>
#include <set>
#include <string>
#include <vector>

static std::string str(const picojson::value &v, const char *k)
{
    return v.get(k).get<std::string>();
}

static int num(const picojson::value &v, const char *k)
{
    return static_cast<int>(v.get(k).get<int64_t>());
}

static std::string jsonEscape(const std::string &s)
{
    std::string r;
    for (const char c : s) {
        if (c == '"' || c == '\\') {
            r += '\\';
            r += c;
        } else if (static_cast<unsigned char>(c) < 0x20) {
            r += ' ';
        } else
            r += c;
    }
    return r;
}

int main(int argc, char **argv)
{
    if (argc < 3) {
        std::cerr << "usage: suppress_harness strata.ndjson out.ndjson" << std::endl;
        return 3;
    }
    std::ifstream in(argv[1]);
    if (!in) {
        std::cerr << "cannot open " << argv[1] << std::endl;
        return 3;
    }
    FILE *out = std::fopen(argv[2], "w");
    if (!out) {
        std::cerr << "cannot write " << argv[2] << std::endl;
        return 3;
    }

    unsigned long long calls = 0;
    std::string text;
    while (std::getline(in, text)) {
        if (text.empty())
            continue;
        picojson::value stratum;
        const std::string perr = picojson::parse(stratum, text);
        if (!perr.empty()) {
            std::cerr << "bad json: " << perr << std::endl;
            return 3;
        }
        const std::string name = str(stratum, "name");
        const picojson::array &sups = stratum.get("sups").get<picojson::array>();
        const picojson::array &finds = stratum.get("finds").get<picojson::array>();

        // the findings
        std::vector<SuppressionList::ErrorMessage> msgs;
        for (const picojson::value &f : finds) {
            SuppressionList::ErrorMessage m;
            m.hash = 0;
            m.errorId = str(f, "id");
            m.setFileName(str(f, "file"));
            m.lineNumber = num(f, "line");
            m.certainty = Certainty::normal;
            std::string syms;
            for (const picojson::value &y : f.get("syms").get<picojson::array>())
                syms += y.get<std::string>() + "\n";
            m.symbolNames = syms;
            for (const picojson::value &y : f.get("macros").get<picojson::array>())
                m.macroNames.insert(y.get<std::string>());
            msgs.push_back(m);
        }

        for (std::size_t i = 0; i < sups.size(); i++) {
            const picojson::value &s = sups[i];
            SuppressionList list;
            std::string err;
            try {
                SuppressionList::Suppression sup;
                if (str(s, "via") == "line") {
                    sup = SuppressionList::parseLine(str(s, "text"));
                } else {
                    sup.errorId = str(s, "id");
                    sup.fileName = str(s, "file");
                    if (num(s, "line") != 0)
                        sup.lineNumber = num(s, "line");
                    sup.symbolName = str(s, "sym");
                    const std::string type = str(s, "type");
                    if (type == "block") {
                        sup.type = SuppressionList::Type::block;
                        sup.lineBegin = num(s, "lb");
                        sup.lineEnd = num(s, "le");
                        sup.isInline = true;
                    } else if (type == "file") {
                        sup.type = SuppressionList::Type::file;
                        sup.isInline = true;
                    } else if (type == "macro") {
                        sup.type = SuppressionList::Type::macro;
                        sup.macroName = str(s, "macro");
                        sup.isInline = true;
                    }
                }
                err = list.addSuppression(std::move(sup));
            } catch (const std::exception &e) {
                err = std::string("exception: ") + e.what();
            }
            std::string hit;
            if (err.empty()) {
                for (std::size_t j = 0; j < msgs.size(); j++) {
                    calls++;
                    if (list.isSuppressed(msgs[j], true)) {
                        if (!hit.empty())
                            hit += ',';
                        hit += std::to_string(j + 1);
                    }
                }
            }
            std::fprintf(out, "{\"st\":\"%s\",\"s\":%zu,\"err\":\"%s\",\"hit\":[%s]}\n", jsonEscape(name).c_str(), i + 1, jsonEscape(err).c_str(), hit.c_str());
        }
    }
    std::fclose(out);
    std::cout << "calls " << calls << std::endl;
    return 0;
}
