// C30 unit binding: load a generated library configuration through Library::load and ask
// Library::isIntArgValid / Library::isFloatArgValid about every (function, argument, constant) of a case file.
//
// usage: libvalid_harness <file.cfg> <cases.txt>
//   cases.txt, one line per configured function:
//       <id> <function name> <argnr> <number of call arguments> <n> { <form> <constant> }*n
//       form "int": the constant is an integer literal  -> isIntArgValid
//       form "dec": the constant is a floating literal  -> isFloatArgValid
//   stdout: "LOAD <errorcode> <reason>" then one line per case: "<id> <b1> ... <bn>" (1 = argument accepted)
// No judgement is made here; the lines are converted to ndjson and judged by TLC (spec/LibValid.tla).
#include "library.h"
#include "mathlib.h"
#include "settings.h"
#include "standards.h"
#include "token.h"
#include "tokenlist.h"

#include <cstdlib>
#include <fstream>
#include <iostream>
#include <sstream>
#include <string>

int main(int argc, char **argv)
{
    if (argc < 3) {
        std::cerr << "usage: libvalid_harness file.cfg cases.txt" << std::endl;
        return 2;
    }
    Library library;
    const Library::Error err = library.load(argv[0], argv[1]);
    std::cout << "LOAD " << static_cast<int>(err.errorcode) << " " << err.reason << std::endl;
    if (err.errorcode != Library::ErrorCode::OK && err.errorcode != Library::ErrorCode::UNKNOWN_ELEMENT)
        return 0;

    const Settings settings;
    std::ifstream fin(argv[2]);
    std::string line;
    while (std::getline(fin, line)) {
        std::istringstream in(line);
        long id;
        std::string fname;
        int argnr, nargs, n;
        if (!(in >> id >> fname >> argnr >> nargs >> n))
            continue;
        // the call "fname(a1,...,an);" as cppcheck sees it when it queries the library
        std::string code = fname + "(";
        for (int i = 1; i <= nargs; i++)
            code += (i > 1 ? ",a" : "a") + std::to_string(i);
        code += ");";
        TokenList tokenList(settings, Standards::Language::C);
        if (!tokenList.createTokensFromBuffer(code.data(), code.size())) {
            std::cout << id << " ERROR" << std::endl;
            continue;
        }
        tokenList.front()->next()->astOperand1(tokenList.front());
        std::cout << id;
        for (int i = 0; i < n; i++) {
            std::string form, text;
            in >> form >> text;
            bool ok;
            if (form == "int")
                ok = library.isIntArgValid(tokenList.front(), argnr, std::strtoll(text.c_str(), nullptr, 10), settings);
            else
                ok = library.isFloatArgValid(tokenList.front(), argnr, std::strtod(text.c_str(), nullptr), settings);
            std::cout << ' ' << (ok ? 1 : 0);
        }
        std::cout << '\n';
    }
    return 0;
}
