/* LD_PRELOAD shim for C29: perturbs the allocation pattern. Small allocations are served from per-size pools of real
 * malloc chunks handed out in a seeded random order, so the relative order of the addresses of consecutively allocated
 * objects differs from run to run (seed: VERIF_MALLOC_SEED). Everything is a real glibc chunk: free/realloc work as usual.
 * A program whose output depends on comparing addresses (containers ordered by pointer, hashes of pointers) prints
 * something else under another seed; a deterministic program does not notice. */
#define _GNU_SOURCE
#include <pthread.h>
#include <stddef.h>
#include <stdlib.h>
#include <string.h>

extern void *__libc_malloc(size_t);
extern void *__libc_calloc(size_t, size_t);

#define CLASSES 33          /* 16-byte classes up to 512 bytes */
#define POOL 48

static void *pool[CLASSES][POOL];
static int cnt[CLASSES];
static unsigned long long rng;
static int inited;
static pthread_mutex_t mtx = PTHREAD_MUTEX_INITIALIZER;

static unsigned long long next_rand(void)
{
    rng ^= rng << 13;
    rng ^= rng >> 7;
    rng ^= rng << 17;
    return rng;
}

void *malloc(size_t size)
{
    if (size == 0 || size > 512)
        return __libc_malloc(size);
    const int c = (int)((size + 15) / 16);
    void *p;
    pthread_mutex_lock(&mtx);
    if (!inited) {
        const char *s = getenv("VERIF_MALLOC_SEED");
        rng = 88172645463325252ULL ^ (s ? strtoull(s, NULL, 10) * 0x9E3779B97F4A7C15ULL : 0);
        if (rng == 0)
            rng = 1;
        inited = 1;
    }
    if (cnt[c] == 0) {
        for (int i = 0; i < POOL; i++)
            pool[c][i] = __libc_malloc((size_t)c * 16);
        for (int i = POOL - 1; i > 0; i--) {
            const int j = (int)(next_rand() % (unsigned)(i + 1));
            void *t = pool[c][i];
            pool[c][i] = pool[c][j];
            pool[c][j] = t;
        }
        cnt[c] = POOL;
    }
    p = pool[c][--cnt[c]];
    pthread_mutex_unlock(&mtx);
    return p;
}

void *calloc(size_t n, size_t s)
{
    if (s != 0 && n > (size_t)-1 / s)
        return NULL;
    const size_t total = n * s;
    if (total == 0 || total > 512)
        return __libc_calloc(n, s);
    void *p = malloc(total);
    if (p)
        memset(p, 0, total);
    return p;
}
