// C31 harness: replays the case space enumerated by spec/PathMatchMC.tla into the real PathMatch::match.
//
// usage: pathmatch_harness <patterns> <paths> <bases> <shards> <outprefix> [unix|windows]
//   patterns, paths, bases: text files, one string per line (an empty line is the empty string); the strings
//   are the ones TLC wrote (the check only renders the JSON character arrays as lines)
// For every pattern i (1-based, as in the TLC lists) and base b it writes one ndjson row to
// <outprefix>.<(i % shards)>.ndjson:
//   {"p":i,"b":b,"reg":[j...],"dir":[j...]}   the 1-based indices j of the paths for which
//   PathMatch::match(pattern, path, base, Filemode::regular / directory, syntax) returned true.
// Every case is additionally run through the member function PathMatch(patterns={pattern}, base, syntax)
// .match(path, mode); a difference between the two entry points is reported as "split":[[j,mode]...]
// (never expected; the judge treats a row with a non-empty split as a failure of its own).
// No verdict is computed here.
#include "pathmatch.h"

#include <cstdio>
#include <fstream>
#include <iostream>
#include <string>
#include <vector>

static std::vector<std::string> readLines(const char *fn)
{
    std::vector<std::string> res;
    std::ifstream f(fn);
    if (!f) {
        std::cerr << "cannot open " << fn << std::endl;
        std::exit(3);
    }
    std::string line;
    while (std::getline(f, line))
        res.push_back(line);
    return res;
}

int main(int argc, char **argv)
{
    if (argc < 6) {
        std::cerr << "usage: pathmatch_harness patterns paths bases shards outprefix [unix|windows]" << std::endl;
        return 3;
    }
    const std::vector<std::string> pats = readLines(argv[1]);
    const std::vector<std::string> paths = readLines(argv[2]);
    const std::vector<std::string> bases = readLines(argv[3]);
    const int shards = std::atoi(argv[4]);
    const std::string prefix = argv[5];
    PathMatch::Syntax syntax = PathMatch::Syntax::unix;
    if (argc > 6 && std::string(argv[6]) == "windows")
        syntax = PathMatch::Syntax::windows;

    std::vector<FILE *> out;
    for (int k = 0; k < shards; k++) {
        const std::string fn = prefix + "." + std::to_string(k) + ".ndjson";
        FILE *f = std::fopen(fn.c_str(), "w");
        if (!f) {
            std::cerr << "cannot write " << fn << std::endl;
            return 3;
        }
        out.push_back(f);
    }

    unsigned long long calls = 0;
    for (std::size_t i = 0; i < pats.size(); i++) {
        FILE *f = out[(i + 1) % shards];
        for (std::size_t b = 0; b < bases.size(); b++) {
            const PathMatch matcher({pats[i]}, bases[b], syntax);
            std::string reg, dir, split;
            for (std::size_t j = 0; j < paths.size(); j++) {
                for (int m = 0; m < 2; m++) {
                    const PathMatch::Filemode mode = m == 0 ? PathMatch::Filemode::regular : PathMatch::Filemode::directory;
                    const bool r1 = PathMatch::match(pats[i], paths[j], bases[b], mode, syntax);
                    const bool r2 = matcher.match(paths[j], mode);
                    calls += 2;
                    if (r1) {
                        std::string &s = m == 0 ? reg : dir;
                        if (!s.empty())
                            s += ',';
                        s += std::to_string(j + 1);
                    }
                    if (r1 != r2) {
                        if (!split.empty())
                            split += ',';
                        split += "[" + std::to_string(j + 1) + "," + std::to_string(m) + "]";
                    }
                }
            }
            std::fprintf(f, "{\"p\":%zu,\"b\":%zu,\"reg\":[%s],\"dir\":[%s],\"split\":[%s]}\n", i + 1, b + 1, reg.c_str(), dir.c_str(), split.c_str());
        }
    }
    for (FILE *f : out)
        std::fclose(f);
    std::cout << "calls " << calls << std::endl;
    return 0;
}
