// C32 unit binding: import a generated compile_commands.json through ImportProject::importCompileCommands
// (the function cppcheck --project=... uses) and print, for every entry it produced, what the file would be
// analysed with. One JSON object per line on stdout:
//   {"file":..., "defines":..., "undefs":[...], "incs":[...], "sys":[...], "std":...}
// first line: {"ok":true|false, "errors":[...]}
// No judgement here; the lines are turned into observations and judged by TLC (spec/CompileDb.tla).
//
// usage: compiledb_harness <compile_commands.json>
#include "filesettings.h"
#include "importproject.h"

#include <fstream>
#include <iostream>
#include <string>

#define PICOJSON_USE_INT64
#include "picojson.h"

namespace {
    struct Importer : ImportProject {
        using ImportProject::importCompileCommands;
    };

    std::string js(const std::string &s) {
        return picojson::value(s).serialize();
    }

    template<class C>
    std::string jsa(const C &c) {
        std::string r = "[";
        bool first = true;
        for (const std::string &s : c) {
            if (!first)
                r += ",";
            first = false;
            r += js(s);
        }
        return r + "]";
    }
}

int main(int argc, char **argv)
{
    if (argc < 2) {
        std::cerr << "usage: compiledb_harness compile_commands.json" << std::endl;
        return 2;
    }
    std::ifstream fin(argv[1]);
    if (!fin.is_open()) {
        std::cerr << "cannot open " << argv[1] << std::endl;
        return 2;
    }
    Importer project;
    const bool ok = project.importCompileCommands(fin);
    std::cout << "{\"ok\":" << (ok ? "true" : "false") << ",\"errors\":" << jsa(project.errors) << "}\n";
    for (const FileSettings &fs : project.fileSettings) {
        std::cout << "{\"file\":" << js(fs.filename())
                  << ",\"defines\":" << js(fs.defines)
                  << ",\"undefs\":" << jsa(fs.undefs)
                  << ",\"incs\":" << jsa(fs.includePaths)
                  << ",\"sys\":" << jsa(fs.systemIncludePaths)
                  << ",\"std\":" << js(fs.standard) << "}\n";
    }
    return 0;
}
