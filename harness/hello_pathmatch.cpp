#include "pathmatch.h"
#include <iostream>
int main(int argc, char** argv) {
    std::cout << PathMatch::match(argv[1], argv[2]) << std::endl;
    return 0;
}
