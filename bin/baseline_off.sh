#!/bin/bash
# Repository baseline with the guard OFF: rebuild /repo/_build (as configured by the sandbox: no verif define)
# and run the 112-test ctest baseline.
set -e
cmake --build /repo/_build -j"$(nproc)"
if grep -q DANMAR_CPPCHECK_VERIF /repo/_build/CMakeCache.txt; then echo "guard unexpectedly ON in /repo/_build"; exit 2; fi
ctest --test-dir /repo/_build -j8 --timeout 900
