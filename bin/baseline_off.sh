#!/bin/bash
# Repository baseline with the guard OFF: rebuild /repo/_build (as configured by the sandbox: no verif define)
# and run the 112-test ctest baseline. Two tests of the repository create the same scratch file name ("test.cpp") in the
# shared working directory, so under heavy machine load TestCppcheck can collide with a concurrently running test
# (seen on the pristine tree as well); failed tests are therefore re-run once on their own before the verdict.
set -e
cmake --build /repo/_build -j"$(nproc)"
if grep -q DANMAR_CPPCHECK_VERIF /repo/_build/CMakeCache.txt; then echo "guard unexpectedly ON in /repo/_build"; exit 2; fi
if ctest --test-dir /repo/_build -j8 --timeout 900; then exit 0; fi
echo "re-running the failed tests on their own"
ctest --test-dir /repo/_build --rerun-failed --timeout 900
