#!/bin/bash
# One-time setup after a fresh restore (offline): hooked build of /repo into /verif/.build and a TLC smoke test.
set -e
cd "$(dirname "$0")/.."
bin/build.sh cppcheck
# ThreadSanitizer build used by C16 (built on demand by the check as well; a failure here is not fatal for the other checks)
bin/build_tsan.sh || echo "warning: ThreadSanitizer build failed, C16 will report an infrastructure error"
java -cp /opt/veriftools/tla/tla2tools.jar:/opt/veriftools/tla/CommunityModules-deps.jar tlc2.TLC -h >/dev/null 2>&1 || true
echo "setup ok"
