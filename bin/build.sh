#!/bin/bash
# Incremental hooked build of /repo's current working tree into /verif/.build (guard ON).
# usage: build.sh [target...]   (default: cppcheck)
# env:   VERIF_REPO (default /repo), VERIF_BUILD (default /verif/.build)
set -u
REPO="${VERIF_REPO:-/repo}"
BUILD="${VERIF_BUILD:-/verif/.build}"
TARGETS="${*:-cppcheck}"
mkdir -p "$BUILD"
exec 9>"$BUILD/.lock"
flock 9
LOG="$BUILD/build.log"
if [ ! -f "$BUILD/build.ninja" ] || ! grep -q "CMAKE_HOME_DIRECTORY:INTERNAL=$REPO\$" "$BUILD/CMakeCache.txt" 2>/dev/null \
   || ! grep -q "DISABLE_DMAKE:BOOL=ON" "$BUILD/CMakeCache.txt" 2>/dev/null; then
    # (re)configure; object files are kept. DISABLE_DMAKE: the build must not rewrite /repo/Makefile
    rm -f "$BUILD/CMakeCache.txt"
    LAUNCH=""
    if command -v ccache >/dev/null 2>&1; then LAUNCH="-DCMAKE_CXX_COMPILER_LAUNCHER=ccache"; fi
    cmake -G Ninja -S "$REPO" -B "$BUILD" -DCMAKE_BUILD_TYPE=Release \
        "-DCMAKE_CXX_FLAGS=-O1 -g0 -DDANMAR_CPPCHECK_VERIF -Wno-error" \
        -DCMAKE_CXX_FLAGS_RELEASE="" \
        -DBUILD_TESTS=OFF -DUSE_MATCHCOMPILER=On -DBUILD_GUI=OFF -DDISABLE_DMAKE=ON $LAUNCH >"$LOG" 2>&1 || { echo "ERROR build failed (cmake), see $LOG"; tail -20 "$LOG"; exit 2; }
fi
# shellcheck disable=SC2086
ninja -C "$BUILD" $TARGETS >>"$LOG" 2>&1 || { echo "ERROR build failed (ninja), see $LOG"; tail -40 "$LOG"; exit 2; }
exit 0
