#!/usr/bin/env python3
"""Regenerates /verif/MANIFEST.json from the registry below (one entry per claimed property)."""
import json
import os
import subprocess

VERIF = os.path.dirname(os.path.dirname(os.path.abspath(__file__)))

def load_claimed():
    """Every checks/Cxx.py exports META = dict(cat, text, ref, note, technique)."""
    import importlib
    import sys
    sys.path.insert(0, os.path.join(VERIF, "lib"))
    sys.path.insert(0, os.path.join(VERIF, "checks"))
    res = {}
    enabled = set(open(os.path.join(VERIF, "checks", "ENABLED")).read().split())
    for fn in sorted(os.listdir(os.path.join(VERIF, "checks"))):
        if fn.startswith("C") and fn.endswith(".py") and fn[:-3] in enabled:
            mod = importlib.import_module(fn[:-3])
            if getattr(mod, "META", None) and not getattr(mod, "DISABLED", False):
                res[fn[:-3]] = mod.META
    return res


CLAIMED = load_claimed()

NOT_APPLICABLE = {
    "C13": "memory safety / hang-freedom of the analyzer's own code over all byte strings is outside what a TLA+ model and its conformance "
           "checks can decide (see DESIGN.md section 6); the fitting techniques (fuzzing with sanitizers) are not this study's family",
}


def main():
    props = [json.loads(l) for l in open(os.path.join(VERIF, "properties.jsonl"))]
    commits = subprocess.run(["git", "-C", "/repo", "log", "--format=%H %s", "e33b503..HEAD"], stdout=subprocess.PIPE, text=True).stdout
    hook_commits = [l.split()[0] for l in commits.splitlines() if "verif hook" in l]
    checks = []
    for p in props:
        pid = p["id"]
        if pid not in CLAIMED:
            continue
        c = CLAIMED[pid]
        checks.append({
            "property_id": pid,
            "quick_cmd": "bin/check %s quick" % pid,
            "thorough_cmd": "bin/check %s thorough" % pid,
            "evidence_file": "evidence/%s.json" % pid,
            "replay_cmd_template": "bin/check %s --replay {path}" % pid,
            "engine": "tlc",
            "level_claimed": {"category": c["cat"], "text": c["text"], "design_ref": c["ref"]},
            "level_note": c["note"],
            "technique": c["technique"],
        })
    na = []
    for p in props:
        pid = p["id"]
        if pid in CLAIMED:
            continue
        na.append({"property_id": pid, "reason": NOT_APPLICABLE.get(pid, "check not built yet in this round (planned, see DESIGN.md section 8); no claim is made")})
    m = {
        "version": 1,
        "setup_cmd": "bin/setup.sh",
        "hooks": {
            "guard": "DANMAR_CPPCHECK_VERIF",
            "enable": "bin/build.sh: cmake -G Ninja -S /repo -B /verif/.build -DCMAKE_CXX_FLAGS='-O1 -g0 -DDANMAR_CPPCHECK_VERIF' -DUSE_MATCHCOMPILER=On; ninja cppcheck (incremental, always from /repo's working tree)",
            "baseline_off_cmd": "bin/baseline_off.sh",
            "source_commits": hook_commits,
            "add_only": True,
        },
        "engines": [
            {"name": "tlc", "path": "/opt/veriftools/tla/tla2tools.jar", "serves_properties": sorted(CLAIMED),
             "kind_free_text": "TLA+ specifications under spec/ checked with TLC 1.8: exhaustive model checking, trace validation of the hooked implementation, TLC-generated cases and TLC-evaluated judgements"},
        ],
        "checks": checks,
        "notes": "All verdicts are computed by TLC from spec/*.tla; Python orchestrates. Known findings: known-findings.txt. Mutants used to show binding: hooks/mutants/. Seeded changes from independent sub-agents: seeded/.",
        "not_applicable": na,
    }
    with open(os.path.join(VERIF, "MANIFEST.json"), "w") as f:
        json.dump(m, f, indent=1)
        f.write("\n")
    print("MANIFEST.json: %d checks, %d not claimed" % (len(checks), len(na)))


if __name__ == "__main__":
    main()
