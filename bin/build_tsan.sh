#!/bin/bash
# ThreadSanitizer build (hooks ON) of the current working tree of the repository under test; used by C16 only.
# The tree is first copied into a private snapshot $TS/src (content comparison, changed files get a fresh mtime), so the
# build directory is independent of where the repository under test lives (bin/mutcheck uses scratch copies) and only
# files whose content changed are recompiled. On success the binary with its cfg/platforms/addons directories is copied to
# the directory given as $1, so that the caller does not depend on later rebuilds.
# env: VERIF_REPO (default /repo), VERIF_TSAN_DIR (default /verif/.build-tsan)
set -u
REPO="${VERIF_REPO:-/repo}"
TS="${VERIF_TSAN_DIR:-/verif/.build-tsan}"
OUT="${1:-}"
mkdir -p "$TS/src" "$TS/b"
exec 9>"$TS/.lock"
flock 9
LOG="$TS/build.log"
rsync -a --checksum --delete --exclude .git --exclude _build --itemize-changes "$REPO/" "$TS/src/" > "$TS/rsync.log" || { echo "ERROR tsan snapshot failed"; exit 2; }
if [ -f "$TS/b/build.ninja" ]; then   # (nothing is built yet on the first call: every file is new)
    grep -E '^>f' "$TS/rsync.log" | cut -c13- | (cd "$TS/src" && xargs -r -d '\n' touch -c --)
fi
if grep -qE '^>f.* tools/matchcompiler.py$' "$TS/rsync.log"; then rm -f "$TS"/b/lib/build/mc_*.cpp; fi
if [ ! -f "$TS/b/build.ninja" ]; then
    LAUNCH=""
    if command -v ccache >/dev/null 2>&1; then LAUNCH="-DCMAKE_CXX_COMPILER_LAUNCHER=ccache"; fi
    cmake -G Ninja -S "$TS/src" -B "$TS/b" -DCMAKE_BUILD_TYPE=Release -DCMAKE_CXX_COMPILER=clang++ -DCMAKE_C_COMPILER=clang \
        "-DCMAKE_CXX_FLAGS=-O1 -g -fsanitize=thread -fno-omit-frame-pointer -DDANMAR_CPPCHECK_VERIF -w" \
        "-DCMAKE_C_FLAGS=-O1 -g -fsanitize=thread" -DCMAKE_CXX_FLAGS_RELEASE="" -DCMAKE_C_FLAGS_RELEASE="" \
        "-DCMAKE_EXE_LINKER_FLAGS=-fsanitize=thread" \
        -DBUILD_TESTS=OFF -DUSE_MATCHCOMPILER=On -DBUILD_GUI=OFF -DDISABLE_DMAKE=ON $LAUNCH >"$LOG" 2>&1 || { echo "ERROR tsan build failed (cmake), see $LOG"; tail -20 "$LOG"; exit 2; }
fi
ninja -C "$TS/b" cppcheck >>"$LOG" 2>&1 || { echo "ERROR tsan build failed (ninja), see $LOG"; tail -40 "$LOG"; exit 2; }
if [ -n "$OUT" ]; then
    mkdir -p "$OUT"
    cp "$TS/b/bin/cppcheck" "$OUT/cppcheck" && rsync -a "$TS/b/bin/cfg" "$TS/b/bin/platforms" "$TS/b/bin/addons" "$OUT/" || { echo "ERROR tsan copy failed"; exit 2; }
fi
exit 0
