#!/bin/bash
# ThreadSanitizer build of /repo's current working tree (hooks ON) into /verif/.build-tsan; used by C16 only.
# usage: build_tsan.sh    env: VERIF_REPO, VERIF_BUILD_TSAN
set -u
REPO="${VERIF_REPO:-/repo}"
BUILD="${VERIF_BUILD_TSAN:-/verif/.build-tsan}"
mkdir -p "$BUILD"
exec 9>"$BUILD/.lock"
flock 9
LOG="$BUILD/build.log"
if [ ! -f "$BUILD/build.ninja" ] || ! grep -q "CMAKE_HOME_DIRECTORY:INTERNAL=$REPO\$" "$BUILD/CMakeCache.txt" 2>/dev/null; then
    rm -f "$BUILD/CMakeCache.txt"
    cmake -G Ninja -S "$REPO" -B "$BUILD" -DCMAKE_BUILD_TYPE=Release -DCMAKE_CXX_COMPILER=clang++ -DCMAKE_C_COMPILER=clang \
        "-DCMAKE_CXX_FLAGS=-O1 -g -fsanitize=thread -fno-omit-frame-pointer -DDANMAR_CPPCHECK_VERIF -Wno-error -w" \
        "-DCMAKE_C_FLAGS=-O1 -g -fsanitize=thread" -DCMAKE_CXX_FLAGS_RELEASE="" -DCMAKE_C_FLAGS_RELEASE="" \
        "-DCMAKE_EXE_LINKER_FLAGS=-fsanitize=thread" \
        -DBUILD_TESTS=OFF -DUSE_MATCHCOMPILER=On -DBUILD_GUI=OFF -DDISABLE_DMAKE=ON >"$LOG" 2>&1 || { echo "ERROR tsan build failed (cmake), see $LOG"; tail -20 "$LOG"; exit 2; }
fi
ninja -C "$BUILD" cppcheck >>"$LOG" 2>&1 || { echo "ERROR tsan build failed (ninja), see $LOG"; tail -40 "$LOG"; exit 2; }
exit 0
