"""C35 - clang-AST import yields a consistent program model.

Inputs: the programs of spec/Scopes.tla (C08's generator: TLC enumerates the behaviours of bounded profiles and samples
deeper ones), MiniC programs (drivers/minic_gen.py: functions, loops, pointers, arrays, switch, calls; as C and as C++)
and C14's generated expression / statement programs (struct members).  Every translation unit is analysed with
`cppcheck --clang=clang-14 --dump`:
  * never crashes: every run must end normally (a signal or a timeout is a violation);
  * the text the importer is given: harness/clangtee stands in for the clang executable and records the clang process that
    cppcheck really started (argv, where fd 1 / fd 2 lead, every write(2) via strace); TLC validates the writes of every run
    as a behaviour of spec/ClangStream.tla (ClangStreamTrace.tla) and evaluates Intact (the AST dump reaches the importer
    undisturbed by clang's stderr) in every state; the design is checked exhaustively for small constants on every run;
  * when the run completes without an internal error the dump must satisfy the invariants of spec/DumpInv.tla
    (C14's machinery: drivers/dump2nd.py projections, TLC evaluates DumpInv.tla);
  * the variable / function links of the imported model must agree with clang's own referencedDecl: TLC evaluates
    spec/ScopesJudge.tla in mode "refs" (expected binding = what clang's JSON AST resolved; clang's AST is also the
    importer's input, so agreement is exact).
"""
import concurrent.futures
import json
import os
import random
import shutil
import sys
import time

import vlib

sys.path.insert(0, os.path.join(vlib.VERIF, "drivers"))
import clangrefs  # noqa: E402
import clangstream  # noqa: E402
import dump2nd  # noqa: E402
import minic_gen  # noqa: E402
import render as minic_render  # noqa: E402
import scopes_obs  # noqa: E402
import scopes_render  # noqa: E402

import C08  # noqa: E402
import C14  # noqa: E402

PID = "C35"
META = {
    "cat": "exploration",
    "text": "Programs generated from Scopes.tla by TLC (namespaces, classes, member functions, blocks, for-init declarations, shadowing, "
            "qualified names, overloads), seeded MiniC programs (loops, pointers, arrays, switch, helper calls; C and C++) and C14's expression / "
            "struct programs are analysed with cppcheck --clang=clang-14 --dump. Every run must terminate normally (signal / timeout = "
            "violation); the clang process cppcheck starts is recorded (argv, descriptors, every write; harness/clangtee + strace) and "
            "validated by TLC as a behaviour of ClangStream.tla whose invariant Intact says that the AST dump reaches the importer "
            "undisturbed by clang's stderr (checked exhaustively on the design for small buffer sizes / dump lengths as well); every dump of a run without internal error is judged by TLC against all DumpInv.tla invariants (ids, references, "
            "links, AST forest, scope tree, variable/varId agreement); and TLC (ScopesJudge.tla, mode refs) checks for every name token that "
            "the imported variable / function link leads to the declaration clang's own AST (the importer's input) resolves it to and that "
            "tokens of different declarations never share a varId. Crash-freedom over all clang-accepted programs can only be sampled; the "
            "consistency part is decided per dump by the specification.",
    "ref": "DESIGN.md section 4 C35",
    "note": "Trusted: clang-14 (also the importer's input), drivers/clangrefs.py, dump2nd.py, scopes_obs.py (tokens of the imported model are "
            "matched to source tokens by line, spelling and order on the line because the importer places tokens at clang's range starts; "
            "lines where the counts differ are left unobserved and counted), TLC. Lambda bodies are not imported by cppcheck (?LambdaExpr?) "
            "and therefore not observed.",
    "technique": "TLC-generated programs (Scopes.tla) + seeded program generators; TLA+ invariants (DumpInv.tla) and link agreement "
                 "(ScopesJudge.tla) evaluated by TLC on state recorded from the real binary; trace validation of the clang child "
                 "process against ClangStream.tla",
}

NPROC = 6
BATCH = 16               # Scopes programs per translation unit (keeps a dump below DumpInv's token cap)
CLANG = "clang-14"

PROFILES_QUICK = {
    "blocks":   C08.prof(K=4, depth=3, loop=True, init=True, nv=2),
    "class":    C08.prof(K=5, depth=2, cls=True, late=True, nv=2, maxpar=1),     # K=5: a member used before its declaration + one more declaration
    "ns":       C08.prof(K=4, depth=3, ns=True, qual=True, nv=2),
    "overload": C08.prof(K=4, depth=2, ns=True, ovl=True, nv=1, maxpar=0, sigs=C08.SIGS, argt=C08.ARGT),
}
PROFILES_THOROUGH = {
    "blocks":   C08.prof(K=5, depth=3, loop=True, init=True, nv=2),
    "class":    C08.prof(K=5, depth=3, cls=True, late=True, nv=2, init=True, loop=True),
    "ns":       C08.prof(K=5, depth=3, ns=True, qual=True, nv=2, init=True),
    "overload": C08.prof(K=5, depth=2, ns=True, ovl=True, nv=1, maxpar=0, sigs=C08.SIGS, argt=C08.ARGT),
    "lambda":   C08.prof(K=4, depth=3, lam=True, init=True, nv=1),
}


def check_clang():
    """--clang needs the clang executable; everything is local (no network)."""
    rc, out, err = vlib.run([CLANG, "--version"], timeout=60)
    if rc != 0:
        raise vlib.InfraError("%s is not runnable here (%s): cppcheck --clang cannot be exercised" % (CLANG, (out + err)[:200]))


STRACE = {"ok": None}


def check_strace():
    """The write trace of the clang process needs strace; where it cannot trace, the runs are made without it (recorded)."""
    if STRACE["ok"] is None and os.environ.get("VERIF_C35_NOSTRACE"):        # self-test of the fallback
        STRACE["ok"] = False
    if STRACE["ok"] is None:
        rc, out, err = vlib.run(["strace", "-qq", "-o", "/dev/null", "-e", "trace=write", "true"], timeout=60)
        STRACE["ok"] = rc == 0
    return STRACE["ok"]


def probe_unit(lang):
    """A fixed unit that clang warns about and whose AST dump needs several flushes of clang's stdout buffer: the stream
    observation is never vacuous (a merged run with diagnostics and more than one write to fd 1)."""
    lines = ["int sp_g;"]
    for k in range(24):
        lines += ["int sp_f%d(unsigned char a, int b)" % k, "{", "    int x = b + %d;" % k, "    if (a <= 1000)", "        x = x * b - a;",
                  "    while (x > %d) { x = x / 2; sp_g = sp_g + x; }" % (k + 3), "    return x;", "}"]
    return {"kind": "generic", "lang": lang, "fname": "sp.c" if lang == "c" else "sp.cpp", "text": "\n".join(lines) + "\n",
            "label": "stream-probe:%s" % lang}


# ------------------------------------------------------------------------------------------------ inputs
def scopes_units(tier, seed):
    """Translation units made of Scopes.tla programs -> [{"kind": "scopes", "lang", "fname", "text", "progs": [(tag, row)], "table"}]"""
    progs, gstats, gtl = C08.generate(tier, seed, profiles=PROFILES_QUICK if tier == "quick" else PROFILES_THOROUGH,
                                      cap=44 if tier == "quick" else 500, nsim=8 if tier == "quick" else 200)
    units = []
    for lang in ("c++", "c"):
        sel = [p for p in progs if lang == "c++" or p["c"]]
        for k in range(0, len(sel), BATCH):
            part = [(str(k + j), row) for j, row in enumerate(sel[k:k + BATCH])]
            text, table = scopes_render.render_unit([(tag, row["prog"]) for tag, row in part], lang, 0)
            units.append({"kind": "scopes", "lang": lang, "fname": "u.c" if lang == "c" else "u.cpp", "text": text, "progs": part, "table": table,
                          "label": "scopes:%s:%d" % (lang, k)})
    return units, gstats, gtl, len(progs)


def generic_units(tier, seed):
    """MiniC programs (each as C and as C++) and C14's generated programs."""
    units = [probe_unit("c"), probe_unit("c++")]
    n = 4 if tier == "quick" else 40
    for profile in ("mix", "ptr", "loop", "cond"):
        progs = minic_gen.generate(seed * 101 + len(profile), "p32", profile, n, "m%s" % profile[0])
        for k in range(0, len(progs), 2):
            text, _ = minic_render.render_tu(progs[k:k + 2], "p32")
            for lang in ("c", "c++"):
                units.append({"kind": "generic", "lang": lang, "fname": "m.c" if lang == "c" else "m.cpp", "text": text,
                              "label": "minic:%s:%s:%d" % (profile, lang, k)})
    for inp in C14.generated_programs(tier, seed)[: (2 if tier == "quick" else 60)]:
        lang = "c++" if inp["main"].endswith(".cpp") else "c"
        units.append({"kind": "generic", "lang": lang, "fname": inp["main"], "text": inp["files"][inp["main"]], "label": "c14gen:" + inp["main"]})
    return units


# ------------------------------------------------------------------------------------------------ one run
def cppcheck_clang(work, fname, builddir, label=""):
    """-> (status, detail, dump path, stream). status: ok | internal-error | nodump | crash | timeout; stream: the recorded
    clang process (clangstream.read_run) or None"""
    st, detail, dump, prefix = cppcheck_clang1(work, fname, builddir)
    stream = clangstream.read_run(prefix, label) if st not in ("timeout",) else None
    return st, detail, dump, stream


def cppcheck_clang1(work, fname, builddir):
    prefix = os.path.join(work, "tee.b" if builddir else "tee.a")
    for ext in (".argv", ".fds", ".strace"):
        if os.path.exists(prefix + ext):
            os.unlink(prefix + ext)
    args = ["--clang=" + clangstream.TEE, "--dump", "-q"]
    if builddir:
        bd = os.path.join(work, "bd")
        shutil.rmtree(bd, ignore_errors=True)
        os.mkdir(bd)
        args.append("--cppcheck-build-dir=bd")
    dump = os.path.join(work, fname + ".dump")
    if os.path.exists(dump):
        os.unlink(dump)
    # language by file extension, exactly what a user of --clang gets
    rc, out, err = C08.run_cppcheck_retry(args + [fname], cwd=work, timeout=300, env={"CLANGTEE_LOG": prefix})
    if rc is None:
        return "timeout", "timeout", dump, prefix
    if rc < 0 or rc > 1:
        return "crash", ("signal%d" % -rc) if rc < 0 else ("exit%d" % rc), dump, prefix
    if "nternal" in err or "syntaxError" in err:
        return "internal-error", err[:300], dump, prefix
    if not os.path.exists(dump):
        return "nodump", err[:300], dump, prefix
    return "ok", "", dump, prefix


def run_unit(unit):
    """Runs one translation unit: clang (reference), cppcheck --clang --dump (run a) and - when clang prints diagnostics for
    the unit - the same with a build directory (run b: diagnostics and AST arrive separately).  The consistency of the
    imported model is observed on run b if it was made, on run a otherwise."""
    work = vlib.mktmp("c35")
    res = {"label": unit["label"], "kind": unit["kind"], "clang": "ok", "diag": False, "a": "", "asig": "", "b": "", "bsig": "", "detail": "",
           "digest": vlib.digest(unit["text"]), "link_rows": [], "dump_rows": [], "unobserved": 0, "tokens": 0, "consistency": "",
           "streams": []}
    try:
        path = os.path.join(work, unit["fname"])
        with open(path, "w") as f:
            f.write(unit["text"])
        cl = clangrefs.refs(path, unit["lang"], timeout=300)
        if not cl["ok"]:
            res["clang"] = "rejects"
            res["detail"] = cl["err"][:400]
            return res
        res["diag"] = bool(cl["diag"].strip())
        res["a"], res["asig"], dump, stream = cppcheck_clang(work, unit["fname"], False, unit["label"] + "|plain")
        if stream:
            res["streams"].append(stream)
        res["detail"] = res["asig"]
        used = "a"
        if res["diag"]:
            if res["a"] == "ok":            # keep nothing of run a but how it ended
                os.unlink(dump)
            res["b"], res["bsig"], dump, stream = cppcheck_clang(work, unit["fname"], True, unit["label"] + "|builddir")
            if stream:
                res["streams"].append(stream)
            used = "b"
        res["consistency"] = res[used]
        if res[used] != "ok":
            return res
        res["dump_rows"] = C14.project(dump, unit["label"], 10 ** 9)
        try:
            cfgs = dump2nd.dump_to_records(dump)
        except Exception:  # noqa: BLE001  (not well-formed: DumpInv reports it from dump_rows)
            cfgs = []
        if len(cfgs) != 1:
            return res
        if unit["kind"] == "scopes":
            for tag, row in unit["progs"]:
                toks, un = scopes_obs.observe_by_line(unit["table"][tag], C08.names_of(row["prog"], tag), cfgs[0], cl)
                res["unobserved"] += un
                res["tokens"] += len(toks)
                res["link_rows"].append({"name": "%s:%s:%s" % (row["profile"], unit["lang"], row["key"]), "prog": row["prog"], "mut": False, "toks": toks})
        else:
            prog, toks0, names = scopes_obs.flat_program(cl)
            toks, un = scopes_obs.observe_by_line(toks0, names, cfgs[0], cl)
            res["unobserved"] += un
            res["tokens"] += len(toks)
            res["link_rows"].append({"name": unit["label"], "prog": prog, "mut": False, "toks": toks})
        return res
    finally:
        shutil.rmtree(work, ignore_errors=True)


def run_all(units):
    vlib.tmproot()
    if not check_strace():  # before the pool is forked: the workers inherit the answer
        os.environ["CLANGTEE_NOSTRACE"] = "1"
    with concurrent.futures.ProcessPoolExecutor(NPROC) as ex:
        return list(ex.map(run_unit, units))


def isolate(unit):
    """A batch of Scopes programs crashed / hung the importer: find the programs that do it alone."""
    singles = []
    for tag, row in unit["progs"]:
        text, table = scopes_render.render_unit([(tag, row["prog"])], unit["lang"], 0)
        singles.append(dict(unit, text=text, table=table, progs=[(tag, row)], label="%s:%s:%s" % (row["profile"], unit["lang"], row["key"])))
    return singles


def judge_runs(results):
    """TLC (ClangRun.tla): which runs violate "never crashes", and the class of each."""
    rows = [{k: r[k] for k in ("label", "diag", "a", "asig", "b", "bsig", "digest")} for r in results if r["clang"] == "ok"]
    work = vlib.mktmp("c35runs")
    inp = os.path.join(work, "runs.ndjson")
    out = os.path.join(work, "bad.ndjson")
    vlib.write_ndjson(inp, rows)
    r = vlib.tlc("ClangRun", "ClangRun.cfg", env={"OBS": inp, "OUT": out}, workers=1, timeout=900, xmx="2g")
    if not r.ok or '"RUNS", %d,' % len(rows) not in r.out:
        raise vlib.InfraError("ClangRun.tla failed rc=%s\n%s" % (r.rc, r.out[-2000:]))
    return vlib.read_ndjson(out)


def judge_dumps(rows):
    """DumpInv.tla on every dump (C14's machinery: batches by token count, several TLC processes)."""
    jd = C14.Judge()
    for n, row in enumerate(rows):
        jd.add(row)
        if len(rows) < 200 and n % 24 == 23:       # few dumps: still use more than one TLC process
            jd.flush()
    return jd.result()


def abnormal(r):
    return r["a"] in ("crash", "timeout") or r["b"] in ("crash", "timeout")


UNIT_KEYS = ("kind", "lang", "fname", "text", "label")


# ------------------------------------------------------------------------------------------------ main
def main(tier, seed, replay=None):
    t0 = time.time()
    vlib.build()
    check_clang()
    if replay:
        return do_replay(replay)
    sunits, gstats, gtl, nprogs = scopes_units(tier, seed)
    gunits = generic_units(tier, seed)
    units = sunits + gunits
    by_label = {u["label"]: u for u in units}
    t_gen = time.time() - t0
    first = run_all(units)
    # Abnormal ends are re-run before they are reported (a batch of Scopes programs program by program, which also
    # names the program); the verdict is taken from the re-run.
    again = []
    results = []
    for r in first:
        if abnormal(r):
            u = by_label[r["label"]]
            again += isolate(u) if u["kind"] == "scopes" and len(u["progs"]) > 1 else [u]
        else:
            results.append(r)
    flaky = 0
    if again:
        for u in again:
            by_label[u["label"]] = u
        second = run_all(again)
        flaky = sum(1 for r in second if not abnormal(r))
        results += second
    t_run = time.time() - t0 - t_gen

    status = {}
    for r in results:
        for k in ("clang:" + r["clang"], "a:" + r["a"], "b:" + r["b"]):
            if not k.endswith(":"):
                status[k] = status.get(k, 0) + 1
    ok = [r for r in results if r["consistency"] == "ok"]
    dump_rows = [row for r in ok for row in r["dump_rows"]]
    link_rows = [row for r in ok for row in r["link_rows"]]
    streams = [st for r in results for st in r["streams"]]
    with concurrent.futures.ThreadPoolExecutor(5) as ex:
        f_runs = ex.submit(judge_runs, results)
        f_dump = ex.submit(judge_dumps, dump_rows)
        f_link = ex.submit(C08.tlc_judge, link_rows, "refs")
        f_stream = ex.submit(clangstream.validate, streams)
        f_design = ex.submit(clangstream.design)
        f_config = ex.submit(clangstream.configs, streams)
        bad_runs = f_runs.result()
        bad_dump, nbatches = f_dump.result()
        bad_link = f_link.result()
        bad_stream, stream_stats = f_stream.result()
        design_stats = f_design.result()
        bad_config, config_stats = f_config.result()
        bad_stream = bad_config + bad_stream

    violations = []
    for b in bad_stream:
        u = by_label[b["label"].rsplit("|", 1)[0]]
        violations.append({"key": b["key"], "what": "%s: %s\n%s" % (b["label"], b["what"], u["text"][:800]),
                           "replay": vlib.save_replay(PID, "stream-" + vlib.digest([b["key"]]),
                                                      {"kind": "stream", "unit": {k: u[k] for k in UNIT_KEYS}, "verdict": b})})
    run_classes = {}
    for b in bad_runs:
        u = by_label[b["label"]]
        c = run_classes.setdefault(b["key"], {"n": 0})
        c["n"] += 1
        if c["n"] == 1:
            c["replay"] = vlib.save_replay(PID, "run-" + vlib.digest([b["key"]]), {"kind": "run", "unit": {k: u[k] for k in UNIT_KEYS}, "verdict": b})
            c["what"] = "%s: %s\n%s" % (b["label"], b["what"], u["text"][:1500])
    for key, c in sorted(run_classes.items()):
        violations.append({"key": key, "what": "%d units; e.g. %s" % (c["n"], c["what"]), "replay": c["replay"]})
    unit_of_row = {}
    for r in results:
        for row in r["dump_rows"]:
            unit_of_row[row["name"]] = r["label"]
        for row in r["link_rows"]:
            unit_of_row[row["name"]] = r["label"]
    inv_classes = {}
    for name, v in sorted(bad_dump.items()):
        u = by_label[unit_of_row[name]]
        key = "dumpinv:" + "+".join(v["bad"])
        c = inv_classes.setdefault(key, {"n": 0})
        c["n"] += 1
        if c["n"] == 1:
            c["replay"] = vlib.save_replay(PID, "dumpinv-" + vlib.digest([key]), {"kind": "dumpinv", "unit": {k: u[k] for k in UNIT_KEYS}, "verdict": v})
            c["what"] = "%s: %s | %s\n%s" % (name, ",".join(v["bad"]), " | ".join(v["why"])[:500], u["text"][:1200])
    for key, c in sorted(inv_classes.items()):
        violations.append({"key": key, "what": "%d dumps; e.g. %s" % (c["n"], c["what"]), "replay": c["replay"]})
    link_by_name = {row["name"]: row for row in link_rows}
    link_classes = {}
    for b in bad_link:
        if b["verdict"] != "violation":
            continue
        row = link_by_name[b["name"]]
        u = by_label[unit_of_row[b["name"]]]
        for it in b["items"]:
            c = link_classes.setdefault(it["key"], {"n": 0})
            c["n"] += 1
            if c["n"] == 1:
                src = C08.program_text(row["prog"], u["lang"], 0) if u["kind"] == "scopes" else u["text"]
                payload = {"kind": "link", "item": it, "name": b["name"], "lang": u["lang"]}
                if u["kind"] == "scopes":
                    payload["prog"] = row["prog"]
                else:
                    payload["unit"] = {k: u[k] for k in UNIT_KEYS}
                c["replay"] = vlib.save_replay(PID, "link-" + vlib.digest([it["key"]]), payload)
                c["what"] = "%s | e.g. %s: %s\n%s" % (it["kind"], b["name"], it["what"], src[:1500])
    for key, c in sorted(link_classes.items()):
        violations.append({"key": key, "what": "%d programs; %s" % (c["n"], c["what"]), "replay": c["replay"]})
    violations = C08.drop_assumed(violations)
    rc, new, known = vlib.verdict(PID, violations)

    tokens = sum(r["tokens"] for r in ok)
    unobserved = sum(r["unobserved"] for r in ok)
    linked = sum(1 for row in link_rows for t in row["toks"] if any(o["var"] or o["fun"] for o in t["cv"]))
    nontrivial = sum(1 for row in link_rows if sum(1 for t in row["toks"] if any(o["var"] or o["fun"] for o in t["cv"])) >= 2)
    samples = [{"label": u["label"], "text": u["text"][:500]} for u in (sunits[:1] + gunits[:1] + gunits[-1:])]
    rejected = [r for r in results if r["clang"] != "ok"]
    cov = {
        "evaluations": len(link_rows), "distinct_nontrivial": nontrivial,
        "rule": "one evaluation = one program (a Scopes.tla program inside a translation unit, or one MiniC / C14 unit) imported with --clang and "
                "judged by TLC for link agreement with clang's referencedDecl; non-trivial = at least two name tokens of the program carry a "
                "variable / function link in the imported model; every dump of a completed run is additionally judged against DumpInv.tla and "
                "every run against ClangRun.tla (normal termination)",
        "samples": samples, "exhaustive": False,
        "units": len(results), "cppcheck_runs": sum(1 for r in results if r["a"]) + sum(1 for r in results if r["b"]), "run_status": status,
        "units_with_clang_diagnostics": sum(1 for r in results if r["diag"]), "units_rejected_by_clang": len(rejected),
        "abnormal_first_runs_not_reproduced": flaky,
        "scopes_programs": nprogs, "scopes_profiles": gstats, "tlc_generation": gtl, "generic_units": len(gunits),
        "dumps_judged_by_DumpInv": len(dump_rows), "dumpinv_batches": nbatches, "dumpinv_violating": len(bad_dump),
        "name_tokens": tokens, "name_tokens_unobserved": unobserved, "name_tokens_linked": linked,
        "link_violating_programs": sum(1 for b in bad_link if b["verdict"] == "violation"), "link_classes": len(link_classes),
        "abnormal_runs": len(bad_runs), "abnormal_run_classes": len(run_classes), "known_findings": known,
        "stream_trace": "strace" if STRACE["ok"] else "unavailable: strace cannot trace processes here; only argv and descriptors of the clang processes were recorded",
        "stream_violating_runs": len(bad_stream), "ClangStream_design_distinct_states": design_stats,
        "clang_start_configurations_checked_on_the_design": config_stats,
        "wall_generate_s": round(t_gen, 1), "wall_run_s": round(t_run, 1),
    }
    cov.update(stream_stats)
    vlib.write_evidence(PID, tier, seed, "exploration", cov, time.time() - t0, violations=new,
                        assumptions=["clang-14's JSON AST and its text AST (the importer's input) describe the same resolution",
                                     "tokens of the imported model are matched to source tokens by line, spelling and order on the line",
                                     "runs that end with an internal error are not judged for consistency (the property exempts them); they are counted",
                                     "for units with clang diagnostics the consistency is observed on the run with a build directory",
                                     "strace reports every write(2) of the clang process in order; harness/clangtee passes arguments, "
                                     "descriptors and exit status through unchanged"])
    print("C35 %s: %d units %s; %d Scopes programs + %d generic units; %d dumps judged by DumpInv (%d violating), %d programs judged for links "
          "(%d name tokens, %d linked, %d unobserved), %d link classes, %d abnormal runs in %d classes (%d known); "
          "%d clang processes validated against ClangStream.tla (%d events, %d merged with diagnostics and several flushes, %d violating)"
          % (tier, len(results), status, nprogs, len(gunits), len(dump_rows), len(bad_dump), len(link_rows), tokens, linked, unobserved,
             len(link_classes), len(bad_runs), len(run_classes), known, stream_stats["stream_runs"], stream_stats["stream_events"],
             stream_stats["stream_runs_merged_with_fd2_writes_and_several_fd1_writes"], len(bad_stream)))
    srej = [r for r in rejected if r["kind"] == "scopes"]
    if srej:
        raise vlib.InfraError("clang rejects %d translation units of Scopes.tla programs: %s" % (len(srej), srej[0]["detail"]))
    return rc


def do_replay(path):
    payload = json.load(open(path))
    if "unit" in payload:
        u = dict(payload["unit"])
    else:
        row = {"prog": payload["prog"], "profile": "replay", "key": vlib.digest(payload["prog"])}
        text, table = scopes_render.render_unit([("0", row["prog"])], payload["lang"], 0)
        u = {"kind": "scopes", "lang": payload["lang"], "fname": "u.c" if payload["lang"] == "c" else "u.cpp", "text": text, "progs": [("0", row)],
             "table": table, "label": "replay"}
    print(u["text"])
    if not check_strace():
        os.environ["CLANGTEE_NOSTRACE"] = "1"
    r = run_unit(u)
    print("clang: %s; run a: %s %s; run b: %s %s" % (r["clang"], r["a"], r["asig"], r["b"], r["bsig"]))
    if r["clang"] != "ok":
        return 0
    bad_runs = judge_runs([r])
    bad_stream, _ = clangstream.validate(r["streams"])
    bad_config, _ = clangstream.configs(r["streams"])
    bad_runs += bad_config + bad_stream
    for b in bad_runs:
        print(json.dumps(b))
    bad_dump, bad_link = {}, []
    if r["consistency"] == "ok":
        bad_dump, _ = C14.judge(r["dump_rows"])
        bad_link = [b for b in C08.tlc_judge(r["link_rows"], mode="refs") if b["verdict"] == "violation"]
    for name, v in bad_dump.items():
        print("DumpInv %s: %s" % (name, json.dumps(v)[:1000]))
    for b in bad_link:
        print(json.dumps(b, indent=1)[:2000])
    if bad_runs or bad_dump or bad_link:
        print("VIOLATION property=%s replay=%s" % (PID, path))
        return 1
    print("replay: no violation reproduced")
    return 0
