"""C36 - the HTML report lists every reported finding.

spec/HtmlReport.tla: input = a results file (XML version 2: findings over the character classes a well-formed XML file can
carry, locations in readable / unreadable / missing source files, several findings on one line, findings without location,
several locations, lines outside the file, inconclusive findings) and the expected report: one index row per finding with
file, line, id, severity, HTML-escaped message; one page per readable file whose menu / annotations are the locations of the
findings of that file; per-id summary and per-severity statistics.

  gen    TLC enumerates the string pools and walks through the case space (<= 5 findings per results file, seeded)
  run    the check writes the XML with a serializer of its own (xml.sax.saxutils), creates the source tree and runs
         htmlreport/cppcheck-htmlreport from vlib.REPO; drivers/htmlreport_conv.py cuts the pages along the script's fixed
         skeleton and gives every piece as raw source + the text html.parser makes of it
  judge  TLC compares bags of rows / menu entries / annotations / counts with the expectation and classifies deviations
"""
import concurrent.futures
import json
import os
import queue
import re
import shutil
import subprocess
import sys
import threading
import time

import vlib

sys.path.insert(0, os.path.join(vlib.VERIF, "drivers"))
import report_conv as rc  # noqa: E402
import htmlreport_conv as hc  # noqa: E402

PID = "C36"
META = {
    "cat": "exploration",
    "text": "HtmlReport.tla states what cppcheck-htmlreport must produce for a results file and a source tree: exactly one index row per "
            "finding (primary file, line, id, severity, message, each a proper HTML escaping of the text), one page per readable source "
            "file listing and annotating the locations of that file's findings, findings of unreadable / missing files still in the "
            "index, per-id summary counts and per-severity statistics. TLC enumerates strings over the character classes (plain, space, "
            "< > & \" ' \\ { } %, tab / newline / cr as character references, 0x7f, a UTF-8 pair, markup look-alikes) for message, id, "
            "file name and location info and the result-set shapes (same line, no location, several locations / files, lines outside "
            "the file, unreadable and missing files, inconclusive), the real script is run on every case and TLC judges bags of rows, "
            "menu entries, annotations and counts. Exploration is the right level for a report generator: per-finding rendering plus "
            "grouping, whose defects show on small result sets.",
    "ref": "DESIGN.md section 4 C36",
    "note": "The pages are cut along the fixed skeleton the script writes (regular expressions in drivers/htmlreport_conv.py); html.parser is "
            "the arbiter for the text of every piece and for the number of issue rows a browser sees; the specification additionally "
            "requires the raw source of a piece to be a proper escaping of its text (no raw <, every & a reference). Only XML version 2, "
            "local --source-dir, no git blame, no --checkers-report-file. Control characters other than tab/newline/cr and invalid UTF-8 "
            "cannot occur in a well-formed results file and are outside the case space. The link targets and the page title are not "
            "judged; the statistics are judged over the findings that have a location. Trusted: TLC, html.parser, pygments, the cutting.",
    "technique": "TLA+ function spec of the report; result sets enumerated by TLC, the real script run on each, TLC judges Decode(report) = Expect(case); laws of the spec checked by TLC",
}

WORKERS = 6
TLC_PAR = 3
CHUNK = 60
SRC_LINES = ["int f(int x)", "{", "  return x / 0;", "}"]


def strtab_file():
    p = os.path.join(vlib.mktmp("c36str"), "strtab.json")
    with open(p, "w") as f:
        json.dump(rc.strtab(os.path.join(vlib.SPEC, "HtmlReport.tla")), f)
    return p


def tlc_env(mode, strtab, **kw):
    env = {"JAVA_TOOL_OPTIONS": "-Xss512m", "MODE": mode, "STRTAB": strtab, "OUT": "/dev/null", "OBS": "/dev/null", "NCASES": "0", "SEED": "1", "DEEP": "0"}
    env.update(kw)
    return env


def tlc_gen(strtab, ncases, seed, deep):
    out = os.path.join(vlib.mktmp("c36gen"), "cases.ndjson")
    r = vlib.tlc("HtmlReport", "HtmlReport.cfg", env=tlc_env("gen", strtab, OUT=out, NCASES=str(ncases), SEED=str(seed), DEEP="1" if deep else "0"),
                 timeout=2400, xmx="6g")
    if r.violation:
        raise vlib.InfraError("the laws of HtmlReport.tla do not hold (specification error)\n" + r.out[-2000:])
    if not r.ok:
        raise vlib.InfraError("HtmlReport.tla gen failed\n" + r.out[-3000:])
    cases = vlib.read_ndjson(out)
    if len(cases) != ncases:
        raise vlib.InfraError("HtmlReport.tla gen wrote %d of %d cases" % (len(cases), ncases))
    pools = {}
    m = re.search(r'"TEXTS",\s*(\d+),\s*"IDS",\s*(\d+),\s*"FILES",\s*(\d+)', r.out)
    if m:
        pools = dict(zip(("texts", "ids", "file_names"), map(int, m.groups())))
    return cases, pools


def tlc_judge_chunk(strtab, observations):
    work = vlib.mktmp("c36judge")
    inp = os.path.join(work, "obs.ndjson")
    out = os.path.join(work, "verdicts.ndjson")
    vlib.write_ndjson(inp, observations)
    r = vlib.tlc("HtmlReport", "HtmlReport.cfg", env=tlc_env("judge", strtab, OBS=inp, OUT=out), timeout=2400, xmx="3g")
    if not r.ok or '"JUDGED"' not in r.out:
        raise vlib.InfraError("HtmlReport.tla judge failed\n" + r.out[-4000:])
    v = vlib.read_ndjson(out)
    if len(v) != len(observations):
        raise vlib.InfraError("HtmlReport.tla judge wrote %d of %d verdicts" % (len(v), len(observations)))
    shutil.rmtree(work, ignore_errors=True)
    return v


def tlc_judge(strtab, observations):
    chunks = [observations[i:i + CHUNK] for i in range(0, len(observations), CHUNK)]
    verdicts = []
    with concurrent.futures.ThreadPoolExecutor(max_workers=TLC_PAR) as ex:
        for v in ex.map(lambda ch: tlc_judge_chunk(strtab, ch), chunks):
            verdicts += v
    return verdicts


class Worker:
    """one interpreter that keeps pygments loaded and executes the script file once per job (drivers/htmlreport_worker.py)"""

    def __init__(self):
        self.p = subprocess.Popen([sys.executable, os.path.join(vlib.VERIF, "drivers", "htmlreport_worker.py")], stdin=subprocess.PIPE,
                                  stdout=subprocess.PIPE, text=True)

    def run(self, script, cwd, argv, timeout=300):
        self.p.stdin.write(json.dumps({"script": script, "cwd": cwd, "argv": argv}) + "\n")
        self.p.stdin.flush()
        res = []
        t = threading.Thread(target=lambda: res.append(self.p.stdout.readline()), daemon=True)
        t.start()
        t.join(timeout)
        if not res or not res[0]:
            self.p.kill()
            raise vlib.InfraError("cppcheck-htmlreport worker gave no answer (timeout or crash)")
        a = json.loads(res[0])
        return a["rc"], a["err"]

    def close(self):
        try:
            self.p.stdin.close()
            self.p.wait(timeout=10)
        except Exception:
            self.p.kill()


_workers = queue.Queue()


def run_case(case):
    root = vlib.mktmp("c36")
    try:
        src = os.path.join(root, "src")
        os.mkdir(src)
        for f in case["files"]:
            name = os.path.join(os.fsencode(src), rc.untok(f["name"]))
            if f["state"] == "readable":
                with open(name, "wb") as fh:
                    fh.write(("\n".join(SRC_LINES[:f["nlines"]]) + "\n").encode())
            elif f["state"] == "unreadable":
                with open(name, "wb") as fh:
                    fh.write(b"int \xff\xfe;\n")
        with open(os.path.join(root, "results.xml"), "wb") as fh:
            fh.write(hc.results_xml(case))
        script = os.path.join(vlib.REPO, "htmlreport", "cppcheck-htmlreport")
        argv = ["--file=results.xml", "--report-dir=out", "--source-dir=src", "--title=T"]
        if case["cid"] % 12 == 1:
            # the command line entry: a process of its own
            rcode, out, err = vlib.run([sys.executable, script] + argv, cwd=root, timeout=300)
            if rcode is None:
                raise vlib.InfraError("cppcheck-htmlreport timed out")
            errline = (err.strip().splitlines() or [""])[-1][:200] if rcode != 0 else ""
        else:
            try:
                w = _workers.get_nowait()
            except queue.Empty:
                w = Worker()
            rcode, errline = w.run(script, root, argv)
            _workers.put(w)
        obs = {"case": case, "rc": rcode, "err": errline}
        obs.update(hc.read_report(os.path.join(root, "out")))
        return obs
    finally:
        shutil.rmtree(root, ignore_errors=True)


def close_workers():
    while True:
        try:
            _workers.get_nowait().close()
        except queue.Empty:
            return


def run_cases(cases, budget_s=None, floor=0):
    t0 = time.time()
    obs = []
    with concurrent.futures.ThreadPoolExecutor(max_workers=WORKERS) as ex:
        pending = []
        it = iter(cases)
        done = False
        while True:
            while not done and len(pending) < WORKERS * 2:
                c = next(it, None)
                if c is None or (budget_s is not None and len(obs) + len(pending) >= floor and time.time() - t0 > budget_s):
                    done = True
                    break
                pending.append(ex.submit(run_case, c))
            if not pending:
                break
            obs.append(pending.pop(0).result())
    close_workers()
    return obs


def show(ts):
    return rc.untok(ts).decode("latin-1").encode("unicode_escape").decode("ascii")


def describe(case):
    fs = []
    for f in case["findings"]:
        fs.append("{id=%s sev=%s%s msg=%s locs=%s}" % (show(f["id"]), f["sev"], " inconclusive" if f["inconc"] else "", show(f["msg"]),
                                                        ["%s:%d%s" % (show(l["file"]), l["line"], (" info=" + show(l["info"])) if l["info"] else "") for l in f["locs"]]))
    files = ["%s(%s)" % (show(f["name"]), f["state"]) for f in case["files"]]
    return "findings=%s files=%s" % (" ".join(fs), ",".join(files))


def nonplain(ts):
    return any(len(t) != 1 or not t.isalnum() and t not in " ." for t in ts)


def collect(cases, verdicts, replay_path=None):
    by_cid = {c["cid"]: c for c in cases}
    per_key = {}
    for v in verdicts:
        for d in v["devs"]:
            per_key.setdefault(d["key"], []).append((v["cid"], d))
    violations = []
    for key in sorted(per_key):
        hits = per_key[key]
        cid, d = hits[0]
        p = replay_path or vlib.save_replay(PID, key.replace(":", "_").replace("/", "_"), {"case": by_cid[cid], "deviation": d, "cases_with_this_key": len(hits),
                                                                                             "results_xml": hc.results_xml(by_cid[cid]).decode("utf-8")})
        violations.append({"key": key, "what": "[%s] %s; %d case(s), first: %s" % (d["part"], d["what"], len(hits), describe(by_cid[cid])[:900]), "replay": p})
    return violations, per_key


def main(tier, seed, replay=None):
    t0 = time.time()
    strtab = strtab_file()
    if replay:
        payload = json.load(open(replay))
        obs = run_cases([payload["case"]])
        verdicts = tlc_judge(strtab, obs)
        for d in verdicts[0]["devs"]:
            print("deviation %s: %s" % (d["key"], d["what"]))
        violations, _ = collect([payload["case"]], verdicts, replay_path=replay)
        code, new, known = vlib.verdict(PID, violations)
        if not violations:
            print("replay: the report is as specified")
        return code
    # quick walks as far as ~2.5 minutes of runs allow on the shared machine (at least 40 result files, at most 240),
    # thorough ~25 minutes with the deeper pools (at least 400, at most 5000)
    ncases = 240 if tier == "quick" else 5000
    cases, pools = tlc_gen(strtab, ncases, seed, tier != "quick")
    t_gen = time.time() - t0
    if tier == "quick":
        obs = run_cases(cases, budget_s=max(60.0, 150.0 - t_gen), floor=40)
    else:
        obs = run_cases(cases, budget_s=1500.0, floor=400)
    cases = [o["case"] for o in obs]
    t_run = time.time() - t0 - t_gen
    verdicts = tlc_judge(strtab, obs)
    violations, per_key = collect(cases, verdicts)
    code, new, known = vlib.verdict(PID, violations)
    nfind = sum(v["nfindings"] for v in verdicts)
    distinct = set()
    for c in cases:
        for f in c["findings"]:
            if nonplain(f["msg"]) or nonplain(f["id"]) or len(f["locs"]) != 1 or any(nonplain(l["file"]) or nonplain(l["info"]) for l in f["locs"]) or f["inconc"]:
                distinct.add(vlib.digest(f))
    by_dim = {}
    for c in cases:
        by_dim[c["dim"]] = by_dim.get(c["dim"], 0) + 1
    cov = {"evaluations": nfind, "distinct_nontrivial": len(distinct),
           "rule": "evaluations = findings whose index row, page entries and counts were judged by TLC; non-trivial = distinct findings whose message, "
                   "id, file name or location info contains a token outside [A-Za-z0-9 .], or that have no / several locations, or are inconclusive",
           "exhaustive": False, "cases": len(cases), "runs_of_the_script": len(cases), "cases_per_dimension": by_dim, "pool_sizes": pools,
           "deviation_classes": {k: len(v) for k, v in per_key.items()}, "cases_with_deviation": len({cid for v in per_key.values() for cid, _ in v}),
           "wall_gen_s": round(t_gen, 1), "wall_run_s": round(t_run, 1),
           "samples": [describe(cases[i])[:600] for i in (0, len(cases) // 2, len(cases) - 1)]}
    vlib.write_evidence(PID, tier, seed, "exploration", cov, time.time() - t0, violations=new,
                        assumptions=["html.parser is the arbiter of the text of a piece of a page", "the pages are cut along the script's fixed skeleton"])
    print("C36: %d result files, %d findings judged, %d deviation classes (%d new, %d known)" % (len(cases), nfind, len(per_key), new, known))
    return code
