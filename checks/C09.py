"""C09 - expression types follow the language's conversion rules.

spec/CTypes.tla (+ CLit.tla for literal types) defines the type of every expression `a op b` / `op a` over the
arithmetic types, bool, an enumeration and pointers, per built-in platform and language; spec/C09.tla enumerates the
cases, renders the probe for cppcheck and the assertion for the second witness, and judges.

gen (TLC) -> cppcheck --dump --platform=p (batched, one expression per line) + clang --target=<triple> -fsyntax-only
on `static_assert(__is_same(decltype(e), T))` / `_Generic` -> judge (TLC): wherever cppcheck assigned a type to the
root token of the expression, it agrees with the spec's type; a disagreement counts against cppcheck only if clang
accepted the spec's type for that expression on the matching target.
"""
import json
import os
import re
import shutil
import sys
import time

import vlib

sys.path.insert(0, os.path.join(vlib.VERIF, "drivers"))
import cprobe  # noqa: E402

PID = "C09"
META = {
    "cat": "exploration",
    "text": "TLC enumerates every (operator, operand type, operand type) over 11 integer types, bool, 3 floating types, wchar_t (C++), an "
            "enumeration and two pointer types plus boundary literals, for C and C++ on the built-in platforms, computes the type the "
            "language rules give (promotions, usual arithmetic conversions with the LP64/LLP64-sensitive signed/unsigned rule, per-operator "
            "result types), and compares it with the valueType cppcheck wrote into --dump for the root token of each expression; every expected "
            "type is independently confirmed by clang for the matching target before a difference counts. The space is finite and enumerated "
            "completely per platform/language, so exploration with exhaustive=true is the right level.",
    "ref": "DESIGN.md section 4 C09",
    "note": "Trusted: TLC, clang 14 as second witness (static_assert/_Generic on the same expression text), the dump reader in drivers/cprobe.py. "
            "'native' is taken to be x86_64 Linux (LP64); enumeration-typed results and the promoted type of an enumeration in C are left open; a "
            "missing sign in the dump is not judged; char16_t/char32_t/char8_t literals are not part of the case space (C10 checks their values).",
    "technique": "TLA+ function specification (CTypes/CLit), TLC-enumerated cases replayed into cppcheck --dump, TLC-computed verdict, clang second witness",
}

# quick: LP64 and LLP64 in both languages (the rule that differs between them), ILP32 in C++ only
QUICK_SHARDS = [("native", "c"), ("native", "c++"), ("win64", "c"), ("win64", "c++"), ("unix32", "c++")]
ALL_PLATFORMS = ["native", "unix32", "unix64", "win32A", "win32W", "win64"]
LANGS = ["c", "c++"]
BATCH = 1000


def tlc_c09(mode, plat, lang, work, extra_env=None):
    env = {"C09_MODE": mode, "C09_PLAT": plat, "C09_LANG": lang,
           "C09_CASES": os.path.join(work, "cases.ndjson"), "C09_OBS": os.path.join(work, "obs.ndjson"),
           "C09_OUT": os.path.join(work, "out.ndjson")}
    if extra_env:
        env.update(extra_env)
    r = vlib.tlc("C09", "Empty.cfg", env=env, workers=1, timeout=1500, xmx="3g")
    if not r.ok:
        if os.environ.get("C09_DEBUG_DIR"):
            open(os.path.join(os.environ["C09_DEBUG_DIR"], "fail-%s-%s-%s.log" % (mode, plat, lang.replace("+", "x"))), "w").write(r.out)
        raise vlib.InfraError("model failure in C09.tla (%s %s %s, rc=%s)\n%s" % (mode, plat, lang, r.rc, r.out[-3000:]))
    return r


def run_shard(args):
    plat, lang = args
    work = vlib.mktmp("c09-%s-%s" % (plat, "cxx" if lang == "c++" else "c"))
    # gen -> probe (cppcheck --dump + clang, drivers/c09probe.py via IOExec) -> judge, in one TLC run
    r = tlc_c09("run", plat, lang, work, {"C09_WORK": work, "C09_DRIVER": os.path.join(vlib.VERIF, "drivers", "c09probe.py"),
                                          "CPROBE_CPPCHECK": cprobe.private_cppcheck(), "VERIF_TMP": work,
                                          "JDK_JAVA_OPTIONS": "-Xss256m"})
    m = re.search(r'"C09VERDICT",(.*?)>>', r.out.replace("\n", " "))
    if not m:
        raise vlib.InfraError("C09.tla gave no verdict for %s/%s\n%s" % (plat, lang, r.out[-2000:]))
    parts = [x.strip().strip('"') for x in m.group(1).split(",")]
    counts = {parts[i]: int(parts[i + 1]) for i in range(0, len(parts) - 1, 2)}
    cases = vlib.read_ndjson(os.path.join(work, "cases.ndjson"))[1:]
    obs = vlib.read_ndjson(os.path.join(work, "obs.ndjson"))
    notable = vlib.read_ndjson(os.path.join(work, "out.ndjson"))
    msgs = {o["id"]: o["clang_msg"] for o in obs if o["clang_msg"]}
    for n in notable:
        n["platform"], n["lang"] = plat, lang
        if n["id"] in msgs:
            n["clang_msg"] = msgs[n["id"]]
    if counts.get("desync") or counts.get("cases") != len(cases):
        raise vlib.InfraError("case list / observation desynchronised for %s/%s" % (plat, lang))
    samples = [{"platform": plat, "lang": lang, "expr": c["expr"], "rule": c["rule"], "assert": c["w"]} for c in cases[:: max(1, len(cases) // 3)][:3]]
    shutil.rmtree(work, ignore_errors=True)
    return {"plat": plat, "lang": lang, "counts": counts, "notable": notable, "samples": samples}


def group_violations(shards):
    """One violation per (platform, language, rule): the key pins the exact set of failing inputs and what cppcheck
    reported for each, so a known finding tolerates exactly that set."""
    groups = {}
    for sh in shards:
        for n in sh["notable"]:
            if n["verdict"] == "violation":
                groups.setdefault((sh["plat"], sh["lang"], n["rule"]), []).append(n)
    out = []
    for (plat, lang, rule), rows in sorted(groups.items()):
        rows.sort(key=lambda r: r["key"])
        dg = vlib.digest([[r["key"], r["got"]] for r in rows])
        key = "%s:%s:%s:n%d:%s" % (plat, lang, rule, len(rows), dg)
        ex = rows[0]
        payload = {"platform": plat, "lang": lang, "rule": rule, "key": key,
                   "cases": [{"expr": r["expr"], "key": r["key"], "expected": r["expected"], "cppcheck": r["got"]} for r in rows]}
        p = vlib.save_replay(PID, "%s-%s-%s" % (plat, "cxx" if lang == "c++" else "c", rule), payload)
        out.append({"key": key, "replay": p,
                    "what": "%d expressions of rule '%s' typed wrongly on %s (%s), e.g. `%s`: language/clang say %s, cppcheck says %s"
                            % (len(rows), rule, plat, lang, ex["expr"], ex["expected"], ex["got"])})
    return out


def run(pairs):
    if not cprobe.host_is_lp64_linux():
        pairs = [pl for pl in pairs if pl[0] != "native"]
    cprobe.private_cppcheck()

    def task(t):
        if t == "laws":
            return vlib.tlc_must_pass("CIntLaws", "Empty.cfg", workers=1, timeout=900, xmx="2g")
        return run_shard(t)

    res = cprobe.pmap(task, ["laws"] + list(pairs), workers=cprobe.WORKERS + 1)
    return res[1:]


def main(tier, seed, replay=None):
    t0 = time.time()
    vlib.build()
    if replay:
        return do_replay(replay)
    shards = run(QUICK_SHARDS if tier == "quick" else [(p, l) for p in ALL_PLATFORMS for l in LANGS])
    violations = group_violations(shards)
    rc, new, known = vlib.verdict(PID, violations)
    tot = {}
    for sh in shards:
        for k, v in sh["counts"].items():
            tot[k] = tot.get(k, 0) + v
    md = [n for sh in shards for n in sh["notable"] if n["clang"] == "fail"]
    md_samples = {}
    for n in md:
        md_samples.setdefault("%s/%s/%s" % (n["platform"], n["lang"], n["rule"]), []).append(
            {"expr": n["expr"], "spec": n["expected"], "clang": n.get("clang_msg", "")})
    for k in sorted(md_samples):
        print("model_disagreement x%d in %s, e.g. `%s` spec says %s; clang: %s"
              % (len(md_samples[k]), k, md_samples[k][0]["expr"], md_samples[k][0]["spec"], md_samples[k][0]["clang"][:160]))
    judged = tot.get("ok", 0) + tot.get("violation", 0) + sum(1 for n in md if n["verdict"] == "model_disagreement")
    cov = {
        "evaluations": tot.get("cases", 0),
        "distinct_nontrivial": judged,
        "rule": "all (operator, operand type, operand type) with a well-formed expression + boundary literals, per (platform, language); the cases "
                "of a shard are the elements of a TLA+ set (distinct by construction); non-trivial = cppcheck assigned a valueType to the root "
                "token and the language defines the type (judged cases)",
        "exhaustive": True,
        "samples": [s for sh in shards for s in sh["samples"]][:8],
        "platforms": sorted({sh["plat"] for sh in shards}), "languages": LANGS,
        "typed_by_cppcheck": tot.get("cases", 0) - tot.get("untyped", 0),
        "untyped": tot.get("untyped", 0), "root_token_simplified_away": tot.get("unmapped", 0), "open_not_judged": tot.get("open", 0),
        "agree": tot.get("ok", 0), "wrong_type_cases": tot.get("violation", 0), "violation_groups": len(violations),
        "known_finding_groups": known,
        "model_disagreements": len(md), "model_disagreement_samples": {k: v[:3] for k, v in md_samples.items()},
        "per_shard": {"%s/%s" % (sh["plat"], sh["lang"]): sh["counts"] for sh in shards},
    }
    vlib.write_evidence(PID, tier, seed, "exploration", cov, time.time() - t0, violations=new,
                        assumptions=["'native' = x86_64 Linux LP64 (asserted on the host)",
                                     "clang --target=<triple> implements the ABI of the cppcheck platform of the same name",
                                     "a valueType without sign is not a wrong sign; enumeration-typed results are not judged"])
    if md:
        print("note: %d model disagreements (spec vs clang) - not reported against cppcheck" % len(md))
    return rc


def do_replay(path):
    payload = json.load(open(path))
    shards = run([(payload["platform"], payload["lang"])])
    vs = [v for v in group_violations(shards) if ":%s:" % payload["rule"] in v["key"]]
    for v in vs:
        print("REPRODUCED key=%s %s" % (v["key"], v["what"]))
    if vs:
        print("VIOLATION property=%s replay=%s" % (PID, path))
        return 1
    print("replay: rule %s on %s/%s no longer violated" % (payload["rule"], payload["platform"], payload["lang"]))
    return 0
