"""C28 - every built-in finding id is discoverable through --errorlist.

The list printed by `cppcheck --errorlist` of the freshly built binary is the constant ErrorList. Ids are harvested from
the real binary in two ways: the reported findings (template output) and the Raw events of the hooked pipeline (they
include findings that were suppressed or de-duplicated), over a corpus chosen to reach as many checks, preprocessor,
tokenizer and symbol-database diagnostics as possible (shipped samples, test/cfg, test/cli projects, the fuzzing crash
inputs as inputs, generated programs with every severity, error generators for #error / missing includes / unterminated
constructs / bad inline suppressions / too many configurations). TLC judges Observed \\ (ErrorList + outside-claim ids).
"""
import concurrent.futures
import glob
import json
import os
import re
import shutil
import time
import xml.etree.ElementTree as ET

import projgen
import vlib

PID = "C28"
CONFIRM_BY_REPLAY = True   # a new deviation is reported only if replaying its stored case repeats it
META = {
    "cat": "exploration",
    "text": "All ids the hooked binary raises (reported or not, via the Raw events of the logger pipeline) on a broad corpus with every severity, "
            "--inconclusive and the exhaustive check level, for C and C++, are judged by TLC against the --errorlist output of the same binary; "
            "ids defined by library <warn> entries (read from the loaded cfg files) and addon ids are outside the claim as the statement says.",
    "ref": "DESIGN.md section 4 C28",
    "note": "This is a coverage-bounded check: an id that no corpus input triggers is not seen. The evidence lists how many ids of the error list "
            "were observed (covered) so the reach is measurable.",
    "technique": "TLC-judged set inclusion (ErrorList.tla) over ids harvested from findings and hooked pipeline events",
}

GEN = {
    "error_directive.c": "#error this is an error\nint x;\n",
    "missing_include.c": '#include "does_not_exist.h"\n#include <alsomissing.h>\nint f(void) { return 0; }\n',
    "unterminated.c": "int f(void) { return (1 + ; }\nvoid g( {\n",
    "unmatched_paren.cpp": "void f() { if (a { } }\nclass A { int x\n",
    "bad_suppress.c": "// cppcheck-suppress\nint f(void) { return 0; }\n// cppcheck-suppress-begin zerodiv\nint g(int x) { return x / 0; }\n// cppcheck-suppress-end uninitvar\n// cppcheck-suppress [zerodiv\nint h(void){return 1;}\n",
    "many_configs.c": "".join("#ifdef C%d\nint v%d;\n#endif\n" % (i, i) for i in range(20)),
    "unknown_macro.c": "void f(void) { FOO_MACRO(1) BAR x; }\nint a[ ] = { [0 ... 3] = 1 };\nint g() { return EXPAND(1, }\n",
    "preproc_if.c": "#if 1 +\nint a;\n#endif\n#if defined(\nint b;\n#endif\n#include\n#define M(x) #\nint c = M(1);\n",
    "include_nested.c": "#include \"include_nested.c\"\nint z;\n",
    "asm_pragma.c": "#pragma asm\n mov a, b\n#pragma endasm\nint f(void) { asm(\"nop\"); return 1; }\n",
    "templates.cpp": "template<class T> struct R { typename R<T*>::type x; };\nR<int> r;\ntemplate<int N> struct F { enum { v = F<N-1>::v }; };\nint q = F<3>::v;\n",
    "garbage1.cpp": "}}}{{{ class ; struct :: ; template<> ; operator ; using = ; namespace { { ;\n",
    "invalid_utf.c": "int f(void) { char *s = \"\\xff\\xfe\"; return s[0]; }\n\x01\x02\n",
}


def errorlist():
    rc, out, err = vlib.run([vlib.cppcheck_bin(), "--errorlist"], timeout=120)
    if rc != 0:
        raise vlib.InfraError("--errorlist failed")
    root = ET.fromstring(out)
    return sorted(set(e.get("id") for e in root.iter("error")))


def libwarn_ids():
    """ids defined by <warn> elements of the shipped library configurations (these are configuration data)"""
    ids = set()
    for p in glob.glob(os.path.join(vlib.REPO, "cfg", "*.cfg")):
        try:
            root = ET.parse(p).getroot()
        except ET.ParseError:
            continue
        for fn in root.iter("function"):
            if fn.find("warn") is not None:
                for name in (fn.get("name") or "").split(","):
                    ids.add(name.strip().split("::")[-1] + "Called")
    return sorted(ids)


def corpus(tier, seed):
    items = []   # (label, {files}, [sources], extra opts)
    sdir = os.path.join(vlib.REPO, "samples")
    for d in sorted(os.listdir(sdir)):
        for fn in sorted(os.listdir(os.path.join(sdir, d))):
            if fn.endswith((".c", ".cpp")):
                items.append(("samples/%s/%s" % (d, fn), {fn: open(os.path.join(sdir, d, fn), errors="replace").read()}, [fn], []))
    cfgdir = os.path.join(vlib.REPO, "test", "cfg")
    cfgs = sorted(f for f in os.listdir(cfgdir) if f.endswith((".c", ".cpp")))
    if tier == "quick":
        cfgs = [f for f in cfgs if f in ("std.c", "std.cpp", "posix.c", "gnu.c", "windows.cpp", "qt.cpp")]
    for fn in cfgs:
        text = open(os.path.join(cfgdir, fn), errors="replace").read()
        lines = text.splitlines(True)
        if tier == "quick":
            lines = lines[:2500]
        lib = fn.split(".")[0]
        lib = {"windows32A": "windows", "windows32W": "windows", "windows64": "windows", "runastyle": "std"}.get(lib, lib)
        items.append(("cfg/" + fn, {fn: "".join(lines)}, [fn], ["--library=" + lib]))
    for name, text in GEN.items():
        items.append(("gen/" + name, {name: text}, [name], ["--enable=missingInclude"]))
    for d in ("fuzz-crash", "fuzz-crash_c", "fuzz-timeout"):
        p = os.path.join(vlib.REPO, "test", "cli", d)
        if os.path.isdir(p):
            fns = sorted(os.listdir(p))
            if tier == "quick":
                fns = fns[(seed % 4)::4]
            for fn in fns:
                ext = ".c" if d.endswith("_c") else ".cpp"
                try:
                    data = open(os.path.join(p, fn), errors="replace").read()
                except OSError:
                    continue
                items.append(("%s/%s" % (d, fn), {"in" + ext: data}, ["in" + ext], []))
    for i in range(6 if tier == "quick" else 60):
        pr = projgen.gen_project(seed * 1000 + 900 + i)
        items.append(("projgen/%d" % i, pr["files"], pr["sources"], ["--inline-suppr"]))
    # the code snippets of the repository's own unit tests, used as inputs only (one snippet per file)
    snips = test_snippets()
    import random as _r
    _r.Random(seed).shuffle(snips)
    for i, (src, code) in enumerate(snips[:(400 if tier == "quick" else 6000)]):
        ext = ".c" if (".c\"" in src or "false" == src) else ".cpp"
        items.append(("unittest/%s/%d" % (src, i), {"s" + ext: code}, ["s" + ext], ["--library=std", "--library=posix"] if i % 3 == 0 else []))
    for proj in ("proj2", "whole-program", "proj-inline-suppress", "helloworld", "unusedFunction"):
        p = os.path.join(vlib.REPO, "test", "cli", proj)
        files = {}
        for dirpath, _d, fns in os.walk(p):
            for fn in fns:
                if fn.endswith((".c", ".cpp", ".h", ".hpp")):
                    rel_ = os.path.relpath(os.path.join(dirpath, fn), p)
                    files[rel_] = open(os.path.join(dirpath, fn), errors="replace").read()
        if files:
            items.append(("cli/" + proj, files, ["."], ["--inline-suppr"]))
    return items


_LIT = re.compile(r'"((?:[^"\\\n]|\\.)*)"')


def test_snippets():
    """string literals passed to the check...() helpers of test/test*.cpp (concatenated adjacent literals)"""
    out = []
    tdir = os.path.join(vlib.REPO, "test")
    for fn in sorted(os.listdir(tdir)):
        if not (fn.startswith("test") and fn.endswith(".cpp")):
            continue
        text = open(os.path.join(tdir, fn), errors="replace").read()
        for m in re.finditer(r'\b(?:check\w*|checkP|tok|tokenizeAndStringify)\s*\(\s*((?:"(?:[^"\\\n]|\\.)*"\s*)+)', text):
            lits = _LIT.findall(m.group(1))
            try:
                code = "".join(bytes(l, "utf-8").decode("unicode_escape") for l in lits)
            except UnicodeDecodeError:
                continue
            if len(code) > 30 and ("{" in code or ";" in code):
                out.append((fn[4:-4], code))
    return out


def run_item(item):
    label, files, sources, extra = item
    root = vlib.mktmp("c28")
    projgen.materialize({"files": files}, root)
    tdir = vlib.mktmp("c28tr")
    args = ["-q", "--template=" + projgen.TEMPLATE, "--enable=all", "--inconclusive", "--check-level=exhaustive", "--debug-warnings",
            "--max-configs=3", "-j1"] + extra + sources
    rc, out, err = vlib.run_cppcheck(args, root, trace_dir=tdir, timeout=240)
    seen = {}
    for f in projgen.parse_findings(err):
        seen[(f["id"], "output")] = f["sev"]
    for pid, evs in vlib.read_traces(tdir).items():
        for e in evs:
            if e.get("e") in ("Raw", "Emit"):
                seen.setdefault((e["id"], "raw-event"), e.get("sev", ""))
    shutil.rmtree(root, ignore_errors=True)
    shutil.rmtree(tdir, ignore_errors=True)
    crashed = rc is not None and rc < 0
    return label, rc, seen, crashed


def main(tier, seed, replay=None):
    t0 = time.time()
    vlib.build()
    el = errorlist()
    lw = libwarn_ids()
    items = corpus(tier, seed)
    if replay:
        want = json.load(open(replay))["input"]
        items = [it for it in items if it[0] == want]
    obs = {}
    timeouts = 0
    with concurrent.futures.ThreadPoolExecutor(max_workers=min(8, vlib.NCPU)) as ex:
        for label, rc, seen, crashed in ex.map(run_item, items):
            if rc is None:
                timeouts += 1
                continue
            for (fid, src), sev in seen.items():
                obs.setdefault(fid, {"id": fid, "sev": sev, "src": src, "input": label, "addon": False})
    work = vlib.mktmp("c28judge")
    inp = os.path.join(work, "obs.ndjson")
    out = os.path.join(work, "bad.ndjson")
    vlib.write_ndjson(inp, [{"errorlist": el, "libwarn": lw}] + sorted(obs.values(), key=lambda o: o["id"]))
    r = vlib.tlc("ErrorList", "ErrorList.cfg", env={"OBS": inp, "OUT": out}, timeout=900)
    if not r.ok:
        raise vlib.InfraError("ErrorList.tla failed\n" + r.out[-2000:])
    m = re.search(r'"IDS",\s*(\d+),\s*"LISTED",\s*(\d+),\s*"COVERED",\s*(\d+),\s*"BAD",\s*(\d+)', r.out)
    if not m:
        raise vlib.InfraError("ErrorList.tla gave no verdict\n" + r.out[-1500:])
    bad = vlib.read_ndjson(out)
    violations = []
    for b in bad:
        p = vlib.save_replay(PID, "id-" + b["id"], {"input": b["input"], "id": b["id"], "severity": b["sev"], "seen_as": b["src"]})
        violations.append({"key": "unlisted-id:%s" % b["id"], "what": "id %s (severity %s) was raised for %s but is not in --errorlist" % (b["id"], b["sev"], b["input"]), "replay": p})
    if replay:
        for v in violations:
            print(v["what"])
        if violations:
            print("VIOLATION property=%s replay=%s" % (PID, replay))
            return 1
        print("replay: all ids listed")
        return 0
    rc, new, known = vlib.verdict(PID, violations)
    cov = {"evaluations": len(items), "distinct_nontrivial": int(m.group(1)),
           "rule": "one analysis per corpus input with every severity, --inconclusive, exhaustive check level and debug warnings; distinct_nontrivial = number of distinct ids observed (reported or raised in the pipeline)",
           "errorlist_size": int(m.group(2)), "errorlist_ids_observed": int(m.group(3)), "ids_observed": sorted(obs)[:400],
           "timeouts_skipped": timeouts, "unlisted": [b["id"] for b in bad],
           "samples": [{"input": items[0][0]}, {"input": items[-1][0]}, {"id": sorted(obs)[0], "first_seen_in": obs[sorted(obs)[0]]["input"]}]}
    vlib.write_evidence(PID, tier, seed, "exploration", cov, time.time() - t0, violations=new,
                        assumptions=["library <warn> ids are '<function>Called' for the functions with a <warn> element in the shipped cfg files"])
    return rc
