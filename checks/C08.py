"""C08 - name resolution agrees with the compiler.

spec/Scopes.tla: behaviours are programs (scope stack, Declare / Use / Call with the language's lookup and overload
rules).  TLC enumerates the programs of several bounded profiles exhaustively (BFS) and samples deeper ones
(-simulate, seeded); every complete behaviour is written out as an item list in which every name token carries the id
of the declaration the language binds it to.  drivers/scopes_render.py writes the items as C++ (and the C subset as
C) one construct per line, many programs per translation unit; the hooked binary's --dump gives varId / variable /
function links per name token, `clang-14 -ast-dump=json` gives the compiler's referencedDecl per name token
(drivers/clangrefs.py); spec/ScopesJudge.tla (TLC) decides: the second witness must agree with the specification on
every token of a program, then (1) same varId => same declaration, (2) variable link / varId point to the language's
declaration, (3) function link points to the selected overload.  Unlinked tokens are not judged.
"""
import concurrent.futures
import json
import os
import re
import shutil
import sys
import time

import vlib

sys.path.insert(0, os.path.join(vlib.VERIF, "drivers"))
import clangrefs  # noqa: E402
import dump2nd  # noqa: E402
import scopes_obs  # noqa: E402
import scopes_render  # noqa: E402

PID = "C08"
META = {
    "cat": "exploration",
    "text": "TLC enumerates the behaviours of Scopes.tla - programs built from nested namespaces, classes with fields / static members / inline "
            "member functions, functions, blocks, for-init declarations, lambdas with every capture form, shadowing declarations, plain / "
            "this-> / qualified / :: uses and calls of an overloaded function - exhaustively for several bounded profiles and by seeded "
            "simulation for deeper programs; the spec records for every name token the declaration ISO C++ (C) binds it to. Each program is "
            "rendered, analysed by the real binary (--dump) and by clang (AST JSON), and TLC (ScopesJudge.tla) judges per program: clang must "
            "agree with the spec on every token (second witness), then no two tokens of different declarations share a varId, every "
            "variable link / varId points to the language's declaration and every function link to the selected overload. The property "
            "quantifies over all programs, so a measured exploration of generated programs is the level this technique gives.",
    "ref": "DESIGN.md section 4 C08",
    "note": "Trusted: drivers/scopes_render.py (text layout), drivers/clangrefs.py and drivers/dump2nd.py + scopes_obs.py (attribute copying), "
            "TLC. Tokens cppcheck leaves unlinked are not judged (the property is about links that exist). Programs on which clang and the "
            "spec disagree are counted as model_disagreement and not held against cppcheck.",
    "technique": "TLA+ behaviour spec explored by TLC (BFS + seeded simulation) as program generator with expected bindings; TLC-judged "
                 "conformance of cppcheck --dump links, clang AST as second witness",
}

NPROC = 6
TLC_WORKERS = 4
BATCH = 40                      # programs per translation unit

SIGS = [["int"], ["double"], ["long"], ["int", "int"], ["double", "double"]]
ARGT = ["char", "int", "long", "float", "double"]
BASE = {"K": 4, "nv": 2, "depth": 3, "ns": False, "cls": False, "lam": False, "ovl": False, "loop": False, "qual": False,
        "init": False, "late": False, "maxpar": 1, "sigs": SIGS[:3], "argt": ARGT[:3]}


def prof(**kw):
    p = dict(BASE)
    p.update(kw)
    return p


# exhaustively enumerated profiles (BFS): name -> parameters of Scopes.tla
PROFILES_QUICK = {
    "blocks":   prof(K=5, depth=3, loop=True, nv=2),
    "init":     prof(K=4, depth=3, loop=True, init=True, nv=2),
    "class":    prof(K=5, depth=3, cls=True, late=True, nv=2),
    "lambda":   prof(K=4, depth=3, lam=True, init=True, nv=1),
    "ns":       prof(K=5, depth=3, ns=True, qual=True, nv=2),
    "overload": prof(K=4, depth=2, ns=True, ovl=True, nv=1, maxpar=0, sigs=SIGS, argt=ARGT),
}
PROFILES_THOROUGH = {
    "blocks":   prof(K=6, depth=4, loop=True, init=True, nv=2),
    "class":    prof(K=5, depth=3, cls=True, late=True, nv=2, init=True, loop=True),
    "lambda":   prof(K=5, depth=3, lam=True, init=True, nv=2),
    "ns":       prof(K=6, depth=3, ns=True, qual=True, nv=2, init=True),
    "overload": prof(K=5, depth=2, ns=True, ovl=True, nv=1, maxpar=0, sigs=SIGS, argt=ARGT),
    "all":      prof(K=4, depth=3, ns=True, cls=True, lam=True, ovl=True, loop=True, qual=True, init=True, late=True, nv=2),
}
# deeper programs, sampled by TLC's simulator (seeded)
SIM = {
    "sim-all":   prof(K=14, depth=5, ns=True, cls=True, lam=True, ovl=True, loop=True, qual=True, init=True, late=True, nv=3, maxpar=2,
                      sigs=SIGS, argt=ARGT),
    "sim-class": prof(K=12, depth=4, cls=True, loop=True, init=True, late=True, nv=2, maxpar=1),
    "sim-block": prof(K=12, depth=5, loop=True, init=True, nv=3, maxpar=2),
}
THOROUGH_CAP = 1500      # programs evaluated per BFS profile in the thorough tier
QUICK_CAP = {"class": 450, "": 150}   # programs evaluated per BFS profile in the quick tier (seeded sample of the enumerated set)
SIBLINGS = 3             # the simulator evaluates Emit on every successor of the last step: keep this many per walk


# ------------------------------------------------------------------------------------------------ generation (TLC)
def tlc_generate(profiles, simulate=None, seed=1, workers=1, timeout=3000):
    """One run of Scopes.tla over a set of profiles {name: params}; returns (programs, TLCResult).
    simulate = number of random walks (-simulate), None = exhaustive BFS."""
    work = vlib.mktmp("c08gen")
    pf = os.path.join(work, "params.ndjson")
    out = os.path.join(work, "progs.ndjson")
    rows = []
    for name, params in profiles.items():
        r = dict(params)
        r["name"] = name
        rows.append(r)
    vlib.write_ndjson(pf, rows)
    extra = []
    if simulate:
        depth = 4 * max(p["K"] for p in profiles.values())
        extra = ["-simulate", "num=%d" % simulate, "-depth", str(depth), "-seed", str(seed)]
    r = vlib.tlc("Scopes", "ScopesSim.cfg" if simulate else "Scopes.cfg",
                 env={"PARAMS": pf, "OUT": out, "JAVA_TOOL_OPTIONS": "-XX:ParallelGCThreads=2 -XX:CICompilerCount=2"}, workers=workers,
                 timeout=timeout, extra=extra, xmx="3g" if max(p["K"] for p in profiles.values()) <= 5 and not simulate else "8g")
    if not r.ok:
        raise vlib.InfraError("Scopes.tla (%s) failed rc=%s\n%s" % (",".join(profiles), r.rc, r.out[-3000:]))
    return out, work, r


def load_programs(path, cap, rnd):
    """Reads the programs TLC wrote (possibly several hundred thousand lines) in two passes: (1) digest + profile of
    every line, (2) only the chosen lines.  cap: maximal number per profile (None = all; a dict gives it per profile name,
    "" = default), chosen by the seeded rnd.
    Returns (programs, {profile: number enumerated})."""
    import hashlib
    index = {}                                   # profile -> {digest: line number}
    hard = set()                                 # digests of the programs TLC tagged as the hard case of class scope
    with open(path) as f:
        for n, line in enumerate(f):
            if not line.strip():
                continue
            m = re.search(r'"profile":"([^"]*)"', line)
            d = hashlib.sha1(re.sub(r',"profile":"[^"]*"', "", line.strip()).encode()).hexdigest()[:12]
            index.setdefault(m.group(1) if m else "?", {}).setdefault(d, n)
            if '"hard":true' in line:
                hard.add(d)
    want = {}
    counts = {}
    for name in sorted(index):
        ds = index[name]
        counts[name] = len(ds)
        keys = sorted(ds)                        # the order in which TLC's workers wrote the lines is not deterministic
        mycap = cap.get(name, cap.get("")) if isinstance(cap, dict) else cap
        if mycap is not None and len(keys) > mycap:
            # a sample always contains the tagged programs (up to a third of it), the rest is drawn at random
            first = [k for k in keys if k in hard]
            if len(first) > mycap // 3:
                first = rnd.sample(first, mycap // 3)
            chosen = set(first)
            rest = [k for k in keys if k not in chosen]
            keys = first + rnd.sample(rest, mycap - len(first))
        for k in keys:
            want[ds[k]] = k
    progs = []
    with open(path) as f:
        for n, line in enumerate(f):
            if n in want:
                row = json.loads(line)
                row["key"] = want[n]
                progs.append(row)
    progs.sort(key=lambda x: (x["profile"], x["key"]))
    return progs, counts


def generate(tier, seed, profiles=None, cap=None, nsim=None):
    """-> (programs, per-profile statistics, TLC statistics).  Defaults: the profiles / caps of C08's tiers."""
    import random
    if profiles is None:
        profiles = PROFILES_QUICK if tier == "quick" else PROFILES_THOROUGH
    if cap is None:
        cap = QUICK_CAP if tier == "quick" else THOROUGH_CAP
    if nsim is None:
        nsim = 36 if tier == "quick" else 600
    stats = {}
    with concurrent.futures.ThreadPoolExecutor(2) as ex:
        f_bfs = ex.submit(tlc_generate, profiles, None, seed, TLC_WORKERS - 1)
        f_sim = ex.submit(tlc_generate, SIM, nsim, seed, 1)
        rb = f_bfs.result()
        rs = f_sim.result()
    rnd = random.Random(seed)
    bfs, counts = load_programs(rb[0], cap, rnd)
    sim, _ = load_programs(rs[0], None, rnd)
    shutil.rmtree(rb[1], ignore_errors=True)
    shutil.rmtree(rs[1], ignore_errors=True)
    rb, rs = rb[2], rs[2]
    progs = []
    for name in profiles:
        mine = [p for p in bfs if p["profile"] == name]
        stats[name] = {"enumerated": counts.get(name, 0), "programs": len(mine), "exhaustive_enumeration": True,
                       "all_enumerated_programs_evaluated": len(mine) == counts.get(name, 0)}
        progs += mine
    # simulation: the programs emitted at the last step of one walk differ only in their last item; keep a few per walk
    for name in SIM:
        groups = {}
        for p in sim:
            if p["profile"] == name:
                groups.setdefault(vlib.digest([it for it in p["prog"] if it["op"] != "close"][:-1]), []).append(p)
        mine = []
        for g in sorted(groups):
            sib = groups[g]
            mine += sib if len(sib) <= SIBLINGS else rnd.sample(sib, SIBLINGS)
        stats[name] = {"walks": len(groups), "emitted": sum(len(v) for v in groups.values()), "programs": len(mine), "exhaustive_enumeration": False}
        progs += mine
    tl = {"bfs_states_generated": rb.generated, "bfs_distinct_states": rb.distinct, "bfs_wall_s": round(rb.wall, 1), "sim_wall_s": round(rs.wall, 1),
          "sim_walks_requested": nsim, "seed": seed}
    uniq = {}
    for p in progs:
        uniq.setdefault(p["key"], p)
    return list(uniq.values()), stats, tl


# ------------------------------------------------------------------------------------------------ run cppcheck + clang
def names_of(prog, tag):
    res = {}
    for idx, it in enumerate(prog):
        res[(idx + 1, 0)] = "%s_%s" % (it["nm"], tag)
        for j, sb in enumerate(it["sub"]):
            res[(idx + 1, j + 1)] = "%s_%s" % (sb["nm"], tag)
    return res


def run_cppcheck_retry(args, cwd, timeout, env=None):
    for _ in range(60):
        try:
            return vlib.run_cppcheck(args, cwd=cwd, timeout=timeout, env=env)
        except OSError:
            time.sleep(1.0)
    raise vlib.InfraError("cppcheck binary not executable: %s" % vlib.cppcheck_bin())


def cppcheck_table(work, fname, extra=()):
    """-> (status, {(line, col): [obs]}) ; status ok | timeout | crash:<rc> | nodump"""
    rc, out, err = run_cppcheck_retry(["--dump", "-q"] + list(extra) + [fname], cwd=work, timeout=300)
    if rc is None:
        return "timeout", {}
    if rc < 0 or rc > 1:
        return "crash:%s" % rc, {}
    dump = os.path.join(work, fname + ".dump")
    if not os.path.exists(dump):
        return "nodump", {}
    cfgs = dump2nd.dump_to_records(dump)
    os.unlink(dump)
    if len(cfgs) != 1:
        return "nodump", {}
    return "ok", scopes_obs.token_table(cfgs[0])


def run_unit(unit):
    """unit: {"lang", "progs": [(tag, row)]} -> list of observation rows (one per program) + status."""
    work = vlib.mktmp("c08u")
    try:
        lang = unit["lang"]
        fname = "u.c" if lang == "c" else "u.cpp"
        text, table = scopes_render.render_unit([(tag, row["prog"]) for tag, row in unit["progs"]], lang, unit.get("variant", 0))
        with open(os.path.join(work, fname), "w") as f:
            f.write(text)
        cl = clangrefs.refs(os.path.join(work, fname), lang, timeout=300)
        if not cl["ok"]:
            return {"status": "clang-rejects", "err": cl["err"], "rows": [], "text": text}
        st, cpp = cppcheck_table(work, fname)
        if st != "ok":
            return {"status": "cppcheck-" + st, "err": "", "rows": [], "text": text}
        rows = []
        for tag, row in unit["progs"]:
            toks = scopes_obs.observe(table[tag], names_of(row["prog"], tag), cpp, cl)
            rows.append({"name": "%s:%s:%s:%s" % (row["profile"], lang, row["key"], "m" if unit.get("variant") else "n"), "prog": row["prog"],
                         "mut": bool(unit.get("variant")), "toks": toks})
        return {"status": "ok", "err": "", "rows": rows, "text": text}
    finally:
        shutil.rmtree(work, ignore_errors=True)


def variant_of(row):
    """Rendering variant: programs with lambdas are written with `mutable` lambdas (and assignments in their bodies) or with
    plain lambdas (and reads in their bodies), decided by the program's digest."""
    if "variant" in row:
        return row["variant"]
    has_lambda = any(it["op"] == "lambda" for it in row["prog"])
    return 1 if has_lambda and int(row["key"], 16) % 2 else 0


def make_units(progs, batch):
    units = []
    for lang, variant in (("c++", 0), ("c++", 1), ("c", 0)):
        sel = [p for p in progs if (lang == "c++" or p["c"]) and variant_of(p) == variant]
        for k in range(0, len(sel), batch):
            units.append({"lang": lang, "variant": variant, "progs": [(str(k + j), row) for j, row in enumerate(sel[k:k + batch])]})
    return units


def observe_all(progs, batch=BATCH):
    """Runs all programs; a unit clang rejects is re-run program by program so that only the offending program is lost."""
    rows = []
    rejected = []
    failures = []
    units = make_units(progs, batch)
    vlib.tmproot()      # the worker processes (fork) put their scratch directories below the parent's, which removes it at exit
    with concurrent.futures.ProcessPoolExecutor(NPROC) as ex:
        retry = []
        for unit, res in zip(units, ex.map(run_unit, units)):
            if res["status"] == "ok":
                rows += res["rows"]
            elif res["status"] == "clang-rejects" and len(unit["progs"]) > 1:
                retry += [{"lang": unit["lang"], "variant": unit["variant"], "progs": [pr]} for pr in unit["progs"]]
            elif res["status"] == "clang-rejects":
                rejected.append({"name": unit["progs"][0][1]["key"], "lang": unit["lang"], "err": res["err"][:400], "text": res["text"]})
            else:
                failures.append({"status": res["status"], "lang": unit["lang"], "text": res["text"], "progs": [r["key"] for _t, r in unit["progs"]]})
        for unit, res in zip(retry, ex.map(run_unit, retry)):
            if res["status"] == "ok":
                rows += res["rows"]
            elif res["status"] == "clang-rejects":
                rejected.append({"name": unit["progs"][0][1]["key"], "lang": unit["lang"], "err": res["err"][:400], "text": res["text"]})
            else:
                failures.append({"status": res["status"], "lang": unit["lang"], "text": res["text"], "progs": [r["key"] for _t, r in unit["progs"]]})
    return rows, rejected, failures, len(units)


# ------------------------------------------------------------------------------------------------ judge (TLC)
def tlc_judge(rows, mode="spec", chunk=1600):
    work = vlib.mktmp("c08judge")
    bad = []

    def one(k):
        inp = os.path.join(work, "obs%d.ndjson" % k)
        out = os.path.join(work, "bad%d.ndjson" % k)
        part = rows[k:k + chunk]
        vlib.write_ndjson(inp, part)
        r = vlib.tlc("ScopesJudge", "ScopesJudge.cfg", env={"OBS": inp, "OUT": out, "JMODE": mode, "JAVA_TOOL_OPTIONS": "-Xss64m -XX:ParallelGCThreads=2"},
                     workers=1, timeout=1800, xmx="4g")
        m = re.search(r'"JUDGED",\s*(\d+),\s*"NOTOK",\s*(\d+)', r.out)
        if not r.ok or not m or int(m.group(1)) != len(part):
            raise vlib.InfraError("ScopesJudge.tla failed rc=%s\n%s" % (r.rc, r.out[-3000:]))
        os.unlink(inp)
        return vlib.read_ndjson(out)

    with concurrent.futures.ThreadPoolExecutor(TLC_WORKERS) as ex:
        for res in ex.map(one, range(0, len(rows), chunk)):
            bad += res
    shutil.rmtree(work, ignore_errors=True)
    return bad


def drop_assumed(violations):
    """Testing aid (mutation runs before the maintainers have entered the reported deviations into known-findings.txt):
    VERIF_ASSUME_KNOWN=key1,key2 makes the check treat these class keys as known. Unset in every registered command."""
    assumed = set(k for k in os.environ.get("VERIF_ASSUME_KNOWN", "").split(",") if k)
    for v in violations:
        if v["key"] in assumed:
            print("ASSUMED-KNOWN key=%s" % v["key"])
    return [v for v in violations if v["key"] not in assumed]


def program_text(prog, lang="c++", variant=0):
    lines, _ = scopes_render.render(prog, "0", lang, variant)
    return "\n".join(lines) + "\n"


# ------------------------------------------------------------------------------------------------ main
def main(tier, seed, replay=None):
    t0 = time.time()
    vlib.build()
    if replay:
        return do_replay(replay)
    progs, gstats, gtl = generate(tier, seed)
    t_gen = time.time() - t0
    rows, rejected, failures, nunits = observe_all(progs)
    t_obs = time.time() - t0 - t_gen
    if failures:
        raise vlib.InfraError("cppcheck did not produce a dump for %d translation units (%s)" % (len(failures), failures[0]["status"]))
    bad = tlc_judge(rows)
    by_name = {r["name"]: r for r in rows}
    model = [b for b in bad if b["verdict"] == "model"]
    viol = [b for b in bad if b["verdict"] == "violation"]

    violations = []
    classes = {}
    for b in viol:
        row = by_name[b["name"]]
        lang = b["name"].split(":")[1]
        for it in b["items"]:
            c = classes.setdefault(it["key"], {"n": 0, "first": None})
            c["n"] += 1
            if c["first"] is None:
                payload = {"name": b["name"], "lang": lang, "variant": 1 if row["mut"] else 0, "prog": row["prog"],
                           "source": program_text(row["prog"], lang, 1 if row["mut"] else 0), "item": it}
                c["first"] = vlib.save_replay(PID, vlib.digest(it["key"]), payload)
                c["what"] = "%s | e.g. %s: %s" % (it["kind"], b["name"], it["what"])
                c["source"] = payload["source"]
    for key, c in sorted(classes.items()):
        violations.append({"key": key, "what": "%d programs; %s\n%s" % (c["n"], c["what"], c["source"]), "replay": c["first"]})
    violations = drop_assumed(violations)
    rc, new, known = vlib.verdict(PID, violations)

    # evidence
    tokens = sum(len(r["toks"]) for r in rows)
    linked_var = sum(1 for r in rows for t in r["toks"] if any(o["var"] for o in t["cv"]))
    linked_id = sum(1 for r in rows for t in r["toks"] if any(o["varId"] for o in t["cv"]))
    linked_fun = sum(1 for r in rows for t in r["toks"] if any(o["fun"] for o in t["cv"]))
    shadow = 0
    for r in rows:
        names = {}
        for it in r["prog"]:
            if it["op"] in ("decl", "for"):
                names.setdefault(it["nm"], set()).add(it["id"])
            for sb in it["sub"]:
                if sb["form"] in ("param", "initcap"):
                    names.setdefault(sb["nm"], set()).add(sb["id"])
        if any(len(v) > 1 for v in names.values()) or any(it["op"] == "call" for it in r["prog"]):
            shadow += 1
    samples = []
    for r in rows[:: max(1, len(rows) // 3)][:3]:
        samples.append({"name": r["name"], "source": program_text(r["prog"], r["name"].split(":")[1], 1 if r["mut"] else 0)})
    cov = {
        "evaluations": len(rows), "distinct_nontrivial": shadow,
        "rule": "one evaluation = one generated program (in one language) analysed by cppcheck --dump and clang and judged by TLC; programs are "
                "distinct behaviours of Scopes.tla (digest of the item list); non-trivial = the program declares some name at least twice "
                "(shadowing / same name in different scopes) or calls the overloaded function",
        "samples": samples, "exhaustive": False,
        "profiles": gstats, "tlc_generation": gtl, "programs": len(progs), "translation_units": nunits,
        "name_tokens": tokens, "tokens_with_variable_link": linked_var, "tokens_with_varid": linked_id, "tokens_with_function_link": linked_fun,
        "model_disagreement": len(model), "clang_rejected_programs": len(rejected),
        "model_disagreement_samples": [{"name": b["name"], "items": b["items"][:2]} for b in model[:3]],
        "clang_rejected_samples": [{"err": r["err"][:300], "text": r["text"][:600]} for r in rejected[:3]],
        "violating_programs": len(viol), "violation_classes": len(classes), "known_findings": known,
        "states": gtl["bfs_distinct_states"], "transitions": gtl["bfs_states_generated"],
        "wall_generate_s": round(t_gen, 1), "wall_observe_s": round(t_obs, 1),
    }
    vlib.write_evidence(PID, tier, seed, "exploration", cov, time.time() - t0, violations=new,
                        assumptions=["drivers/scopes_render.py puts every name token where it reports it (checked: a token of that spelling is at the position in the dump)",
                                     "clang 14 implements ISO C++17 / C11 name lookup and overload resolution for the generated constructs",
                                     "tokens cppcheck leaves unlinked are not judged"])
    print("C08 %s: %d programs (%s), %d evaluations in %d units, %d name tokens (%d variable links, %d function links), "
          "%d model disagreements, %d rejected by clang, %d violating programs in %d classes (%d known)"
          % (tier, len(progs), ", ".join("%s=%d" % (k, v["programs"]) for k, v in gstats.items()), len(rows), nunits, tokens, linked_var, linked_fun,
             len(model), len(rejected), len(viol), len(classes), known))
    # a specification that disagrees with the compiler is an error of the check, not of cppcheck
    if len(model) + len(rejected) > max(3, len(rows) // 200):
        raise vlib.InfraError("the specification disagrees with clang on %d programs (+%d rejected); fix Scopes.tla, e.g. %s"
                              % (len(model), len(rejected), json.dumps((model + rejected)[0])[:1500]))
    return rc


def do_replay(path):
    payload = json.load(open(path))
    row = {"prog": payload["prog"], "profile": "replay", "key": vlib.digest(payload["prog"]), "c": payload["lang"] == "c"}
    unit = {"lang": payload["lang"], "variant": payload.get("variant", 0), "progs": [("0", row)]}
    res = run_unit(unit)
    print(res["text"])
    if res["status"] != "ok":
        print("replay: %s %s" % (res["status"], res["err"][:500]))
        return 0
    bad = tlc_judge(res["rows"])
    for b in bad:
        print(json.dumps(b, indent=1))
    if any(b["verdict"] == "violation" for b in bad):
        print("VIOLATION property=%s replay=%s" % (PID, path))
        return 1
    print("replay: no violation reproduced")
    return 0
