"""C31 - file selection and path matching follow the documented rules.

Matcher (mode B, exhaustive strata):
  1. TLC (spec/PathMatchMC.tla, step gen) enumerates every pattern and every path over small alphabets up to a
     length bound; a case is (pattern, path, base path, file mode).
  2. harness/pathmatch_harness.cpp replays every case into the real PathMatch::match (static and member entry point).
  3. TLC (step judge) computes the verdict of every case from the declarative rules of spec/PathMatch.tla and writes
     the cases whose observed result differs from a decided verdict.  TLC also checks the laws of the specification.
File selection (sampled):
  4. TLC (spec/FileSelect.tla, step gen) samples directory trees, input paths, -i and --file-filter patterns.
  5. The check creates each tree in a scratch directory and runs the real binary there (-j1); the
     "Checking <file> ..." lines are the observation.
  6. TLC (step judge) decides: set of analysed files, each once, canonical names, sorted.
Python renders strings <-> character arrays, runs processes and formats; every verdict is TLC's.
"""
import json
import os
import re
import shutil
import time
from concurrent.futures import ThreadPoolExecutor

import vlib

PID = "C31"
META = {
    "cat": "exploration",
    "text": "The documented path-pattern rules (canonicalisation, absolute / relative / free patterns, '*', '**', '?', match up to a "
            "separator, trailing-separator patterns) are written as a declarative TLA+ definition (PathMatch.tla: there is a "
            "delimited part of the canonical path in the language of the canonical pattern); TLC enumerates EVERY pattern and EVERY "
            "path over small alphabets up to a length bound x base paths x file modes, the real PathMatch::match is run on every "
            "case and TLC judges each one; TLC also checks the laws of the definition (re-spelling invariance, widening, literal "
            "patterns, below-a-directory). File selection: TLC samples trees / input paths / -i / --file-filter lists, the real "
            "binary is run on each tree and TLC judges the analysed-file list (exact set, each once, canonical names, sorted). "
            "Exhaustive enumeration within bounds is the right level for a pure string function whose defects show on short strings.",
    "ref": "DESIGN.md section 4 C31",
    "note": "Unix syntax exhaustively; Windows syntax only for letter case and the two separators (no drive / UNC roots, and on this "
            "platform Path::isAbsolute is the unix one); symlinks, project files (--project) and the GUI's exclude list are not exercised. Suppression file patterns use the same PathMatch::match with an empty base path: covered by the "
            "base-path '' stratum of the matcher, not end-to-end (C23). Outcomes the documentation leaves open are not judged "
            "(verdict Open in PathMatch.tla; list in the header of FileSelect.tla). Trusted: TLC, the harness (calls only), the "
            "'Checking <file> ...' lines as the list of analysed files.",
    "technique": "TLA+ declarative function spec, case space enumerated and judged by TLC (conformance replay into PathMatch::match and the cppcheck binary), laws checked by TLC",
}

MAX_PROCS = 5          # parallel TLC / cppcheck processes (machine is shared)
PRINT_CAP = 25         # VIOLATION lines printed per run (all bad cases are stored in the replay directory)


def chars(s):
    return list(s)


def text(a):
    return "".join(a)


# ------------------------------------------------------------------ strata of the matcher
def strata(tier):
    if tier == "quick":
        return [
            {"name": "ab./*?^4 x ab./^4", "pa": "ab./*?", "ta": "ab./", "pn": 4, "tn": 4, "bases": ["", "/b"], "shards": 4},
            {"name": "a/*?.^3 x a/*?^4 (wildcard characters in paths, longer bases)", "pa": "a/*?.", "ta": "a/*?", "pn": 3, "tn": 4,
             "bases": ["/a/b", "/b/"], "shards": 1},
            {"name": "windows syntax: aA\\/.*^3 x aA\\/.^4 (letter case, both separators)", "pa": "aA\\/.*", "ta": "aA\\/.", "pn": 3, "tn": 4,
             "bases": ["", "/B"], "shards": 1, "syntax": "windows"},
            # longer strings over a tiny alphabet: several wildcards of both kinds in one pattern ('*' left of '**' and the other
            # way round) against paths in which the same segment occurs several times - every alignment has to be tried
            {"name": "a/*^6 x a/^7 (several wildcards of both kinds, repeated segments)", "pa": "a/*", "ta": "a/", "pn": 6, "tn": 7,
             "bases": [""], "shards": 2},
        ]
    return [
        {"name": "ab./*?^5 x ab./^5", "pa": "ab./*?", "ta": "ab./", "pn": 5, "tn": 5, "bases": ["", "/b"], "shards": 5},
        {"name": "a/*?.^4 x a./*?^5 (wildcard characters in paths, longer bases)", "pa": "a/*?.", "ta": "a./*?", "pn": 4, "tn": 5,
         "bases": ["/a/b", "/b/"], "shards": 4},
        {"name": "windows syntax: aA\\/.*^4 x aA\\/.^4 (letter case, both separators)", "pa": "aA\\/.*", "ta": "aA\\/.", "pn": 4, "tn": 4,
         "bases": ["", "/B"], "shards": 3, "syntax": "windows"},
        {"name": "a/*^7 x a/^9 (several wildcards of both kinds, repeated segments)", "pa": "a/*", "ta": "a/", "pn": 7, "tn": 9,
         "bases": [""], "shards": 6},
    ]


def law_params(tier):
    # L1, L2: all strings up to lawn+2; L3-L5: all (pattern, path, base) with strings up to lawn
    return {"pa": chars("ab./*?"), "ta": chars("ab./"), "pn": 0, "tn": 0, "bases": [[], chars("/b")],
            "lawn": 2 if tier == "quick" else 3}


def tlc_step(module, env, timeout):
    r = vlib.tlc(module, module + ".cfg", env=env, workers=1, timeout=timeout, xmx="6g")
    return r


def write_lines(path, strings):
    with open(path, "w") as f:
        for s in strings:
            assert "\n" not in s
            f.write(s + "\n")


def matcher_gen(st, work):
    params = {"pa": chars(st["pa"]), "ta": chars(st["ta"]), "pn": st["pn"], "tn": st["tn"],
              "bases": [chars(b) for b in st["bases"]], "lawn": 1, "syntax": st.get("syntax", "unix")}
    pfile = os.path.join(work, "params.ndjson")
    vlib.write_ndjson(pfile, [params])
    env = {"STEP": "gen", "PARAMS": pfile, "PATS": os.path.join(work, "pats.ndjson"), "PATHS": os.path.join(work, "paths.ndjson"),
           "SHARDS": "1", "SHARD": "0"}
    r = tlc_step("PathMatchMC", env, 900)
    if not r.ok:
        raise vlib.InfraError("PathMatchMC gen failed (rc=%s)\n%s" % (r.rc, r.out[-3000:]))
    pats = [text(x["s"]) for x in vlib.read_ndjson(env["PATS"])]
    paths = [text(x["s"]) for x in vlib.read_ndjson(env["PATHS"])]
    if not pats or not paths:
        raise vlib.InfraError("PathMatchMC gen wrote no cases")
    return env, pats, paths


def matcher_harness(exe, st, work, pats, paths):
    write_lines(os.path.join(work, "pats.txt"), pats)
    write_lines(os.path.join(work, "paths.txt"), paths)
    write_lines(os.path.join(work, "bases.txt"), st["bases"])
    rc, out, err = vlib.run([exe, os.path.join(work, "pats.txt"), os.path.join(work, "paths.txt"), os.path.join(work, "bases.txt"),
                             str(st["shards"]), os.path.join(work, "obs"), st.get("syntax", "unix")], timeout=1800)
    if rc != 0:
        raise vlib.InfraError("pathmatch_harness failed rc=%s\n%s" % (rc, (out + err)[-2000:]))
    m = re.search(r"calls (\d+)", out)
    return int(m.group(1)) if m else 0


def matcher_judge(genv, work, k, timeout):
    env = dict(genv, STEP="judge", OBS=os.path.join(work, "obs.%d.ndjson" % k), OUT=os.path.join(work, "bad.%d.ndjson" % k),
               STATS=os.path.join(work, "stats.%d.ndjson" % k))
    r = tlc_step("PathMatchMC", env, timeout)
    if not r.ok:
        raise vlib.InfraError("PathMatchMC judge failed (rc=%s)\n%s" % (r.rc, r.out[-3000:]))
    m = re.search(r'"JUDGE",\s*"ROWS",\s*(\d+),\s*"CASES",\s*(\d+),\s*"BAD",\s*(\d+),\s*"T",\s*(\d+),\s*"F",\s*(\d+),\s*"OPEN",\s*(\d+)', r.out)
    if not m:
        raise vlib.InfraError("PathMatchMC judge gave no verdict\n" + r.out[-2000:])
    nums = dict(zip(("rows", "cases", "bad", "t", "f", "open"), map(int, m.groups())))
    bad = vlib.read_ndjson(env["OUT"])
    if sum(len(b["miss"]) + len(b["extra"]) for b in bad) != nums["bad"]:
        raise vlib.InfraError("PathMatchMC verdict/output mismatch")
    return nums, bad, vlib.read_ndjson(env["STATS"])


def run_laws(tier, work, shards):
    pfile = os.path.join(work, "lawparams.ndjson")
    vlib.write_ndjson(pfile, [law_params(tier)])

    def one(k):
        env = {"STEP": "laws", "PARAMS": pfile, "SHARDS": str(shards), "SHARD": str(k)}
        r = tlc_step("PathMatchMC", env, 3000)
        if r.ok:
            m = re.search(r'"LAWS",\s*"STRINGS",\s*(\d+),\s*"TRIPLES",\s*(\d+)', r.out)
            if not m:
                raise vlib.InfraError("PathMatchMC laws gave no result\n" + r.out[-2000:])
            return {"strings": int(m.group(1)), "triples": int(m.group(2)), "refuted": None}
        if r.violation and "refuted by" in r.out:
            return {"strings": 0, "triples": 0, "refuted": r.out[r.out.index("The first argument of Assert"):][:3000]}
        raise vlib.InfraError("PathMatchMC laws failed (rc=%s)\n%s" % (r.rc, r.out[-3000:]))
    return one


# ------------------------------------------------------------------ file selection
FILE_MENU = ["a.c", "b.cpp", "c.h", "d.txt", "e.C", "x y.c", ".hid.c", "Z.c", "f.cl", "g.CPP", "noext",
             "dir.c/a.c", "dir.c/c.h", "dir.c/k.cc", "src/a.c", "src/b.cpp", "src/m.cxx", "src/sub/a.c", "src/sub/t.tpp",
             "src/sub/deep/u.c++", "src/.h/z.c", "src/sub.c/i.ipp", "lib/a.c", "lib/x y.c", "lib/v.txx", "lib/w.ixx"]
PAT_MENU = [("a.c", 0), ("*.c", 0), ("*.cpp", 0), ("?.c", 0), ("src", 0), ("src/", 0), ("sub", 0), ("sub/", 0), ("src/sub", 0),
            ("src/sub/", 0), ("dir.c", 0), ("dir.c/", 0), ("lib/", 0), ("**/a.c", 0), ("src/**", 0), ("src/*.c", 0), ("src/**/a.c", 0),
            ("src/*/a.c", 0), ("./src", 0), ("./a.c", 0), ("./src/", 0), ("./*.c", 0), ("./lib/../src", 0), (".hid.c", 0), (".*", 0),
            ("x y.c", 0), ("x*", 0), ("* *", 0), ("s*", 0), ("s?c/", 0), ("*/a.c", 0), ("**.c", 0), ("*c", 0), ("src/a.c", 0),
            ("src//a.c", 0), ("src/./a.c", 0), ("src/sub/../a.c", 0), ("lib/../src", 0), ("*.c/", 0), ("?*.c", 0), ("src/?*", 0),
            ("deep", 0), ("**/deep/**", 0), ("*", 0), ("**", 0), ("a.*", 0), ("*.c*", 0), ("b.cpp", 0), ("sub.c", 0), (".h/", 0),
            ("src", 1), ("src/", 1), ("a.c", 1), ("src/*.c", 1), ("", 1), ("**/a.c", 1), ("lib/x y.c", 1), ("src/sub/..", 1)]


BUGGY = "void f(void) { int a[2]; a[2] = 0; }\n"     # content of every file of a tree: one certain finding (arrayIndexOutOfBounds)


def render(entry, cwd):
    """a [s, abs] string of a generated case as the command line gets it"""
    s = text(entry["s"])
    if entry["abs"]:
        return cwd + ("/" + s if s else "")
    return s


def select_gen(n, seed, work):
    params = {"files": [chars(f) for f in FILE_MENU], "pats": [{"s": chars(p), "abs": bool(a)} for p, a in PAT_MENU],
              "n": n, "seed": seed % 1000}
    pfile = os.path.join(work, "selparams.ndjson")
    vlib.write_ndjson(pfile, [params])
    env = {"STEP": "gen", "PARAMS": pfile, "CASES": os.path.join(work, "selcases.ndjson")}
    r = tlc_step("FileSelect", env, 900)
    if not r.ok:
        raise vlib.InfraError("FileSelect gen failed (rc=%s)\n%s" % (r.rc, r.out[-3000:]))
    cases = vlib.read_ndjson(env["CASES"])
    if len(cases) != n:
        raise vlib.InfraError("FileSelect gen wrote %d cases, expected %d" % (len(cases), n))
    return env, cases


def select_run(case, root):
    """Create the tree of one case, run the real binary in it, return the observation for the judge."""
    cwd = os.path.join(root, "t%d" % case["id"])
    os.makedirs(cwd)
    files = [text(f) for f in case["files"]]
    for f in files:
        p = os.path.join(cwd, f)
        os.makedirs(os.path.dirname(p), exist_ok=True)
        with open(p, "w") as fh:
            fh.write(BUGGY)
    inputs = [render(e, cwd) for e in case["inputs"]]
    ign = [render(e, cwd) for e in case["ign"]]
    filt = [render(e, cwd) for e in case["filt"]]
    args = ["-j1", "--template=FINDING|{id}|{file}"] + ["-i" + g for g in ign] + ["--file-filter=" + h for h in filt] + inputs
    rc, out, err = vlib.run_cppcheck(args, cwd=cwd, timeout=120)
    if rc is None or rc < 0:
        raise vlib.InfraError("cppcheck timed out / crashed (rc=%s) in file selection case %s: %s" % (rc, case["id"], args))
    checked = re.findall(r"^Checking (.*) \.\.\.$", out, re.M)
    reported = re.findall(r"^FINDING\|arrayIndexOutOfBounds\|(.*)$", err, re.M)
    shutil.rmtree(cwd, ignore_errors=True)
    return {"id": case["id"], "cwd": chars(cwd), "files": case["files"], "inputs": [chars(x) for x in inputs],
            "ign": [chars(x) for x in ign], "filt": [chars(x) for x in filt], "checked": [chars(x) for x in checked], "reported": [chars(x) for x in reported]}, \
        {"args": args, "rc": rc, "stdout": out[-1500:], "stderr": err[-500:]}


def select_judge(genv, work, obs, k):
    ofile = os.path.join(work, "selobs.%d.ndjson" % k)
    vlib.write_ndjson(ofile, obs)
    env = dict(genv, STEP="judge", OBS=ofile, OUT=os.path.join(work, "selbad.%d.ndjson" % k))
    r = tlc_step("FileSelect", env, 3000)
    if not r.ok:
        raise vlib.InfraError("FileSelect judge failed (rc=%s)\n%s" % (r.rc, r.out[-3000:]))
    m = re.search(r'"JUDGE",\s*"CASES",\s*(\d+),\s*"BAD",\s*(\d+),\s*"DECIDING",\s*(\d+),\s*"WITHOPEN",\s*(\d+),\s*"FILES",\s*(\d+)', r.out)
    if not m:
        raise vlib.InfraError("FileSelect judge gave no verdict\n" + r.out[-2000:])
    nums = dict(zip(("cases", "bad", "deciding", "withopen", "files"), map(int, m.groups())))
    bad = vlib.read_ndjson(env["OUT"])
    if len(bad) != nums["bad"]:
        raise vlib.InfraError("FileSelect verdict/output mismatch")
    return nums, bad


def select_all(n, seed, work, pool):
    genv, cases = select_gen(n, seed, work)
    root = vlib.mktmp("c31")
    results = list(pool.map(lambda c: select_run(c, root), cases))
    obs = [r[0] for r in results]
    runs = {r[0]["id"]: r[1] for r in results}
    nsh = 3 if n <= 1500 else 4
    parts = [obs[k::nsh] for k in range(nsh)]
    judged = list(pool.map(lambda k: select_judge(genv, work, parts[k], k), range(nsh)))
    nums = {key: sum(j[0][key] for j in judged) for key in ("cases", "bad", "deciding", "withopen", "files")}
    bad = [b for j in judged for b in j[1]]
    return cases, obs, runs, nums, bad


def select_key(case):
    return "select:" + vlib.digest({"files": case["files"], "inputs": case["inputs"], "ign": case["ign"], "filt": case["filt"]})


# ------------------------------------------------------------------ main
def pick_shown(unknown):
    """Which failing cases get a VIOLATION line (all are counted, stored and make the check fail): laws first, then the
    smallest case of each failing pattern, a few file selection cases; PRINT_CAP lines at most."""
    out = [c for c in unknown if c["kind"] == "law"][:3]
    sel = [c for c in unknown if c["kind"] == "select"][:6]
    seen = set()
    for c in unknown:
        if c["kind"] != "match" or (c["p"], c["got"]) in seen:
            continue
        seen.add((c["p"], c["got"]))
        out.append(c)
        if len(out) + len(sel) >= PRINT_CAP:
            break
    return out + sel


def match_key(p, t, base, mode, syntax="unix"):
    d = {"p": p, "t": t, "base": base, "mode": mode}
    if syntax != "unix":
        d["syntax"] = syntax
    return "match:" + vlib.digest(d)


def expand_bad(st, pats, paths, bad):
    """judge rows -> list of single failing cases"""
    res = []
    syntax = st.get("syntax", "unix")
    for b in bad:
        p = pats[b["p"] - 1]
        base = st["bases"][b["b"] - 1]
        if b["mode"] == "split":
            res.append({"kind": "match", "syntax": syntax, "p": p, "t": paths[b["extra"][0] - 1], "base": base, "mode": "split", "got": None,
                        "want": "same result from both entry points"})
            continue
        for j in b["miss"]:
            res.append({"kind": "match", "syntax": syntax, "p": p, "t": paths[j - 1], "base": base, "mode": b["mode"], "got": False, "want": True})
        for j in b["extra"]:
            res.append({"kind": "match", "syntax": syntax, "p": p, "t": paths[j - 1], "base": base, "mode": b["mode"], "got": True, "want": False})
    return res


def main(tier, seed, replay=None):
    t0 = time.time()

    def phase(name):
        print("[C31 %6.1fs] %s" % (time.time() - t0, name), flush=True)
    vlib.build()
    exe = vlib.build_harness("pathmatch_harness.cpp")
    phase("built")
    if replay:
        return do_replay(replay, exe)
    work = vlib.mktmp("c31w")
    sts = strata(tier)
    nsel = 240 if tier == "quick" else 3000
    lawshards = 1 if tier == "quick" else 5
    # 1-2: enumerate the matcher case spaces and replay them into the real matcher
    for i, st in enumerate(sts):
        st["work"] = os.path.join(work, "s%d" % i)
        os.makedirs(st["work"])
    with ThreadPoolExecutor(MAX_PROCS) as pool:
        gens = list(pool.map(lambda st: matcher_gen(st, st["work"]), sts))
        for st, (genv, pats, paths) in zip(sts, gens):
            st["genv"], st["pats"], st["paths"] = genv, pats, paths
            st["calls"] = matcher_harness(exe, st, st["work"], pats, paths)
        phase("matcher case spaces enumerated by TLC and replayed into PathMatch::match (%d calls)" % sum(st["calls"] for st in sts))
        # 3-6: judges and laws run in the pool; the file selection part runs beside them from this thread
        law_one = run_laws(tier, work, lawshards)
        jobs = []
        for st in sts:
            for k in range(st["shards"]):
                jobs.append((st, pool.submit(matcher_judge, st["genv"], st["work"], k, 5400)))
        lawjobs = [pool.submit(law_one, k) for k in range(lawshards)]
        with ThreadPoolExecutor(4) as pool2:
            cases, obs, runs, selnums, selbad = select_all(nsel, seed, work, pool2)
        phase("file selection: %d trees run and judged" % nsel)
        for st in sts:
            st["nums"] = {"rows": 0, "cases": 0, "bad": 0, "t": 0, "f": 0, "open": 0}
            st["bad"] = []
            st["stats"] = {}
        for st, fut in jobs:
            nums, bad, stats = fut.result()
            for k2 in st["nums"]:
                st["nums"][k2] += nums[k2]
            st["bad"] += bad
            for s in stats:
                st["stats"][json.dumps([s["pc"], s["real"], s["trail"], s["b"]])] = s
        laws = [f.result() for f in lawjobs]
    phase("matcher judged, laws checked")

    # violations
    allbad = []
    for st in sts:
        for c in expand_bad(st, st["pats"], st["paths"], st["bad"]):
            c["key"] = match_key(c["p"], c["t"], c["base"], c["mode"], c["syntax"])
            c["what"] = 'PathMatch::match(pattern="%s", path="%s", basepath="%s", mode=%s%s) returned %s; the documented rules require %s' % (
                c["p"], c["t"], c["base"], {"reg": "regular", "dir": "directory"}.get(c["mode"], c["mode"]),
                "" if c["syntax"] == "unix" else ", syntax=" + c["syntax"], c["got"], c["want"])
            c["size"] = (len(c["p"]) + len(c["t"]) + len(c["base"]), c["p"], c["t"], c["base"], c["mode"])
            allbad.append(c)
    bycase = {c["id"]: c for c in cases}
    for b in selbad:
        case = bycase[b["id"]]
        parts = ["%s=%s" % (k, [text(x) for x in b[k]]) for k in ("missing", "unexpected", "twice", "badname", "unsorted", "misreported") if b[k]]
        allbad.append({"kind": "select", "case": case, "run": runs[b["id"]], "judgement": b, "key": select_key(case),
                       "what": "file selection: tree %s, cppcheck %s (cwd=<tree>): %s" % (
                           [text(f) for f in case["files"]], " ".join(runs[b["id"]]["args"]), "; ".join(parts)),
                       "size": (1000 + len(case["files"]) + len(case["ign"]) + len(case["filt"]), "", "", "", "")})
    for lw in laws:
        if lw["refuted"]:
            allbad.append({"kind": "law", "key": "law:" + vlib.digest(lw["refuted"][:200]), "what": "a law of PathMatch.tla is refuted: " + lw["refuted"][:600],
                           "tlc": lw["refuted"], "size": (0, "", "", "", "")})
    allbad.sort(key=lambda c: c["size"])
    known = vlib.known_findings(PID)
    unknown = [c for c in allbad if c["key"] not in known]
    shown = [c for c in allbad if c["key"] in known] + pick_shown(unknown)
    violations = []
    for i, c in enumerate(shown):
        payload = {k: v for k, v in c.items() if k not in ("size",)}
        p = vlib.save_replay(PID, "%s-%s" % (c["kind"], c["key"].split(":")[1]), payload)
        violations.append({"key": c["key"], "what": c["what"], "replay": p})
    if allbad:
        allp = vlib.save_replay(PID, "all-%s" % tier, {"kind": "list", "count": len(allbad),
                                                       "cases": [{k: v for k, v in c.items() if k in ("kind", "syntax", "p", "t", "base", "mode", "got", "want", "key", "what", "case")} for c in allbad[:200000]]})
    rc, new, kn = vlib.verdict(PID, violations)
    if len(unknown) > new:
        print("  ... and %d more failing cases, %d distinct failing patterns in all (every failing case of this run: %s)" % (
            len(unknown) - new, len(set(c["p"] for c in unknown if c["kind"] == "match")), allp))
    if unknown:
        rc = 1

    # evidence (measured)
    distinct_t = sum(s["t"] for st in sts for s in st["stats"].values())
    distinct_all = sum(s["t"] + s["f"] + s["open"] for st in sts for s in st["stats"].values())
    mcases = sum(st["nums"]["cases"] for st in sts)
    samples = []
    for st in sts:
        mid = len(st["pats"]) // 2
        samples.append({"matcher_case": {"pattern": st["pats"][mid], "path": st["paths"][len(st["paths"]) // 3], "base": st["bases"][-1], "mode": "reg"}})
    samples.append({"selection_case": {"files": [text(f) for f in cases[0]["files"]], "args": runs[cases[0]["id"]]["args"],
                                       "checked": [text(x) for x in obs[0]["checked"]]}})
    cov = {
        "evaluations": mcases + selnums["cases"],
        "distinct_nontrivial": distinct_t + selnums["deciding"],
        "rule": "matcher: every (pattern, path, base, mode) of the strata below is one evaluation (enumerated by TLC, exhaustive per stratum); "
                "distinct = distinct (canonical pattern, class, trailing flag, base, canonical absolute path[, mode if the pattern has a trailing separator]); "
                "non-trivial = such a tuple whose verdict is a decided MATCH (counted by TLC per judge shard, tuples de-duplicated across shards); "
                "selection: one evaluation per sampled (tree, inputs, -i, --file-filter) run of the real binary; non-trivial = a run in which "
                "a source file under an input path must be excluded by the patterns (counted by TLC)",
        "samples": samples,
        "exhaustive": False,
        "strata": [{"name": st["name"], "pattern_alphabet": st["pa"], "path_alphabet": st["ta"], "max_pattern": st["pn"], "max_path": st["tn"],
                    "bases": st["bases"], "syntax": st.get("syntax", "unix"), "patterns": len(st["pats"]), "paths": len(st["paths"]), "cases": st["nums"]["cases"],
                    "expected_match": st["nums"]["t"], "expected_nomatch": st["nums"]["f"], "open_not_judged": st["nums"]["open"],
                    "disagreements": st["nums"]["bad"], "harness_calls": st["calls"], "exhaustive": True} for st in sts],
        "matcher_distinct_tuples": distinct_all, "matcher_distinct_match_tuples": distinct_t,
        "laws": {"strings": sum(lw["strings"] for lw in laws), "triples": sum(lw["triples"] for lw in laws),
                 "refuted": sum(1 for lw in laws if lw["refuted"])},
        "selection": dict(selnums, trees_sampled=nsel, file_menu=len(FILE_MENU), pattern_menu=len(PAT_MENU)),
        "failing_cases_total": len(allbad), "failing_cases_known": len(allbad) - len(unknown),
    }
    vlib.write_evidence(PID, tier, seed, "exploration", cov, time.time() - t0, violations=len(unknown),
                        assumptions=["unix path syntax (exhaustive strata) and the case / separator part of windows syntax; symlinks excluded (statement)",
                                     "outcomes the documentation leaves open are not judged (verdict Open: empty canonical pattern, unresolvable '..' without root, "
                                     "a free pattern starting in front of the root separator, the root pattern '/', '**' swallowing the separator in front of the final component "
                                     "for trailing-separator patterns, undocumented extensions, order across input paths)",
                                     "the 'Checking <file> ...' lines of a -j1 run are the analysed files in analysis order"])
    print("C31 %s: matcher cases=%d disagreements=%d (open=%d); selection runs=%d bad=%d; laws refuted=%d; failing cases total=%d known=%d" % (
        tier, mcases, sum(st["nums"]["bad"] for st in sts), sum(st["nums"]["open"] for st in sts), selnums["cases"], selnums["bad"],
        cov["laws"]["refuted"], len(allbad), len(allbad) - len(unknown)))
    return rc


# ------------------------------------------------------------------ replay
def do_replay(path, exe):
    payload = json.load(open(path))
    kind = payload.get("kind")
    work = vlib.mktmp("c31r")
    if kind == "match":
        st = {"bases": [payload["base"]], "shards": 1, "syntax": payload.get("syntax", "unix")}
        pfile = os.path.join(work, "params.ndjson")
        vlib.write_ndjson(pfile, [{"pa": [], "ta": [], "pn": 0, "tn": 0, "bases": [chars(payload["base"])], "lawn": 0, "syntax": st["syntax"]}])
        genv = {"PARAMS": pfile, "PATS": os.path.join(work, "pats.ndjson"), "PATHS": os.path.join(work, "paths.ndjson"), "SHARDS": "1", "SHARD": "0"}
        vlib.write_ndjson(genv["PATS"], [{"s": chars(payload["p"])}])
        vlib.write_ndjson(genv["PATHS"], [{"s": chars(payload["t"])}])
        matcher_harness(exe, st, work, [payload["p"]], [payload["t"]])
        print("observed:", open(os.path.join(work, "obs.0.ndjson")).read().strip())
        nums, bad, _stats = matcher_judge(genv, work, 0, 600)
        print("TLC verdicts: match=%d nomatch=%d open=%d (two modes)" % (nums["t"], nums["f"], nums["open"]))
        hit = [c for c in expand_bad(st, [payload["p"]], [payload["t"]], bad) if c["mode"] == payload["mode"]]
        for c in hit:
            print('PathMatch::match(pattern="%s", path="%s", basepath="%s", mode=%s) returned %s; the documented rules require %s' % (
                c["p"], c["t"], c["base"], c["mode"], c["got"], c["want"]))
        if hit:
            print("VIOLATION property=%s replay=%s" % (PID, path))
            return 1
        print("replay: no violation reproduced")
        return 0
    if kind == "select":
        case = payload["case"]
        root = vlib.mktmp("c31")
        o, run = select_run(case, root)
        print("cppcheck %s\nchecked: %s" % (" ".join(run["args"]), [text(x) for x in o["checked"]]))
        nums, bad = select_judge({"PARAMS": "/dev/null"}, work, [o], 0)
        for b in bad:
            print("judgement:", {k: ([text(x) for x in v] if isinstance(v, list) else v) for k, v in b.items()})
        if bad:
            print("VIOLATION property=%s replay=%s" % (PID, path))
            return 1
        print("replay: no violation reproduced")
        return 0
    if kind == "law":
        print(payload.get("tlc", ""))
        print("VIOLATION property=%s replay=%s" % (PID, path))
        return 1
    print("nothing to replay in %s (kind=%s)" % (path, kind))
    return 2
