"""C29 - output is deterministic across runs.

Run.tla is deterministic for one job once the raw findings of every file are fixed (the report sequence is a function of
the inputs); with several jobs only the order may vary. Binding: every input is analysed several times under
perturbations that must not matter - address space layout randomisation on/off, environment size, another argv[0],
MALLOC_PERTURB_/MALLOC_ARENA_MAX, another depth of the working directory, the directory entries created in another
order - and TLC evaluates (Rel.tla): single job: the same finding SEQUENCE and exit status and identical dump files up
to renaming of element ids; several jobs: the same finding multiset and exit status.
"""
import concurrent.futures
import hashlib
import json
import os
import random
import re
import shutil
import time

import projgen
import rel
import runlayer
import vlib

PID = "C29"
META = {
    "cat": "exploration",
    "text": "Each input (generated multi-file projects given as a directory, the shipped samples, excerpts of test/cfg) is analysed repeatedly under "
            "perturbations of everything that must not influence the result (ASLR, environment, argv[0], allocator behaviour, directory depth, "
            "directory enumeration order); TLC judges sequence equality of the reports and equality of the canonicalised dump files for one "
            "job and multiset equality for several jobs. The single-job determinism of the run layer itself is a property of Run.tla (every "
            "action is a function of the logged inputs), which the trace validation of the other checks binds to the code.",
    "ref": "DESIGN.md section 4 C29",
    "note": "Dump files are canonicalised by renaming element ids (hex addresses) in order of first occurrence; the comparison itself is done by "
            "TLC on the digests. Nondeterminism that needs a different machine (other libc, other hash seeds of the C++ runtime) is out of reach.",
    "technique": "repeated runs under perturbation, TLC-judged sequence/multiset relations (Rel.tla)",
}

ID_RE = re.compile(r'\b(0x[0-9a-fA-F]+|[0-9a-fA-F]{8,16})\b')


def canon_dump(text):
    """rename element ids (addresses) in first-occurrence order"""
    ids = {}

    def sub(m):
        s = m.group(0)
        if s not in ids:
            ids[s] = "ID%d" % len(ids)
        return ids[s]
    out = re.sub(r'(?<=")(0x)?[0-9a-fA-F]{6,16}(?=["\s])|(?<= )(0x)?[0-9a-fA-F]{6,16}(?=[" ])', sub, text)
    return hashlib.sha1(out.encode("utf-8", "replace")).hexdigest()


PERTURB = [
    {"name": "plain", "env": {}, "prefix": [], "depth": 0, "order": 0},
    {"name": "noaslr", "env": {}, "prefix": ["setarch", "-R"], "depth": 0, "order": 0},
    {"name": "bigenv", "env": {"VERIF_PAD_%d" % i: "x" * 900 for i in range(40)}, "prefix": [], "depth": 2, "order": 1},
    {"name": "malloc", "env": {"MALLOC_PERTURB_": "165", "MALLOC_ARENA_MAX": "1", "MALLOC_TOP_PAD_": "4096"}, "prefix": [], "depth": 5, "order": 2},
    {"name": "argv0", "env": {"MALLOC_PERTURB_": "7"}, "prefix": [], "depth": 1, "order": 3, "argv0": True},
]


SHIM = {"path": None}


def build_shim():
    """harness/mshuffle.c: LD_PRELOAD allocator shim that hands out small chunks in a seeded random address order"""
    outd = os.path.join(vlib.BUILD, "harness")
    os.makedirs(outd, exist_ok=True)
    so = os.path.join(outd, "libmshuffle.so")
    rc, out, err = vlib.run(["gcc", "-shared", "-fPIC", "-O1", "-o", so, os.path.join(vlib.VERIF, "harness", "mshuffle.c"), "-lpthread"], timeout=300)
    if rc != 0:
        raise vlib.InfraError("cannot build the allocator shim\n" + (out + err)[-1500:])
    SHIM["path"] = so
    for sd in (1, 2, 3):
        PERTURB.append({"name": "shuffle%d" % sd, "env": {"LD_PRELOAD": so, "VERIF_MALLOC_SEED": str(sd)}, "prefix": [], "depth": sd % 2, "order": sd})


def make_tree(files, base, depth, order, seed):
    root = base
    for i in range(depth):
        root = os.path.join(root, "level%d_%s" % (i, "x" * (3 + i)))
    proj = os.path.join(root, "proj")
    os.makedirs(proj)
    names = sorted(files)
    random.Random(seed * 31 + order).shuffle(names)
    if order % 2:
        names.reverse()
    for rel_ in names:
        p = os.path.join(proj, rel_)
        os.makedirs(os.path.dirname(p), exist_ok=True)
        with open(p, "w") as f:
            f.write(files[rel_])
    return proj


def run_input(item):
    name, files, opts, target, dump, seed = item
    base = vlib.mktmp("c29")
    res = []
    for jobs in ([1, 4] if not dump else [1]):
        for pt in PERTURB:
            tree = make_tree(files, os.path.join(base, "%s_j%d" % (pt["name"], jobs)), pt["depth"], pt["order"], seed)
            exe = vlib.cppcheck_bin()
            if pt.get("argv0"):
                link = os.path.join(base, "a_rather_long_name_for_the_same_binary_j%d" % jobs)
                if not os.path.exists(link):
                    os.symlink(exe, link)
                exe = link
            args = list(opts) + ["-j%d" % jobs] + (["--dump"] if dump else []) + [target]
            rc, out, err = vlib.run(pt["prefix"] + [exe] + args, cwd=tree, env=pt["env"], timeout=300)
            fs = projgen.parse_findings(err) + [{"id": "<stderr>", "key": "<stderr>" + s} for s in projgen.stray_output(err)]
            dumps = []
            if dump:
                for dirpath, _d, fns in sorted(os.walk(tree)):
                    for fn in sorted(fns):
                        if fn.endswith(".dump"):
                            with open(os.path.join(dirpath, fn), errors="replace") as f:
                                dumps.append({"id": "<dump>", "key": os.path.relpath(os.path.join(dirpath, fn), tree) + ":" + canon_dump(f.read())})
            res.append((jobs, pt["name"], rc, fs + dumps))
    shutil.rmtree(base, ignore_errors=True)
    return name, res


def load_inputs(tier, seed):
    items = []
    nproj = 6 if tier == "quick" else 60
    for i in range(nproj):
        p = projgen.gen_project(seed * 1000 + 300 + i, nfiles=5)
        opts = [o for o in p["opts"] if not o.startswith("--error-exitcode")] + ["--error-exitcode=2"]
        items.append(("gen%d" % i, p["files"], opts, ".", False, seed))
    base_opts = ["-q", "--template=" + projgen.TEMPLATE, "--enable=all", "--inconclusive", "--error-exitcode=2", "--suppress=missingIncludeSystem"]
    samples = {}
    sdir = os.path.join(vlib.REPO, "samples")
    for d in sorted(os.listdir(sdir)):
        for fn in sorted(os.listdir(os.path.join(sdir, d))):
            if fn.endswith((".c", ".cpp")):
                samples["%s_%s" % (d, fn)] = open(os.path.join(sdir, d, fn), errors="replace").read()
    items.append(("samples", samples, base_opts, ".", False, seed))
    # dump determinism on smaller inputs (dump files are large)
    few = dict(list(samples.items())[: (8 if tier == "quick" else len(samples))])
    items.append(("samples-dump", few, ["-q", "--template=" + projgen.TEMPLATE], ".", True, seed))
    cfgdir = os.path.join(vlib.REPO, "test", "cfg")
    pick = ["std.c", "posix.c"] if tier == "quick" else ["std.c", "posix.c", "std.cpp", "gnu.c", "qt.cpp", "boost.cpp", "windows.cpp"]
    for fn in pick:
        text = open(os.path.join(cfgdir, fn), errors="replace").read()
        lines = text.splitlines(True)
        if tier == "quick":
            lines = lines[:1200]
        lib = fn.split(".")[0]
        items.append(("cfg-" + fn, {fn: "".join(lines)}, base_opts + ["--library=" + lib, "--check-level=exhaustive"], fn, False, seed))
    # class-heavy C++ with inconclusive findings: several findings of the same check are collected in containers before they
    # are reported (the order of such a container must not depend on addresses)
    cls = "".join("class V%d { public: V%d() {} ~V%d() {} virtual int f%d() { return m; } int m; int n; };\n"
                  "class W%d : public V%d { public: int g() { return f%d(); } };\n" % (i, i, i, i, i, i, i) for i in range(12))
    cls += "".join("struct S%d { S%d() : a(0) {} int a; int b%d; char *p; S%d(const S%d &o) : a(o.a) {} };\n" % (i, i, i, i, i) for i in range(8))
    items.append(("classes", {"cls.cpp": cls}, base_opts, "cls.cpp", False, seed))
    items.append(("classes-dump", {"cls.cpp": cls}, ["-q", "--template=" + projgen.TEMPLATE, "--enable=style", "--inconclusive"], "cls.cpp", True, seed))
    tpl = ("template<class T> struct A { T v; T get() const { return v; } };\n"
           "template<class T, int N> struct B { T a[N]; T at(int i) { return a[i]; } };\n"
           + "".join("int f%d() { A<int> a; B<char,%d> b; a.v = %d; return a.get() + b.at(%d); }\n" % (i, i + 1, i, i + 2) for i in range(40)))
    items.append(("templates-dump", {"t.cpp": tpl}, ["-q", "--template=" + projgen.TEMPLATE, "--enable=style"], "t.cpp", True, seed))
    return items


def main(tier, seed, replay=None):
    t0 = time.time()
    vlib.build()
    if SHIM["path"] is None:
        build_shim()
    items = load_inputs(tier, seed)
    if replay:
        want = json.load(open(replay))["input"]
        items = [it for it in items if it[0] == want]
    obs_seq, obs_bag = [], []
    nruns = 0
    with concurrent.futures.ThreadPoolExecutor(max_workers=min(4, vlib.NCPU)) as ex:
        for name, res in ex.map(run_input, items):
            for jobs in sorted(set(r[0] for r in res)):
                rs = [r for r in res if r[0] == jobs]
                for i, (_j, pname, rc, fs) in enumerate(rs):
                    if rc is None:
                        raise vlib.InfraError("cppcheck timeout on %s (%s)" % (name, pname))
                    nruns += 1
                    o = rel.obs("%s/j%d" % (name, jobs), "ref" if i == 0 else "alt", "%s/j%d/%s" % (name, jobs, pname), fs, rc)
                    (obs_seq if jobs == 1 else obs_bag).append(o)
    n1, bad1 = rel.judge("SameSeqAndExit", set(), obs_seq)
    n2, bad2 = rel.judge("SameBagAndExit", set(), obs_bag) if obs_bag else (0, [])
    violations = []
    for b in bad1 + bad2:
        inp = b["group"].split("/")[0]
        p = vlib.save_replay(PID, "nondet-" + vlib.digest([b["group"], b["alt"]]), {"input": inp, "diff": b})
        what = "order or content" if not b["onlyRef"] and not b["onlyAlt"] else "content"
        violations.append({"key": "nondet:%s:%s:%s" % (b["group"], b["alt"].split("/")[-1], what),
                           "what": "%s: run %s differs from %s (%s): onlyRef=%s onlyAlt=%s exit %s/%s" % (b["group"], b["alt"], b["ref"], what, b["onlyRef"][:2], b["onlyAlt"][:2], b["exitRef"], b["exitAlt"]),
                           "replay": p})
    if replay:
        for v in violations:
            print(v["what"])
        if violations:
            print("VIOLATION property=%s replay=%s" % (PID, replay))
            return 1
        print("replay: deterministic")
        return 0
    rc, new, known = vlib.verdict(PID, violations)
    nontrivial = len(set(o["group"] for o in obs_seq + obs_bag if o["findings"]))
    cov = {"evaluations": n1 + n2, "distinct_nontrivial": nontrivial,
           "rule": "one evaluation per (input, job count, perturbation) against the unperturbed run of the same input and job count; non-trivial = (input, job count) group whose runs report findings or dumps",
           "runs": nruns, "inputs": [it[0] for it in items], "perturbations": [p["name"] for p in PERTURB],
           "samples": [{"input": obs_seq[0]["group"], "run": obs_seq[0]["name"], "first_findings": [f["key"][:100] for f in obs_seq[0]["findings"][:3]]}]}
    vlib.write_evidence(PID, tier, seed, "exploration", cov, time.time() - t0, violations=new,
                        assumptions=["setarch -R is available to switch ASLR off", "dump ids are hex numbers of 6-16 digits"])
    return rc
