"""C15 - parallel execution reports exactly what a single job reports.

1. TLC model-checks RunMC.tla (Run.tla driven by RunDrive.tla): for every interleaving of the thread / process
   executor over the scenario constants, the report, the unmatched-suppression set and the exit status equal those
   of the single-job pipeline.
2. The hooked binary runs generated projects with -j1 and -jN under both executors and several schedule seeds;
   every recorded trace must be a behaviour of Run.tla (RunTrace.tla, all invariants at every step).
3. TLC evaluates the relation SameSetAndExit (Rel.tla) between the -j1 observation and every parallel observation.
"""
import json
import os
import time

import projgen
import rel
import runlayer
import runtrace
import vlib

PID = "C15"
META = {
    "cat": "model_checking",
    "text": "TLC explores every interleaving of the thread and the process executor on the run-layer model (Run.tla driven by RunDrive.tla, "
            "reference single-job run in the same state space) and proves report/unmatched/exit equality for the scenario constants; "
            "the model is bound to the code by validating the event traces of real -j1/-jN runs (both executors, several job counts and "
            "schedule-noise seeds) against the same actions, and TLC evaluates the j1-vs-jN relation on the observed reports.",
    "ref": "DESIGN.md section 4 C15, section 9",
    "note": "Analysis of a file is abstracted to the findings it raises; suppression matching results are taken from the logged queries (C23 decides "
            "matching); whole-program ids and the checkers summary are excluded without a build directory, as the statement says. Trusted: hooks at the "
            "linearization points of appendix A, TLC, the trace normaliser (causal merge, renaming only).",
    "technique": "TLA+ model checking (TLC) + trace validation of the hooked binary against Run.tla + TLC-evaluated run relation",
}
# The statement excludes whole-program findings when no build directory is used; the checkers summary
# ("Active checkers: n/m") is not a finding (C25) and legitimately depends on which checkers could run.
EXCLUDE = set(runlayer.WP_IDS) | {"checkersReport"}


def mc_configs(tier):
    """(mode, scenario, jobs, bug, crash, expect_ok)"""
    cfgs = []
    for mode in ("thread", "process"):
        for sc in (1, 2, 3, 4):
            for nj in (2, 3):
                if tier == "quick" and (nj == 3 or sc == 2):
                    continue
                cfgs.append((mode, sc, nj, "none", False, True))
    # non-vacuity: a driver that does not send back the state of consulted non-inline suppressions must be caught
    cfgs.append(("process", 4, 2, "dropSupprSync", False, False))
    # C21 on the design: a worker of f2 may die at any point
    cfgs.append(("process", 1, 2, "none", True, True))
    if tier == "thorough":
        cfgs.append(("process", 3, 2, "none", True, True))
        cfgs.append(("process", 4, 3, "none", True, True))
    return cfgs


def model_check(tier):
    states = trans = 0
    samples = []
    for mode, sc, nj, bug, crash, expect_ok in mc_configs(tier):
        work = vlib.mktmp("mc")
        cfg = os.path.join(work, "RunMC.cfg")
        with open(cfg, "w") as f:
            f.write("SPECIFICATION Spec\nCONSTANTS\n  PMode = \"%s\"\n  NJobs = %d\n  Scenario = %d\n  ExitCode = 1\n  EmitDup = FALSE\n  Bug = \"%s\"\n  Crash = %s\n"
                    "INVARIANT ParallelEqSingle\nINVARIANT Contained\nINVARIANT Invs\nCHECK_DEADLOCK TRUE\n" % (mode, nj, sc, bug, "TRUE" if crash else "FALSE"))
        r = vlib.tlc("RunMC", cfg, workers=min(8, vlib.NCPU), timeout=2400, deadlock=True, xmx="12g")
        if r.error:
            raise vlib.InfraError("RunMC model failure mode=%s sc=%s nj=%s rc=%s\n%s" % (mode, sc, nj, r.rc, r.out[-2500:]))
        if expect_ok and r.violation:
            return None, {"mode": mode, "scenario": sc, "jobs": nj, "violated": r.violated_name(), "tlc": r.out[-4000:]}
        if not expect_ok and r.ok:
            raise vlib.InfraError("RunMC with the deliberately wrong driver '%s' satisfies every invariant: the properties would be vacuous" % bug)
        states += r.distinct
        trans += r.generated
        samples.append({"model": "RunMC", "mode": mode, "scenario": sc, "jobs": nj, "bug": bug, "crash": crash, "distinct": r.distinct, "depth": r.depth, "holds": r.ok})
    return (states, trans, samples), None


VARIANTS_QUICK = [("thread-j2", ["-j2", "--executor=thread"]), ("process-j2", ["-j2", "--executor=process"]),
                  ("thread-j4", ["-j4", "--executor=thread"]), ("process-j3", ["-j3", "--executor=process"])]
VARIANTS_THOROUGH = VARIANTS_QUICK + [("thread-j8", ["-j8", "--executor=thread"]), ("process-j8", ["-j8", "--executor=process"]),
                                      ("thread-j3", ["-j3", "--executor=thread"])]


SHAPES = ["plain", "builddir", "plain", "project"]


def shape_project(proj, shape):
    """The same generated project presented in another way: with a (fresh, per run) build directory, or through a
    compilation database so that the executors take the FileSettings path instead of the plain file list."""
    proj = dict(proj, shape=shape)
    if shape == "project":
        entries = [{"directory": ".", "file": f, "command": "cc -c %s" % ('"%s"' % f if " " in f else f)} for f in proj["sources"]]
        proj["files"] = dict(proj["files"], **{"cc.json": json.dumps(entries)})
        proj["sources"] = ["--project=cc.json"]
    proj["desc"] = proj["desc"] + " shape=" + shape
    return proj


def run_project(proj, variants, seeds):
    root = runlayer.fresh_root(proj["name"])
    projgen.materialize(proj, root)
    nbd = [0]

    def shaped(opts):
        if proj.get("shape") != "builddir":
            return list(opts)
        nbd[0] += 1
        os.mkdir(os.path.join(root, "bd%d" % nbd[0]))      # every run gets an empty build directory (reuse is C18)
        return list(opts) + ["--cppcheck-build-dir=bd%d" % nbd[0]]

    runs = []
    ref = runlayer.run_variant(proj, root, proj["name"] + "/j1", shaped(["-j1"]))
    runs.append(("ref", ref))
    for vname, vopts in variants:
        for sd in seeds:
            r = runlayer.run_variant(proj, root, "%s/%s/s%d" % (proj["name"], vname, sd), shaped(vopts),
                                     env={"CPPCHECK_VERIF_SCHED": str(sd)})
            runs.append(("alt", r))
    runlayer.cleanup(root)
    return runs


def judge_projects(all_runs):
    """all_runs: {projname: (proj, [(role, run)])}. Returns (npairs, bad, trace_result)."""
    observations = {"set": [], "bag": []}
    tr_runs = []
    for pname, (proj, runs) in all_runs.items():
        kind = "bag" if "--emit-duplicates" in proj["opts"] else "set"
        for role, r in runs:
            observations[kind].append(runlayer.observation(pname, role, r))
            if r["rc"] is None:
                raise vlib.InfraError("cppcheck timed out: %s" % r["label"])
            if r["hdr"] is not None:
                tr_runs.append((r["label"], r["hdr"], r["events"]))
    npairs = 0
    bad = []
    if observations["set"]:
        n, b = rel.judge("SameSetAndExit", EXCLUDE, observations["set"])
        npairs += n
        bad += b
    if observations["bag"]:
        n, b = rel.judge("SameBagAndExit", EXCLUDE, observations["bag"])
        npairs += n
        bad += b
    tres = runtrace.validate(tr_runs, keep_dir=os.path.join(vlib.OUT, "replays", PID))
    return npairs, bad, tres


def main(tier, seed, replay=None):
    t0 = time.time()
    vlib.build()
    if replay:
        return do_replay(replay)
    mc, mcviol = model_check(tier)
    violations = []
    if mcviol:
        p = vlib.save_replay(PID, "model-%s-sc%d-j%d" % (mcviol["mode"], mcviol["scenario"], mcviol["jobs"]), mcviol)
        violations.append({"key": "model:%s:%d:%d:%s" % (mcviol["mode"], mcviol["scenario"], mcviol["jobs"], mcviol["violated"]),
                           "what": "RunMC: %s violated" % mcviol["violated"], "replay": p})
        mc = (0, 0, [])
    nproj = 12 if tier == "quick" else 80
    variants = VARIANTS_QUICK if tier == "quick" else VARIANTS_THOROUGH
    seeds = [seed, seed + 1] if tier == "quick" else [seed, seed + 1, seed + 2]
    all_runs = {}
    for i in range(nproj):
        proj = shape_project(projgen.gen_project(seed * 1000 + i), SHAPES[i % len(SHAPES)])
        all_runs[proj["name"]] = (proj, run_project(proj, variants, seeds))
    for k in (1, 2):
        proj = shape_project(projgen.gen_special(k), "plain")
        all_runs[proj["name"]] = (proj, run_project(proj, variants, seeds))
    npairs, bad, tres = judge_projects(all_runs)
    # a rejection / difference is reported only if an immediate re-run of that project reproduces it
    suspects = sorted(set([b["group"] for b in bad] + [rj["label"].split("/")[0] for rj in tres.rejected]))
    confirmed_bad, confirmed_rej = [], []
    if suspects:
        again = {}
        for pname in suspects:
            proj = all_runs[pname][0]
            again[pname] = (proj, run_project(proj, variants, seeds))
        _n2, bad2, tres2 = judge_projects(again)
        confirmed_bad = bad2
        confirmed_rej = tres2.rejected
        for b in confirmed_bad:
            proj, runs = again[b["group"]]
            p = vlib.save_replay(PID, b["group"] + "-rel", dict(runlayer.project_payload(proj, [r for _, r in runs]), diff=b))
            cls = runlayer.explain_parallel_unmatched(proj, b["onlyRef"], b["onlyAlt"]) if "located" in proj else None
            violations.append({"key": cls or "rel:%s:%s" % (vlib.digest(proj["files"]), b["alt"].split("/")[1]),
                               "what": "parallel run differs from -j1: onlyRef=%s onlyAlt=%s exit %s/%s" % (b["onlyRef"][:3], b["onlyAlt"][:3], b["exitRef"], b["exitAlt"]),
                               "replay": p})
        for rj in confirmed_rej:
            pname = rj["label"].split("/")[0]
            proj, runs = again[pname]
            p = vlib.save_replay(PID, pname + "-trace", dict(runlayer.project_payload(proj, [r for _, r in runs]), rejected=rj))
            violations.append({"key": "trace:%s:%s" % (vlib.digest(proj["files"]), (rj["event"] or {}).get("e")),
                               "what": "trace of %s is not a behaviour of Run.tla at line %s event %s (invariant %s)" % (rj["label"], rj["line"], json.dumps(rj["event"])[:300], rj["invariant"]),
                               "replay": p})
    rc, new, known = vlib.verdict(PID, violations)
    nruns = sum(len(v[1]) for v in all_runs.values())
    sample_proj = next(iter(all_runs.values()))
    cov = {
        "states": mc[0] + tres.states, "transitions": mc[1] + tres.transitions,
        "traces_validated_against_impl": tres.validated,
        "samples": mc[2][:4] + [{"project": sample_proj[0]["desc"], "opts": sample_proj[0]["opts"],
                                 "runs": [r["label"] for _, r in sample_proj[1]][:6],
                                 "ref_findings": [f["key"] for f in sample_proj[1][0][1]["findings"]][:6]}],
        "evaluations": nruns, "distinct_nontrivial": len([1 for v in all_runs.values() if v[1][0][1]["findings"]]),
        "rule": "generated projects (projgen seed*1000+i) x {thread,process} x job counts x schedule seeds; non-trivial = project whose -j1 run reports at least one finding",
        "relation_pairs": npairs, "relation_bad_first_pass": len(bad), "trace_rejected_first_pass": len(tres.rejected),
        "trace_events": tres.events, "projects": nproj, "model_configs": len(mc[2]),
    }
    vlib.write_evidence(PID, tier, seed, "model_checking", cov, time.time() - t0, violations=new,
                        assumptions=["the analysis of a file is abstracted to the findings it raises (constants in the model, logged events in traces)",
                                     "Suppression::isSuppressed results are taken from the SupprQuery events (matching itself is C23)",
                                     "hooks emit at the linearization points listed in DESIGN.md appendix A"])
    return rc


def do_replay(path):
    payload = json.load(open(path))
    if "project" not in payload:
        print("model counterexample, see file: %s" % path)
        print(payload.get("tlc", "")[-3000:])
        return 1
    proj = payload["project"]
    runs = run_project(proj, VARIANTS_QUICK, [1, 2])
    npairs, bad, tres = judge_projects({proj["name"]: (proj, runs)})
    for b in bad:
        print("DIFF", json.dumps(b))
    for rj in tres.rejected:
        print("REJECTED", json.dumps(rj)[:1500])
    if bad or tres.rejected:
        print("VIOLATION property=%s replay=%s" % (PID, path))
        return 1
    print("replay: no violation reproduced (%d pairs, %d traces)" % (npairs, tres.validated))
    return 0
