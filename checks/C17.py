"""C17 - a file's findings do not depend on the other files in the run.

TLC enumerates the histories (FileSeq.tla: every sequence of distinct files of a crafted pool up to length K); the
hooked binary analyses every sequence and every file alone with identical options; TLC evaluates UnionOfParts
(Rel.tla): the report of a run over several files is the union of the reports of the runs over each file alone
(whole-program ids excluded) and it fails iff one of them fails. Every run's trace is validated against Run.tla,
whose state carries exactly what survives from one file to the next (suppression list, duplicate lists, exit flag).
"""
import concurrent.futures
import json
import os
import random
import shutil
import time

import projgen
import rel
import runlayer
import runtrace
import vlib

PID = "C17"
META = {
    "cat": "model_checking",
    "text": "TLC enumerates all orders of all subsets (up to a length bound) of a pool of files crafted around the state that survives between "
            "files in one process (inline suppressions incl. macro form, duplicate filter, early-return paths, shared headers, same base names); "
            "each history and each file alone is analysed by the hooked binary; TLC judges report(history) = union of report(file alone) and "
            "validates every trace against Run.tla (one action per critical section, invariants at every step).",
    "ref": "DESIGN.md section 4 C17",
    "note": "Whole-program ids and the checkers summary are excluded as the statement says; no global command line suppressions are used because "
            "their unmatched reports are properties of the whole run, not of a file. Trusted: template output parsing, hooks, TLC.",
    "technique": "TLC-enumerated file histories, TLC-evaluated relation over observed runs, trace validation against Run.tla",
}

EXCLUDE = set(runlayer.WP_IDS) | {"checkersReport"}

POOL = {
    "m1.c": "// cppcheck-suppress-macro zerodiv\n#define DIV(x) (1/(x))\nint m1(void) { return DIV(0); }\n",
    "m2.c": "#define DIV(x) (2/(x))\nint m2(void) { return DIV(0); }\n",
    "h1.c": "#include \"h.h\"\nint h1(void) { int a[2]; a[3] = 0; return a[0] + hdr(); }\n",
    "h2.c": "#include \"h.h\"\nint h2(int *p) { int x; x = p; return x + hdr(); }\n",
    "e1.c": "int e1(void) { return 1 / 0; }\n#error stop here\n",
    "i1.c": "// cppcheck-suppress-file unreadVariable\nvoid i1(void) { int v; v = 1; }\nint i1b(void) { int *p = 0; return *p; }\n",
    "s1.c": "void s1(void) { int v; v = 1; }\n",
    "u1.c": "// cppcheck-suppress nullPointer\nint u1(int x) { return x / 0; }\n",
    "d1/x.c": "int xa(void) { int *p = 0; return *p; }\n",
    "d2/x.c": "int xb(void) { int u; return u; }\n",
    "b1.c": "// cppcheck-suppress-begin uninitvar\nint b1(void) { int u; return u; }\n// cppcheck-suppress-end uninitvar\nint b1b(void) { int w; return w; }\n",
}
# files whose path is a suffix of another file's path: an inline suppression belongs to exactly the file it was read from
# ("i1.c" suppresses unreadVariable for the whole file - "ai1.c" must keep its finding; "x.c" suppresses nullPointer for the
# whole file - "d1/x.c" must keep its finding)
POOL["ai1.c"] = "void ai1(void) { int v; v = 1; }\n"
POOL["x.c"] = "// cppcheck-suppress-file nullPointer\nint xt(void) { int *p = 0; return *p; }\nint xt2(int d) { return 3 / d; }\n"

# per-file project settings: p1.c is compiled with -DP1, p2.c without; both guard a finding with #ifdef P1. Sequences that
# contain one of them are analysed through a compilation database (the FileSettings path of the executors), where the
# defines of one entry must not reach the next entry
PROJECT_DEFINES = {"p1.c": ["-DP1"], "p2.c": []}
POOL["p1.c"] = "#ifdef P1\nint p1(void) { int a[2]; return a[2]; }\n#endif\nint p1b(int x) { return x / 0; }\n"
POOL["p2.c"] = "#ifdef P1\nint p2(void) { int b[2]; return b[3]; }\n#endif\nint p2b(int x) { return x / 0; }\n"

EXTRA = {"h.h": "#ifndef H_H\n#define H_H\n// cppcheck-suppress unreadVariable\nstatic int hdr(void) { int h[2]; h[4] = 0; int q; q = 2; return h[0]; }\n#endif\n"}

OPTS = ["-q", "--template=" + projgen.TEMPLATE, "--inline-suppr", "--enable=style,warning,portability,information",
        "--suppress=missingIncludeSystem", "--error-exitcode=3"]


def tlc_sequences(pool, k):
    work = vlib.mktmp("c17gen")
    pin = os.path.join(work, "pool.ndjson")
    out = os.path.join(work, "seqs.ndjson")
    vlib.write_ndjson(pin, [{"files": pool, "k": k}])
    r = vlib.tlc("FileSeq", "FileSeq.cfg", env={"POOL": pin, "OUT": out}, timeout=900)
    if not r.ok:
        raise vlib.InfraError("FileSeq.tla failed\n" + r.out[-2000:])
    return [row["files"] for row in vlib.read_ndjson(out)]


def run_seq(root, files, label, extra):
    if any(f in PROJECT_DEFINES for f in files):
        cc = "cc-%s.json" % vlib.digest([label, files])
        with open(os.path.join(root, cc), "w") as f:
            json.dump([{"directory": ".", "file": x, "command": " ".join(["cc"] + PROJECT_DEFINES.get(x, []) + ["-c", x])} for x in files], f)
        proj = {"opts": OPTS, "sources": ["--project=" + cc]}
    else:
        proj = {"opts": OPTS, "sources": files}
    return runlayer.run_variant(proj, root, label, extra)


def main(tier, seed, replay=None):
    t0 = time.time()
    vlib.build()
    pool = sorted(POOL)
    if replay:
        payload = json.load(open(replay))
        seqs = [payload["files"]]
        variants = [(payload.get("variant", "j1"), payload.get("extra", ["-j1"]))]
    else:
        k = 3 if tier == "quick" else 4
        seqs = tlc_sequences(pool, k)
        rnd = random.Random(seed)
        if tier == "quick":
            pairs = [s for s in seqs if len(s) == 2]
            triples = rnd.sample([s for s in seqs if len(s) == 3], 70)
            seqs = pairs + triples
        else:
            quads = [s for s in seqs if len(s) == 4]
            seqs = [s for s in seqs if len(s) in (2, 3)] + rnd.sample(quads, min(len(quads), 1500))
        variants = [("j1", ["-j1"])]
    root = runlayer.fresh_root("c17")
    projgen.materialize({"files": dict(POOL, **EXTRA)}, root)
    observations = []
    tr_runs = []
    alone = {}
    for f in pool:
        r = run_seq(root, [f], "alone/" + f, ["-j1"])
        alone[f] = r
        observations.append(rel.obs("pool", "ref", f, r["findings"] + [{"id": "<stderr>", "key": s} for s in r["stray"]], r["rc"]))
        tr_runs.append((r["label"], r["hdr"], r["events"]))
    seq_runs = {}

    def do(item):
        i, s = item
        out = []
        for vname, extra in variants:
            label = "seq%d/%s/%s" % (i, vname, "+".join(s))
            out.append((label, s, vname, extra, run_seq(root, s, label, extra)))
        return out

    with concurrent.futures.ThreadPoolExecutor(max_workers=min(10, vlib.NCPU)) as ex:
        for res in ex.map(do, list(enumerate(seqs))):
            for label, s, vname, extra, r in res:
                if r["rc"] is None:
                    raise vlib.InfraError("cppcheck timeout in " + label)
                o = rel.obs("pool", "alt", label, r["findings"] + [{"id": "<stderr>", "key": x} for x in r["stray"]], r["rc"], parts=list(s))
                observations.append(o)
                seq_runs[label] = (s, vname, extra, r)
                tr_runs.append((label, r["hdr"], r["events"]))
    npairs, bad = rel.judge("UnionOfParts", EXCLUDE, observations)
    if bad and not replay:
        # a deviation is reported only if a second execution of the same sequence repeats it (same class key); the
        # machine may be heavily loaded and a run that could not start must not count as a finding of the property
        again = [o for o in observations if o["role"] == "ref"]
        for b in bad:
            s, vname, extra, r = seq_runs[b["alt"]]
            r2 = run_seq(root, s, b["alt"], extra)
            again.append(rel.obs("pool", "alt", b["alt"], r2["findings"] + [{"id": "<stderr>", "key": x} for x in r2["stray"]], r2["rc"], parts=list(s)))
        _, bad2 = rel.judge("UnionOfParts", EXCLUDE, again)
        keys2 = {(b2["alt"], classify(seq_runs[b2["alt"]][0], b2)) for b2 in bad2}
        unrepeated = [b for b in bad if (b["alt"], classify(seq_runs[b["alt"]][0], b)) not in keys2]
        for b in unrepeated:
            print("note: deviation of %s not repeated by a second execution, not reported: %s" % (b["alt"], classify(seq_runs[b["alt"]][0], b)))
        bad = [b for b in bad if b not in unrepeated]
    runlayer.cleanup(root)
    # trace validation of a seeded sample (all of them in thorough would dominate the run time)
    rnd = random.Random(seed + 7)
    sample = tr_runs if len(tr_runs) <= 120 else tr_runs[:len(pool)] + rnd.sample(tr_runs[len(pool):], 110 if tier == "quick" else 600)
    tres = runtrace.validate(sample, keep_dir=os.path.join(vlib.OUT, "replays", PID))
    violations = []
    for b in bad:
        s, vname, extra, r = seq_runs[b["alt"]]
        key = "order:%s:%s" % (",".join(s), ";".join(sorted(k.split("|")[0] + ":" + k.split("|")[5] for k in b["onlyRef"])) + "/" +
                               ";".join(sorted(k.split("|")[0] + ":" + k.split("|")[5] for k in b["onlyAlt"])))
        p = vlib.save_replay(PID, "seq-" + vlib.digest(s), {"files": s, "variant": vname, "extra": extra, "diff": b})
        for key in classify_all(s, b):
            violations.append({"key": key, "what": "files %s: missing=%s extra=%s exit union/run %s/%s" % (s, b["onlyRef"], b["onlyAlt"], b["exitRef"], b["exitAlt"]), "replay": p})
    for rj in tres.rejected:
        p = vlib.save_replay(PID, "trace-" + vlib.digest(rj["label"]), rj)
        violations.append({"key": "trace:%s:%s" % ((rj["event"] or {}).get("e"), rj["invariant"]),
                           "what": "trace %s rejected at line %s (%s)" % (rj["label"], rj["line"], json.dumps(rj["event"])[:200]), "replay": p})
    if replay:
        for v in violations:
            print(v["what"])
        if violations:
            print("VIOLATION property=%s replay=%s" % (PID, replay))
            return 1
        print("replay: no violation")
        return 0
    rc, new, known = vlib.verdict(PID, violations)
    cov = {"states": tres.states + len(seqs), "transitions": tres.transitions + len(seqs), "traces_validated_against_impl": tres.validated,
           "evaluations": len(seqs) * len(variants) + len(pool), "distinct_nontrivial": len(seqs),
           "rule": "sequences of distinct pool files enumerated by TLC (FileSeq.tla); quick = all ordered pairs + 70 seeded triples; "
                   "thorough = all pairs and triples + 1500 seeded 4-sequences; every sequence has >=2 files with findings or suppressions (non-trivial)",
           "pool": pool, "relation_checked": npairs, "relation_bad": len(bad), "trace_rejected": len(tres.rejected),
           "samples": [{"files": seqs[0]}, {"files": seqs[len(seqs) // 2]}, {"files": seqs[-1]},
                       {"alone": "u1.c", "findings": [f["key"] for f in alone["u1.c"]["findings"]]}]}
    vlib.write_evidence(PID, tier, seed, "model_checking", cov, time.time() - t0, violations=new,
                        assumptions=["findings identified by (file,line,column,severity,certainty,id,message) from --template output"])
    return rc


def classify_all(s, b):
    """Identities of a deviation for known-findings: the known root causes that explain part of it (one key each) and,
    if something is left unexplained, which finding of which file went missing/appeared after which other files."""
    def short(k):
        p = k.split("|")
        return "%s:%s" % (p[0], p[5])
    miss = sorted(short(k) for k in b["onlyRef"])
    extra = sorted(short(k) for k in b["onlyAlt"])
    keys = []

    def before(a_, b_):
        return a_ in s and b_ in s and s.index(a_) < s.index(b_)
    # macro-type inline suppression of an earlier file hides the same-named macro's finding in a later file
    if "m2.c:zerodiv" in miss and before("m1.c", "m2.c"):
        keys.append("macro-suppression-leaks:m1.c-before-m2.c")
        miss.remove("m2.c:zerodiv")
    # a file-level inline suppression of a top-level file also hides the finding of a file with the same name in a
    # sub-directory that is analysed later in the same process (the file name of an inline suppression is used as a pattern)
    if "d1/x.c:nullPointer" in miss and before("x.c", "d1/x.c"):
        keys.append("inline-suppression-leaks-to-same-named-file-in-subdirectory:x.c-before-d1/x.c")
        miss.remove("d1/x.c:nullPointer")
    if miss or extra or not keys:
        keys.append("order:%s:missing=%s:extra=%s:exit=%s/%s" % (",".join(s), ";".join(miss), ";".join(extra), b["exitRef"], b["exitAlt"]))
    return keys


def classify(s, b):
    return "+".join(classify_all(s, b))
