"""C11 - preprocessing matches a conforming preprocessor.

1. TLC (spec/Cpp.tla, step "gen") writes the cases: two exhaustive strata (one function-like macro with every
   body of <= SMALLN tokens x a list of source lines; an object-like + a function-like macro with every pair of
   bodies of <= 2 tokens) and three seeded strata (macro expansion; conditional inclusion with -D/-U; #include
   search over a file tree with -I order and a forced include). Step "laws" checks laws of the semantics itself.
2. drivers/c11_run.py materialises the files, runs `cppcheck -E` and the second witness `gcc -E -P -undef
   -nostdinc` and tokenises both outputs.
3. TLC (step "judge") computes the expected token sequence of every case and the verdict: a case counts against
   cppcheck only if the spec and gcc agree on it (otherwise: model_disagreement, counted in the evidence).
4. Failing cases are reduced (a file / line / token / option removed while the verdict stays "bad"); the cores
   are re-run alone, re-judged and reported, keyed by the core.
"""
import concurrent.futures as cf
import json
import os
import re
import shutil
import sys
import time

import vlib

sys.path.insert(0, os.path.join(vlib.VERIF, "drivers"))
import c11_run  # noqa: E402

PID = "C11"
META = {
    "cat": "exploration",
    "text": "A TLA+ semantics of a conforming preprocessor (macro replacement with hide sets, #, ##, placemarkers, __VA_ARGS__, "
            "conditional inclusion with integer expressions, #include search, -D/-U/-I/--include) gives the expected token sequence "
            "of TLC-generated cases; `cppcheck -E` must produce it. Two strata are enumerated exhaustively, three are seeded samples; "
            "equivalence over all sources is not claimed.",
    "ref": "DESIGN.md section 4 C11",
    "note": "Second witness: a case counts only if `gcc -E -P -undef -nostdinc -std=c11` produces exactly the spec's tokens "
            "(disagreements are counted as model_disagreement). Sources avoid predefined macros, __LINE__/__FILE__/__COUNTER__, pragmas, "
            "__VA_OPT__, redefinitions and unresolvable includes; constructs the standard leaves undefined are not judged. "
            "Trusted: the output tokeniser of the driver, the -D/-include emulation in the gcc umbrella file, TLC.",
    "technique": "TLA+ function spec (Cpp.tla): TLC-generated cases replayed into cppcheck -E and gcc -E, TLC-judged token sequences",
}

WORKERS = 6
JUDGES = 4
GENS = 4
BATCH = 300

TIERS = {
    # REDUCE: how many of the failing cases of the seeded stratum "expand" are reduced to cores (the smallest ones)
    "quick": {"SMALLN": 3, "NEXPAND": 2500, "NCOND": 1000, "NINCLUDE": 400, "REDUCE": 25},
    "thorough": {"SMALLN": 4, "NEXPAND": 60000, "NCOND": 20000, "NINCLUDE": 6000, "REDUCE": 300},
}
ENV0 = {"SEED": "0", "SMALLN": "3", "STRATUM": "none", "FROM": "0", "TO": "0", "OUT": "/dev/null", "CASES": "/dev/null", "OBS": "/dev/null"}


def tlc_step(step, env, timeout, xmx="8g", must_pass=True):
    """Like vlib.tlc, with a larger Java stack on the command line: TLC evaluates the recursive operators of Cpp.tla
    (one frame per token / per case) on the main thread, whose stack size only the launcher option -Xss sets."""
    e = dict(ENV0, STEP=step)
    e.update({k: str(v) for k, v in env.items()})
    meta = vlib.mktmp("tlcmeta")
    cmd = ["java", "-XX:+UseParallelGC", "-Xss512m", "-Xmx" + xmx, "-cp", vlib.TLA_CP, "tlc2.TLC", "-metadir", meta, "-workers", "1",
           "-deadlock", "-config", "Cpp.cfg", "Cpp.tla"]
    t0 = time.time()
    rc, out, err = vlib.run(cmd, cwd=vlib.SPEC, env=e, timeout=timeout)
    shutil.rmtree(meta, ignore_errors=True)
    if rc is None:
        raise vlib.InfraError("TLC timeout (%ss) on Cpp step=%s\n%s" % (timeout, step, out[-2000:]))
    r = vlib.TLCResult(rc, out + err, time.time() - t0)
    if r.error or (must_pass and not r.ok):
        raise vlib.InfraError("model failure in Cpp.tla step=%s rc=%s\n%s" % (step, r.rc, r.out[-3000:]))
    return r


def stat(out, name):
    m = re.search(r'<<"%s",\s*(\d+)>>' % name, out)
    if not m:
        raise vlib.InfraError("Cpp.tla: no %s in the output\n%s" % (name, out[-1500:]))
    return int(m.group(1))


GEN_CHUNK = 4000


def gen(tier, seed, work):
    """One TLC run per stratum / per chunk of a seeded stratum, GENS at a time. Returns rows with global ids."""
    t = TIERS[tier]
    jobs = [("small", 0, 0), ("pair", 0, 0)]
    for name, n in (("expand", t["NEXPAND"]), ("cond", t["NCOND"]), ("include", t["NINCLUDE"])):
        for lo in range(1, n + 1, GEN_CHUNK):
            jobs.append((name, lo, min(n, lo + GEN_CHUNK - 1)))

    def one(j):
        name, lo, hi = j
        out = os.path.join(work, "cases-%s-%d.ndjson" % (name, lo))
        r = tlc_step("gen", dict(SEED=seed, SMALLN=t["SMALLN"], STRATUM=name, FROM=lo, TO=hi, OUT=out), timeout=3000, xmx="6g")
        rows = vlib.read_ndjson(out)
        os.unlink(out)
        if len(rows) != stat(r.out, "GEN"):
            raise vlib.InfraError("Cpp gen: count mismatch")
        return rows

    rows = []
    with cf.ThreadPoolExecutor(max_workers=GENS) as ex:
        for part in ex.map(one, jobs):
            for r in part:
                r["id"] = len(rows) + 1
                rows.append(r)
    return rows


def laws(tier, seed):
    r = tlc_step("laws", dict(SEED=seed, SMALLN=TIERS[tier]["SMALLN"]), timeout=3000, must_pass=False)
    return stat(r.out, "LAWS"), stat(r.out, "BAD")


def log(msg):
    print("[C11 %s] %s" % (time.strftime("%H:%M:%S"), msg), file=sys.stderr, flush=True)


def observe(pool, rows, work, batch=BATCH):
    """rows: [{id, case}] -> {id: {"cppcheck": .., "gcc": ..}}"""
    groups = {}
    for r in rows:
        groups.setdefault(c11_run.option_key(r["case"]), []).append((r["id"], r["case"]))
    jobs = []
    for _key, items in sorted(groups.items()):
        for i in range(0, len(items), batch):
            jobs.append((items[i:i + batch], os.path.join(work, "b%d" % len(jobs))))
    jobs.sort(key=lambda j: -len(j[0]))
    obs = {}
    for res in pool.map(c11_run.run_batch, jobs, chunksize=1):
        for cid, o in res:
            obs[cid] = o
    return obs, len(jobs)


def judge(rows, obs, work, tag, parts=JUDGES):
    """Returns ({id: verdict row} for the verdicts bad / model, stats)."""
    parts = max(1, min(parts, len(rows) // 300 + 1))
    chunks = [rows[i::parts] for i in range(parts)]

    def one(i):
        cp = os.path.join(work, "jc-%s-%d.ndjson" % (tag, i))
        op = os.path.join(work, "jo-%s-%d.ndjson" % (tag, i))
        bp = os.path.join(work, "jb-%s-%d.ndjson" % (tag, i))
        vlib.write_ndjson(cp, [{"id": r["id"], "case": r["case"]} for r in chunks[i]])
        vlib.write_ndjson(op, [{"id": r["id"], "cppcheck": {"ok": obs[r["id"]]["cppcheck"]["ok"], "toks": obs[r["id"]]["cppcheck"]["toks"],
                                                            "kind": c11_run.error_kind(obs[r["id"]]["cppcheck"]["msg"])},
                                "gcc": {"ok": obs[r["id"]]["gcc"]["ok"], "toks": obs[r["id"]]["gcc"]["toks"]}} for r in chunks[i]])
        r = tlc_step("judge", {"CASES": cp, "OBS": op, "OUT": bp}, timeout=3000, xmx="6g")
        rows_bad = vlib.read_ndjson(bp)
        st = {k: stat(r.out, k) for k in ("JUDGED", "OK", "BAD", "MODEL", "UNDEFINED", "NONTRIVIAL")}
        if st["BAD"] + st["MODEL"] != len(rows_bad):
            raise vlib.InfraError("Cpp judge: verdict/output mismatch")
        for f in (cp, op, bp):
            os.unlink(f)
        return rows_bad, st

    res = {}
    stats = {}
    with cf.ThreadPoolExecutor(max_workers=parts) as ex:
        for rows_bad, st in ex.map(one, range(parts)):
            for b in rows_bad:
                res[b["id"]] = b
            for k, v in st.items():
                stats[k] = stats.get(k, 0) + v
    return res, stats


def minimise(pool, failing, work, max_rounds=25):
    """failing: [case]. Greedy reduction, two waves per round. Wave a: every one-step reduction (c11_run.reduction_ops: an
    option / file / line / token removed, a token replaced by the plainest of its kind) of every current case is run and judged.
    Wave b: the first n, n/2, n/4, ... of the reductions that kept the verdict "bad" are applied together; the case moves to the
    largest combination that is still "bad" (at least the first single reduction). A case without such a reduction is a core.
    Returns ({core key: [core case, number of failing cases reduced to it]}, rounds, extra runs)."""
    verdict = {}          # case key -> True ("bad") / False

    def decide(cases, tag):
        todo = {}
        for c in cases:
            k = c11_run.case_key(c)
            if k not in verdict:
                todo[k] = c
        if not todo:
            return 0
        keys = sorted(todo)
        rows = [{"id": i + 1, "case": todo[k]} for i, k in enumerate(keys)]
        obs, _ = observe(pool, rows, os.path.join(work, "min-" + tag))
        res, _st = judge(rows, obs, work, "min-" + tag)
        for i, k in enumerate(keys):
            verdict[k] = (i + 1) in res and res[i + 1]["v"] == "bad"
        return len(rows)

    def add(d, c, n):
        k = c11_run.case_key(c)
        if k in d:
            d[k][1] += n
        else:
            d[k] = [c, n]

    current = {}
    for c in failing:
        add(current, c, 1)
    cores = {}
    rounds = runs = 0
    while current and rounds < max_rounds:
        rounds += 1
        singles = {k: [(op, c11_run.apply_ops(c, [op])) for op in c11_run.reduction_ops(c)] for k, (c, _n) in current.items()}
        runs += decide([r for k in current for _op, r in singles[k]], "r%da" % rounds)
        good = {k: [op for op, r in singles[k] if verdict[c11_run.case_key(r)]] for k in current}
        combos = {}
        for k, (c, _n) in current.items():
            n = len(good[k])
            sizes = []
            while n >= 2:
                sizes.append(n)
                n //= 2
            combos[k] = [c11_run.apply_ops(c, good[k][:m]) for m in sizes]
        runs += decide([r for k in current for r in combos[k]], "r%db" % rounds)
        nxt = {}
        for k, (c, n) in current.items():
            if not good[k]:
                add(cores, c, n)
                continue
            target = next((r for r in combos[k] if verdict[c11_run.case_key(r)]), None)
            add(nxt, target if target is not None else c11_run.apply_ops(c, good[k][:1]), n)
        log("reduction round %d: %d cases -> %d, %d cores so far, %d runs" % (rounds, len(current), len(nxt), len(cores), runs))
        current = nxt
    for k, (c, n) in current.items():     # round limit reached
        add(cores, c, n)
    return cores, rounds, runs


def violation_of(core, n, ob, verdict_row, key=None):
    key = re.sub(r"[^A-Za-z0-9_.:+#-]+", "-", key or "core:" + c11_run.case_key(core)).strip("-")     # no blanks in a known-findings key
    payload = {"case": core, "shown": c11_run.show(core).splitlines(), "expected": verdict_row["expected"],
               "cppcheck": ob["cppcheck"], "gcc": ob["gcc"], "reduced_from": n}
    p = vlib.save_replay(PID, re.sub(r"[^A-Za-z0-9_.-]+", "-", key)[:80], payload)
    what = "cppcheck -E differs from the conforming token sequence (spec = gcc); %d failing case(s) reduce to this core\n%s\n    expected: %s\n    cppcheck: %s%s" % (
        n, "\n".join("    " + l for l in payload["shown"]), " ".join(verdict_row["expected"]), " ".join(ob["cppcheck"]["toks"]),
        ("   [" + ob["cppcheck"]["msg"] + "]") if ob["cppcheck"]["msg"] else "")
    return {"key": key, "what": what, "replay": p}


def main(tier, seed, replay=None):
    t0 = time.time()
    vlib.build()
    if replay:
        return do_replay(replay)
    work = vlib.mktmp("c11")
    shutil.rmtree(os.path.join(vlib.OUT, "replays", PID), ignore_errors=True)
    with cf.ProcessPoolExecutor(max_workers=WORKERS) as pool, cf.ThreadPoolExecutor(max_workers=1) as bg:
        lawf = bg.submit(laws, tier, seed)
        rows = gen(tier, seed, work)
        t1 = time.time()
        log("generated %d cases" % len(rows))
        run_rows = [r for r in rows if r["defined"]]
        obs, nb = observe(pool, run_rows, os.path.join(work, "runs"))
        t2 = time.time()
        res, stats = judge(run_rows, obs, work, "main")
        t3 = time.time()
        log("judged: %s" % stats)
        by_id = {r["id"]: r for r in run_rows}
        bad_ids = sorted(i for i, b in res.items() if b["v"] == "bad")
        model_ids = sorted(i for i, b in res.items() if b["v"] == "model")
        # deviations in a described class (Cpp!Class) are reported once per class with their smallest example; the others are reduced
        classes = {}

        def note_class(cl, case, n):
            e = classes.setdefault(cl, {"count": 0, "case": None})
            e["count"] += n
            if e["case"] is None or (c11_run.size(case), c11_run.case_key(case)) < (c11_run.size(e["case"]), c11_run.case_key(e["case"])):
                e["case"] = case

        other_ids = []
        for i in bad_ids:
            if res[i]["class"] == "other":
                other_ids.append(i)
            else:
                note_class(res[i]["class"], by_id[i]["case"], 1)
        # of the seeded expand stratum only the REDUCE smallest unclassified failing cases are reduced
        exp_bad = sorted([i for i in other_ids if by_id[i]["stratum"] == "expand"], key=lambda i: (c11_run.size(by_id[i]["case"]), i))
        reduce_ids = [i for i in other_ids if by_id[i]["stratum"] != "expand"] + exp_bad[:TIERS[tier]["REDUCE"]]
        log("%d deviations: %d in classes %s, %d others, %d to reduce" % (len(bad_ids), len(bad_ids) - len(other_ids), sorted(classes), len(other_ids), len(reduce_ids)))
        cores, rounds, extra = minimise(pool, [by_id[i]["case"] for i in reduce_ids], work)
        # every core alone (one case per process); a core that falls into a described class is reported under the class
        core_list = sorted(cores.items(), key=lambda kv: (c11_run.size(kv[1][0]), kv[0]))
        crow = [{"id": i + 1, "case": c} for i, (_k, (c, _n)) in enumerate(core_list)]
        core_viol = []
        if crow:
            cobs, _ = observe(pool, crow, os.path.join(work, "confirm"), batch=1)
            cres, _st = judge(crow, cobs, work, "confirm")
            for r, (_k, (c, n)) in zip(crow, core_list):
                if r["id"] in cres and cres[r["id"]]["v"] == "bad":
                    if cres[r["id"]]["class"] == "other":
                        core_viol.append(violation_of(c, n, cobs[r["id"]], cres[r["id"]]))
                    else:
                        note_class(cres[r["id"]]["class"], c, n)
        violations = []
        class_names = sorted(classes)
        if class_names:
            krow = [{"id": i + 1, "case": classes[cl]["case"]} for i, cl in enumerate(class_names)]
            kobs, _ = observe(pool, krow, os.path.join(work, "confirm-classes"), batch=1)
            kres, _st = judge(krow, kobs, work, "confirmc")
            for r, cl in zip(krow, class_names):
                if r["id"] in kres and kres[r["id"]]["v"] == "bad" and kres[r["id"]]["class"] == cl:
                    violations.append(violation_of(r["case"], classes[cl]["count"], kobs[r["id"]], kres[r["id"]], key="class:" + cl))
        violations += core_viol
        t4 = time.time()
        nlaw, badlaw = lawf.result()
    if badlaw:
        raise vlib.InfraError("Cpp.tla: %d cases violate the laws of the specification itself" % badlaw)
    rc, new, known = vlib.verdict(PID, violations)
    by_stratum = {}
    for r in rows:
        d = by_stratum.setdefault(r["stratum"], {"generated": 0, "defined": 0, "bad": 0, "model_disagreement": 0})
        d["generated"] += 1
        d["defined"] += 1 if r["defined"] else 0
    for i in bad_ids:
        by_stratum[by_id[i]["stratum"]]["bad"] += 1
    for i in model_ids:
        by_stratum[by_id[i]["stratum"]]["model_disagreement"] += 1
    print("C11: %d cases generated, %d defined and run, %d agree, %d model disagreements, %d differ from spec+gcc -> %d classes + %d unclassified cores; %d new, %d known"
          % (len(rows), len(run_rows), stats["OK"], stats["MODEL"], stats["BAD"], len(class_names), len(core_viol), new, known))
    samples = []
    for st in ("small", "pair", "expand", "cond", "include"):
        for r in run_rows:
            if r["stratum"] == st and r["id"] % 7 == 3:
                samples.append({"stratum": st, "case": c11_run.show(r["case"], r["id"]).splitlines(), "cppcheck": " ".join(obs[r["id"]]["cppcheck"]["toks"]),
                                "gcc": " ".join(obs[r["id"]]["gcc"]["toks"])})
                break
    cov = {
        "evaluations": len(run_rows) + extra,
        "distinct_nontrivial": stats["NONTRIVIAL"],
        "rule": "strata small/pair are enumerated exhaustively by TLC (all valid bodies over a 7-token alphabet up to %d tokens x 8 source lines; all pairs of "
                "bodies up to 2 tokens x 5 source lines), strata expand/cond/include are drawn by the seeded generator of Cpp.tla (distinct case numbers); "
                "a case is run if the semantics defines its output; non-trivial (counted by TLC) = judged (spec = gcc) and the expected output differs from "
                "the concatenated text lines of the main file, i.e. some macro was replaced, a group skipped or a file included" % TIERS[tier]["SMALLN"],
        "exhaustive": False,
        "generated": len(rows), "defined_and_run": len(run_rows), "judged_equal": stats["OK"], "model_disagreement": stats["MODEL"],
        "differ_first_pass": stats["BAD"], "differ_by_class": {cl: classes[cl]["count"] for cl in class_names},
        "differ_unclassified": len(other_ids), "differ_reduced": len(reduce_ids), "differ_not_reduced": len(other_ids) - len(reduce_ids), "cores": len(cores), "cores_reported": len(core_viol), "known_findings_hit": known,
        "reduction_rounds": rounds, "reduction_extra_cases": extra, "by_stratum": by_stratum, "law_cases": nlaw, "processes": 2 * nb,
        "model_disagreement_samples": [{"case": c11_run.show(by_id[i]["case"], i).splitlines(), "spec": " ".join(res[i]["expected"]),
                                        "gcc": " ".join(obs[i]["gcc"]["toks"]), "gcc_msg": obs[i]["gcc"]["msg"]} for i in model_ids[:5]],
        "phase_s": {"gen": round(t1 - t0, 1), "run": round(t2 - t1, 1), "judge": round(t3 - t2, 1), "reduce+confirm": round(t4 - t3, 1)},
        "samples": samples,
    }
    vlib.write_evidence(PID, tier, seed, "exploration", cov, time.time() - t0, violations=new,
                        assumptions=["gcc 12 -E -P -undef -nostdinc -std=c11 is the second witness; -D/-U/-include are emulated in its umbrella file by "
                                     "#define/#undef/#include lines before every case, as the gcc manual defines these options",
                                     "tokens are rendered separated by single blanks; the driver's tokeniser splits both outputs into pp-tokens",
                                     "a failing case is reported through its core (greedy one-step reduction while the verdict stays the same)"])
    return rc


def do_replay(path):
    payload = json.load(open(path))
    work = vlib.mktmp("c11r")
    rows = [{"id": 1, "case": payload["case"]}]
    with cf.ProcessPoolExecutor(max_workers=1) as pool:
        obs, _ = observe(pool, rows, os.path.join(work, "runs"))
    res, st = judge(rows, obs, work, "replay", parts=1)
    print(c11_run.show(payload["case"]))
    print("cppcheck: %s %s" % (" ".join(obs[1]["cppcheck"]["toks"]), obs[1]["cppcheck"]["msg"]))
    print("gcc     : %s %s" % (" ".join(obs[1]["gcc"]["toks"]), obs[1]["gcc"]["msg"]))
    if 1 in res:
        print("expected: %s   verdict: %s" % (" ".join(res[1]["expected"]), res[1]["v"]))
        if res[1]["v"] == "bad":
            print("VIOLATION property=%s replay=%s" % (PID, path))
            return 1
    print("replay: no violation reproduced (%s)" % st)
    return 0
