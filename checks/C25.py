"""C25 - exit status reflects the reported findings.

spec/ExitStatus.tla enumerates the case space (project x --error-exitcode x exit-code suppressions x suppressions x
information x executor x build dir, plus malformed command lines); the real binary is run on every (sampled) case;
TLC judges exit = Expected(reported findings, options). In addition the invariant ExitOK of Run.tla is evaluated on
the trace of every run (trace validation), so the exit status is also tied to the logged pipeline steps.
"""
import concurrent.futures
import json
import os
import random
import re
import shutil
import time

import projgen
import runtrace
import vlib

PID = "C25"
CONFIRM_BY_REPLAY = True   # a new deviation is reported only if replaying its stored case repeats it
META = {
    "cat": "model_checking",
    "text": "TLC enumerates the complete option/case space of ExitStatus.tla (22k cases; all in thorough, a seeded sample in quick), the hooked "
            "binary is run on each case and TLC evaluates the exit-status formula of the property on what was actually reported; every run's "
            "event trace is additionally validated against Run.tla whose invariant ExitOK ties the exit status to the pipeline steps "
            "(exit flag, exit-code suppression verdicts, unmatched-suppression reports, whole-program result).",
    "ref": "DESIGN.md section 4 C25",
    "note": "Exit-code suppressions are generated only in exact id[:file[:line]] forms so the match relation in the spec is trivial; --safety is "
            "outside the property. Trusted: template output parsing, hooks, TLC.",
    "technique": "TLC-enumerated cases judged by TLC (ExitStatus.tla) + trace validation against Run.tla (invariant ExitOK)",
}

FILES = {
    "plain": {"f0.c": "int zd(int x) { return x / 0; }\n",
              "f1.c": "int np(void) { int *p = 0; return *p; }\n",
              "f2.c": "int ok(int a) { return a + 1; }\n"},
    "clean": {"f0.c": "int ok0(int a) { return a + 1; }\n",
              "f1.c": "int ok1(int a) { return a + 2; }\n",
              "f2.c": "int ok2(int a) { return a + 3; }\n"},
    # the prototype is in a shared header: cppcheck links a call to a definition in another file through the location of the
    # first declaration, with a local prototype there is no whole-program finding at all
    "wp": {"f0.c": "#include \"wp.h\"\nvoid caller(void) { g(0); }\n",
           "f1.c": "#include \"wp.h\"\nvoid g(int *p) { *p = 1; }\n",
           "wp.h": "void g(int *p);\n",
           "f2.c": "int ok(int a) { return a + 1; }\n"},
}


def entry_text(s):
    t = s["id"]
    if s["file"]:
        t += ":" + s["file"]
        if s["line"] != -1:
            t += ":%d" % s["line"]
    return t


def case_args(c):
    args = ["-q", "--template=" + projgen.TEMPLATE]
    if c["info"]:
        args.append("--enable=information")
    if c["exitcode"] != -1:
        args.append("--error-exitcode=%d" % c["exitcode"])
    if c["nofail"]:
        args.append("--exitcode-suppressions=nofail.txt")
    for s in c["nomsg"]:
        args.append("--suppress=" + entry_text(s))
    if c["exec"] == "thread":
        args += ["-j2", "--executor=thread"]
    elif c["exec"] == "process":
        args += ["-j2", "--executor=process"]
    if c["builddir"]:
        args.append("--cppcheck-build-dir=bd")
    if c["invalid"]:
        args.append(c["invalid"])
    return args + ["f0.c", "f1.c", "f2.c"]


def run_case(c, trace):
    root = vlib.mktmp("c25")
    for fn, text in FILES[c["proj"]].items():
        with open(os.path.join(root, fn), "w") as f:
            f.write(text)
    if c["nofail"]:
        with open(os.path.join(root, "nofail.txt"), "w") as f:
            for s in c["nofail"]:
                f.write(entry_text(s) + "\n")
    if c["builddir"]:
        os.mkdir(os.path.join(root, "bd"))
    args = case_args(c)
    label = "c25-" + vlib.digest(c)
    if trace:
        r = runtrace.record(args, root, label, timeout=120)
    else:
        rc, out, err = vlib.run_cppcheck(args, root, timeout=120)
        r = {"rc": rc, "out": out, "err": err, "hdr": None, "events": [], "label": label}
    shutil.rmtree(root, ignore_errors=True)
    fs = projgen.parse_findings(r["err"])
    obs = {"case": c, "exit": -999 if r["rc"] is None else r["rc"],
           "findings": [{"id": f["id"], "file": f["file"], "line": f["line"]} for f in fs]}
    return obs, r


def tlc_gen():
    work = vlib.mktmp("c25gen")
    out = os.path.join(work, "cases.ndjson")
    r = vlib.tlc("ExitStatus", "ExitStatus.cfg", env={"MODE": "gen", "OUT": out, "OBS": "/dev/null"}, timeout=600)
    if not r.ok:
        raise vlib.InfraError("ExitStatus.tla gen failed\n" + r.out[-2000:])
    return vlib.read_ndjson(out)


def tlc_judge(observations):
    work = vlib.mktmp("c25judge")
    inp = os.path.join(work, "obs.ndjson")
    out = os.path.join(work, "bad.ndjson")
    vlib.write_ndjson(inp, observations)
    r = vlib.tlc("ExitStatus", "ExitStatus.cfg", env={"MODE": "judge", "OUT": out, "OBS": inp}, timeout=1200)
    if not r.ok:
        raise vlib.InfraError("ExitStatus.tla judge failed\n" + r.out[-2000:])
    m = re.search(r'"JUDGED",\s*(\d+),\s*"BAD",\s*(\d+)', r.out)
    if not m or int(m.group(1)) != len(observations):
        raise vlib.InfraError("ExitStatus.tla judge gave no verdict\n" + r.out[-2000:])
    return vlib.read_ndjson(out)


def case_key(c):
    """Stable identity of a failing case class: which exit-code suppression ids and which reported kinds are involved."""
    return "case:" + vlib.digest({k: c[k] for k in ("proj", "exitcode", "nofail", "nomsg", "info", "exec", "builddir", "invalid")})


def run_cases(cases, trace_every):
    obs = []
    runs = []
    with concurrent.futures.ThreadPoolExecutor(max_workers=min(12, vlib.NCPU)) as ex:
        futs = [ex.submit(run_case, c, (i % trace_every) == 0) for i, c in enumerate(cases)]
        for fu in futs:
            o, r = fu.result()
            obs.append(o)
            if r["hdr"] is not None:
                runs.append((r["label"], r["hdr"], r["events"]))
    return obs, runs


def main(tier, seed, replay=None):
    t0 = time.time()
    vlib.build()
    if replay:
        payload = json.load(open(replay))
        obs, runs = run_cases([payload["case"]], 1)
        bad = tlc_judge(obs)
        tres = runtrace.validate(runs)
        print(json.dumps(obs[0]))
        if bad or tres.rejected:
            print("VIOLATION property=%s replay=%s" % (PID, replay))
            return 1
        print("replay: exit status as expected")
        return 0
    cases = tlc_gen()
    total = len(cases)
    rnd = random.Random(seed)
    if tier == "quick":
        invalid = [c for c in cases if c["invalid"]]
        valid = [c for c in cases if not c["invalid"]]
        cases = rnd.sample(valid, 420) + invalid
        trace_every = 3
    else:
        trace_every = 10
    obs, runs = run_cases(cases, trace_every)
    timeouts = [o for o in obs if o["exit"] == -999]
    if timeouts:
        raise vlib.InfraError("cppcheck timed out on %d cases" % len(timeouts))
    # vacuity guard: the whole-program stratum must really produce a whole-program finding
    nwp = sum(1 for o in obs if any(f["id"] == "ctunullpointer" for f in o["findings"]))
    if nwp == 0:
        raise vlib.InfraError("no run reported the whole-program finding of project 'wp': the stratum would be vacuous")
    bad = tlc_judge(obs)
    tres = runtrace.validate(runs, keep_dir=os.path.join(vlib.OUT, "replays", PID))
    violations = []
    # re-run before reporting
    if bad:
        obs2, _ = run_cases([b["case"] for b in bad], 1000000)
        bad = tlc_judge(obs2)
    for b in bad:
        p = vlib.save_replay(PID, case_key(b["case"]).replace(":", "-"), b)
        violations.append({"key": class_key(b), "what": "exit %s but the property demands %s; reported=%s options=%s" % (
            b["exit"], b["expected"], [f["id"] for f in b["findings"]], case_args(b["case"])), "replay": p})
    for rj in tres.rejected:
        p = vlib.save_replay(PID, "trace-" + rj["label"], rj)
        violations.append({"key": "trace:%s:%s" % ((rj["event"] or {}).get("e"), rj["invariant"]),
                           "what": "trace %s rejected at line %s (%s) invariant %s" % (rj["label"], rj["line"], json.dumps(rj["event"])[:200], rj["invariant"]),
                           "replay": p})
    rc, new, known = vlib.verdict(PID, violations)
    nontrivial = len(set(vlib.digest(o["case"]) for o in obs if o["findings"]))
    cov = {"states": tres.states + total, "transitions": tres.transitions + total,
           "traces_validated_against_impl": tres.validated,
           "evaluations": len(obs), "distinct_nontrivial": nontrivial,
           "rule": "cases enumerated by TLC from ExitStatus.tla (%d in total); quick = seeded sample of 420 valid cases + all invalid command lines; "
                   "non-trivial = distinct case whose run reported at least one finding" % total,
           "exhaustive": tier == "thorough", "case_space": total, "runs_with_whole_program_finding": nwp, "bad_cases": len(bad),
           "samples": [obs[0], obs[len(obs) // 2], obs[-1]]}
    vlib.write_evidence(PID, tier, seed, "model_checking", cov, time.time() - t0, violations=new,
                        assumptions=["findings are read from the --template output on stderr", "--safety mode is outside the property"])
    return rc


def class_key(b):
    """Known-finding key: the failing class (which reported ids were matched by which exit-code suppression forms, exit code)."""
    c = b["case"]
    if b.get("class") and b["class"] != "other":
        return b["class"]
    nf = sorted(entry_text(s) for s in c["nofail"])
    ids = sorted(set(f["id"] for f in b["findings"]))
    return "exit:%s:nofail=%s:reported=%s:exitcode=%s:expected=%s" % (b["exit"], ",".join(nf), ",".join(ids), c["exitcode"], b["expected"])
