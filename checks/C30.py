"""C30 - library configuration semantics are applied as declared.

spec/LibValid.tla defines the documented meaning of <valid> (In(x, expr) over scaled integers), of <not-null/> and
<not-bool/>, and the loading predicate. TLC enumerates the cases, the real code answers, TLC judges:

  unit    harness/libvalid_harness.cpp: Library::load of the generated .cfg, isIntArgValid / isFloatArgValid per case
  e2e     generated user.cfg + C/C++ source calling fK(<constant>), real binary with --library=user.cfg,
          observation = invalidFunctionArg at the line of the call (literal argument and constant variable)
  flags   not-null / not-bool: nullPointer / invalidFunctionArgBool at the call, attributes confirmed by g++
  load    mutated shipped configurations and random XML: never a signal / hang, success or an error message
"""
import concurrent.futures
import json
import os
import random
import re
import sys
import time

import vlib

sys.path.insert(0, os.path.join(vlib.VERIF, "drivers"))
import libvalid  # noqa: E402

PID = "C30"
META = {
    "cat": "exploration",
    "text": "TLC enumerates <valid> expressions of the documented grammar (single values, a:b, a:, :b, !v, lists of up to three items, "
            "negative and decimal bounds, both spellings of whole numbers) with constant arguments at, 0.1 and 1 beside every bound, and "
            "judges the answers of Library::isIntArgValid/isFloatArgValid (unit harness) and the presence of invalidFunctionArg in real "
            "runs (--library=generated cfg) against In(x, expr); the same for not-null / not-bool argument kinds; mutated shipped "
            "configurations and random XML must load or be rejected with a message. Exploration is the right level: the case space is "
            "unbounded, the enumerated part is exhaustive for one- and two-item expressions over the bound set.",
    "ref": "DESIGN.md section 4 C30",
    "note": "Bounds are taken from {-2,-1.5,-1,0,0.5,1,1.5,2,10}; numbers with one decimal digit. A floating-point argument against an "
            "integer-spelt single value is not judged (manual silent, testlibrary asserts non-acceptance). Exponent notation, '+' signs and "
            "'!v:' are outside the documented examples and not generated. Trusted: TLC, the renderer (drivers/libvalid.py), line-based "
            "attribution of findings to calls.",
    "technique": "TLA+ function spec (LibValid.tla), TLC-generated cases replayed into Library and the real binary, verdicts by TLC",
}
HARNESS = {}
FULL = [-20, -15, -10, 0, 5, 10, 15, 20, 100]
SMALL = [-10, 0, 15, 20]


def tlc_mode(mode, env, timeout=1800, xmx="4g"):
    e = {"MODE": mode}
    e.update(env)
    r = vlib.tlc("LibValid", "LibValid.cfg", env=e, workers=1, timeout=timeout, xmx=xmx)
    if not r.ok:
        raise vlib.InfraError("model failure in LibValid.tla MODE=%s (rc=%s)\n%s" % (mode, r.rc, r.out[-3000:]))
    return r


def counts(r, *names):
    res = {}
    for n in names:
        m = re.search(r'"%s",\s*(\d+)' % n, r.out)
        if not m:
            raise vlib.InfraError("LibValid.tla printed no %s\n%s" % (n, r.out[-1500:]))
        res[n] = int(m.group(1))
    return res


def gen_params(tier, seed):
    rnd = random.Random(seed)
    if tier == "quick":
        nsample, nshards, b2 = 1500, 2, SMALL
    else:
        nsample, nshards, b2 = 20000, 8, FULL
    sample = [[rnd.randrange(1 << 20) for _ in range(rnd.choice((2, 3, 3)))] for _ in range(nsample)]
    return {"bounds": FULL, "bounds2": b2, "s1": True, "sample": sample, "nshards": nshards}


def generate(params, work):
    """TLC enumerates the cases, one shard per TLC process. -> list of shards (lists of cases)"""
    def one(k):
        p = dict(params, shard=k)
        pf = os.path.join(work, "params-%d.json" % k)
        out = os.path.join(work, "cases-%d.ndjson" % k)
        vlib.write_ndjson(pf, [p])
        tlc_mode("gen", {"PARAMS": pf, "OUT": out})
        return vlib.read_ndjson(out)
    with concurrent.futures.ThreadPoolExecutor(max_workers=4) as ex:
        return list(ex.map(one, range(params["nshards"])))


def judge(cases, obs, work, tag):
    cf = os.path.join(work, "jc-%s.ndjson" % tag)
    of = os.path.join(work, "jo-%s.ndjson" % tag)
    bf = os.path.join(work, "jb-%s.ndjson" % tag)
    vlib.write_ndjson(cf, cases)
    vlib.write_ndjson(of, obs)
    r = tlc_mode("judge", {"CASES": cf, "OBS": of, "OUT": bf})
    c = counts(r, "JUDGED", "PAIRS", "OPEN", "INVALID", "BOUNDARY", "BAD")
    bad = vlib.read_ndjson(bf)
    if len(bad) != c["BAD"]:
        raise vlib.InfraError("LibValid.tla verdict/output mismatch")
    return c, bad


def valid_part(tier, seed, work, exe, cases_override=None):
    """-> (coverage numbers, {shape: {"bindings": set, "examples": [...], "n": int}})"""
    if cases_override is None:
        params = gen_params(tier, seed)
        pf = os.path.join(work, "params-laws.json")
        # the laws quantify over pairs of items x arguments: the smaller bound set in quick, the full one in thorough
        vlib.write_ndjson(pf, [dict(params, shard=0, sample=[], bounds=params["bounds2"] if tier == "quick" else FULL)])
        t1 = time.time()
        with concurrent.futures.ThreadPoolExecutor(max_workers=2) as ex0:
            fl = ex0.submit(tlc_mode, "laws", {"PARAMS": pf})
            shards = generate(params, work)
            fl.result()
        gen_s = round(time.time() - t1, 1)
    else:
        shards = [cases_override]
    tot = {}
    steps = []
    shapes = {}
    nlines = 0

    def one(k):
        cases = shards[k]
        if not cases:
            return []
        t1 = time.time()
        obs = libvalid.run_unit(exe, cases, work, str(k))
        t2 = time.time()
        sub = os.path.join(work, "s%d" % k)
        os.makedirs(sub, exist_ok=True)
        eobs, n = libvalid.run_e2e(cases, sub, jobs=2)
        allo = [{"id": c["id"], "unit": o["got"], "lit": l["got"], "var": v["got"]} for c, o, l, v in zip(cases, obs, eobs["lit"], eobs["var"])]
        t3 = time.time()
        res = judge(cases, allo, work, "j%d" % k)
        steps.append({"shard": k, "unit_s": round(t2 - t1, 1), "e2e_s": round(t3 - t2, 1), "judge_s": round(time.time() - t3, 1)})
        return res, n
    with concurrent.futures.ThreadPoolExecutor(max_workers=4) as ex:
        results = list(ex.map(one, range(len(shards))))
    byid = {}
    for sh in shards:
        for c in sh:
            byid[c["id"]] = c
    for r in results:
        if not r:
            continue
        (c, bad), n = r
        nlines += n
        for k, v in c.items():
            tot[k] = tot.get(k, 0) + v
        for b in bad:
            s = shapes.setdefault(b["shape"], {"bindings": set(), "examples": [], "n": 0, "ids": []})
            s["bindings"].add(b["binding"])
            s["n"] += 1
            if len(s["examples"]) < 5:
                s["examples"].append(b)
                s["ids"].append(b["id"])
    cov = {"valid_expressions": sum(len(s) for s in shards), "valid_call_lines": nlines, "valid_counts": tot,
           "steps_wall_s": {"laws_and_gen": gen_s if cases_override is None else 0, "shards": steps}}
    return cov, shapes, byid


def flags_part(work):
    cf = os.path.join(work, "flagcases.ndjson")
    kf = os.path.join(work, "kinds.ndjson")
    tlc_mode("genflags", {"OUT": cf, "KINDS": kf})
    cases = vlib.read_ndjson(cf)
    kinds = vlib.read_ndjson(kf)
    wit, why = libvalid.compiler_witness(kinds, work)
    if wit is None:
        raise vlib.InfraError("compiler witness for the not-null/not-bool argument kinds failed: %s" % why)
    got = libvalid.run_flags(cases, work)
    obs = []
    for c in cases:
        w = wit.get(c["name"])
        ok = w is not None and w["null"] == c["null"] and w["bool"] == c["bool"]
        obs.append({"id": c["id"], "ids": got.get(c["id"], ["<no observation>"]), "witness_ok": ok})
    return judge_flags(cases, obs, work)


def judge_flags(cases, obs, work):
    cf = os.path.join(work, "fjc.ndjson")
    of = os.path.join(work, "fjo.ndjson")
    bf = os.path.join(work, "fjb.ndjson")
    vlib.write_ndjson(cf, cases)
    vlib.write_ndjson(of, obs)
    r = tlc_mode("judgeflags", {"CASES": cf, "OBS": of, "OUT": bf})
    c = counts(r, "JUDGED", "DISAGREE", "EXPECTING", "BAD")
    bad = vlib.read_ndjson(bf)
    if len(bad) != c["BAD"]:
        raise vlib.InfraError("LibValid.tla verdict/output mismatch (flags)")
    return c, bad, cases


def load_part(tier, seed, work, inputs=None):
    if inputs is None:
        n_mut, n_rand = (260, 90) if tier == "quick" else (3000, 1000)
        inputs = libvalid.load_inputs(seed, n_mut, n_rand, vlib.REPO)
        # the shipped files themselves must load
        cfgdir = os.path.join(vlib.REPO, "cfg")
        for fn in sorted(os.listdir(cfgdir)):
            if fn.endswith(".cfg"):
                with open(os.path.join(cfgdir, fn), "rb") as f:
                    inputs.append(("shipped-" + fn, "unmutated", f.read().decode("utf-8", "surrogateescape")))
    obs = libvalid.run_loads(inputs, work, jobs=4, harness=HARNESS.get("exe"))
    of = os.path.join(work, "lo.ndjson")
    bf = os.path.join(work, "lb.ndjson")
    vlib.write_ndjson(of, obs)
    r = tlc_mode("judgeload", {"OBS": of, "OUT": bf})
    c = counts(r, "JUDGED", "REJECTED", "LOADED", "BAD")
    bad = vlib.read_ndjson(bf)
    if len(bad) != c["BAD"]:
        raise vlib.InfraError("LibValid.tla verdict/output mismatch (load)")
    texts = {name: text for name, _k, text in inputs}
    kinds = {}
    for o in obs:
        kinds[o["kind"].split("+")[0]] = kinds.get(o["kind"].split("+")[0], 0) + 1
    c["kinds"] = kinds
    c["shipped_rejected"] = [o["name"] for o in obs if o["kind"] == "unmutated" and o["rc"] != 0]
    return c, bad, texts


def load_signature(b):
    """Coarse identity of a fatal load: terminating signal (or timeout / bad exit) + the abort message with the
    offending value blanked."""
    if b["timeout"]:
        return "timeout"
    if b["signal"]:
        m = re.search(r"what\(\):\s*(.*)", b.get("out", ""))
        what = re.sub(r"'[^']*'", "'..'", m.group(1).strip()) if m else ""
        what = re.sub(r"(to integer failed).*", r"\1", what)   # the same escape of strToInt's exception, whatever the detail
        return "signal%d:%s" % (b["signal"], re.sub(r"\s+", "_", what))
    return "exit%s-without-message" % b["rc"]


def min_route(b, texts, d):
    """The minimiser (a reporting aid, not an observation) may use Library::load in the unit harness, which starts ten
    times faster than the binary, whenever the harness dies from the same signal on the unreduced input."""
    exe = HARNESS.get("exe")
    if not exe:
        return None
    if b.get("via") == "harness":
        return exe
    sig, _to, _out = libvalid.load_once(texts[b["name"]], d, name="route.cfg", harness=exe)
    return exe if sig == b["signal"] else None


def load_violations(lbad, texts, work):
    """One violation per failure identity. A failure with an abort message is identified by that message; a silent
    one (SIGSEGV ...) by the element path of its minimised input."""
    groups = {}
    d = os.path.join(work, "load")
    nmin = 0
    for b in sorted(lbad, key=lambda b: len(texts[b["name"]])):
        sig = load_signature(b)
        mintext, path = None, None
        if b["signal"] and sig.endswith(":"):
            if nmin < 40:
                nmin += 1
                mintext, path = libvalid.minimise(texts[b["name"]], d, b["signal"], budget=100, harness=min_route(b, texts, d))
                sig += path
            else:
                sig += "not-minimised"
        g = groups.setdefault(sig, {"n": 0, "first": b, "min": None})
        g["n"] += 1
        if mintext is not None and (g["min"] is None or len(mintext) < len(g["min"])):
            g["min"] = mintext
    res = []
    for sig, g in sorted(groups.items()):
        b = g["first"]
        if g["min"] is None and b["signal"]:
            g["min"], _p = libvalid.minimise(texts[b["name"]], d, b["signal"], budget=120, harness=min_route(b, texts, d))
        p = vlib.save_replay(PID, "load-" + vlib.digest(sig), {"kind": "load", "signature": sig, "obs": b, "name": b["name"], "count": g["n"],
                                                              "text": g["min"] if g["min"] is not None else texts[b["name"]],
                                                              "original_text": texts[b["name"]][:200000]})
        res.append({"key": "load:" + sig, "what": "loading %s (%s): rc=%s signal=%s timeout=%s; %d inputs with this failure; minimised input: %s"
                                                  % (b["name"], b["kind"], b["rc"], b["signal"], b["timeout"], g["n"], (g["min"] or "")[:300].replace("\n", " ")),
                    "replay": p})
    return res


def main(tier, seed, replay=None):
    t0 = time.time()
    vlib.build()
    exe = vlib.build_harness("libvalid_harness.cpp")
    HARNESS["exe"] = exe
    work = vlib.mktmp("c30")
    if replay:
        return do_replay(replay, work, exe)
    violations = []

    # the three parts are independent: run them side by side (each is mostly waiting for TLC / cppcheck processes)
    def timed(f, *a):
        t = time.time()
        r = f(*a)
        return r, time.time() - t
    with concurrent.futures.ThreadPoolExecutor(max_workers=3) as ex:
        fut_v = ex.submit(timed, valid_part, tier, seed, work, exe)
        fut_f = ex.submit(timed, flags_part, work)
        fut_l = ex.submit(timed, load_part, tier, seed, work)
        (vcov, shapes, byid), t_valid = fut_v.result()
        (fc, fbad, fcases), t_flags = fut_f.result()
        (lc, lbad, texts), t_load = fut_l.result()
    for shape, s in sorted(shapes.items()):
        ex = s["examples"][0]
        payload = {"kind": "valid", "shape": shape, "count": s["n"], "bindings": sorted(s["bindings"]), "examples": s["examples"],
                   "cases": [dict(byid[i], args=[a for a in byid[i]["args"] if a["text"] == e["arg"] and a["form"] == e["form"]])
                             for i, e in zip(s["ids"], s["examples"])]}
        p = vlib.save_replay(PID, "valid-" + vlib.digest(shape), payload)
        violations.append({"key": "valid:" + shape,
                           "what": "<valid>%s</valid>, argument %s: expected %s, observed %s (%d cases of this shape; bindings %s)"
                                   % (ex["valid"], ex["arg"], ex["expected"], ex["observed"], s["n"], ",".join(sorted(s["bindings"]))),
                           "replay": p})

    for b in fbad:
        key = "flags:%s:%s:%s:pos%d:%s" % ("+".join(sorted(b["flags"])) or "none", b["name"], b["lang"], b["pos"], b["param"])
        p = vlib.save_replay(PID, "flags-" + vlib.digest(key), {"kind": "flags", "bad": b, "cases": [c for c in fcases if c["id"] == b["id"]]})
        violations.append({"key": key, "what": "call with argument `%s` (%s) of a function with %s on argument %d: expected %s, observed %s"
                                               % (b["text"], b["decl"], b["flags"], b["pos"], b["expected"], b["observed"]), "replay": p})

    violations += load_violations(lbad, texts, work)

    rc, new, known = vlib.verdict(PID, violations)
    u = vcov["valid_counts"]
    samples = []
    for i in sorted(byid)[:: max(1, len(byid) // 4)][:4]:
        c = byid[i]
        samples.append({"valid": c["valid"], "arg_nr": c["pos"], "args": [a["text"] for a in c["args"]][:12]})
    samples.append({"flags_case": {k: fcases[len(fcases) // 2][k] for k in ("flags", "text", "decl", "lang", "pos", "param")}})
    evaluations = u.get("JUDGED", 0) + fc["JUDGED"] + lc["JUDGED"]
    cov = {
        "evaluations": evaluations,
        "distinct_nontrivial": u.get("BOUNDARY", 0) + fc["EXPECTING"] + lc["REJECTED"],
        "rule": "distinct (expression, constant) pairs whose constant is a bound of the expression or 0.1 beside it (counted by TLC, "
                "expressions are distinct by construction) + not-null/not-bool cases in which a finding is required + configuration texts "
                "that the loader rejected",
        "exhaustive": False,
        "exhaustive_strata": "one-item expressions and !v over %s (tenths); two-item lists over %s; three-item lists sampled by seed"
                             % (FULL, SMALL if tier == "quick" else FULL),
        "samples": samples,
        "valid": vcov, "flags": fc, "load": lc, "phase_wall_s": {"valid": round(t_valid, 1), "flags": round(t_flags, 1), "load": round(t_load, 1)},
        "open_not_judged": u.get("OPEN", 0),
        "model_disagreement": fc["DISAGREE"],
        "deviation_shapes": {k: v["n"] for k, v in shapes.items()},
    }
    vlib.write_evidence(PID, tier, seed, "exploration", cov, time.time() - t0, violations=new,
                        assumptions=["a finding is attributed to a call by its line (one call per line in generated sources)",
                                     "numbers have at most one decimal digit (scaled integers in the specification)",
                                     "floating-point constant vs integer-spelt single value is left open (manual silent)",
                                     "loading is observed through the real binary's exit status / terminating signal with a 120 s limit"])
    return rc


def do_replay(path, work, exe):
    payload = json.load(open(path))
    kind = payload.get("kind")
    bad = []
    if kind == "valid":
        cases = sorted(payload["cases"], key=lambda c: c["id"])
        # ids must be distinct within one generated configuration
        seen = set()
        cases = [c for c in cases if not (c["id"] in seen or seen.add(c["id"]))]
        _cov, shapes, _ = valid_part("quick", 1, work, exe, cases_override=cases)
        for s in shapes.values():
            bad += s["examples"]
    elif kind == "flags":
        cases = payload["cases"]
        kinds = [{"name": c["name"], "text": c["text"], "decl": c["decl"], "ptr": c["param"] == "ptr", "null": c["null"], "bool": c["bool"]} for c in cases]
        wit, _why = libvalid.compiler_witness(kinds, work)
        got = libvalid.run_flags(cases, work)
        obs = [{"id": c["id"], "ids": got.get(c["id"], []), "witness_ok": wit is not None and wit.get(c["name"]) == {"null": c["null"], "bool": c["bool"]}} for c in cases]
        _c, bad, _ = judge_flags(cases, obs, work)
    elif kind == "load":
        _c, bad, _ = load_part("quick", 1, work, inputs=[(os.path.basename(payload["name"]), "replay", payload["text"])])
    else:
        print("unknown replay payload %s" % path)
        return 2
    for b in bad:
        print("BAD", json.dumps(b)[:600])
    if bad:
        print("VIOLATION property=%s replay=%s" % (PID, path))
        return 1
    print("replay: no violation reproduced")
    return 0
