"""C21 - a crashing worker process is contained (fault enumeration).

A reference run of the process executor records how many events the worker of each file emits. For EVERY event index k
of a chosen worker (every crash point: before the first message, between messages, inside a frame after the type or
the length bytes, after CHILD_END before exit) and several ways to die (SIGKILL, SIGSEGV, SIGABRT, exit 3) the hooked
binary is re-run with CPPCHECK_VERIF_FAULT=child:evt:k:how:<file>. TLC judges the four obligations of the statement on
each observation (Contain.tla) and validates the recorded traces of the faulted runs against Run.tla (ChildGone,
PipeEof, Reap, ChildErr are actions of the spec).
"""
import concurrent.futures
import json
import os
import re
import shutil
import time

import projgen
import runlayer
import runtrace
import vlib

PID = "C21"
META = {
    "cat": "fault_enumeration",
    "text": "TLC checks on RunMC.tla that a worker dying at any step is contained (invariant Contained) and that the run terminates "
            "(liveness Terminates under weak fairness). Every event index of a worker process is used as a crash point (the hooks are fault points, including the three write() calls of "
            "one pipe frame) with several ways of dying; TLC evaluates termination, crash report, integrity of the other files' findings and "
            "the exit status on every faulted run against the fault-free run, and the event traces of the faulted runs are validated against "
            "Run.tla's process-executor actions.",
    "ref": "DESIGN.md section 4 C21",
    "note": "A wall-clock timeout turns a hang into a violation (60 s, and 300 s in a second, solitary execution of the same fault). Crash points are the hook events of the worker (every critical section "
            "and every pipe write), not every machine instruction. Trusted: hooks, template output parsing, TLC.",
    "technique": "TLC model check incl. liveness (RunMC.tla) + fault enumeration over all hook crash points, TLC-judged obligations (Contain.tla) + trace validation against Run.tla",
}

FILES = {
    "a.c": "int a1(int x) { return x / 0; }\nint a2(void) { int *p = 0; return *p; }\n",
    "b.c": "int b1(void) { int a[2]; a[3] = 0; return a[0]; }\n",
    "c.c": "// cppcheck-suppress uninitvar\nint c1(void) { int u; return u; }\nint c2(int x) { return x / 0; }\n",
    "d.c": "int d1(void) { int *q = 0; return *q; }\n",
}
SOURCES = sorted(FILES)
EXITCODE = 5
OPTS = ["-q", "--template=" + projgen.TEMPLATE, "--inline-suppr", "--error-exitcode=%d" % EXITCODE, "--executor=process"]


# variant "bd": the same project with a (fresh) build directory, information messages and one file-specific suppression per
# file that matches nothing - the worker then also writes its cache file (more crash points: AiOpen..AiClosed) and the parent
# has work to do after the executor (whole-program stage over the cache files, unmatched-suppression reports that re-open them)
VARIANTS = {
    "plain": [],
    "bd": ["--enable=information"] + ["--suppress=doesNotExist:%s" % f for f in SOURCES],
}


def run(root, jobs, fault=None, trace=True, timeout=60, variant="plain"):
    env = {}
    if fault:
        env["CPPCHECK_VERIF_FAULT"] = "child:evt:%d:%s:%s" % (fault["k"], fault["how"], fault["file"])
    label = "c21/%s/j%d/%s" % (variant, jobs, "nofault" if not fault else "%s-%d-%s" % (fault["file"], fault["k"], fault["how"]))
    opts = OPTS + VARIANTS[variant]
    if variant == "bd":
        bd = "bd-" + vlib.digest([label, time.time()])
        os.mkdir(os.path.join(root, bd))
        opts = opts + ["--cppcheck-build-dir=" + bd]
    proj = {"opts": opts, "sources": SOURCES}
    return runlayer.run_variant(proj, root, label, ["-j%d" % jobs], env=env, timeout=timeout, trace=trace)


def fobs(r):
    return [{"id": f["id"], "file": f["file"], "key": f["key"]} for f in r["findings"]] + \
           [{"id": "<stderr>", "file": "<stderr>", "key": s} for s in r["stray"]]


def child_events(r, fname):
    """number of events the worker of file fname emitted in a traced run"""
    for pid, evs in r["raw"].items():
        if any(e.get("e") == "ChildStart" and e.get("file") == fname for e in evs):
            return len(evs)
    return 0


def judge(ref, observations):
    work = vlib.mktmp("c21judge")
    inp = os.path.join(work, "obs.ndjson")
    out = os.path.join(work, "bad.ndjson")
    vlib.write_ndjson(inp, [{"ref": fobs(ref), "exitcode": EXITCODE}] + observations)
    r = vlib.tlc("Contain", "Contain.cfg", env={"OBS": inp, "OUT": out}, timeout=900)
    if not r.ok:
        raise vlib.InfraError("Contain.tla failed\n" + r.out[-2000:])
    m = re.search(r'"JUDGED",\s*(\d+),\s*"BAD",\s*(\d+)', r.out)
    if not m:
        raise vlib.InfraError("Contain.tla gave no verdict\n" + r.out[-2000:])
    return int(m.group(1)), vlib.read_ndjson(out)


def dead_files(r):
    """files whose worker process died at a fault point (measured: last event of the worker's log is marked `dies')"""
    out = []
    for pid, evs in r.get("raw", {}).items():
        if evs and evs[-1].get("dies"):
            st = [e for e in evs if e.get("e") == "ChildStart"]
            if st:
                out.append(st[0]["file"])
    return sorted(out)


def classify(b, points):
    """known-finding identity: which kind of crash point fails in which way"""
    f = b["fault"]
    v = f.get("variant", "plain")
    kind = points.get((v, f["file"], f["k"]), "?") if f["file"] != ".c" else "several-workers:" + points.get((v, SOURCES[0], f["k"]), "?")
    if v != "plain":
        kind = v + ":" + kind
    return "%s@%s" % ("+".join(b["reasons"]), kind)


def model_check(tier):
    """RunMC.tla with a worker of f2 that may die at ANY step: Contained (crash reported, others intact, exit status) as
    invariants and Terminates as liveness property under weak fairness (no state constraint)."""
    states = 0
    samples = []
    # scenario 3 (three files, 2.5M states) is checked for the invariants and deadlock freedom only: the liveness check of that
    # graph does not finish in the time of a thorough run on a loaded machine
    for sc, nj, live in ([(1, 2, True), (4, 2, True)] if tier == "quick" else [(1, 2, True), (4, 2, True), (3, 2, False)]):
        work = vlib.mktmp("c21mc")
        cfg = os.path.join(work, "RunMC.cfg")
        with open(cfg, "w") as f:
            f.write('SPECIFICATION %s\nCONSTANTS\n  PMode = "process"\n  NJobs = %d\n  Scenario = %d\n  ExitCode = 1\n  EmitDup = FALSE\n'
                    '  Bug = "none"\n  Crash = TRUE\nINVARIANT Contained\nINVARIANT Invs\n%sCHECK_DEADLOCK TRUE\n' % ("FairSpec" if live else "Spec", nj, sc, "PROPERTY Terminates\n" if live else ""))
        r = vlib.tlc("RunMC", cfg, workers=min(8, vlib.NCPU), timeout=5400, deadlock=True, xmx="12g")
        if r.error:
            raise vlib.InfraError("RunMC (crash) model failure sc=%s\n%s" % (sc, r.out[-2500:]))
        if r.violation:
            return None, {"scenario": sc, "jobs": nj, "violated": r.violated_name(), "tlc": r.out[-4000:]}
        states += r.distinct
        samples.append({"model": "RunMC crash", "scenario": sc, "jobs": nj, "distinct": r.distinct, "liveness": "Terminates holds" if live else "not checked (invariants and deadlock freedom only)"})
    return (states, samples), None


def main(tier, seed, replay=None):
    t0 = time.time()
    vlib.build()
    mc, mcviol = ((0, []), None) if replay else model_check(tier)
    root = runlayer.fresh_root("c21")
    projgen.materialize({"files": FILES}, root)
    payload = json.load(open(replay)) if replay else None
    variants = [payload["fault"].get("variant", "plain")] if replay else ["plain", "bd"]
    observations, tr_runs, bad, points, nev_all = [], [], [], {}, {}
    judged = 0
    ref_runs = []
    for variant in variants:
        ref = run(root, 2, variant=variant)
        if ref["rc"] != EXITCODE:
            raise vlib.InfraError("reference run (%s) has unexpected exit status %s\n%s" % (variant, ref["rc"], ref["err"][-500:]))
        ref_runs.append(ref)
        # what kind of event is crash point k of each file's worker
        nev = {}
        for pid, evs in ref["raw"].items():
            st = [e for e in evs if e.get("e") == "ChildStart"]
            if not st:
                continue
            fname = st[0]["file"]
            nev[fname] = len(evs)
            for k, e in enumerate(evs):
                kind = e["e"]
                if kind == "Send":
                    kind = "Send-%s-frame%s" % (e["phase"], e["type"])
                points[(variant, fname, k)] = kind
        nev_all[variant] = nev
        faults = []
        if replay:
            faults = [dict(payload["fault"], variant=variant)]
            jobs_list = [payload.get("jobs", 2)]
        else:
            files = [SOURCES[seed % len(SOURCES)]] if tier == "quick" else SOURCES
            hows = ["KILL", "SEGV"] if tier == "quick" else ["KILL", "SEGV", "ABRT", "exit3"]
            if variant == "bd":
                hows = ["KILL"] if tier == "quick" else ["KILL", "ABRT"]
            jobs_list = [2] if tier == "quick" else ([2, 3, 4] if variant == "plain" else [2, 4])
            for f in files:
                for k in range(nev.get(f, 0)):
                    if variant == "bd":
                        # every cache-file, pipe and framing event of the worker; of the other events (hundreds of pipeline steps
                        # with information messages enabled) every 4th in quick and every 2nd in thorough
                        kind = points[(variant, f, k)]
                        stride = 4 if tier == "quick" else 2
                        if not (kind.startswith(("Ai", "Send", "Sent", "Child", "Check")) or k % stride == seed % stride):
                            continue
                    for how in hows:
                        faults.append({"file": f, "k": k, "how": how, "variant": variant})
            # several workers die in the same run: the fault context ".c" matches every worker, each dies at its k-th event
            # (crashes close together, also of the last workers of the run: reaping and reporting must not depend on the order)
            kmax = min(nev.values()) if nev else 0
            for k in (range(kmax) if tier == "thorough" else sorted(set([0, 1, 2, 3, kmax // 2, max(0, kmax - 3), max(0, kmax - 2), max(0, kmax - 1)]))):
                for how in hows[:2]:
                    faults.append({"file": ".c", "k": k, "how": how, "variant": variant})
        vobs = []

        def do(args):
            fault, jobs = args
            r = run(root, jobs, fault, trace=True, variant=fault["variant"])
            return fault, jobs, r

        work = [(f, j) for f in faults for j in jobs_list]
        with concurrent.futures.ThreadPoolExecutor(max_workers=min(8, vlib.NCPU)) as ex:
            for fault, jobs, r in ex.map(do, work):
                dead = dead_files(r)
                o = {"fault": dict(fault, jobs=jobs), "died": bool(dead), "dead": dead, "timeout": r["rc"] is None,
                     "exit": -999 if r["rc"] is None else r["rc"], "findings": fobs(r)}
                vobs.append(o)
                if r["hdr"] is not None and r["rc"] is not None:
                    tr_runs.append((r["label"], r["hdr"], r["events"]))
        # a hang is judged by a wall-clock limit; on a heavily loaded machine a run can exceed 60 s without hanging, so every
        # run that hit the limit is executed again, alone, with 300 s, and only that second result counts
        for i, o in enumerate(vobs):
            if o["timeout"]:
                fault = {k: o["fault"][k] for k in ("file", "k", "how")}
                r = run(root, o["fault"]["jobs"], fault, trace=True, timeout=300, variant=variant)
                dead = dead_files(r)
                vobs[i] = {"fault": o["fault"], "died": bool(dead), "dead": dead, "timeout": r["rc"] is None,
                           "exit": -999 if r["rc"] is None else r["rc"], "findings": fobs(r), "second_execution": True}
        j, b = judge(ref, vobs)
        judged += j
        bad += b
        observations += vobs
    runlayer.cleanup(root)
    ref = ref_runs[0]
    nev = nev_all
    # trace validation: a sample of the faulted runs (each is a different crash point) + the reference run
    step = max(1, len(tr_runs) // (60 if tier == "quick" else 400))
    tres = runtrace.validate([(r_["label"], r_["hdr"], r_["events"]) for r_ in ref_runs] + tr_runs[::step], keep_dir=os.path.join(vlib.OUT, "replays", PID))
    violations = []
    if mcviol:
        p = vlib.save_replay(PID, "model-sc%d" % mcviol["scenario"], mcviol)
        violations.append({"key": "model:%s" % mcviol["violated"], "what": "RunMC with dying workers violates %s" % mcviol["violated"], "replay": p})
        mc = (0, [])
    for b in bad:
        f = b["fault"]
        p = vlib.save_replay(PID, "fault-%s-%s-%d-%s-j%d" % (f.get("variant", "plain"), f["file"], f["k"], f["how"], f["jobs"]), {"fault": {k: f[k] for k in ("file", "k", "how", "variant") if k in f}, "jobs": f["jobs"], "judgement": b})
        violations.append({"key": classify(b, points), "what": "worker of %s killed (%s) at its event %d (%s), -j%d: %s; exit=%s missing=%s" % (
            f["file"], f["how"], f["k"], points.get((f.get("variant", "plain"), f["file"], f["k"])), f["jobs"], b["reasons"], b["exit"], b["missing"][:2]), "replay": p})
    for rj in tres.rejected:
        p = vlib.save_replay(PID, "trace-" + vlib.digest(rj["label"]), rj)
        violations.append({"key": "trace:%s:%s" % ((rj["event"] or {}).get("e"), rj["invariant"]),
                           "what": "trace %s rejected at line %s (%s)" % (rj["label"], rj["line"], json.dumps(rj["event"])[:200]), "replay": p})
    if replay:
        for v in violations:
            print(v["what"])
        if violations:
            print("VIOLATION property=%s replay=%s" % (PID, replay))
            return 1
        print("replay: contained")
        return 0
    rc, new, known = vlib.verdict(PID, violations)
    kinds = sorted(set(points.values()))
    nev = nev_all
    cov = {"evaluations": len(observations), "distinct_nontrivial": judged,
           "rule": "one run per (variant plain / build-dir+information, file, event index of its worker, way of dying, job count) plus faults that kill every worker at its k-th event; quick takes one file, all its event indices in the plain variant and every cache/pipe/framing event + every 4th other event in the build-dir variant (thorough: all files, every 2nd other event there); non-trivial = the fault point was reached and a worker died",
           "exhaustive": False, "crash_point_kinds": kinds, "events_per_worker": nev,
           "traces_validated_against_impl": tres.validated, "trace_rejected": len(tres.rejected), "bad": len(bad),
           "states": mc[0], "samples": mc[1] + observations[:2] + observations[-1:]}
    vlib.write_evidence(PID, tier, seed, "fault_enumeration", cov, time.time() - t0, violations=new,
                        assumptions=["crash points = hook events of the worker process (every critical section and each of the three writes of a pipe frame)"])
    return rc
