"""C03 - always-true / always-false verdicts are true.

Programs with nested and sequential related conditions (generator profile c03: same / opposite / implied / near-miss
conditions on one variable, nested, after an early exit, in else branches, inside loops that change the variable, with
assignments, increments, writes through aliases and calls by pointer between them; signed, unsigned and narrow
operands; comparisons with out-of-range constants) are analysed by the real cppcheck with --enable=style,warning.
Every finding that states a truth value (drivers/findings2facts.py) becomes the fact "this node is non-zero / zero in
every evaluation" and TLC checks it (spec/MiniC.tla, invariant FactsHold) on every execution over the boundary-value
input domain. Contradictions are confirmed by a native sanitizer-clean run before they are reported.
"""
import os
import sys

sys.path.insert(0, os.path.join(os.path.dirname(os.path.dirname(os.path.abspath(__file__))), "drivers"))

import minic  # noqa: E402
import minic_gen  # noqa: E402
import vlib  # noqa: E402

PID = "C03"
META = {
    "cat": "model_checking",
    "text": "Every always-true/always-false verdict (knownConditionTrueFalse, oppositeInnerCondition, identicalInnerCondition, "
            "identicalConditionAfterEarlyExit, comparisonError, compareValueOutOfTypeRangeError, incorrectLogicOperator, "
            "unsignedLessThanZero/unsignedPositive, knownArgument) that the real cppcheck reports on generated programs is an invariant "
            "of the MiniC executions: TLC runs every program with a verdict on every input vector of the boundary-value domain and checks "
            "that each evaluation of the flagged expression in a completed UB-free execution has the stated truth value.",
    "ref": "DESIGN.md section 4 C03",
    "note": "Verdict ids whose message states no value are counted and ignored. Bounds, witnesses and trusted base as C01.",
    "technique": "TLA+ executable semantics (MiniC.tla) model-checked by TLC with recorded verdicts as invariants + native second witness",
}
PLAT = "p32"
ASSUMPTIONS = [
    "the primary location of a verdict finding is the root token of the expression the verdict is about (verified on samples)",
    "implementation-defined behaviour as gcc documents it; platform unix64 = native gcc x86-64 (second witness)",
    "generator exclusions as in C01 (plain char on unix64, operators applied to two identical operands, ...)",
]


def population(tier, seed):
    n = {"quick": (200, 40, 40), "thorough": (1000, 200, 200)}[tier]
    progs = minic_gen.generate(seed * 1000 + 31, PLAT, "c03", n[0], "v0_")
    progs += minic_gen.generate(seed * 1000 + 32, PLAT, "cond", n[1], "v1_")
    progs += minic_gen.generate(seed * 1000 + 33, PLAT, "mix", n[2], "v2_")
    return progs


def main(tier, seed, replay=None):
    vlib.build()
    if replay:
        return minic.replay(PID, replay)
    progs = population(tier, seed)
    sizes = (30, 300, 100) if tier == "quick" else (80, 400, 500)
    rc, _cov = minic.run_check(PID, tier, seed, progs, "verdict", sizes, assumptions=ASSUMPTIONS)
    return rc
