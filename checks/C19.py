"""C19 - incremental analysis is transparent across option changes.

Same model as C18 (Cache.tla, action ChangeOpt: the key must contain every option the raw result depends on; with the
key mode "noopt" TLC finds the stale history). TLC enumerates option histories (SeqGen.tla over a palette of option
sets chosen so that each one changes what is reported for the fixed project); each history is replayed on the hooked
binary with one shared build directory; after every step TLC compares the cached run with a fresh run that uses the
same options (Rel.tla) and validates the cache events against CacheTrace.tla.
"""
import concurrent.futures
import json
import os
import random
import time

import cachelayer
import projgen
import rel
import runlayer
import vlib

PID = "C19"
CONFIRM_BY_REPLAY = True   # a new deviation is reported only if replaying its stored case repeats it
META = {
    "cat": "model_checking",
    "text": "Cache.tla (ChangeOpt action) is model-checked: the ideal key keeps runs transparent, a key that omits an option yields a stale-cache "
            "history. TLC-enumerated histories over a palette of option sets (severities, --inconclusive, -D, -U, -I, --std, --language, "
            "--platform, --library, suppressions, --max-configs, --check-level, --force, --inline-suppr) are replayed on the hooked binary with a shared "
            "build directory; TLC compares each step with a fresh run using the same options and validates the cache protocol events.",
    "ref": "DESIGN.md section 4 C19",
    "note": "The checkers summary is excluded. The fixed project is built so that every palette entry changes the report of a fresh run (measured and "
            "reported in the evidence as palette_effect). Trusted: template output parsing, hooks, TLC.",
    "technique": "TLC model check of Cache.tla + TLC-enumerated option histories replayed on the real binary, TLC-judged relation and cache-protocol trace validation",
}

EXCLUDE = {"checkersReport"}

FILES = {
    "m.c": (
        '#include "inc.h"\n'
        "#include <unistd.h>\n"
        "#include <string.h>\n"
        "void f_term(const char *p) { char buf[10]; strncpy(buf, p, 10); (void)buf[0]; }\n"
        "struct S { int a; };\n"
        "int f_inc(const struct S *s) { int x = 0; if (s) x = s->a; return x; }\n"
        "#ifdef FOO\nint f_foo(int x) { return x / 0; }\n#endif\n"
        "#ifdef BAR\nint f_bar(void) { int *p = 0; return *p; }\n#endif\n"
        "long f_plat(void) { return 1L << 40; }\n"
        "void f_lib(void) { usleep(2000000); }\n"
        "void f_style(void) { int v; v = 1; }\n"
        "int f_warn(int *p) { int v = *p; if (p) return v; return 0; }\n"
        "// cppcheck-suppress uninitvar\n"
        "int f_inl(void) { int u; return u; }\n"
        "int f_bool(int a) { char c = 'a'; if (c == 'a' || a) return 1; return 0; }\n"
        "void f_cpp(void) { int *q = 0; q++; }\n"
    ),
    "n.c": "#ifdef A1\nint n1(void) { int z[2]; return z[2]; }\n#endif\n#ifdef A2\nint n2(void) { int z[2]; return z[3]; }\n#endif\n"
           "#ifdef A3\nint n3(void) { int z[2]; return z[4]; }\n#endif\nint n0(int d) { return 5 / d; }\n",
    "inc/inc.h": "static int from_inc(void) { int hh[2]; hh[0] = 1; return hh[7]; }\n",
    "alt/inc.h": "static int from_alt(void) { int *ap = 0; return *ap; }\n",
}
FILES["p.cpp"] = "void pf(std::string s) { (void)s.size(); }\n"      # performance only (passedByValue)
FILES["q.c"] = "int f_port(int *p) { int x; x = p; return x; }\n"       # portability only (AssignmentAddressToInteger)
SOURCES = ["m.c", "n.c", "p.cpp", "q.c"]
# style (which implies warning, performance, portability) is part of the default so that every palette entry differs from
# the default in exactly one aspect
BASE = ["-q", "--template=" + projgen.TEMPLATE, "--error-exitcode=3"]
DEFAULT_SEV = ["--enable=style"]

PALETTE = {
    "none": [],
    "inconclusive": ["--inconclusive"],
    "information": ["--enable=information"],
    "unusedfunc": ["--enable=unusedFunction"],
    "DFOO": ["-DFOO"],
    "UBAR": ["-UBAR"],
    "Iinc": ["-Iinc"],
    "Ialt": ["-Ialt"],
    "std89": ["--std=c89"],
    "langcpp": ["--language=c++"],
    "unix32": ["--platform=unix32"],
    "win64": ["--platform=win64"],
    "posix": ["--library=posix"],
    "suppr": ["--suppress=zerodiv"],
    "maxcfg1": ["--max-configs=1"],
    "maxcfg2": ["--max-configs=2"],
    "exhaustive": ["--check-level=exhaustive"],
    "force": ["--force"],
    "inline": ["--inline-suppr"],
    "missinc": ["--enable=missingInclude"],
    # the severities one by one instead of the default --enable=style (which implies warning, performance, portability)
    "sev-none": ["--disable=style,warning,performance,portability"],
    "sev-warning": ["--disable=style,warning,performance,portability", "--enable=warning"],
    "sev-perf": ["--disable=style,warning,performance,portability", "--enable=performance"],
    "sev-port": ["--disable=style,warning,performance,portability", "--enable=portability"],
    "sev-perf-port": ["--disable=style,warning,performance,portability", "--enable=performance,portability"],
}
SEV_GROUP = sorted(k for k in PALETTE if k.startswith("sev-"))


def tlc_histories(k):
    work = vlib.mktmp("c19gen")
    pin = os.path.join(work, "pool.ndjson")
    out = os.path.join(work, "seqs.ndjson")
    vlib.write_ndjson(pin, [{"letters": sorted(PALETTE), "k": k, "distinct": True}])
    r = vlib.tlc("SeqGen", "SeqGen.cfg", env={"POOL": pin, "OUT": out}, timeout=900)
    if not r.ok:
        raise vlib.InfraError("SeqGen.tla failed\n" + r.out[-2000:])
    return [row["seq"] for row in vlib.read_ndjson(out)]


def run_history(idx, hist, jobs_cycle):
    root = runlayer.fresh_root("c19h%d" % idx)
    projgen.materialize({"files": FILES}, root)
    os.mkdir(os.path.join(root, "bd"))
    obs, cache_runs, steps = [], [], []
    for step, name in enumerate(hist):
        opts = BASE + DEFAULT_SEV + PALETTE[name]
        jobs = jobs_cycle[(idx + step) % len(jobs_cycle)]
        cached = cachelayer.run_cppcheck(root, SOURCES, opts, builddir="bd", jobs=jobs, trace=True)
        fresh = cachelayer.run_cppcheck(root, SOURCES, opts, builddir=None, jobs=1, trace=False)
        if cached["rc"] is None or fresh["rc"] is None:
            raise vlib.InfraError("cppcheck timeout in option history %s" % hist)
        group = "o%d.%d" % (idx, step)
        obs.append(rel.obs(group, "ref", group + "/fresh", cachelayer.fobs(fresh), fresh["rc"]))
        obs.append(rel.obs(group, "alt", group + "/cached-j%d" % jobs, cachelayer.fobs(cached), cached["rc"]))
        cache_runs.append(cached["cache_events"])
        steps.append({"group": group, "opts": hist[:step + 1], "jobs": jobs, "fresh_n": len(fresh["findings"])})
    runlayer.cleanup(root)
    return obs, cache_runs, steps


def classify(opts, b):
    """identity: which option was switched (last two option sets of the history) and which ids went stale"""
    def ids(keys):
        return ",".join(sorted(set(k.split("|")[5] for k in keys if len(k.split("|")) > 5)))
    prev = opts[-2] if len(opts) > 1 else "-"
    return "stale-option:%s->%s:fresh-only=%s:cached-only=%s" % (prev, opts[-1], ids(b["onlyRef"]), ids(b["onlyAlt"]))


def main(tier, seed, replay=None):
    t0 = time.time()
    vlib.build()
    violations = []
    mc_states = 0
    mc_samples = []
    if replay:
        hists = [json.load(open(replay))["opts"]]
    else:
        for km, expect_ok in (("ideal", True), ("noopt", False)):
            work = vlib.mktmp("c19mc")
            cfg = os.path.join(work, "Cache.cfg")
            with open(cfg, "w") as f:
                f.write('SPECIFICATION Spec\nCONSTANTS\n  Files = {"a", "b"}\n  MaxEdits = 3\n  KeyMode = "%s"\n  Jobs = 1\n'
                        "INVARIANT Transparent\nINVARIANT EntrySound\nCHECK_DEADLOCK FALSE\n" % km)
            r = vlib.tlc("Cache", cfg, workers=4, timeout=1200)
            if r.error or (expect_ok and not r.ok):
                raise vlib.InfraError("Cache.tla (%s) unexpected result rc=%s\n%s" % (km, r.rc, r.out[-1500:]))
            if not expect_ok and r.ok:
                raise vlib.InfraError("Cache.tla: key without options did not yield a stale history (vacuous invariant)")
            mc_states += r.distinct
            mc_samples.append({"model": "Cache", "keymode": km, "distinct": r.distinct, "holds": r.ok})
        seqs = tlc_histories(2 if tier == "quick" else 3)
        rnd = random.Random(seed)
        pairs = [s for s in seqs if len(s) == 2]
        if tier == "quick":
            # every palette entry is switched on and off against the default once, plus a seeded sample of the other pairs
            base = [p_ for p_ in pairs if "none" in p_]
            sev = [p_ for p_ in pairs if p_[0] in SEV_GROUP and p_[1] in SEV_GROUP]
            hists = base + sev + rnd.sample([p_ for p_ in pairs if "none" not in p_ and p_ not in sev], 30)
        else:
            hists = pairs + rnd.sample([s for s in seqs if len(s) == 3], 500)
    all_obs, histories, step_index = [], [], {}
    with concurrent.futures.ThreadPoolExecutor(max_workers=min(8, vlib.NCPU)) as ex:
        futs = [ex.submit(run_history, i, h, [1, 1, 3]) for i, h in enumerate(hists)]
        for i, fu in enumerate(futs):
            obs, cache_runs, steps = fu.result()
            all_obs += obs
            histories.append(("o%d:%s" % (i, "+".join(hists[i])), cache_runs))
            for s in steps:
                step_index[s["group"]] = s
    npairs, bad = rel.judge("SameSetAndExit", EXCLUDE, all_obs)
    nval, rejected, tstates = cachelayer.validate_cache_histories(histories, keep_dir=os.path.join(vlib.OUT, "replays", PID))
    for b in bad:
        s = step_index[b["group"]]
        p = vlib.save_replay(PID, "opts-" + vlib.digest(s["opts"]), {"opts": s["opts"], "diff": b, "jobs": s["jobs"]})
        violations.append({"key": classify(s["opts"], b), "what": "option history %s (cached run -j%d): fresh-only=%s cached-only=%s exit %s/%s" % (
            s["opts"], s["jobs"], b["onlyRef"][:3], b["onlyAlt"][:3], b["exitRef"], b["exitAlt"]), "replay": p})
    for rj in rejected:
        p = vlib.save_replay(PID, "cachetrace-" + vlib.digest(rj["label"]), rj)
        violations.append({"key": "cachetrace:%s:%s" % (rj["label"].split(":", 1)[-1], (rj["event"] or {}).get("e")),
                           "what": "cache events of %s run %s rejected by CacheTrace.tla at line %s: %s" % (rj["label"], rj["run"], rj["line"], json.dumps(rj["event"])[:300]), "replay": p})
    if replay:
        for v in violations:
            print(v["what"])
        if violations:
            print("VIOLATION property=%s replay=%s" % (PID, replay))
            return 1
        print("replay: transparent")
        return 0
    rc, new, known = vlib.verdict(PID, violations)
    effect = {}
    for s in step_index.values():
        effect.setdefault(s["opts"][-1], set()).add(s["fresh_n"])
    cov = {"states": mc_states + tstates, "transitions": mc_states + tstates, "traces_validated_against_impl": nval,
           "evaluations": npairs, "distinct_nontrivial": len(hists),
           "rule": "one evaluation per step of an option history (cached vs fresh run with the same options); histories of distinct palette entries "
                   "enumerated by TLC (SeqGen); quick = all ordered pairs with the default option set + all ordered pairs of the single-severity entries + 30 seeded other pairs, thorough = all ordered pairs + 500 seeded triples",
           "palette": sorted(PALETTE), "palette_effect": {k: sorted(v) for k, v in effect.items()},
           "relation_bad": len(bad), "cache_trace_rejected": len(rejected), "samples": mc_samples + [{"history": hists[0]}, {"history": hists[-1]}]}
    vlib.write_evidence(PID, tier, seed, "model_checking", cov, time.time() - t0, violations=new,
                        assumptions=["options are abstracted to one value in the model; the binding replays concrete option sets"])
    return rc
