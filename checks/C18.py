"""C18 - incremental analysis is transparent across edit histories.

1. TLC model-checks Cache.tla: with the ideal key Transparent holds for every history (edits of tokens, layout,
   inline suppressions, option changes, kills, 1-2 files in progress); with a weakened key / acceptance rule TLC must
   find a stale-cache history (non-vacuity).
2. TLC enumerates edit histories (SeqGen.tla over the edit alphabet of lib/cachelayer.py); the hooked binary replays
   each history in a real directory: after every edit one run with the shared build directory (-j1 / -j3) and one
   fresh run without build directory. TLC judges SameSetAndExit(fresh, cached) for every step (Rel.tla) and validates
   the cache events of every history against CacheTrace.tla (hit only on a closed entry with the same key, replaying
   exactly what was stored).
"""
import concurrent.futures
import json
import os
import random
import time

import cachelayer
import rel
import runlayer
import vlib

PID = "C18"
CONFIRM_BY_REPLAY = True   # a new deviation is reported only if replaying its stored case repeats it
META = {
    "cat": "model_checking",
    "text": "Cache.tla is model-checked exhaustively for histories of up to 3 edits over 2 files (ideal key: Transparent and EntrySound hold; "
            "weakened keys must produce a counterexample); TLC-enumerated edit histories (token, layout by 1/255/256/257/512/65536 lines and columns, "
            "comments, inline suppressions in sources and headers, header edits, files added/removed/renamed/reordered, same base names) are "
            "replayed on the hooked binary with a shared build directory, TLC compares every step with a fresh run and validates the cache "
            "protocol events against CacheTrace.tla.",
    "ref": "DESIGN.md section 4 C18",
    "note": "The checkers summary is excluded (it legitimately depends on which files were served from the cache). Whole-program findings are "
            "included as the statement says (unusedFunction is enabled). Trusted: template output parsing, hooks (analyzer-info write points), TLC.",
    "technique": "TLC model check of Cache.tla + TLC-enumerated edit histories replayed on the real binary, TLC-judged relation and cache-protocol trace validation",
}

EXCLUDE = {"checkersReport"}
OPTS = cachelayer.OPTS + ["--enable=unusedFunction"]


def model_check(tier):
    states = 0
    samples = []
    for km, expect_ok in (("ideal", True), ("pos8", False), ("noopt", False), ("acceptopen", False)):
        work = vlib.mktmp("cachemc")
        cfg = os.path.join(work, "Cache.cfg")
        with open(cfg, "w") as f:
            f.write('SPECIFICATION Spec\nCONSTANTS\n  Files = {"a", "b"}\n  MaxEdits = %d\n  KeyMode = "%s"\n  Jobs = 2\n'
                    "INVARIANT Transparent\nINVARIANT EntrySound\nINVARIANT TypeOK\nCHECK_DEADLOCK FALSE\n" % (3 if tier == "quick" else 4, km))
        r = vlib.tlc("Cache", cfg, workers=4, timeout=1500)
        if r.error:
            raise vlib.InfraError("Cache.tla model failure (%s)\n%s" % (km, r.out[-2000:]))
        if expect_ok and not r.ok:
            return None, {"keymode": km, "violated": r.violated_name(), "tlc": r.out[-3000:]}
        if not expect_ok and r.ok:
            raise vlib.InfraError("Cache.tla: the weakened key '%s' did not produce a stale-cache history - the invariant would be vacuous" % km)
        states += r.distinct
        samples.append({"model": "Cache", "keymode": km, "distinct": r.distinct, "holds": r.ok})
    return (states, samples), None


def tlc_histories(k):
    work = vlib.mktmp("c18gen")
    pin = os.path.join(work, "pool.ndjson")
    out = os.path.join(work, "seqs.ndjson")
    vlib.write_ndjson(pin, [{"letters": sorted(cachelayer.EDITS), "k": k, "distinct": False}])
    r = vlib.tlc("SeqGen", "SeqGen.cfg", env={"POOL": pin, "OUT": out}, timeout=900)
    if not r.ok:
        raise vlib.InfraError("SeqGen.tla failed\n" + r.out[-2000:])
    return [row["seq"] for row in vlib.read_ndjson(out)]


def run_history(idx, hist, jobs_cycle):
    """Replays one edit history. Returns (observations, cache runs, per-step records)."""
    root = runlayer.fresh_root("c18h%d" % idx)
    st = cachelayer.State()
    cachelayer.materialize(st, root)
    os.mkdir(os.path.join(root, "bd"))
    obs = []
    cache_runs = []
    steps = []
    for step in range(len(hist) + 1):
        if step > 0:
            cachelayer.EDITS[hist[step - 1]](st)
            cachelayer.materialize(st, root)
        jobs = jobs_cycle[(idx + step) % len(jobs_cycle)]
        cached = cachelayer.run_cppcheck(root, st.sources, OPTS, builddir="bd", jobs=jobs, trace=True)
        fresh = cachelayer.run_cppcheck(root, st.sources, OPTS, builddir=None, jobs=1, trace=False)
        if cached["rc"] is None or fresh["rc"] is None:
            raise vlib.InfraError("cppcheck timeout in history %s" % hist)
        group = "h%d.%d" % (idx, step)
        obs.append(rel.obs(group, "ref", group + "/fresh", cachelayer.fobs(fresh), fresh["rc"]))
        obs.append(rel.obs(group, "alt", group + "/cached-j%d" % jobs, cachelayer.fobs(cached), cached["rc"]))
        cache_runs.append(cached["cache_events"])
        steps.append({"group": group, "edits": hist[:step], "jobs": jobs,
                      "wp": sorted(set(f["id"] for f in fresh["findings"] if f["id"] in ("ctunullpointer", "unusedFunction")))})
    runlayer.cleanup(root)
    return obs, cache_runs, steps


def classify(edits, b):
    def short(k):
        p = k.split("|")
        return "%s:%s:%s" % (p[0], p[1], p[5]) if len(p) > 5 else k
    miss = sorted(short(k) for k in b["onlyRef"])
    extra = sorted(short(k) for k in b["onlyAlt"])
    return "stale:%s:fresh-only=%s:cached-only=%s" % ("+".join(edits), ";".join(miss), ";".join(extra))


def main(tier, seed, replay=None):
    t0 = time.time()
    vlib.build()
    violations = []
    if replay:
        hists = [json.load(open(replay))["edits"]]
        mc = (0, [])
    else:
        mc, mcviol = model_check(tier)
        if mcviol:
            p = vlib.save_replay(PID, "model-" + mcviol["keymode"], mcviol)
            violations.append({"key": "model:%s:%s" % (mcviol["keymode"], mcviol["violated"]), "what": "Cache.tla with the ideal key violates " + str(mcviol["violated"]), "replay": p})
            mc = (0, [])
        seqs = tlc_histories(2 if tier == "quick" else 3)
        rnd = random.Random(seed)
        singles = [s for s in seqs if len(s) == 1]
        pairs = [s for s in seqs if len(s) == 2]
        if tier == "quick":
            hists = singles + rnd.sample(pairs, 45)
        else:
            triples = [s for s in seqs if len(s) == 3]
            hists = singles + pairs + rnd.sample(triples, 600)
    jobs_cycle = [1, 3, 1]
    all_obs, histories, step_index = [], [], {}
    with concurrent.futures.ThreadPoolExecutor(max_workers=min(8, vlib.NCPU)) as ex:
        futs = [ex.submit(run_history, i, h, jobs_cycle) for i, h in enumerate(hists)]
        for i, fu in enumerate(futs):
            obs, cache_runs, steps = fu.result()
            all_obs += obs
            histories.append(("h%d:%s" % (i, "+".join(hists[i])), cache_runs))
            for s in steps:
                step_index[s["group"]] = s
    npairs, bad = rel.judge("SameSetAndExit", EXCLUDE, all_obs)
    nval, rejected, tstates = cachelayer.validate_cache_histories(histories, keep_dir=os.path.join(vlib.OUT, "replays", PID))
    for b in bad:
        s = step_index[b["group"]]
        p = vlib.save_replay(PID, "hist-" + vlib.digest(s["edits"]), {"edits": s["edits"], "diff": b, "jobs": s["jobs"]})
        violations.append({"key": classify(s["edits"], b), "what": "after edits %s (cached run -j%d): fresh-only=%s cached-only=%s exit %s/%s" % (
            s["edits"], s["jobs"], b["onlyRef"][:3], b["onlyAlt"][:3], b["exitRef"], b["exitAlt"]), "replay": p})
    for rj in rejected:
        p = vlib.save_replay(PID, "cachetrace-" + vlib.digest(rj["label"]), rj)
        violations.append({"key": "cachetrace:%s:%s" % (rj["label"].split(":", 1)[-1], (rj["event"] or {}).get("e")),
                           "what": "cache events of history %s run %s are not a behaviour of CacheTrace.tla at line %s: %s" % (rj["label"], rj["run"], rj["line"], json.dumps(rj["event"])[:300]), "replay": p})
    if replay:
        for v in violations:
            print(v["what"])
        if violations:
            print("VIOLATION property=%s replay=%s" % (PID, replay))
            return 1
        print("replay: transparent")
        return 0
    rc, new, known = vlib.verdict(PID, violations)
    # vacuity guard for "including whole-program findings": the fresh runs must show them
    wp_steps = {k: sum(1 for s_ in step_index.values() if k in s_.get("wp", ())) for k in ("ctunullpointer", "unusedFunction")}
    if min(wp_steps.values()) == 0:
        raise vlib.InfraError("no step reported %s: the whole-program part of the check would be vacuous" % wp_steps)
    cov = {"states": mc[0] + tstates, "transitions": mc[0] + tstates, "traces_validated_against_impl": nval,
           "evaluations": npairs, "distinct_nontrivial": len(hists),
           "rule": "one evaluation per history step (cached run vs fresh run); histories enumerated by TLC (SeqGen over %d edit kinds): quick = all single edits + 45 seeded pairs, thorough = all singles and pairs + 600 seeded triples; every history changes the project between runs (non-trivial)" % len(cachelayer.EDITS),
           "edit_alphabet": sorted(cachelayer.EDITS), "steps_with_whole_program_finding": wp_steps, "relation_bad": len(bad), "cache_trace_rejected": len(rejected),
           "samples": mc[1] + [{"history": hists[0]}, {"history": hists[-1]}]}
    vlib.write_evidence(PID, tier, seed, "model_checking", cov, time.time() - t0, violations=new,
                        assumptions=["source versions are abstracted to (tokens, layout, suppression comments) in the model; the binding replays concrete edits"])
    return rc
