"""C05 - results are invariant under meaning-preserving rewrites.

1. TLC model-checks spec/Rewrite.tla: the action property Invariance (an Observe after rewrites leaves the projected
   observation unchanged, modulo the exclusion table) holds for the ideal abstract analyzer, fails without the table and
   fails for three defective analyzers (8 bit line bookkeeping, heuristic keyed on a spelling, dependence on item order).
2. TLC enumerates the rewrite histories (length <= 3 over Whitespace, Indent, BlankLines / CommentLines (1, 3, 300),
   RenameLocals / Params / Types / Functions (2 renamings), ReorderTopLevel (2 orders)).
3. drivers/rewrite_*.py hold a corpus (samples/*/bad.c*, generated programs with findings of every severity) in a structured
   form; every rewrite is a function on the rendering record; every rendering is analysed by the hooked cppcheck
   (--enable=all --inconclusive, C and C++ where valid); findings are projected through the renderer's exact maps
   (line, column -> item.statement.token, spelled names -> names as written).
4. TLC judges the recorded traces (Rewrite.tla, judge): the driver's step must be the spec's Rewrite (Apply, valid order,
   collision-free names, a compiler accepts the text whenever it accepted the text before), and StepOK must hold;
   deviations come back with the class key  <rewrite kind>:<id>:<appeared|disappeared|moved|changed>.
"""
import concurrent.futures
import json
import os
import random
import sys
import time

sys.path.insert(0, os.path.join(os.path.dirname(os.path.dirname(os.path.abspath(__file__))), "drivers"))

import rewrite_core as rc  # noqa: E402
import rewrite_gen  # noqa: E402
import rewrite_run as rr  # noqa: E402
import vlib  # noqa: E402

PID = "C05"
META = {
    "cat": "exploration",
    "text": "TLC-enumerated rewrite histories (layout, blank/comment lines incl. 300, consistent renaming of locals, parameters, types, "
            "functions, declaration-respecting reordering) are applied to a structured corpus (samples/*/bad.c*, generated multi-function "
            "programs with error/warning/style/portability/performance/information findings, conclusive and inconclusive); the real "
            "cppcheck analyses every rendering and TLC decides for every step whether the projected findings are unchanged modulo the "
            "exclusion table that is part of the specification. The claim quantifies over all programs, so sampling with a measured "
            "number of distinct rewritten renderings is the honest level.",
    "ref": "DESIGN.md section 4 C05",
    "note": "Trusted: the renderer's position / name maps (the judge checks Apply, order validity, name-table injectivity; gcc/g++ "
            "-fsyntax-only is the second witness that a rewritten text is still a program), template output parsing, TLC. "
            "Renamings avoid spellings that occur in cppcheck's message vocabulary (names inside messages are mapped word by word).",
    "technique": "TLA+ rewrite specification (action property) model-checked by TLC + TLC-enumerated rewrite histories replayed on real "
                 "sources, recorded observation traces judged by TLC",
}

TIERS = {"quick": {"programs": 40, "chains": 4, "model_len": 2, "batch": 40},
         "thorough": {"programs": 400, "chains": 20, "model_len": 3, "batch": 50}}


def violations_of(dev, index, progs_of_batch):
    by_class = {}
    for d in dev:
        by_class.setdefault(d["class"], []).append(d)
    out = []
    for cls in sorted(by_class):
        ds = sorted(by_class[cls], key=lambda d: (len(d["hist"]), d["p"]))
        d = ds[0]
        pi, lang, _ch = index[d["trace"]]
        prog = progs_of_batch[pi]
        payload = {"prog": rr.strip(prog), "lang": lang, "hist": d["hist"], "class": cls, "lost": d["lost"], "gained": d["gained"],
                   "occurrences": len(ds), "renderings": [{"after": a, "text": t} for a, t in rr.show_renderings(prog, d["hist"])[-2:]]}
        p = vlib.save_replay(PID, "dev-" + vlib.digest([cls]), payload)
        out.append({"key": cls, "what": "%s (%s) history %s: lost=%s gained=%s [%d occurrence(s)]" % (
            d["p"], lang, "+".join(d["hist"]), d["lost"][:2], d["gained"][:2], len(ds)), "replay": p})
    return out


def main(tier, seed, replay=None):
    t0 = time.time()
    vlib.build()
    if replay:
        payload = json.load(open(replay))
        dev, drv = rr.replay_one(payload, facts=False)
        for d in dev:
            print("deviation %s: lost=%s gained=%s" % (d["class"], d["lost"], d["gained"]))
        if drv:
            raise vlib.InfraError("driver problem on replay: %s" % drv)
        if dev:
            print("VIOLATION property=%s replay=%s" % (PID, replay))
            return 1
        print("replay: invariant")
        return 0
    T = TIERS[tier]
    rnd = random.Random(seed)
    pool = concurrent.futures.ThreadPoolExecutor(max_workers=2)
    model_futs = rr.model_check_async(pool, T["model_len"])
    hists = rr.tlc_histories(PID, 3)
    progs = rewrite_gen.corpus(seed, T["programs"], vlib.REPO)
    violations = []
    tot = {"runs": 0, "steps": 0, "steps_text_changed": 0, "findings_base": 0, "ids": {}, "sev": {}, "witness_runs": 0, "witness_ok": 0, "distinct_pairs": 0}
    nsteps_judged = 0
    driver_bad = []
    run_samples = []
    first_letters = set()
    for b0 in range(0, len(progs), T["batch"]):
        batch = progs[b0:b0 + T["batch"]]

        def chains_of(i, prog, b0=b0):
            r = random.Random(seed * 7919 + b0 + i)
            ch = rr.choose_chains(hists, lambda a: True, r, T["chains"], (b0 + i) * T["chains"])
            for c in ch:
                first_letters.add(c[0])
            return ch
        records, index, stats = rr.run_corpus(batch, chains_of, facts=False, witness_every=4)
        n, dev, drv = rr.judge(records)
        nsteps_judged += n
        driver_bad += drv
        violations += violations_of(dev, index, batch)
        for k in ("runs", "steps", "steps_text_changed", "findings_base", "witness_runs", "witness_ok", "distinct_pairs"):
            tot[k] += stats[k]
        if len(run_samples) < 2:
            run_samples += stats["samples"][:2 - len(run_samples)]
        for k in ("ids", "sev"):
            for a, c in stats[k].items():
                tot[k][a] = tot[k].get(a, 0) + c
    if driver_bad:
        raise vlib.InfraError("the driver did not follow Rewrite.tla (not a cppcheck finding): %s" % json.dumps(driver_bad[:5]))
    models = [f.result() for f in model_futs]
    pool.shutdown()
    rc_, new, known = vlib.verdict(PID, violations)
    cov = {"evaluations": nsteps_judged, "distinct_nontrivial": tot["distinct_pairs"], "steps_with_changed_text": tot["steps_text_changed"],
           "rule": "one evaluation per judged history step (observation before / after one rewrite, per language); distinct non-trivial = distinct "
                   "(program, language, rewrite kind, text before, text after) with different texts; distinct renderings analysed = cppcheck_runs",
           "exhaustive": False, "programs": len(progs), "histories_enumerated_by_tlc": len(hists),
           "histories_per_program": T["chains"] * 3, "cppcheck_runs": tot["runs"], "first_letters_covered": len(first_letters),
           "findings_in_base_renderings": tot["findings_base"], "distinct_ids": len(tot["ids"]), "ids": tot["ids"], "severities": tot["sev"],
           "second_witness_runs": tot["witness_runs"], "second_witness_accepts": tot["witness_ok"],
           "states": sum(m["distinct"] for m in models), "deviation_classes": len(violations), "known": known,
           "samples": run_samples + models + [{"program": progs[0]["name"], "origin": progs[0]["origin"]}, {"program": progs[-1]["name"], "origin": progs[-1]["origin"]},
                                {"history": hists[len(hists) // 2]}]}
    vlib.write_evidence(PID, tier, seed, "exploration", cov, time.time() - t0, violations=new,
                        assumptions=["meaning preservation of the rewrites is by construction (structured form, collision-free renaming, "
                                     "declaration-respecting orders) and cross-checked by a compiler's syntax check, not proved",
                                     "names in messages are un-renamed word by word; renamable spellings avoid cppcheck's message vocabulary"])
    return rc_
