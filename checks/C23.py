"""C23 - suppressions hide exactly the matching findings.

spec/Suppress.tla (written from man/manual.md, chapter Suppressions) defines Match(s, f) three-valued (yes / no / open
where the manual is silent) and Reported(F, S).  The check
  1. lets TLC write the skeleton project, the palette of planted findings, the table of suppression forms, the
     compatible form sets (the case space) and the (suppression, finding) strata of the unit level   (step gen),
  2. picks cases from that space with the seed (quick: all singletons, 550 pairs, 650 triples, two surface forms each;
     thorough: all singletons and pairs, triples sampled from the completely enumerated space, all surface forms), lets
     TLC check every pick against the space and render it into one tiny project per surface form: --suppress=,
     --suppressions-list=, --suppress-xml=, inline comments                                              (step render),
  3. runs the real binary on every rendered project (observation = printed finding keys), the unsuppressed baseline
     projects with --xml, and harness/suppress_harness.cpp on the unit strata,
  4. lets TLC judge: observed = Reported(F, S) on every decided finding of every run, equality of the surface forms of
     a case, baseline = palette, SuppressionList::isSuppressed = Match on every decided unit pair      (step judge),
  5. lets TLC check the laws of the specification                                                      (step laws).
Python samples, renders text into files, runs processes and parses the --template / --xml output; every verdict and
every deviation class is TLC's.  The binary runs are started for a fixed time budget (the machine is shared): the
evidence states how many of the planned cases were run.
"""
import concurrent.futures
import hashlib
import json
import os
import random
import re
import shutil
import time
import xml.etree.ElementTree as ET
from xml.sax.saxutils import escape

import projgen
import vlib

PID = "C23"
META = {
    "cat": "exploration",
    "text": "The documented suppression rules (id / file patterns with `*` `?` `**`, line, symbolName, inline comments on the same or "
            "the next code line, begin/end blocks, -file, -macro, `{` special case, text / XML / inline surface forms, exit-code "
            "suppressions never hide) are a declarative three-valued TLA+ definition (Suppress.tla). TLC enumerates the compatible sets "
            "of <= 3 out of 91 suppression forms (119 376 sets); seeded picks (form set x present findings x layout / syntax variants) are rendered by "
            "TLC into one project per surface form, the real binary is run on each, and TLC judges every decided finding of every run "
            "and the equality of the surface forms (deviations get a class computed by TLC from alternative readings); ~9e4 (suppression, finding) pairs go through SuppressionList::parseLine / "
            "addSuppression / isSuppressed in a unit harness and are judged by TLC; TLC checks the laws of the definition. Sampling "
            "a finite, completely enumerated case space is the right level: matching is a pure function of small inputs.",
    "ref": "DESIGN.md section 4 C23",
    "note": "Outcomes the manual leaves open are not judged (file pattern without its directories, wildcard pattern that only matches "
            "leading directories, findings of a macro of the same name in another file, blocks of a file with an unbalanced begin/end, "
            "the comment lines of a block, column). Symbol name patterns follow test/testsuppressions.cpp. Absolute paths, `..`, "
            "Windows syntax, polyspace comments, hash, --exitcode-suppress on the unit level are not exercised (paths: C31). Trusted: "
            "TLC, the harness (calls only), --template / --xml output as the list of reported findings.",
    "technique": "TLA+ declarative function spec; case space enumerated, rendered and judged by TLC (conformance replay into the cppcheck "
                 "binary and SuppressionList), laws checked by TLC",
}

WORKERS = 6            # parallel cppcheck runs (the machine is shared)
PRINT_CAP = 12


# ------------------------------------------------------------------ TLC steps
def tlc_step(mode, env, timeout):
    e = {"MODE": mode}
    e.update(env)
    r = vlib.tlc("Suppress", "Suppress.cfg", env=e, workers=1, timeout=timeout, xmx="6g")
    if not r.ok:
        raise vlib.InfraError("Suppress.tla step %s failed (rc=%s)\n%s" % (mode, r.rc, r.out[-3000:]))
    return r


def tlc_gen(work, triples):
    """Step gen is a function of Suppress.tla alone: its output is kept under out/cache keyed by the digest of the module
    (the real code is not involved; a changed specification gets a new key)."""
    cdir = os.path.join(vlib.OUT, "cache", "C23-%s-%s" % (spec_digest(), "t" if triples else "p"))
    env = {"OUT": os.path.join(cdir, "meta.ndjson"), "OUT2": os.path.join(cdir, "space.ndjson"),
           "UOUT": os.path.join(cdir, "unit.ndjson"), "TRIPLES": "yes" if triples else "no"}
    if os.path.exists(os.path.join(cdir, "complete")):
        return vlib.read_ndjson(env["OUT"])[0], vlib.read_ndjson(env["OUT2"]), env["UOUT"]
    full = cdir[:-1] + "t"
    if not triples and os.path.exists(os.path.join(full, "complete")):      # the complete space contains singles and pairs
        return (vlib.read_ndjson(os.path.join(full, "meta.ndjson"))[0], [t for t in vlib.read_ndjson(os.path.join(full, "space.ndjson")) if len(t) < 3],
                os.path.join(full, "unit.ndjson"))
    tmp = cdir + ".tmp%d" % os.getpid()
    os.makedirs(tmp, exist_ok=True)
    env = {k: (v.replace(cdir, tmp) if k != "TRIPLES" else v) for k, v in env.items()}
    r = tlc_step("gen", env, 1800)
    meta = vlib.read_ndjson(env["OUT"])[0]
    space = vlib.read_ndjson(env["OUT2"])
    m = re.search(r'"SPACE",\s*(\d+),\s*(\d+),\s*(\d+)', r.out)
    if not m or sum(int(x) for x in m.groups()) != len(space):
        raise vlib.InfraError("Suppress.tla gen wrote an incomplete case space\n" + r.out[-2000:])
    open(os.path.join(tmp, "complete"), "w").close()
    try:
        os.makedirs(os.path.dirname(cdir), exist_ok=True)
        os.rename(tmp, cdir)
        return meta, space, os.path.join(cdir, "unit.ndjson")
    except OSError:                       # another run was faster
        return meta, space, env["UOUT"]


def tlc_render(work, picks, tag):
    pf = os.path.join(work, "picks.%s.ndjson" % tag)
    of = os.path.join(work, "rendered.%s.ndjson" % tag)
    vlib.write_ndjson(pf, picks)
    r = tlc_step("render", {"PICKS": pf, "OUT": of}, 3600)
    m = re.search(r'"RENDERED",\s*(\d+)', r.out)
    if not m or int(m.group(1)) != len(picks):
        raise vlib.InfraError("Suppress.tla render incomplete\n" + r.out[-2000:])
    return vlib.read_ndjson(of)


def tlc_judge(work, obs, base, ucases, uobs, tag):
    f = {k: os.path.join(work, "%s.%s.ndjson" % (k, tag)) for k in ("obs", "base", "bad", "basebad", "ubad", "uobs0")}
    vlib.write_ndjson(f["obs"], obs)
    vlib.write_ndjson(f["base"], base)
    if uobs is None:
        open(f["uobs0"], "w").close()
        uobs = f["uobs0"]
    r = tlc_step("judge", {"OBS": f["obs"], "BASE": f["base"], "OUT": f["bad"], "BASEOUT": f["basebad"],
                           "UCASES": ucases, "UOBS": uobs, "UBADOUT": f["ubad"]}, 3600)
    m = re.search(r'"JUDGED",\s*(\d+),\s*"BADRUNS",\s*(\d+),\s*"BADSURF",\s*(\d+)', r.out)
    mb = re.search(r'"BASELINE",\s*(\d+),\s*"BAD",\s*(\d+)', r.out)
    mu = re.search(r'"UNITJUDGED",\s*(\d+),\s*"BAD",\s*(\d+),\s*"YES",\s*(\d+),\s*"NO",\s*(\d+),\s*"OPEN",\s*(\d+)', r.out)
    mv = re.search(r'"VERDICTS",\s*(\d+),\s*(\d+),\s*(\d+)', r.out)
    if not (m and mb and mu and mv) or int(m.group(1)) != len(obs) or int(mb.group(1)) != len(base):
        raise vlib.InfraError("Suppress.tla judge gave no verdict\n" + r.out[-2000:])
    return {"bad": vlib.read_ndjson(f["bad"]), "basebad": vlib.read_ndjson(f["basebad"]), "ubad": vlib.read_ndjson(f["ubad"]),
            "unit": [int(x) for x in mu.groups()], "verdicts": [int(x) for x in mv.groups()]}


def spec_digest():
    return hashlib.sha256(open(os.path.join(vlib.SPEC, "Suppress.tla"), "rb").read()).hexdigest()[:16]


def tlc_laws(use_cache):
    """The laws are statements about Suppress.tla alone; quick reuses the result TLC computed for the identical module."""
    cf = os.path.join(vlib.OUT, "cache", "C23-%s-laws.json" % spec_digest())
    if use_cache and os.path.exists(cf):
        return json.load(open(cf))
    r = tlc_step("laws", {}, 3600)
    laws = re.findall(r'<<"LAW",\s*"([^"]+)"', r.out)
    if len(laws) < 5:
        raise vlib.InfraError("Suppress.tla laws incomplete\n" + r.out[-2000:])
    os.makedirs(os.path.dirname(cf), exist_ok=True)
    with open(cf + ".tmp%d" % os.getpid(), "w") as fh:
        json.dump(laws, fh)
    os.replace(cf + ".tmp%d" % os.getpid(), cf)
    return laws


# ------------------------------------------------------------------ picks (seeded)
def make_pick(rnd, meta, names, nmodes, all_present=None):
    snips = sorted(meta["snips"])
    surf = {f["n"]: f["surfaces"] for f in meta["forms"]}
    usable = [m for m in ("cmd", "list", "xml", "inl") if any(m in surf[n] for n in names)]   # other preferences only repeat a run
    modes = sorted(rnd.sample(usable, min(nmodes, len(usable))), key=("cmd", "list", "xml", "inl").index)
    if all_present is None:
        all_present = rnd.random() < 0.65
    present = snips if all_present else [s for s in snips if rnd.random() < 0.6]
    wants_style = any(("*" in n) or any(k in n for k in ("ur", "cvp")) for n in names)
    style = rnd.random() < (0.7 if wants_style else 0.35)
    nofail = [] if rnd.random() < 0.6 else rnd.choice(meta["nofail"])
    return {"forms": sorted(names), "present": present, "style": style, "fill": rnd.choice(sorted(meta["fills"])),
            "var": rnd.randrange(meta["maxvar"] + 1), "nofail": nofail, "modes": modes}


def choose_picks(tier, seed, meta, space):
    rnd = random.Random(seed)
    forms = [f["n"] for f in meta["forms"]]
    singles = [t for t in space if len(t) == 1]
    pairs = [t for t in space if len(t) == 2]
    triples = [t for t in space if len(t) == 3]
    picks = []
    if tier == "quick":
        n_pairs, n_triples = 550, 650
        adj = {}
        for i, j in pairs:
            adj.setdefault(i, set()).add(j)
            adj.setdefault(j, set()).add(i)
        # half of the pairs from the stratum where the comments of both forms stand in the same file (they interact through
        # the attachment rules), half from the rest
        inl = lambda i: "inl" in meta["forms"][i - 1]["surfaces"]
        close = [t for t in pairs if inl(t[0]) and inl(t[1]) and meta["forms"][t[0] - 1]["file"] == meta["forms"][t[1] - 1]["file"]]
        close_set = set(map(tuple, close))
        far = [t for t in pairs if tuple(t) not in close_set]
        chosen = [[i] for (i,) in singles] + rnd.sample(close, min(len(close), n_pairs // 2))
        chosen += rnd.sample(far, n_pairs - (len(chosen) - len(singles)))
        seen = set()
        while len(seen) < n_triples:             # a set of three is in the space iff its three pairs are (TLC re-checks every pick)
            i, j = rnd.choice(close if len(seen) % 2 else pairs)
            common = sorted(adj[i] & adj[j])
            if not common:
                continue
            seen.add(tuple(sorted((i, j, rnd.choice(common)))))
        chosen += [list(t) for t in sorted(seen)]
    else:
        n = 50000
        chosen = [list(t) for t in singles] + [list(t) for t in pairs]
        chosen += [list(t) for t in rnd.sample(triples, min(len(triples), n - len(chosen)))]
    for k, idx in enumerate(chosen):
        names = [forms[i - 1] for i in idx]
        picks.append(make_pick(rnd, meta, names, 2 if tier == "quick" else 4, all_present=True if len(idx) == 1 else None))
    return picks


# ------------------------------------------------------------------ rendering a run into a directory, running it
def filler(fill, line):
    if fill == "blank":
        return ""
    if fill == "comment":
        return "// note %d" % line
    return "" if line % 2 else "// note %d" % line


def write_project(root, meta, pick, run):
    slots = {(s["file"], s["line"], s["pos"]): s["text"] for s in (run["slots"] if run else [])}
    present = set(pick["present"])
    for f in meta["files"]:
        out = []
        for n, ln in enumerate(f["lines"], 1):
            if ln["t"] == "slot":
                out.append(slots.get((f["name"], n, "own"), filler(pick["fill"], n)))
            else:
                text = ln["text"] if (ln["t"] == "fixed" or ln["snip"] in present) else ln["alt"]
                tail = slots.get((f["name"], n, "tail"))
                out.append(text + (" " + tail if tail else ""))
        p = os.path.join(root, f["name"])
        os.makedirs(os.path.dirname(p), exist_ok=True)
        with open(p, "w") as fh:
            fh.write("\n".join(out) + "\n")


def run_args(meta, pick, run, root, xml_out=False):
    args = ["-q"]
    args.append("--xml" if xml_out else "--template=" + projgen.TEMPLATE)
    if pick["style"]:
        args.append("--enable=style")
    if run:
        if run["inline"]:
            args.append("--inline-suppr")
        for t in run["cmd"]:
            args.append("--suppress=" + t)
        if run["list"]:
            with open(os.path.join(root, "sup.txt"), "w") as fh:
                fh.write("\n".join(run["list"]) + "\n")
            args.append("--suppressions-list=sup.txt")
        if run["xml"]:
            with open(os.path.join(root, "sup.xml"), "w") as fh:
                fh.write('<?xml version="1.0"?>\n<suppressions>\n')
                for x in run["xml"]:
                    fh.write("  <suppress>\n")
                    for k in ("id", "fileName", "lineNumber", "symbolName"):
                        if x[k] != "":
                            fh.write("    <%s>%s</%s>\n" % (k, escape(x[k]), k))
                    fh.write("  </suppress>\n")
                fh.write("</suppressions>\n")
            args.append("--suppress-xml=sup.xml")
    if pick["nofail"]:
        with open(os.path.join(root, "nofail.txt"), "w") as fh:
            fh.write("\n".join(pick["nofail"]) + "\n")
        args.append("--exitcode-suppressions=nofail.txt")
    return args + list(meta["sources"])


def run_one(meta, pick, rr):
    """rr = {"modes": [...], "run": {...}} as rendered by TLC -> observation of this run."""
    root = vlib.mktmp("c23r")
    try:
        write_project(root, meta, pick, rr["run"])
        args = run_args(meta, pick, rr["run"], root)
        rc, out, err = vlib.run_cppcheck(args, root, timeout=120)
    finally:
        shutil.rmtree(root, ignore_errors=True)
    if rc is None:
        raise vlib.InfraError("cppcheck timed out: %s" % args)
    fs = projgen.parse_findings(err)
    stray = [l for l in (out + "\n" + err).splitlines() if l.strip() and not l.startswith("F|")]
    return {"modes": rr["modes"], "run": {"inline": rr["run"]["inline"]}, "rc": rc if rc >= 0 else 1000 - rc,
            "findings": [{"file": f["file"], "line": f["line"], "col": f["col"], "id": f["id"]} for f in fs],
            "stray": stray[:3], "args": args}


def run_baseline(meta, present, style):
    """The unsuppressed project: locations from the --template output, <symbol>s from --xml (joined on id and message)."""
    pick = {"present": present, "style": style, "fill": "comment", "nofail": []}
    root = vlib.mktmp("c23b")
    try:
        write_project(root, meta, pick, None)
        rc, out, err = vlib.run_cppcheck(run_args(meta, pick, None, root, xml_out=True), root, timeout=120)
        rc2, out2, err2 = vlib.run_cppcheck(run_args(meta, pick, None, root), root, timeout=120)
    finally:
        shutil.rmtree(root, ignore_errors=True)
    if rc != 0 or rc2 != 0:
        raise vlib.InfraError("baseline run failed rc=%s/%s\n%s" % (rc, rc2, (err + err2)[-1000:]))
    xml_errors = []
    for e in ET.fromstring(err).iter("error"):
        xml_errors.append({"id": e.get("id"), "msg": e.get("msg"), "syms": [x.text for x in e.findall("symbol")], "used": False,
                           "locs": set((l.get("file"), int(l.get("line")), int(l.get("column"))) for l in e.findall("location"))})
    findings = []
    for f in projgen.parse_findings(err2):
        hit = [x for x in xml_errors if not x["used"] and x["id"] == f["id"] and x["msg"] == f["msg"] and (f["file"], f["line"], f["col"]) in x["locs"]]
        if not hit:
            raise vlib.InfraError("baseline: %s reported with --template but not with --xml" % f["key"])
        hit[0]["used"] = True
        findings.append({"id": f["id"], "file": f["file"], "line": f["line"], "col": f["col"], "syms": hit[0]["syms"]})
    if not all(x["used"] for x in xml_errors):
        raise vlib.InfraError("baseline: --xml and --template report different findings")
    return {"present": present, "style": style, "findings": findings}


def baseline_specs(meta):
    snips = sorted(meta["snips"])
    return [(snips, True), (snips, False), ([], True)] + [([s], True) for s in snips]


def observe(meta, rendered, pool, deadline=None):
    """Runs the cases in order, WORKERS runs at a time; cases not started before the deadline are left out."""
    obs = []
    window = 4 * WORKERS
    futs = []
    nxt = 0
    while nxt < len(rendered) or futs:
        while nxt < len(rendered) and len(futs) < window and (deadline is None or time.time() < deadline or nxt == 0):
            c = rendered[nxt]
            futs.append((c, [pool.submit(run_one, meta, c["pick"], rr) for rr in c["runs"]]))
            nxt += 1
        if not futs:
            break
        c, fl = futs.pop(0)
        obs.append({"pick": c["pick"], "runs": [f.result() for f in fl]})
    return obs


def strip_obs(obs):
    """what the judge needs (the argument lists stay in Python for the messages / replay files)"""
    return [{"pick": o["pick"], "runs": [{k: r[k] for k in ("modes", "run", "rc", "findings")} for r in o["runs"]]} for o in obs]


# ------------------------------------------------------------------ violations
def bad_to_violations(bad, obs, rendered):
    viol = []
    saved = {}
    for b in bad:
        if b["class"] == "follows-from-run":
            continue                                   # the runs of that case are reported themselves
        c = obs[b["case"] - 1]
        payload = {"pick": b["pick"], "verdict": b, "rendered": rendered[b["case"] - 1]["runs"], "observed": c["runs"]}
        key = b["class"]
        if len(saved.setdefault(key, [])) < 5:         # at most five stored inputs per class
            saved[key].append(vlib.save_replay(PID, re.sub(r"[^A-Za-z0-9_.-]", "_", key)[:80] + "-" + vlib.digest(b["pick"]), payload))
        p = saved[key][0]
        if b["kind"] == "run":
            r = c["runs"][b["run"] - 1]
            what = "forms %s via %s: must be reported but missing %s; must be hidden but shown %s; unexpected %s; rc=%s %s; cppcheck %s" % (
                b["pick"]["forms"], "/".join(b["modes"]), b["missing"], b["shown"], b["extra"], r["rc"], r["stray"][:1], " ".join(r["args"]))
        else:
            what = "forms %s: the surface forms report different findings: %s" % (
                b["pick"]["forms"], [("/".join(r["modes"]), sorted((f["file"], f["line"], f["id"]) for f in r["findings"])) for r in c["runs"]])
        viol.append({"key": key, "what": what, "replay": p})
    return viol


def unit_violations(ubad):
    viol = []
    by = {}
    for b in ubad:
        by.setdefault(b["class"], []).append(b)
    for key, bs in sorted(by.items()):
        b = bs[0]
        p = vlib.save_replay(PID, re.sub(r"[^A-Za-z0-9_.-]", "_", key)[:80], {"unit": bs[:200], "count": len(bs)})
        viol.append({"key": key, "what": "%d unit pairs, e.g. suppression %s on finding %s: specification says %s, SuppressionList says %s" % (
            len(bs), json.dumps(b["sup"]), json.dumps(b["find"]), b["expected"], b["got"]), "replay": p})
    return viol


def harness_exe():
    """The harness is relinked only when the harness source or an object of the hooked build is newer than it."""
    exe = os.path.join(vlib.BUILD, "harness", "suppress_harness")
    src = os.path.join(vlib.VERIF, "harness", "suppress_harness.cpp")
    try:
        t = os.path.getmtime(exe)
        if t > os.path.getmtime(src) and all(t > os.path.getmtime(o) for o in vlib.core_objects()):
            return exe
    except OSError:
        pass
    return vlib.build_harness("suppress_harness.cpp")


# ------------------------------------------------------------------ main
def main(tier, seed, replay=None):
    t0 = time.time()
    vlib.build()
    work = vlib.mktmp("c23")
    if replay:
        return do_replay(replay, work)
    exe = harness_exe()
    bg = concurrent.futures.ThreadPoolExecutor(max_workers=4)          # TLC steps next to the binary runs (at most 4 at a time)
    pool = concurrent.futures.ThreadPoolExecutor(max_workers=WORKERS)
    laws_f = bg.submit(tlc_laws, tier == "quick")
    meta, space, ucases = tlc_gen(work, tier == "thorough")
    phase = {"build+gen": time.time() - t0}

    def unit_level():
        uobs = os.path.join(work, "uobs.ndjson")
        rc, out, err = vlib.run([exe, ucases, uobs], timeout=1800)
        if rc != 0:
            raise vlib.InfraError("suppress_harness failed rc=%s %s" % (rc, (out + err)[-1000:]))
        j = tlc_judge(work, [], [], ucases, uobs, "unit")
        return j, int(re.search(r"calls (\d+)", out).group(1))
    unit_f = bg.submit(unit_level)

    picks = choose_picks(tier, seed, meta, space)
    random.Random(seed).shuffle(picks)                  # any prefix is a sample of all strata (the run budget may cut the list)
    base_f = [pool.submit(run_baseline, meta, p, st) for p, st in baseline_specs(meta)]
    budget = 90 if tier == "quick" else 2000           # seconds after which no further binary runs are started
    budget = int(os.environ.get("C23_BUDGET", budget))
    # render / run / judge are pipelined chunk by chunk (small first chunks so that the binary runs start early); the
    # rendering is always two chunks ahead of the runs
    bounds = [0, 100, 450, len(picks)] if tier == "quick" else [0, 300, 1500] + list(range(4000, len(picks), 2500)) + [len(picks)]
    chunks = [picks[a:b] for a, b in zip(bounds, bounds[1:]) if a < b]
    all_obs, all_rendered, bad = [], [], []
    verdicts = [0, 0, 0]
    judge_fs = []
    render_fs = {k: bg.submit(tlc_render, work, chunks[k], str(k)) for k in range(min(2, len(chunks)))}
    base = [f.result() for f in base_f]
    t_runs = None
    for k in range(len(chunks)):
        tw = time.time()
        rendered = render_fs.pop(k).result()
        tw = time.time() - tw
        if t_runs is None:
            t_runs = time.time()
            phase["render"] = t_runs - t0 - phase["build+gen"]
        if k + 2 < len(chunks) and time.time() < t_runs + 0.7 * budget:
            render_fs[k + 2] = bg.submit(tlc_render, work, chunks[k + 2], str(k + 2))
        tr = time.time()
        obs = observe(meta, rendered, pool, t_runs + budget)
        rendered = rendered[:len(obs)]
        phase.setdefault("chunks", []).append({"waited_for_render": round(tw, 1), "run_s": round(time.time() - tr, 1), "cases": len(obs),
                                               "runs": sum(len(o["runs"]) for o in obs)})
        judge_fs.append((len(all_obs), bg.submit(tlc_judge, work, strip_obs(obs), base if k == 0 else [], ucases, None, str(k))))
        all_obs += obs
        all_rendered += rendered
        if len(obs) < len(chunks[k]) or time.time() > t_runs + budget or (k + 1) not in render_fs:
            break
    phase["runs"] = time.time() - t_runs
    basebad = []
    for off, f in judge_fs:
        j = f.result()
        basebad += j["basebad"]
        for b in j["bad"]:
            b["case"] += off
        bad += j["bad"]
        verdicts = [x + y for x, y in zip(verdicts, j["verdicts"])]
    # a deviation that no alternative reading of TLC explains (class other / refused / surface) and that is not a known
    # finding is reported only if an immediate re-run of the case reproduces it (an explained deviation is the exact
    # outcome of a deterministic alternative rule: a disturbed run cannot produce it by chance)
    known_keys = vlib.known_findings(PID)
    unexplained = lambda b: b["class"].startswith(("other:", "refused:", "surface"))
    suspects = sorted(set(b["case"] for b in bad if unexplained(b) and b["class"] not in known_keys))[:24]
    not_reproduced = 0
    if suspects:
        again = observe(meta, [all_rendered[i - 1] for i in suspects], pool)
        j2 = tlc_judge(work, strip_obs(again), [], ucases, None, "rerun")
        confirmed = set((suspects[b["case"] - 1], b["run"], b["class"]) for b in j2["bad"])
        keep = []
        for b in bad:
            if b["case"] in suspects and unexplained(b) and b["class"] not in known_keys and (b["case"], b["run"], b["class"]) not in confirmed:
                not_reproduced += 1
                continue
            keep.append(b)
        bad = keep
    phase["judge"] = time.time() - t_runs - phase["runs"]
    uj, ucalls = unit_f.result()
    unit, ubad = uj["unit"], uj["ubad"]
    laws = laws_f.result()
    if basebad:
        raise vlib.InfraError("the unsuppressed project does not report the palette of Suppress.tla (cppcheck's checkers changed?): %s"
                              % json.dumps(basebad[0])[:1500])

    violations = bad_to_violations(bad, all_obs, all_rendered) + unit_violations(ubad)
    # every class is reported once; of the classes that are not known findings only the first PRINT_CAP are printed
    shown, unknown = [], set()
    for v in violations:
        if v["key"] not in known_keys:
            if v["key"] not in unknown and len(unknown) >= PRINT_CAP:
                continue
            unknown.add(v["key"])
        shown.append(v)
    all_unknown = set(v["key"] for v in violations if v["key"] not in known_keys)
    rc, new, known = vlib.verdict(PID, shown)
    if len(all_unknown) > len(unknown):
        print("  ... and %d more deviation classes (all stored under %s)" % (len(all_unknown) - len(unknown), os.path.join(vlib.OUT, "replays", PID)))
    new = len(all_unknown)
    nruns = sum(len(o["runs"]) for o in all_obs)
    nontrivial = len(set(vlib.digest([o["pick"]["forms"], o["pick"]["present"], o["pick"]["style"]]) for o in all_obs
                         if any(len(r["findings"]) < len(all_findings(meta, o["pick"])) for r in o["runs"])))
    classes = {}
    for b in bad:
        classes[b["class"]] = classes.get(b["class"], 0) + 1
    for b in ubad:
        classes[b["class"]] = classes.get(b["class"], 0) + 1
    sample = lambda o: {"pick": o["pick"], "runs": [{"modes": r["modes"], "args": r["args"], "reported": len(r["findings"])} for r in o["runs"]]}
    cov = {"evaluations": nruns + ucalls,
           "distinct_nontrivial": nontrivial,
           "rule": "a case = (set of <= 3 suppression forms, present snippets, style, layout / syntax variant, exit-code suppressions) picked with the "
                   "seed from the space TLC enumerates; every case is run once per distinct surface delivery; non-trivial = distinct (forms, present, "
                   "style) whose suppressions hid at least one finding in some run; evaluations = cppcheck runs + unit isSuppressed calls",
           "exhaustive": False,
           "cases": len(all_obs), "cases_planned": len(picks), "cppcheck_runs": nruns, "baseline_runs": len(base),
           "case_space_form_sets": len(space), "case_space_complete": tier == "thorough", "forms": len(meta["forms"]),
           "finding_verdicts": {"must_report": verdicts[0], "must_hide": verdicts[1], "total": verdicts[2], "open": verdicts[2] - verdicts[0] - verdicts[1]},
           "unit": {"suppressions": unit[0], "bad_pairs": unit[1], "yes": unit[2], "no": unit[3], "open": unit[4], "isSuppressed_calls": ucalls},
           "laws_checked": laws, "bad_runs": len([b for b in bad if b["kind"] == "run"]), "bad_surface": len([b for b in bad if b["kind"] == "surface"]),
           "deviation_classes": classes, "known_findings_hit": known, "not_reproduced_on_rerun": not_reproduced, "phase_s": {k: (round(v, 1) if isinstance(v, float) else v) for k, v in phase.items()},
           "samples": [sample(all_obs[0]), sample(all_obs[len(all_obs) // 2]), sample(all_obs[-1])]}
    vlib.write_evidence(PID, tier, seed, "exploration", cov, time.time() - t0, violations=new,
                        assumptions=["findings are read from the --template output on stderr (baseline: --xml)",
                                     "outcomes the manual leaves open are not judged",
                                     "macro suppressions are exercised in one file only (leak into other files: known finding of C17)"])
    return rc


def all_findings(meta, pick):
    present = set(pick["present"])
    return [f for f in meta["palette"] if f["snip"] in present and (pick["style"] or not f["style"])]


def do_replay(path, work):
    payload = json.load(open(path))
    if "unit" in payload:
        exe = harness_exe()
        _meta, _space, ucases = tlc_gen(work, False)
        uobs = os.path.join(work, "uobs.ndjson")
        rc, out, err = vlib.run([exe, ucases, uobs], timeout=1800)
        if rc != 0:
            raise vlib.InfraError("suppress_harness failed rc=%s" % rc)
        j = tlc_judge(work, [], [], ucases, uobs, "replay")
        want = set((b["st"], json.dumps(b["sup"], sort_keys=True), json.dumps(b["find"], sort_keys=True)) for b in payload["unit"])
        hit = [b for b in j["ubad"] if (b["st"], json.dumps(b["sup"], sort_keys=True), json.dumps(b["find"], sort_keys=True)) in want]
        for b in hit[:5]:
            print(json.dumps(b))
        if hit:
            print("VIOLATION property=%s replay=%s" % (PID, path))
            return 1
        print("replay: the unit pairs are as specified")
        return 0
    meta, _space, ucases = tlc_gen(work, False)
    rendered = tlc_render(work, [payload["pick"]], "replay")
    pool = concurrent.futures.ThreadPoolExecutor(max_workers=WORKERS)
    obs = observe(meta, rendered, pool)
    j = tlc_judge(work, strip_obs(obs), [], ucases, None, "replay")
    for r in obs[0]["runs"]:
        print("cppcheck %s\n  -> rc=%s %s %s" % (" ".join(r["args"]), r["rc"], sorted((f["file"], f["line"], f["id"]) for f in r["findings"]), r["stray"][:1]))
    for b in j["bad"]:
        print(json.dumps({k: b[k] for k in ("kind", "class", "modes", "missing", "shown", "extra")}))
    if j["bad"]:
        print("VIOLATION property=%s replay=%s" % (PID, path))
        return 1
    print("replay: reported findings as specified")
    return 0
