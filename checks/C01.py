"""C01 - value-flow facts hold in every UB-free execution.

1. Programs: the exhaustive core enumerated by TLC (spec/ProgGenCore.tla: all programs with one statement in the quick
   tier, with one or two statements in the thorough tier) plus seeded programs of the generator profiles arith / cond / loop / ptr / mix (drivers/minic_gen.py).
2. The hooked cppcheck analyses them (50 functions per translation unit, --dump, --platform); drivers/dump2facts.py turns
   the known / impossible / symbolic values of the <valueflow> section into facts keyed by AST node.
3. TLC model-checks spec/MiniC.tla: every program on every input vector of its boundary-value domain, invariant
   FactsHold (an execution that completes without undefined behaviour contradicts no fact).
4. Every contradicted fact is re-executed natively (gcc -O0, UBSan + ASan, a probe printing the value of the node); it
   is reported only if the native run is clean and shows the same value. A sample of executions is also compared with
   native runs (returned value / sanitizer verdict), judged by TLC (spec/MiniCConf.tla).
"""
import json
import os
import random
import sys
import time

sys.path.insert(0, os.path.join(os.path.dirname(os.path.dirname(os.path.abspath(__file__))), "drivers"))

import minic  # noqa: E402
import minic_gen  # noqa: E402
import vlib  # noqa: E402

PID = "C01"
META = {
    "cat": "model_checking",
    "text": "TLC executes every generated program (exhaustive small core enumerated by TLC + seeded larger programs with all integer "
            "types, pointers, arrays, loops, switch, helper calls) on every input vector of a boundary-value domain with the small-step "
            "semantics MiniC.tla (explicit undefined-behaviour outcomes) and checks the invariant FactsHold: no known / impossible / "
            "symbolic value that the real cppcheck printed in --dump is contradicted by a completed UB-free execution. Facts are recorded "
            "from the implementation, counterexamples are confirmed by a native sanitizer-clean run.",
    "ref": "DESIGN.md section 4 C01, section 5.3",
    "note": "Bounded: programs of the generator's shape, inputs from the boundary domain (type limits, -1..2, program constants +-1), "
            "values inside TLC's 32 bit integers (executions leaving them are abandoned and counted). Implementation-defined behaviour as "
            "gcc documents it. Trusted: the renderer's token positions (cross-checked against the dump token text), TLC, gcc sanitizers.",
    "technique": "TLA+ executable semantics (MiniC.tla) model-checked by TLC with recorded analyser facts as invariants + native second witness",
}

PLAT = "p32"
PROFILES = ["arith", "cond", "loop", "ptr", "mix"]


def population(tier, seed):
    # core: every program with one statement (quick) / one or two statements (thorough) between prologue and return
    trees = minic.core_trees(1 if tier == "quick" else 2)
    core_total = len(trees)
    idx = list(range(len(trees)))
    if tier == "quick":
        per_profile = 14
        per_profile16 = 6
    else:
        per_profile = 60
        per_profile16 = 24
    progs = [minic.flatten_core(trees[i], "c%05d" % i, PLAT) for i in idx]
    ncore = len(progs)
    for j, prof in enumerate(PROFILES):
        progs += minic_gen.generate(seed * 1000 + j, PLAT, prof, per_profile, "g%d_" % j)
    # the 16 bit platform (spec/p16.xml): every boundary value of int / unsigned int, including wrap-around, is explored
    for j, prof in enumerate(PROFILES):
        progs += minic_gen.generate(seed * 1000 + 100 + j, "p16", prof, per_profile16, "h%d_" % j)
    # small programs aimed at narrowing stores, loop counters after the loop, writes through aliases / callees
    ne = (24, 10) if tier == "quick" else (300, 100)
    progs += minic_gen.edge_programs(seed, PLAT, ne[0], "e0_")
    progs += minic_gen.edge_programs(seed + 500, "p16", ne[1], "e1_")
    for p in progs:
        p["only"] = []
    return progs, ncore, core_total


ASSUMPTIONS = [
    "implementation-defined behaviour as gcc documents it (conversion to signed types modulo 2^N, arithmetic >>)",
    "a fact on the `=` token is read as a fact about the assigned or the right-hand value; a known value on an operand may be the value "
    "after the implicit conversion of its parent (cppcheck's documented representation)",
    "evaluation order inside a full expression is fixed left to right; the generator never makes it observable",
    "platform unix64 = native gcc x86-64 (second witness); for the generated 16 bit platform the witness is compiled from an explicit "
    "form (exact-width native types, every operator computed in long long with conversion / range check), drivers/render.py R16",
    "generator exclusions (each demonstrated by a violation class or reported defect): plain char on unix64, mixed-sign operands that "
    "cppcheck converts differently from C, ~ of boolean / narrow operands, ++/--/op= on variables narrower than int, operators applied "
    "to two identical operands",
]


def main(tier, seed, replay=None):
    vlib.build()
    if replay:
        return minic.replay(PID, replay)
    progs, ncore, core_total = population(tier, seed)
    sizes = (30, 300, 150) if tier == "quick" else (60, 400, 800)
    rc, _cov = minic.run_check(PID, tier, seed, progs, "valueflow", sizes, ncore=ncore, core_total=core_total,
                               assumptions=ASSUMPTIONS)
    return rc
