"""C02 - container-size facts hold in every UB-free execution.

Programs over std::vector<int> / std::string (construction, push_back, pop_back, insert, erase, resize, clear, swap,
copy assignment, front/back, calls passing the container by reference, branches on empty()/size(), loops with an
input-dependent trip count) are analysed by the real cppcheck (C++, std.cfg); the known / impossible container-size
values of the dump become facts on the mentions of the containers. TLC model-checks spec/Containers.tla: every program
on every input vector (each parameter 0..3), invariant SizeFactsHold. The exhaustive core - every straight-line
sequence of up to 3 (quick) / 4 (thorough) operations - is enumerated by TLC (spec/ContainersCore.tla). A contradicted
fact is reported only after a native run (g++ -D_GLIBCXX_ASSERTIONS, ASan + UBSan) is clean and prints the same size.
"""
import json
import os
import random
import sys
import time
from concurrent.futures import ThreadPoolExecutor

sys.path.insert(0, os.path.join(os.path.dirname(os.path.dirname(os.path.abspath(__file__))), "drivers"))

import cont  # noqa: E402
import vlib  # noqa: E402

PID = "C02"
META = {
    "cat": "model_checking",
    "text": "TLC executes generated container programs (exhaustive core of straight-line operation sequences enumerated by TLC + seeded "
            "programs with branches on empty()/size(), input-dependent loops, swap/copy/by-reference calls) with the semantics "
            "Containers.tla on every input vector and checks that no known / impossible container-size value printed by the real cppcheck "
            "in --dump is contradicted by the size of the container at that mention in a completed UB-free execution.",
    "ref": "DESIGN.md section 4 C02",
    "note": "Sequence containers std::vector<int> and std::string only (no set/list/array, no move); inputs 0..3 per parameter; UB = "
            "pop_back/erase/front/back on empty. Witness: libstdc++ with assertions under ASan+UBSan.",
    "technique": "TLA+ executable container semantics (Containers.tla) model-checked by TLC with recorded container-size facts as invariants "
                 "+ native second witness",
}


def core(maxlen):
    work = vlib.mktmp("ccore")
    out = os.path.join(work, "core.ndjson")
    r = vlib.tlc("ContainersCore", "ContainersCore.cfg", env={"OUT": out, "MAXLEN": str(maxlen)}, workers=1, timeout=600)
    if not r.ok:
        raise vlib.InfraError("ContainersCore failed rc=%s\n%s" % (r.rc, r.out[-2000:]))
    return vlib.read_ndjson(out)


def conformance(progs, rows, rng, nprogs):
    by = {}
    for x in rows:
        if x["s"] in ("done", "ub"):
            by.setdefault(x["p"], []).append(x)
    pidx = sorted(by)
    rng.shuffle(pidx)
    pidx = pidx[:nprogs]

    def one(i):
        p = progs[i]
        retn = p["nodes"][p["body"][-1] - 1]
        xs = by[i][:6]
        nat = cont.native(p, [x["inp"] for x in xs], retn["m1"])
        return [{"id": p["name"] + str(x["inp"]), "s": x["s"], "size": x["sizes"][retn["c"] - 1], "nat": n["status"] if n["status"] is not None else -1,
                 "nsize": n["probes"][-1:] if n["status"] == 0 else []} for x, n in zip(xs, nat)]

    with ThreadPoolExecutor(max_workers=4) as ex:
        obs = [o for part in ex.map(one, pidx) for o in part]
    if not obs:
        return 0, []
    work = vlib.mktmp("cconf")
    inp, out = os.path.join(work, "obs.ndjson"), os.path.join(work, "bad.ndjson")
    vlib.write_ndjson(inp, obs)
    r = vlib.tlc("ContainersConf", "ContainersConf.cfg", env={"OBS": inp, "OUT": out}, workers=1, timeout=300)
    if not r.ok:
        raise vlib.InfraError("ContainersConf failed rc=%s\n%s" % (r.rc, r.out[-2000:]))
    return len(obs), vlib.read_ndjson(out)


def main(tier, seed, replay=None):
    t0 = time.time()
    vlib.build()
    if replay:
        return do_replay(replay)
    rng = random.Random(seed)
    seqs = core(3 if tier == "quick" else 4)
    progs = [cont.from_core(s, "k%05d" % i, "vector" if i % 2 == 0 else "string") for i, s in enumerate(seqs)]
    ncore = len(progs)
    progs += cont.generate(seed * 1000 + 21, 300 if tier == "quick" else 4000, "r")
    work = vlib.mktmp("c02")
    stats = {}
    nfacts = cont.analyse(progs, work, stats)
    rows, states, gen, reports = cont.run_tlc(progs)
    groups = {}
    for x in rows:
        if x["s"] == "done" and x["bad"]["set"]:
            groups.setdefault((x["p"], x["bad"]["m"], x["bad"]["fact"]), []).append(x)
    violations, disagreements = [], []
    for (pi, m, fi), xs in sorted(groups.items()):
        p = progs[pi]
        x = xs[0]
        fact = p["mf"][m - 1][fi - 1]
        nat = cont.native(p, [x["inp"]], m)[0]
        text, pos = cont.describe(p, m)
        info = {"program": p["name"], "input": x["inp"], "mention": m, "position": pos, "fact": "size %s %d" % (
            {"eq": "==", "ne": "!=", "gt": ">", "lt": "<"}[fact["k"]], fact["v"]), "size": x["bad"]["len"], "inputs_failing": len(xs), "witness": nat}
        if not (nat["status"] == 0 and x["bad"]["len"] in nat["probes"]):
            disagreements.append(info)
            continue
        key = vlib.digest({"text": text.replace(p["name"], "F"), "pos": pos, "fact": [fact["k"], fact["v"]]})
        path = vlib.save_replay(PID, "%s-m%d-f%d" % (p["name"], m, fi), {"prog": p, "input": x["inp"], "mention": m, "source": text, "info": info})
        violations.append({"key": key, "replay": path,
                           "what": "%s %s:%s container size %d contradicts fact `%s` on input %s (%d inputs)" % (
                               p["name"], pos[0], pos[1], x["bad"]["len"], info["fact"], x["inp"], len(xs))})
    njudged, confbad = conformance(progs, rows, rng, 20 if tier == "quick" else 120)
    rc, new, known = vlib.verdict(PID, violations)
    for d in disagreements[:10]:
        print("MODEL-DISAGREEMENT (not reported against cppcheck): %s" % json.dumps(d)[:600])
    for d in confbad[:10]:
        print("MODEL-DISAGREEMENT (conformance sample): %s" % json.dumps(d)[:300])
    by_status = {}
    for x in rows:
        by_status[x["s"]] = by_status.get(x["s"], 0) + 1
    done = [x for x in rows if x["s"] == "done"]
    exercised = set((x["p"], m) for x in done for m in x["seen"])
    kinds = {}
    for p, m in exercised:
        for f in progs[p]["mf"][m - 1]:
            kinds[f["k"]] = kinds.get(f["k"], 0) + 1
    sample = progs[ncore] if len(progs) > ncore else progs[0]
    cov = {"states": states, "transitions": gen, "traces_validated_against_impl": len(done), "evaluations": len(rows), "distinct_nontrivial": len(exercised),
           "rule": "one evaluation = one execution (program, input vector) explored by TLC; distinct non-trivial = distinct (program, container "
                   "mention) pairs that carry at least one size fact and were evaluated by at least one completed UB-free execution",
           "exhaustive": False, "programs": len(progs), "core_programs": ncore, "core_exhaustive": True,
           "core_rule": "every sequence of 1..%d operations from ContainersCore!Ops on one container" % (3 if tier == "quick" else 4),
           "facts_recorded": nfacts, "facts_exercised": sum(kinds.values()), "facts_exercised_by_kind": kinds, "executions_by_status": by_status,
           "contradicted_facts_confirmed_natively": len(violations), "model_disagreements": len(disagreements) + len(confbad),
           "conformance_sample_judged": njudged, "tlc_invariant_reports": reports, "conversion_counters": stats,
           "samples": [{"program": cont.describe(sample, 1)[0], "facts": [[m + 1, f] for m, fs in enumerate(sample["mf"]) for f in fs][:12],
                        "one_execution": next((x for x in done if x["p"] == ncore), None)}]}
    vlib.write_evidence(PID, tier, seed, "model_checking", cov, time.time() - t0, violations=new,
                        assumptions=["a container-size value on a token is the size when that token is evaluated, i.e. before the member function "
                                     "it is the object of runs (verified on samples)", "libstdc++ behaviour is the reference for the container operations"])
    print("C02 %s: %d programs (%d core), %d facts (%d exercised %s), %d executions %s, %d states, %d violations (%d known), %d model disagreements"
          % (tier, len(progs), ncore, nfacts, sum(kinds.values()), kinds, len(rows), by_status, states, new, known, len(disagreements) + len(confbad)))
    return rc


def do_replay(path):
    payload = json.load(open(path))
    p = payload["prog"]
    r = cont.tlc_trace(p, payload["input"])
    print("\n".join(l for l in r.out.split("\n") if not l.startswith('"X '))[-5000:])
    if not r.violation:
        print("replay: TLC finds no violation (rc=%s)" % r.rc)
        return 0
    nat = cont.native(p, [payload["input"]], payload["mention"])[0]
    print("native witness: %s" % json.dumps(nat))
    if not (nat["status"] == 0 and payload["info"]["size"] in nat["probes"]):
        print("replay: native witness disagrees with the model")
        return 0
    print(payload["source"])
    print("VIOLATION property=%s replay=%s" % (PID, path))
    return 1
