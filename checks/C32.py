"""C32 - compilation-database import reproduces the compiler's options.

spec/CompileDb.tla defines Options(args) (GCC command-line rules for -D -U -I -isystem -std=, arguments of other
options contribute nothing) and the quoting styles of compilation-database generators. TLC enumerates argument vectors
(argv0, up to three option elements, -c, file), renders each as "arguments" array and as "command" string in six
quoting variants, and judges what cppcheck used for every entry:

  unit  harness/compiledb_harness.cpp: ImportProject::importCompileCommands on the generated compile_commands.json
        (defines, undefines, include paths, standard per entry)
  e2e   the real binary: --project=compile_commands.json -v (Defines:/Undefines:/Includes: per file) plus probe
        findings inside #if blocks of the analysed sources (effective defines, standard, include directories)
Witnesses before a case is held against cppcheck: /bin/sh splits the command string into the same words; gcc -###
passes the same -D/-U/-I/-std to its compiler proper.
"""
import concurrent.futures
import json
import os
import random
import re
import sys
import time

import vlib

sys.path.insert(0, os.path.join(vlib.VERIF, "drivers"))
import compiledb  # noqa: E402

PID = "C32"
META = {
    "cat": "exploration",
    "text": "TLC enumerates GCC-style argument vectors (every single option element, every well-formed pair, seeded triples; joined and "
            "separate option arguments, values with quotes / spaces / backslash / '=', relative and absolute directories and files, "
            "arguments of -o/-MF/-MT/-include/-x that look like options or like MSVC options) in seven forms (arguments array; command "
            "string in CMake, double-quote, single-quote and backslash style) and judges the defines, undefines, include paths and "
            "standard that ImportProject (unit harness) and the real binary (-v lines and define-dependent probe findings) use "
            "against Options(args). Exploration: the space of command lines is unbounded; singles and pairs are exhaustive for the "
            "element catalogue.",
    "ref": "DESIGN.md section 4 C32",
    "note": "Only quoting on which POSIX sh and the generator styles agree is generated (checked per command with /bin/sh); no "
            "backslash before ordinary characters. -isystem directories and -f/-m derived macros are not judged (cppcheck "
            "documents neither); a relative 'directory' is resolved against the directory of compile_commands.json = cwd. "
            "Trusted: TLC, renderer/parsers in drivers/compiledb.py, gcc -### as reading of GCC's rules.",
    "technique": "TLA+ function spec (CompileDb.tla), TLC-generated compilation databases replayed into ImportProject and the real binary, verdicts by TLC",
}
FAMILY = {"likeD": "looks-like-gcc-option", "likeI": "looks-like-gcc-option", "likeU": "looks-like-gcc-option", "likeStd": "looks-like-gcc-option",
          "slashD": "looks-like-msvc-option", "slashU": "looks-like-msvc-option", "slashI": "looks-like-msvc-option", "file": "plain-file"}


def tlc_mode(mode, env, timeout=2400, xmx="6g"):
    e = {"MODE": mode}
    e.update(env)
    r = vlib.tlc("CompileDb", "CompileDb.cfg", env=e, workers=1, timeout=timeout, xmx=xmx)
    if not r.ok:
        raise vlib.InfraError("model failure in CompileDb.tla MODE=%s (rc=%s)\n%s" % (mode, r.rc, r.out[-3000:]))
    return r


def counts(r, *names):
    res = {}
    for n in names:
        m = re.search(r'"%s",\s*(\d+)' % n, r.out)
        if not m:
            raise vlib.InfraError("CompileDb.tla printed no %s\n%s" % (n, r.out[-1500:]))
        res[n] = int(m.group(1))
    return res


def gen_params(tier, seed):
    rnd = random.Random(seed)
    nsample, nshards = (1200, 2) if tier == "quick" else (40000, 8)
    sample = [[rnd.randrange(1 << 20) for _ in range(3)] for _ in range(nsample // 5)]
    clean = [[rnd.randrange(1 << 20) for _ in range(3)] for _ in range(nsample - nsample // 5)]
    return {"pairs": True, "sample": sample, "sample_clean": clean, "nshards": nshards}


def generate(params, work):
    def one(k):
        pf = os.path.join(work, "params-%d.json" % k)
        out = os.path.join(work, "cases-%d.ndjson" % k)
        vlib.write_ndjson(pf, [dict(params, shard=k)])
        tlc_mode("gen", {"PARAMS": pf, "OUT": out})
        return vlib.read_ndjson(out)
    with concurrent.futures.ThreadPoolExecutor(max_workers=4) as ex:
        return list(ex.map(one, range(params["nshards"])))


def judge(cases, obs, root, work, tag):
    cf = os.path.join(work, "jc-%s.ndjson" % tag)
    of = os.path.join(work, "jo-%s.ndjson" % tag)
    bf = os.path.join(work, "jb-%s.ndjson" % tag)
    vlib.write_ndjson(cf, cases)
    vlib.write_ndjson(of, obs)
    r = tlc_mode("judge", {"CASES": cf, "OBS": of, "OUT": bf, "ROOT": root})
    c = counts(r, "JUDGED", "CASES", "NONTRIVIAL", "BAD")
    bad = vlib.read_ndjson(bf)
    if len(bad) != c["BAD"]:
        raise vlib.InfraError("CompileDb.tla verdict/output mismatch")
    return c, bad


def explore(tier, seed, work, exe, cases_override=None):
    """-> (coverage, bad records with field binding, cases by id)"""
    pf = os.path.join(work, "params-laws.json")
    probes_f = os.path.join(work, "probes.ndjson")
    t0 = time.time()
    if cases_override is None:
        params = gen_params(tier, seed)
        vlib.write_ndjson(pf, [dict(params, shard=0, sample=[], sample_clean=[], pairs=(tier != "quick"))])
        with concurrent.futures.ThreadPoolExecutor(max_workers=2) as ex0:
            fl = ex0.submit(tlc_mode, "laws", {"PARAMS": pf})
            fp = ex0.submit(tlc_mode, "probes", {"OUT": probes_f})
            shards = generate(params, work)
            fl.result()
            fp.result()
    else:
        tlc_mode("probes", {"OUT": probes_f})
        shards = [cases_override]
    probes = vlib.read_ndjson(probes_f)
    gen_s = time.time() - t0
    rnd = random.Random(seed + 17)
    n_e2e = 260 if tier == "quick" else 4000
    byid = {}
    for sh in shards:
        for c in sh:
            byid[c["id"]] = c
    multi = sorted(i for i, c in byid.items() if len(c["classes"]) > 1)
    e2e_ids = set(i for i, c in byid.items() if len(c["classes"]) == 1) | set(rnd.sample(multi, min(n_e2e, len(multi))))
    tot = {"unit": {}, "e2e": {}}
    bad_all = []
    nentries = {"unit": 0, "e2e": 0}
    sh_bad = set()
    steps = []

    def one(k):
        cases = shards[k]
        if not cases:
            return None
        t1 = time.time()
        shb = compiledb.sh_disagreements(cases, work)
        obs, root, n1 = compiledb.run_unit(exe, cases, work, str(k))
        t2 = time.time()
        cu, badu = judge(cases, obs, root, work, "u%d" % k)
        t3 = time.time()
        ecases = [c for c in cases if c["id"] in e2e_ids]
        ce, bade, n2 = {}, [], 0
        if ecases:
            sub = os.path.join(work, "s%d" % k)
            os.makedirs(sub, exist_ok=True)
            # every chunk has its own root; the judge needs one root per call -> judge per chunk
            chunk = 120
            chunks = [ecases[i:i + chunk] for i in range(0, len(ecases), chunk)]

            def ejob(j):
                o, ne, rc = compiledb.run_e2e_chunk(chunks[j], probes, sub, str(j), absolute_project=(j % 2 == 1))
                cj, bj = judge(chunks[j], o, os.path.join(sub, "e2e-%d" % j), work, "e%d_%d" % (k, j))
                return cj, bj, ne
            with concurrent.futures.ThreadPoolExecutor(max_workers=3) as ex2:
                for cj, bj, ne in ex2.map(ejob, range(len(chunks))):
                    for kk, v in cj.items():
                        ce[kk] = ce.get(kk, 0) + v
                    bade += bj
                    n2 += ne
        steps.append({"shard": k, "witness_and_unit_s": round(t2 - t1, 1), "judge_unit_s": round(t3 - t2, 1), "e2e_and_judge_s": round(time.time() - t3, 1)})
        return shb, cu, badu, ce, bade, n1, n2
    with concurrent.futures.ThreadPoolExecutor(max_workers=4) as ex:
        results = list(ex.map(one, range(len(shards))))
    for r in results:
        if r is None:
            continue
        shb, cu, badu, ce, bade, n1, n2 = r
        sh_bad |= shb
        nentries["unit"] += n1
        nentries["e2e"] += n2
        for kk, v in cu.items():
            tot["unit"][kk] = tot["unit"].get(kk, 0) + v
        for kk, v in ce.items():
            tot["e2e"][kk] = tot["e2e"].get(kk, 0) + v
        for binding, bl in (("unit", badu), ("e2e", bade)):
            for b in bl:
                c = byid[b["id"]]
                bad_all.append(dict(b, binding=binding, classes=c["classes"], arguments=c["arguments"],
                                    command="" if b["form"] == 1 else c["commands"][b["form"] - 2], dirkind=c["dirkind"], filekind=c["filekind"]))
    cov = {"vectors": len(byid), "entries": nentries, "counts": tot, "e2e_vectors": len(e2e_ids),
           "steps_wall_s": {"laws_probes_gen": round(gen_s, 1), "shards": steps}}
    return cov, bad_all, byid, sh_bad


DISAGREE_SAMPLES = []


def key_class(cls):
    p = cls.split(":")
    if p[0] == "arg-of" and len(p) == 3:
        return "arg-of-other-option:" + FAMILY.get(p[2], p[2])
    return cls


def group_violations(bad_all, byid, sh_bad, work):
    """-> (violations, number of witness disagreements). A deviation is named by the option element that shows it
    alone (every single element is enumerated), otherwise by the whole vector's element classes."""
    disagree = 0
    kept = []
    ids = sorted(set(b["id"] for b in bad_all))
    first = {}
    for b in bad_all:
        first.setdefault(b["id"], b)
    with concurrent.futures.ThreadPoolExecutor(max_workers=4) as ex:
        verdicts = list(ex.map(lambda i: compiledb.gcc_agrees(first[i], os.path.join(work, "gccw")), ids))
    gcc_cache = dict(zip(ids, verdicts))
    for b in bad_all:
        if (b["id"], b["form"]) in sh_bad or gcc_cache[b["id"]] is False:
            disagree += 1
            if len(DISAGREE_SAMPLES) < 6 and b["form"] == 1:
                DISAGREE_SAMPLES.append({"arguments": b["arguments"], "spec_expects": b["expected"],
                                         "gcc": compiledb.gcc_options(["w.c" if a == compiledb.FILEWORD else a for a in b["arguments"]], os.path.join(work, "gccw"))})
            continue
        kept.append(b)
    single_bad = set(key_class(b["classes"][0]) for b in kept if len(b["classes"]) == 1)
    groups = {}
    for b in kept:
        kc = [key_class(c) for c in b["classes"]]
        blame = sorted(set(c for c in kc if c in single_bad))
        for name in (blame if blame else ["interaction:" + "+".join(kc)]):
            g = groups.setdefault(name, {"n": 0, "forms": set(), "forms1": set(), "bindings": set(), "examples": [], "ids": []})
            g["n"] += 1
            g["forms"].add(b["formname"])
            if len(b["classes"]) == 1:
                g["forms1"].add(b["formname"])      # the forms in which the element deviates when it stands alone
            g["bindings"].add(b["binding"])
            if len(g["examples"]) < 4 or (len(b["classes"]) == 1 and len(g["examples"]) < 8):
                g["examples"].append(b)
                g["ids"].append(b["id"])
    res = []
    for name, g in sorted(groups.items()):
        fs = g["forms1"] or g["forms"]
        forms = "all-forms" if "arguments" in fs else "command-only:" + ",".join(sorted(f.split(":", 1)[1] for f in fs))
        key = "opt:%s|%s" % (name, forms)
        ex = sorted(g["examples"], key=lambda b: (len(b["classes"]), b["form"]))[0]
        payload = {"kind": "vectors", "key": key, "count": g["n"], "forms": sorted(g["forms1"] or g["forms"]), "bindings": sorted(g["bindings"]),
                   "examples": g["examples"], "cases": [byid[i] for i in sorted(set(g["ids"]))]}
        p = vlib.save_replay(PID, "opt-" + vlib.digest(key), payload)
        shown = ex["command"] if ex["form"] != 1 else json.dumps([a for a in ex["arguments"]])
        res.append({"key": key, "what": "%s %s: %s (%d entries; forms %s; bindings %s)"
                                        % (ex["formname"], shown, "; ".join(ex["diff"])[:400], g["n"], ",".join(sorted(g["forms1"] or g["forms"])), ",".join(sorted(g["bindings"]))),
                    "replay": p})
    return res, disagree


def main(tier, seed, replay=None):
    t0 = time.time()
    vlib.build()
    exe = vlib.build_harness("compiledb_harness.cpp")
    work = vlib.mktmp("c32")
    if replay:
        return do_replay(replay, work, exe)
    cov, bad_all, byid, sh_bad = explore(tier, seed, work, exe)
    violations, disagree = group_violations(bad_all, byid, sh_bad, work)
    rc, new, known = vlib.verdict(PID, violations)
    ids = sorted(byid)
    samples = []
    for i in ids[:: max(1, len(ids) // 5)][:5]:
        c = byid[i]
        samples.append({"arguments": c["arguments"], "command_cmake": c["commands"][0], "command_sq": c["commands"][3],
                        "directory": c["dirkind"], "file": c["filekind"]})
    u, e = cov["counts"]["unit"], cov["counts"]["e2e"]
    coverage = {
        "evaluations": u.get("JUDGED", 0) + e.get("JUDGED", 0),
        "distinct_nontrivial": u.get("NONTRIVIAL", 0),
        "rule": "distinct argument vectors (distinct by construction: TLC enumerates a set) for which Options(args) is not empty, i.e. at "
                "least one define / undefine / include path / standard must be reproduced; every vector is judged in 7 forms",
        "exhaustive": False,
        "exhaustive_strata": "all single option elements and all well-formed pairs of the element catalogue of CompileDb.tla; triples sampled by seed",
        "samples": samples,
        "detail": cov,
        "model_disagreement": disagree, "model_disagreement_samples": DISAGREE_SAMPLES,
        "sh_witness_disagreements": len(sh_bad),
        "deviation_groups": {v["key"]: v["what"][:160] for v in violations},
    }
    vlib.write_evidence(PID, tier, seed, "exploration", coverage, time.time() - t0, violations=new,
                        assumptions=["-isystem directories and macros derived from -f/-m options are not judged",
                                     "a relative 'directory' is resolved against the directory holding compile_commands.json (cppcheck is run there)",
                                     "entries are attributed to -v blocks by file name (a file named twice: by order of analysis, -j1)",
                                     "probe findings (arrayIndexOutOfBounds inside #if) show the effective configuration"])
    return rc


def do_replay(path, work, exe):
    payload = json.load(open(path))
    cases = sorted(payload["cases"], key=lambda c: c["id"])
    cov, bad_all, byid, sh_bad = explore("thorough", 1, work, exe, cases_override=cases)
    violations, disagree = group_violations(bad_all, byid, sh_bad, work)
    for b in bad_all[:20]:
        print("BAD", json.dumps({k: b[k] for k in ("id", "binding", "formname", "arguments", "command", "diff")})[:700])
    if violations:
        print("VIOLATION property=%s replay=%s" % (PID, path))
        return 1
    print("replay: no violation reproduced (%d judged, %d witness disagreements)" % (cov["counts"]["unit"].get("JUDGED", 0), disagree))
    return 0
