"""C34 - addon results are relayed faithfully.

Addon.tla enumerates addon outputs (sequences of line kinds x exit code) together with severity options, a suppression
on a relayed id, the executor and a build directory. A scripted addon (drivers/fakeaddon.py) prints exactly the lines of
the case; the hooked binary runs it through --addon; TLC judges: exactly the findings of enabled severities are relayed
under <addon>-<errorId> with the given location/severity/message, a suppression removes the relayed finding like any
other, summaries reach the whole-program stage of the addon, malformed lines are skipped, a text line or a failing exit
code gives ONE internal error, never a crash; the AddonLine events of the hooked binary must classify the lines as the
spec does. The run traces are also validated against Run.tla (relayed findings go through the same pipeline).
"""
import concurrent.futures
import json
import os
import random
import re
import shutil
import time

import projgen
import runtrace
import tracenorm
import vlib

PID = "C34"
CONFIRM_BY_REPLAY = True   # a new deviation is reported only if replaying its stored case repeats it
META = {
    "cat": "exploration",
    "text": "TLC enumerates all addon outputs of up to 2 (thorough: sampled 3) lines over 11 line kinds with both exit codes, three severity "
            "settings, a suppression, three executors and with/without build directory; a scripted addon replays each output into the real "
            "binary; TLC judges relayed findings (id, location, severity, message), internal-error reporting, summary forwarding, line "
            "classification (hook events) and absence of crashes; traces are validated against Run.tla.",
    "ref": "DESIGN.md section 4 C34",
    "note": "The addon is a script of this framework (drivers/fakeaddon.py); shipped addons are not exercised. Summary forwarding is observed by "
            "the scripted addon itself when it is called for the .ctu-info stage. Field-level malformations (missing keys, wrong types) are in "
            "the thorough tier as crash/hang observations only.",
    "technique": "TLC-enumerated addon outputs replayed through a scripted addon, TLC-judged (Addon.tla) + trace validation against Run.tla",
}

T_C = "int ok(int a) { return a + 1; }\n"
U_C = "int ok2(int a) { return a + 2; }\n"


def render_line(i, l):
    k = l["k"]
    if k == "finding":
        return json.dumps({"file": "@FILE@", "linenr": 10 + i, "column": 3, "severity": l["sev"], "message": "msg %d" % i,
                           "addon": "fake", "errorId": "e%d" % i, "extra": ""})
    if k == "loc":
        # two locations; the note of the primary (last) one contains TAB bytes - the separator of the inter-process encoding
        return json.dumps({"loc": [{"file": "@FILE@", "linenr": 1, "column": 1, "info": "first"},
                                   {"file": "@FILE@", "linenr": 10 + i, "column": 3, "info": "he\tre\t%d" % i}], "severity": "error",
                           "message": "msg %d" % i, "addon": "fake", "errorId": "e%d" % i, "extra": ""})
    if k == "unknown":
        return json.dumps({"file": "@FILE@", "linenr": 10 + i, "column": 3, "severity": "bogus", "message": "msg %d" % i,
                           "addon": "fake", "errorId": "e%d" % i, "extra": ""})
    if k == "summary":
        return json.dumps({"summary": "s%d" % i, "data": [i]})
    if k == "badjson":
        return "{ this is not json"
    if k == "checking":
        return "Checking something..."
    if k == "empty":
        return ""
    return "Traceback (most recent call last):"


# the case is played for t.c; for the second translation unit u.c the addon prints only the summary lines of the case -
# byte-identical to those of t.c - and succeeds: every summary of every translation unit must reach the whole-program stage
FAKE = open(os.path.join(vlib.VERIF, "drivers", "fakeaddon.py")).read().replace(
    'for line in case["lines"]:\n',
    'if os.path.basename(src) != "t.c":\n'
    '    for line in case["lines"]:\n'
    '        if line.startswith(\'{"summary"\'):\n'
    '            sys.stdout.write(line + "\\n")\n'
    '    sys.stdout.flush()\n'
    '    sys.exit(0)\n'
    'for line in case["lines"]:\n')
assert 'basename(src) != "t.c"' in FAKE


def run_case(c):
    root = vlib.mktmp("c34")
    with open(os.path.join(root, "t.c"), "w") as f:
        f.write(T_C)
    with open(os.path.join(root, "u.c"), "w") as f:
        f.write(U_C)
    with open(os.path.join(root, "fake.py"), "w") as f:
        f.write(FAKE)
    # descriptor: "ctu": true makes cppcheck call the addon for the whole-program (.ctu-info) stage as well
    json.dump({"script": os.path.join(root, "fake.py"), "ctu": True}, open(os.path.join(root, "fake.json"), "w"))
    lines = [render_line(i + 1, l) for i, l in enumerate(c["lines"])]
    if c.get("rawlines"):
        lines = c["rawlines"]
    json.dump({"lines": lines, "exit": c["exit"]}, open(os.path.join(root, "case.json"), "w"))
    args = ["-q", "--template=" + projgen.TEMPLATE, "--template-location=L|{file}|{line}|{column}|{info}", "--addon=fake.json",
            "--addon-python=" + os.path.realpath(__import__("sys").executable)]
    if c["enable"] != "none":
        args.append("--enable=" + c["enable"])
    if c["suppress"]:
        args.append("--suppress=fake-e1")
    if c["exec"] == "thread":
        args += ["-j2", "--executor=thread"]
    elif c["exec"] == "process":
        args += ["-j2", "--executor=process"]
    if c["builddir"]:
        os.mkdir(os.path.join(root, "bd"))
        args.append("--cppcheck-build-dir=bd")
    args += ["t.c", "u.c"]
    tdir = vlib.mktmp("c34tr")
    rc, out, err = vlib.run_cppcheck(args, root, trace_dir=tdir, timeout=120)
    raw = vlib.read_traces(tdir)
    shutil.rmtree(tdir, ignore_errors=True)
    fs = projgen.parse_findings(err)
    # location notes (--template-location lines), the text as a list of byte values so that TLC compares it
    notes = []
    for l in err.splitlines():
        if l.startswith("L|"):
            parts = l.split("|", 4)
            if len(parts) == 5 and parts[2].isdigit() and parts[3].isdigit():
                notes.append({"line": int(parts[2]), "col": int(parts[3]), "codes": list(parts[4].encode("utf-8", "surrogateescape"))})
    # the line kinds logged while t.c was being checked (AddonLine events between CheckBegin(t.c) and the next CheckBegin of
    # the same thread)
    kinds = []
    for pid, evs in raw.items():
        cur = {}
        for e in evs:
            if e["e"] == "CheckBegin":
                cur[e.get("tid", 0)] = os.path.basename(e.get("file", ""))
            elif e["e"] == "AddonLine" and cur.get(e.get("tid", 0)) == "t.c":
                kinds.append(e["kind"])
    got = 0
    for fn in os.listdir(root):
        if fn.startswith("received-"):
            got += len([x for x in json.load(open(os.path.join(root, fn))) if '"summary"' in x])
    hdr, evs = tracenorm.normalize(raw)
    shutil.rmtree(root, ignore_errors=True)
    obs = {"case": c, "signal": rc is None or rc < 0, "rc": -999 if rc is None else rc,
           "addonFindings": [{"id": f["id"], "line": f["line"], "col": f["col"], "sev": f["sev"], "msg": f["msg"]} for f in fs if f["id"].startswith("fake-")],
           "internalErrors": len([f for f in fs if f["id"] in ("internalError", "cppcheckError")]),
           "summariesForwarded": got, "kinds": kinds, "locNotes": notes,
           "other": [f["key"] for f in fs if not f["id"].startswith("fake-") and f["id"] not in ("internalError", "cppcheckError", "checkersReport")]}
    return obs, ("c34-" + vlib.digest(c), hdr, evs)


def tlc_gen(maxlen):
    work = vlib.mktmp("c34gen")
    par = os.path.join(work, "p.ndjson")
    out = os.path.join(work, "cases.ndjson")
    vlib.write_ndjson(par, [{"maxlen": maxlen}])
    r = vlib.tlc("Addon", "Addon.cfg", env={"MODE": "gen", "PARAMS": par, "OUT": out, "OBS": "/dev/null"}, timeout=1200, xmx="8g")
    if not r.ok:
        raise vlib.InfraError("Addon.tla gen failed\n" + r.out[-2000:])
    return vlib.read_ndjson(out)


def tlc_judge(obs):
    work = vlib.mktmp("c34judge")
    inp = os.path.join(work, "obs.ndjson")
    out = os.path.join(work, "bad.ndjson")
    vlib.write_ndjson(inp, obs)
    r = vlib.tlc("Addon", "Addon.cfg", env={"MODE": "judge", "PARAMS": "/dev/null", "OUT": out, "OBS": inp}, timeout=1800, xmx="8g")
    if not r.ok:
        raise vlib.InfraError("Addon.tla judge failed\n" + r.out[-2500:])
    m = re.search(r'"JUDGED",\s*(\d+),\s*"BAD",\s*(\d+)', r.out)
    if not m or int(m.group(1)) != len(obs):
        raise vlib.InfraError("Addon.tla gave no verdict\n" + r.out[-2000:])
    return vlib.read_ndjson(out)


MALFORMED = [
    '{"file":"@FILE@","linenr":"x","column":3,"severity":"error","message":"m","addon":"fake","errorId":"m1","extra":""}',
    '{"file":"@FILE@","linenr":11,"column":3,"severity":"error","addon":"fake","errorId":"m2","extra":""}',
    '{"file":"@FILE@","linenr":11,"column":3,"severity":"error","message":"m","errorId":"m3","extra":""}',
    '{"file":"@FILE@","linenr":99999999999999999999,"column":3,"severity":"error","message":"m","addon":"fake","errorId":"m4"}',
    '{"loc":"notalist","severity":"error","message":"m","addon":"fake","errorId":"m5"}',
    '{"loc":[{"file":"@FILE@"}],"severity":"error","message":"m","addon":"fake","errorId":"m6"}',
    '{"file":"@FILE@","linenr":11,"column":3,"severity":7,"message":"m","addon":"fake","errorId":"m7"}',
    '{"metric":"notanobject"}',
    '{"summary":null}',
    '{}',
    '{"file":"@FILE@","linenr":-5,"column":-3,"severity":"error","message":"' + "x" * 70000 + '","addon":"fake","errorId":"m8"}',
]


def main(tier, seed, replay=None):
    t0 = time.time()
    vlib.build()
    rnd = random.Random(seed)
    if replay:
        cases = [json.load(open(replay))["case"]]
    else:
        cases = tlc_gen(2)
        total = len(cases)
        if tier == "quick":
            cases = rnd.sample(cases, 160)
        else:
            cases = cases + rnd.sample(tlc_gen(3), 3000)
    obs, runs = [], []
    with concurrent.futures.ThreadPoolExecutor(max_workers=min(8, vlib.NCPU)) as ex:
        for o, run in ex.map(run_case, cases):
            obs.append(o)
            if run[1] is not None:
                runs.append(run)
    bad = tlc_judge(obs)
    if bad and not replay:
        obs2 = [run_case(b["case"])[0] for b in bad]
        bad = tlc_judge(obs2)
    step = max(1, len(runs) // (80 if tier == "quick" else 500))
    tres = runtrace.validate(runs[::step], keep_dir=os.path.join(vlib.OUT, "replays", PID))
    violations = []
    for b in bad:
        c = b["case"]
        p = vlib.save_replay(PID, "case-" + vlib.digest(c), b)
        violations.append({"key": "%s:lines=%s:exit=%s:exec=%s:builddir=%s" % ("+".join(b["reasons"]), ",".join(l["k"] for l in c["lines"]), c["exit"], c["exec"], c["builddir"]),
                           "what": "addon output %s exit %s (%s, enable=%s, suppress=%s, builddir=%s): %s; got %s, internal errors %s, summaries %s" % (
                               [l["k"] + ":" + l["sev"] for l in c["lines"]], c["exit"], c["exec"], c["enable"], c["suppress"], c["builddir"], b["reasons"], b["got"], b["internalErrors"], b["summariesForwarded"]),
                           "replay": p})
    for rj in tres.rejected:
        p = vlib.save_replay(PID, "trace-" + vlib.digest(rj["label"]), rj)
        violations.append({"key": "trace:%s:%s" % ((rj["event"] or {}).get("e"), rj["invariant"]), "what": "trace %s rejected at line %s: %s" % (rj["label"], rj["line"], json.dumps(rj["event"])[:300]), "replay": p})
    # malformed field level output: only "terminates normally" is demanded
    crashes = 0
    nmal = 0
    if not replay:
        for raw in (MALFORMED if tier == "thorough" else MALFORMED[:6]):
            for ex_ in ("single", "process"):
                c = {"lines": [], "rawlines": [raw], "exit": 0, "enable": "all", "suppress": False, "exec": ex_, "builddir": False}
                o, _ = run_case(c)
                nmal += 1
                if o["signal"]:
                    crashes += 1
                    p = vlib.save_replay(PID, "malformed-" + vlib.digest(raw[:200]), {"case": c})
                    violations.append({"key": "crash-on-malformed:%s" % vlib.digest(raw[:200]), "what": "cppcheck crashed / hung (rc=%s) on addon line %s" % (o["rc"], raw[:120]), "replay": p})
    if replay:
        for v in violations:
            print(v["what"])
        if violations:
            print("VIOLATION property=%s replay=%s" % (PID, replay))
            return 1
        print("replay: relayed as expected")
        return 0
    rc, new, known = vlib.verdict(PID, violations)
    cov = {"evaluations": len(obs) + nmal, "distinct_nontrivial": len([1 for o in obs if o["case"]["lines"]]),
           "rule": "one run per TLC-enumerated case (addon output of <= 2 lines x exit code x enable x suppression x executor x build dir; quick = 160 seeded of them, thorough = all + 3000 seeded of length 3) + field-level malformed lines; non-trivial = case with at least one output line",
           "case_space_len2": total if not replay else 0, "traces_validated_against_impl": tres.validated, "bad": len(bad), "malformed_runs": nmal,
           "samples": [obs[0], obs[-1]]}
    vlib.write_evidence(PID, tier, seed, "exploration", cov, time.time() - t0, violations=new,
                        assumptions=["the scripted addon prints its lines only for t.c; u.c exists so that -j2 has two files"])
    return rc
