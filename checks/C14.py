"""C14 - dump output is well-formed and self-consistent.

For every input (samples, test/cli project files, excerpts of test/cfg, synthesised multi-#ifdef files, seeded
token-level mutants of all of these) the hooked binary writes <file>.dump.  Two independent projections of that
file - (a) a plain XML reader, (b) the object graph built by the shipped addons/cppcheckdata.py - are written as
ndjson, one line per <dump cfg> (drivers/dump2nd.py; format conversion only), and TLC evaluates spec/DumpInv.tla
on every line: WellFormedXml, IdsUnique, RefsResolve, LinksSymmetric, LinksNested, AstForest, ScopeTree,
VarDeclUse on (a); AddonLoads and SameGraph(a, b).  All verdicts come from TLC's output file.
"""
import concurrent.futures
import glob
import json
import os
import random
import shutil
import sys
import time

import vlib

sys.path.insert(0, os.path.join(vlib.VERIF, "drivers"))
import dump2nd  # noqa: E402
import srcsplit  # noqa: E402

PID = "C14"
META = {
    "cat": "exploration",
    "text": "Every <dump cfg> written by the real binary for a corpus of accepted inputs (samples, test/cli projects, excerpts of all test/cfg "
            "files with their library, synthesised multi-#ifdef files, seeded token-level mutants that cppcheck still accepts) is judged by TLC "
            "against DumpInv.tla: referential integrity per element kind within the configuration, unique ids, symmetric and well-nested bracket "
            "links (stack scan), AST forest with agreeing parent/operand edges, acyclic scope tree, variable/varId agreement, and equality of the "
            "graph rebuilt by the shipped cppcheckdata.py with the graph in the file. The property quantifies over all inputs, so a sampled, "
            "measured exploration of real dumps is the level this technique can give.",
    "ref": "DESIGN.md section 4 C14",
    "note": "Trusted: python's xml.etree as the XML well-formedness oracle, drivers/dump2nd.py (attribute copying only), TLC. Element kinds the addon "
            "library does not model at all (types/derivedFrom, containers, Function.overriddenFunction as a reference) are checked on the file only. "
            "Runs in which cppcheck crashes or times out are not judged (C13 is out of scope).",
    "technique": "TLA+ invariants (DumpInv.tla) evaluated by TLC on state recorded from the real binary; two independent projections compared by TLC",
}

EMPTY_A = {"cfg": "", "tokens": [], "scopes": [], "functions": [], "variables": [], "types": [], "valuelists": [],
           "containers": [], "directives": []}
EMPTY_B = {"cfg": "", "tokens": [], "scopes": [], "functions": [], "variables": []}

T0 = time.time()
LATE_FILES = {
    "designated.c": """enum color { RED, GREEN, BLUE, NCOLORS };
#define LAST 4
static const char *const color_name[] = { [RED] = "red", [GREEN] = "green", [BLUE] = "blue" };
static const int weight[] = { [BLUE] = 7, [RED] = 1 };
static int spread[] = { [LAST] = 1, [1] = 2 };
static int sums[] = { [RED + 2] = 3 };
const char *name_of(enum color c) { if (c >= NCOLORS) return "?"; return color_name[c]; }
int weight_of(enum color c) { return (c < NCOLORS) ? weight[c] + spread[1] + sums[2] : 0; }
""",
    "designated.cpp": """enum { A0, A1, A2 };
static const int tab[] = { [A2] = 5, [A0] = 1 };
int get(int i) { return (i >= 0 && i <= A2) ? tab[i] : 0; }
""",
}

NPROC_CPPCHECK = 6
NPROC_TLC = 4

# hand-written multi-configuration inputs (nested conditionals, #elif chains, conditionals that cut through brackets and expressions)
IFDEF_FILES = {
    "ifdef_nested.c": """#include <stdio.h>
#ifdef A
struct S { int x;
#ifdef B
  int y[4];
#endif
};
#else
struct S { long x; };
#endif
int f(struct S *s, int n)
{
    int r = 0;
#if defined(A) && defined(B)
    for (int i = 0; i < 4; i++) { r += s->y[i]; }
#elif defined(C)
    r = (int)s->x * (n ? 2 : 3);
#else
    r = n;
#endif
    return r
#ifdef D
        + 1
#endif
        ;
}
""",
    "ifdef_brackets.c": """int g(int a, int b)
{
#ifdef X
    if (a > b) {
#else
    if (a < b && (a
#ifdef Y
        + 1
#endif
        ) > 0) {
#endif
        return a[&b][0] ? (b, a) : -a;
    }
    return sizeof(int[3]) + sizeof b;
}
""",
    "ifdef_class.cpp": """#include <vector>
#include <string>
namespace N {
#ifdef WITH_BASE
struct Base { virtual ~Base() {} virtual int get() const = 0; };
struct D : public Base {
#else
struct D {
#endif
    std::vector<int> v;
    int get() const
#ifdef WITH_BASE
        override
#endif
    { return v.empty() ? 0 : v[0]; }
    template <class T> T conv(T t) const { return static_cast<T>(get()) + t; }
};
}
int use(const N::D& d, std::string s)
{
#if defined(LAMBDA)
    auto f = [&](int k) -> int { return d.get() + k + (int)s.size(); };
    return f(1) < 2 > 0;
#elif defined(TEMPL)
    return d.conv<long>(2) >> 1;
#else
    return d.conv(1.5) > 1;
#endif
}
""",
}


# ------------------------------------------------------------------------------------------------ inputs
def _read(p):
    with open(p, "rb") as f:
        return f.read().decode("utf-8", "replace")


def _mk(label, stratum, main, files, args):
    return {"label": label, "stratum": stratum, "main": main, "files": files, "args": list(args)}


def base_inputs(tier, seed):
    rng = random.Random(seed)
    repo = vlib.REPO
    inputs = []
    # samples: every file as it is
    for p in sorted(glob.glob(os.path.join(repo, "samples", "*", "*.c*"))):
        rel = os.path.relpath(p, repo)
        inputs.append(_mk(rel, "samples", os.path.basename(p), {os.path.basename(p): _read(p)}, []))
    # test/cli: every source of the small projects, with the other files of its directory next to it (local includes)
    for p in sorted(glob.glob(os.path.join(repo, "test", "cli", "**", "*.c*"), recursive=True)):
        if "fuzz" in p or not p.endswith((".c", ".cpp")):
            continue
        d = os.path.dirname(p)
        files = {}
        for q in sorted(glob.glob(os.path.join(d, "*"))):
            if os.path.isfile(q) and q.endswith((".c", ".cpp", ".h", ".hpp")):
                files[os.path.basename(q)] = _read(q)
        inputs.append(_mk(os.path.relpath(p, repo), "cli", os.path.basename(p), files, ["-I."]))
    # test/cfg: excerpts (all declarations + a run of functions), analysed with the library the file tests
    cfg_ex = []
    for p in sorted(glob.glob(os.path.join(repo, "test", "cfg", "*.c*"))):
        if not p.endswith((".c", ".cpp")):
            continue
        base = os.path.basename(p)
        lib = os.path.splitext(base)[0]
        args = ["--library=" + lib] if os.path.exists(os.path.join(repo, "cfg", lib + ".cfg")) else []
        for k, ex in enumerate(srcsplit.excerpts(_read(p), 30 if tier == "quick" else 45)):
            cfg_ex.append(_mk("test/cfg/%s@%d" % (base, k), "cfg", base, {base: ex}, args))
    if tier == "quick":
        rng.shuffle(cfg_ex)
        cfg_ex = sorted(cfg_ex[:50], key=lambda x: x["label"])
    inputs += cfg_ex
    # thorough: real-world C++ (classes, templates, lambdas): excerpts of cppcheck's own sources
    if tier != "quick":
        lib_ex = []
        for p in sorted(glob.glob(os.path.join(repo, "lib", "*.cpp"))) + [os.path.join(repo, "externals", "simplecpp", "simplecpp.cpp")]:
            base = os.path.basename(p)
            for k, ex in enumerate(srcsplit.excerpts(_read(p), 60)):
                lib_ex.append(_mk("lib/%s@%d" % (base, k), "lib", base, {base: ex}, []))
        rng.shuffle(lib_ex)
        inputs += sorted(lib_ex[:200], key=lambda x: x["label"])
    # multi-configuration files: the hand-written ones and excerpts whose functions are wrapped into conditionals
    for name, text in sorted(IFDEF_FILES.items()):
        inputs.append(_mk("ifdef/" + name, "ifdef", name, {name: text}, []))
    # constructs for which cppcheck changes the token list AFTER the AST, the symbol database and the values exist (late passes
    # have to keep every structure consistent by hand): array sizes computed from designated initialisers whose designators
    # are constants, not literals
    for name, text in sorted(LATE_FILES.items()):
        inputs.append(_mk("late/" + name, "ifdef", name, {name: text}, []))
    pool = [x for x in cfg_ex if x["stratum"] == "cfg"]
    for k in range(8 if tier == "quick" else 150):
        src = pool[rng.randrange(len(pool))]
        text = src["files"][src["main"]]
        items = srcsplit.split_items(text)
        out = []
        conds = ["#ifdef VA", "#if defined(VB) && !defined(VC)", "#ifndef VD", "#if VE > 1"]
        nf = 0
        for kind, s in items:
            if kind == "func" and nf < 3 and rng.random() < 0.7:
                c = conds[nf]
                nf += 1
                body = s.strip("\n")
                # cut the function in two at a statement boundary: the second configuration sees only the first half plus a closing brace
                out.append("%s\n%s\n#else\n%s\n#endif\n" % (c, body, body.replace("return", "return 0 +", 1) if "return" in body else body.replace("{", "{ ;", 1)))
            else:
                out.append(s if s.endswith("\n") else s + "\n")
        inputs.append(_mk("ifdef/%s~%d" % (src["label"], k), "ifdef", src["main"], {src["main"]: "".join(out)}, src["args"]))
    return inputs


def gen_exprs(rng, depth):
    ops = ["+", "-", "*", "/", "%", "<<", ">>", "<", "<=", "==", "!=", "&", "^", "|", "&&", "||"]
    if depth == 0:
        return rng.choice(["a", "b", "c", "1", "2u", "'x'", "p[a]", "s.m", "q->m", "*p", "f(a)", "f(a, b)", "sizeof(int)", "sizeof a", "\"str\"[1]"])
    r = rng.random()
    if r < 0.5:
        return "%s %s %s" % (gen_exprs(rng, depth - 1), rng.choice(ops), gen_exprs(rng, depth - 1))
    if r < 0.6:
        return "%s(%s)" % (rng.choice(["-", "!", "~", "(int)", "(long)", "sizeof"]), gen_exprs(rng, depth - 1))
    if r < 0.7:
        return "f(%s, %s)" % (gen_exprs(rng, depth - 1), gen_exprs(rng, depth - 1))
    if r < 0.8:
        return "(%s) ? %s : %s" % (gen_exprs(rng, depth - 1), gen_exprs(rng, depth - 1), gen_exprs(rng, depth - 1))
    if r < 0.9:
        return "p[%s]" % gen_exprs(rng, depth - 1)
    return "(%s, %s)" % (gen_exprs(rng, depth - 1), gen_exprs(rng, depth - 1))


def generated_programs(tier, seed):
    """Small generated programs (expression statements, branches, loops) in C and C++."""
    rng = random.Random(seed * 31 + 5)
    res = []
    for k in range(8 if tier == "quick" else 120):
        cpp = k % 2 == 1
        lines = ["struct S { int m; };", "int f(...);" if cpp else "int f();",
                 "int g(int a, int b, int c, int *p, struct S s, struct S *q)", "{", "  int x = 0;"]
        for _ in range(rng.randint(8, 25)):
            e = gen_exprs(rng, rng.randint(1, 3))
            form = rng.choice(["x = %s;", "x += %s;", "if (%s) { x++; } else { x--; }", "while (%s) { if (x) break; x = a; }",
                               "for (int i = 0; i < (%s); i++) { p[i] = x; }", "switch (%s) { case 1: x = 1; break; default: x = 2; }",
                               "do { x = b; } while (%s);", "return %s;", "{ int z = %s; x = z; }"])
            lines.append("  " + form % e)
        lines += ["  return x;", "}"]
        name = "gen%d.%s" % (k, "cpp" if cpp else "c")
        res.append(_mk("gen/" + name, "gen", name, {name: "\n".join(lines) + "\n"}, []))
    return res


def mutants(inputs, tier, seed):
    rng = random.Random(seed * 7919 + 13)
    res = []
    n = 60 if tier == "quick" else 2000
    for k in range(n):
        src = inputs[rng.randrange(len(inputs))]
        text = src["files"][src["main"]]
        desc = []
        for _ in range(rng.choice([1, 1, 2, 3])):
            text, d = srcsplit.mutate(text, rng)
            desc.append(d)
        files = dict(src["files"])
        files[src["main"]] = text
        m = _mk("mutant/%s~m%d[%s]" % (src["label"], k, "; ".join(desc)), "mutant", src["main"], files, src["args"])
        res.append(m)
    return res


# ------------------------------------------------------------------------------------------------ run + project
def run_cppcheck_retry(args, cwd, timeout):
    """The build directory is shared: while another check relinks the binary exec can fail for a moment."""
    for _ in range(60):
        try:
            return vlib.run_cppcheck(args, cwd=cwd, timeout=timeout)
        except OSError:
            time.sleep(1.0)
    raise vlib.InfraError("cppcheck binary not executable: %s" % vlib.cppcheck_bin())


def run_input(inp, max_tokens):
    """Runs cppcheck --dump on one input and returns (status, rows). status in ok|nodump|crash|timeout."""
    work = vlib.mktmp("c14")
    try:
        for rel, text in inp["files"].items():
            with open(os.path.join(work, rel), "wb") as f:
                f.write(text.encode("utf-8", "replace"))
        rc, out, err = run_cppcheck_retry(["--dump", "-q", "--max-configs=8"] + inp["args"] + [inp["main"]], cwd=work, timeout=90)
        dump = os.path.join(work, inp["main"] + ".dump")
        if rc is None:
            return "timeout", [], {}
        if rc < 0 or rc > 1:
            return "crash", [], {"rc": rc, "err": err[-300:]}
        if not os.path.exists(dump):
            return "nodump", [], {}
        return "ok", project(dump, inp["label"], max_tokens), {"syntaxError": "syntaxError" in err or "unknownMacro" in err}
    finally:
        shutil.rmtree(work, ignore_errors=True)


def _run_input(arg):
    return run_input(arg[0], arg[1])


def project(dump, label, max_tokens):
    try:
        A = dump2nd.dump_to_records(dump)
    except Exception as ex:  # noqa: BLE001  (any parser rejection is the observation)
        return [{"name": label + "#-", "wf": False, "xmlerror": "%s: %s" % (type(ex).__name__, ex), "addonerror": "", "ncfgA": 0, "ncfgB": 0,
                 "hasA": False, "hasB": False, "a": EMPTY_A, "b": EMPTY_B}]
    err = ""
    try:
        B = dump2nd.addon_to_records(dump, vlib.REPO)
    except Exception as ex:  # noqa: BLE001
        B = []
        err = "%s: %s" % (type(ex).__name__, str(ex)[:200])
    rows = []
    for i in range(max(len(A), len(B), 1)):
        a = A[i] if i < len(A) else EMPTY_A
        b = B[i] if i < len(B) else EMPTY_B
        row = {"name": "%s#%d" % (label, i), "wf": True, "xmlerror": "", "addonerror": err, "ncfgA": len(A), "ncfgB": len(B),
               "hasA": i < len(A), "hasB": i < len(B), "a": a, "b": b}
        if len(a["tokens"]) > max_tokens:
            row["skipped"] = len(a["tokens"])
        rows.append(row)
    return rows


class Judge:
    """Streams rows into ndjson batches and lets TLC evaluate DumpInv.tla on each batch (NPROC_TLC processes at a time)."""

    def __init__(self):
        self.work = vlib.mktmp("c14tlc")
        self.pool = concurrent.futures.ThreadPoolExecutor(NPROC_TLC)
        self.futures = []
        self.k = 0
        self.f = None
        self.size = 0
        self.count = 0
        self.first = None

    def add(self, row):
        if self.f is None:
            self.path = os.path.join(self.work, "in%d.ndjson" % self.k)
            self.f = open(self.path, "w")
            self.size = self.count = 0
            self.first = row["name"]
        self.f.write(json.dumps(row, sort_keys=True))
        self.f.write("\n")
        self.size += len(row["a"]["tokens"]) + 50
        self.count += 1
        if self.size > 40000:
            self.flush()

    def flush(self):
        if self.f is None:
            return
        self.f.close()
        self.f = None
        self.futures.append(self.pool.submit(self._one, self.path, self.k, self.count, self.first))
        self.k += 1

    def _one(self, inp, k, count, first):
        out = os.path.join(self.work, "out%d.ndjson" % k)
        r = vlib.tlc("DumpInv", "DumpInv.cfg", env={"DUMPS": inp, "OUT": out, "JAVA_TOOL_OPTIONS": "-Xss32m -XX:ParallelGCThreads=2"}, workers=1, timeout=1800, xmx="3g")
        if not r.ok or '"DUMPS", %d,' % count not in r.out:
            raise vlib.InfraError("model failure in DumpInv.tla (rc=%s) first row %s\n%s" % (r.rc, first, r.out[-2500:]))
        res = vlib.read_ndjson(out)
        os.unlink(inp)
        print("[C14 %6.1fs] TLC batch %d (%d rows) judged in %.1fs" % (time.time() - T0, k, count, r.wall), flush=True)
        return res

    def result(self):
        """{name: verdict row of TLC} for the rows with a violated invariant, number of batches."""
        self.flush()
        bad = {}
        for fu in self.futures:
            for v in fu.result():
                bad[v["name"]] = v
        self.pool.shutdown()
        return bad, self.k


def judge(rows):
    j = Judge()
    for r in rows:
        j.add(r)
    return j.result()


def shape(a):
    """Canonical content of a configuration (ids replaced by positions) - used only to COUNT distinct cases for the evidence."""
    pos = {t["id"]: i for i, t in enumerate(a["tokens"])}
    return vlib.digest([[t["str"], pos.get(t["link"], -1), pos.get(t["astParent"], -1), t["varId"]] for t in a["tokens"]])


COUNTERS = ("tokens", "links", "ast_edges", "scopes", "functions", "variables", "types", "valuelists", "token_value_refs")


def measure(a):
    return {"tokens": len(a["tokens"]), "links": sum(1 for t in a["tokens"] if t["link"]),
            "ast_edges": sum(1 for t in a["tokens"] if t["astParent"]), "scopes": len(a["scopes"]), "functions": len(a["functions"]),
            "variables": len(a["variables"]), "types": len(a["types"]), "valuelists": len(a["valuelists"]),
            "token_value_refs": sum(1 for l in a["valuelists"] for v in l["values"] if v["tokvalue"] or v["lifetime"] or v["symbolic"])}


def explore(inputs, max_tokens):
    """Runs every input, streams the rows to TLC. Returns (measurements, verdicts of violating rows, name -> input)."""
    vlib.tmproot()
    m = {"status": {"ok": 0, "nodump": 0, "crash": 0, "timeout": 0}, "judged": 0, "skipped": 0, "nocfg": 0, "shapes": {}, "samples": [],
         "totals": dict((c, 0) for c in COUNTERS)}
    by_name = {}
    jd = Judge()
    # processes, not threads: projecting a dump (XML reader + cppcheckdata) is CPU-bound Python
    with concurrent.futures.ProcessPoolExecutor(NPROC_CPPCHECK) as ex:
        for inp, (status, rws, info) in zip(inputs, ex.map(_run_input, [(i, max_tokens) for i in inputs], chunksize=1)):
            m["status"][status] += 1
            inp["status"] = status
            inp["ncfg"] = len([r for r in rws if r["hasA"]])
            for r in rws:
                by_name[r["name"]] = inp
                if "skipped" in r:
                    m["skipped"] += 1
                    continue
                m["judged"] += 1
                if r["hasA"]:
                    a = r["a"]
                    c = measure(a)
                    for k in COUNTERS:
                        m["totals"][k] += c[k]
                    if c["links"] and c["ast_edges"]:
                        m["shapes"].setdefault(shape(a), r["name"])
                    if len(m["samples"]) < 3 and 20 < c["tokens"] < 120:
                        m["samples"].append({"name": r["name"], "cfg": a["cfg"], "tokens": " ".join(t["str"] for t in a["tokens"])[:400],
                                             "scopes": c["scopes"], "variables": c["variables"], "valuelists": c["valuelists"]})
                else:
                    m["nocfg"] += 1
                jd.add(r)
    print("[C14 %6.1fs] all inputs run and projected" % (time.time() - T0), flush=True)
    bad, m["batches"] = jd.result()
    print("[C14 %6.1fs] TLC verdicts collected (%d batches)" % (time.time() - T0, m["batches"]), flush=True)
    return m, bad, by_name


def main(tier, seed, replay=None):
    t0 = time.time()
    vlib.build()
    if replay:
        return do_replay(replay)
    # TLC's cost per configuration grows quadratically with the token count (id -> position map): larger configurations are counted as skipped
    max_tokens = 1200 if tier == "quick" else 2000
    inputs = base_inputs(tier, seed) + generated_programs(tier, seed)
    inputs += mutants(inputs, tier, seed)
    m, bad, by_name = explore(inputs, max_tokens)

    violations = []
    for name, v in sorted(bad.items()):
        inp = by_name[name]
        key = "%s:%s" % (vlib.digest([inp["files"], inp["args"]]), "+".join(v["bad"]))
        p = vlib.save_replay(PID, vlib.digest([inp["files"], inp["args"], name]),
                             {"input": {k: inp[k] for k in ("label", "stratum", "main", "files", "args")}, "row": name, "verdict": v})
        violations.append({"key": key, "what": "%s: %s | %s" % (name, ",".join(v["bad"]), " | ".join(v["why"])[:600]), "replay": p})
    rc, new, known = vlib.verdict(PID, violations)

    per_stratum = {}
    for inp in inputs:
        s = per_stratum.setdefault(inp["stratum"], {"inputs": 0, "with_dump_cfg": 0, "cfgs": 0, "multi_cfg_files": 0})
        s["inputs"] += 1
        s["with_dump_cfg"] += 1 if inp.get("ncfg") else 0
        s["cfgs"] += inp.get("ncfg", 0)
        s["multi_cfg_files"] += 1 if inp.get("ncfg", 0) > 1 else 0
    cov = {
        "evaluations": m["judged"], "distinct_nontrivial": len(m["shapes"]),
        "rule": "one evaluation = one <dump cfg> (or one dump file without configuration) judged by TLC against all DumpInv invariants + SameGraph; "
                "distinct = different canonical token/link/AST/varId structure (ids replaced by positions); non-trivial = has at least one bracket "
                "link and one AST edge. Inputs: all samples, all test/cli sources, excerpts of test/cfg (quick: seeded sample; thorough: all + 200 excerpts of lib/*.cpp), "
                "multi-#ifdef files, generated expression/statement programs, seeded token-level mutants",
        "samples": m["samples"], "exhaustive": False,
        "inputs": len(inputs), "run_status": m["status"], "per_stratum": per_stratum,
        "dump_files_without_cfg": m["nocfg"], "cfgs_skipped_over_token_cap": m["skipped"], "token_cap": max_tokens,
        "tlc_batches": m["batches"], "violating_rows": len(bad), "known_findings": known,
    }
    cov.update(m["totals"])
    vlib.write_evidence(PID, tier, seed, "exploration", cov, time.time() - t0, violations=new,
                        assumptions=["python xml.etree decides XML well-formedness",
                                     "drivers/dump2nd.py copies attributes / object references without interpreting them",
                                     "runs where cppcheck crashes or times out are not judged"])
    print("C14 %s: %d inputs, %d cfg rows judged (%d distinct non-trivial), %d skipped, status %s, %d violating rows"
          % (tier, len(inputs), m["judged"], len(m["shapes"]), m["skipped"], m["status"], len(bad)))
    return rc


def do_replay(path):
    payload = json.load(open(path))
    inp = payload["input"]
    status, rows, _info = run_input(inp, 10 ** 9)
    if status != "ok":
        print("replay: cppcheck status %s, nothing to judge" % status)
        return 0
    bad, _ = judge(rows)
    for name, v in sorted(bad.items()):
        print("BAD %s: %s" % (name, json.dumps(v)[:1500]))
    if bad:
        print("VIOLATION property=%s replay=%s" % (PID, path))
        return 1
    print("replay: no violation reproduced (%d rows)" % len(rows))
    return 0
