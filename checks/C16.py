"""C16 - the thread executor is free of data races (conformance to a model-checked lock discipline).

1. TLC explores every interleaving of 3 threads over the access sites of ThreadLock.tla and proves NoRace for the lock
   discipline read from the code (each shared object is accessed only while its guarding mutex is held); with the
   discipline switched off TLC must find the race (non-vacuity).
2. The hooked binary runs with the thread executor (-j2..-j8, schedule-noise seeds, inline suppressions, suppression
   lists, --showtime modes, many small files and shared headers); every instrumented site logs the object and the
   MEASURED state of its guard (try_lock). LockTrace.tla validates that while worker threads exist every access to a
   guarded object happens with the guard held.
3. The same tree is built with ThreadSanitizer (bin/build_tsan.sh) and run with the thread executor; every data race
   the detector reports becomes a `Race` event (object = the two racing functions). LockTrace.tla accepts no `Race`
   event: a pair of conflicting accesses without a common lock is exactly what ThreadLock's NoRace forbids. This closes
   the gap of stage 2, which sees only instrumented sites (a hook can sit inside the lock while the data is read
   outside of it).
"""
import concurrent.futures
import json
import os
import shutil
import time

import projgen
import runlayer
import vlib

PID = "C16"
META = {
    "cat": "model_checking",
    "text": "The lock discipline of the thread executor (suppression list, executor duplicate filter, file hand-out, report forwarder, timer "
            "results and their output) is model-checked race free for all interleavings of 3 threads (and shown to race when a site skips its "
            "guard); traces of real thread-executor runs under schedule noise are validated against it with the lock state measured at every "
            "instrumented site; runs of a ThreadSanitizer build of the same tree contribute a Race event for every data race on any memory, "
            "which the specification never accepts.",
    "ref": "DESIGN.md section 4 C16",
    "note": "Stage 2 decides conformance of the INSTRUMENTED sites to a race-free discipline (a removed lock_guard, a new unguarded path "
            "into an instrumented object). Stage 3 observes every memory access of the explored schedules through a ThreadSanitizer build (the "
            "exploration the property itself names) and turns each reported race into a trace event that the specification rejects. try_lock "
            "on a mutex owned by the calling thread is formally unspecified in ISO C++; glibc returns EBUSY, which is what the hook relies on.",
    "technique": "TLA+ model checking of the lock discipline (TLC) + trace validation of measured lock states and of ThreadSanitizer race events (LockTrace.tla)",
}


def model_check():
    res = []
    states = trans = 0
    for disc, expect_ok in ((True, True), (False, False)):
        work = vlib.mktmp("tlmc")
        cfg = os.path.join(work, "ThreadLock.cfg")
        with open(cfg, "w") as f:
            f.write('SPECIFICATION Spec\nCONSTANTS\n  Threads = {"t1", "t2", "t3"}\n  Discipline = %s\nINVARIANT NoRace\nINVARIANT MutexOK\nCHECK_DEADLOCK FALSE\n' % ("TRUE" if disc else "FALSE"))
        r = vlib.tlc("ThreadLock", cfg, workers=4, timeout=1200)
        if r.error:
            raise vlib.InfraError("ThreadLock.tla model failure\n" + r.out[-2000:])
        if expect_ok and not r.ok:
            return None, {"violated": r.violated_name(), "tlc": r.out[-3000:]}
        if not expect_ok and r.ok:
            raise vlib.InfraError("ThreadLock.tla without discipline has no race: NoRace would be vacuous")
        states += r.distinct
        trans += r.generated
        res.append({"model": "ThreadLock", "discipline": disc, "distinct": r.distinct, "race_free": r.ok})
    return (states, trans, res), None


def run_one(job):
    idx, proj, extra, sched = job
    root = runlayer.fresh_root("c16p%d" % idx)
    projgen.materialize(proj, root)
    tdir = vlib.mktmp("c16tr")
    args = list(proj["opts"]) + extra + proj["sources"]
    rc, out, err = vlib.run_cppcheck(args, root, trace_dir=tdir, env={"CPPCHECK_VERIF_SCHED": str(sched)}, timeout=180)
    raw = vlib.read_traces(tdir)
    shutil.rmtree(tdir, ignore_errors=True)
    runlayer.cleanup(root)
    evs = []
    for pid, es in raw.items():
        for e in es:
            if e["e"] in ("ThreadsSpawned", "ThreadsJoined"):
                evs.append({"e": e["e"], "obj": "-", "held": True, "tid": e.get("tid", 0)})
            elif "held" in e:
                obj = e.get("obj")
                if e["e"] in ("SupprAdd", "SupprQuery", "SupprUpdate", "SupprMark"):
                    obj = "suppressions"
                elif e["e"] in ("ExecPass", "ExecDup"):
                    obj = "execDup"
                elif e["e"] == "Next":
                    obj = "fileIter"
                elif e["e"] == "SyncFwd":
                    obj = "report"
                evs.append({"e": "Access", "obj": obj, "held": bool(e["held"]), "tid": e.get("tid", 0), "site": e.get("site", e["e"])})
    label = "run%d:%s:s%d" % (idx, " ".join(extra), sched)
    return label, rc, evs


def validate(runs):
    work = vlib.mktmp("locktrace")
    trace = os.path.join(work, "trace.ndjson")
    index = []
    with open(trace, "w") as f:
        for label, evs in runs:
            f.write(json.dumps({"e": "Header", "obj": "-", "held": True, "tid": 0, "label": label}) + "\n")
            index.append(label)
            for e in evs:
                f.write(json.dumps(e) + "\n")
                index.append(label)
    r = vlib.tlc("LockTrace", "LockTrace.cfg", env={"TRACE": trace}, workers=1, timeout=900, dfs=True)
    if r.ok:
        return None, r.distinct
    import re
    m = re.search(r'REJECTED_AT_LINE",\s*(\d+)', r.out)
    if not m:
        raise vlib.InfraError("LockTrace.tla model failure\n" + r.out[-2500:])
    line = int(m.group(1))
    lines = open(trace).read().splitlines()
    return {"label": index[line - 1], "line": line, "event": json.loads(lines[line - 1])}, r.distinct


TSAN_VARIANTS = [["-j3", "--executor=thread", "--showtime=file"], ["-j4", "--executor=thread", "--showtime=top5_file"],
                 ["-j8", "--executor=thread", "--showtime=summary"], ["-j2", "--executor=thread"], ["-j4", "--executor=thread", "--showtime=file-total"]]


def build_tsan():
    """ThreadSanitizer build of the tree under test; returns the directory holding a private copy of the binary."""
    out = vlib.mktmp("c16tsanbin")
    r = vlib.run([os.path.join(vlib.VERIF, "bin", "build_tsan.sh"), out], timeout=14400)
    if r[0] != 0:
        raise vlib.InfraError("ThreadSanitizer build failed\n" + (r[1] + r[2])[-2000:])
    return out


def parse_tsan(err):
    """data race reports of ThreadSanitizer -> list of dict(key, frames). The key names the two racing functions (top
    frames inside the cppcheck sources), without line numbers."""
    import re
    races = []
    for block in err.split("=================="):
        if "WARNING: ThreadSanitizer: data race" not in block:
            continue
        tops = []
        cur = None
        for line in block.splitlines():
            if re.match(r"\s+(Write|Read|Previous write|Previous read|Atomic|Previous atomic)", line):
                cur = []
                tops.append(cur)
            elif cur is not None and re.match(r"\s+#\d+ ", line):
                cur.append(line.strip())
            elif not line.strip():
                cur = None
        fns = []
        for fr in tops[:2]:
            own = [f for f in fr if re.search(r" /(?!usr/)[^ ]*/src/(lib|cli|frontend|externals)/[^ ]+\.(cpp|h):", f)]
            f0 = (own or fr or ["?"])[0]
            m = re.match(r"#\d+ (.*?) (/[^ ]+?):(\d+)", f0)
            name = re.sub(r"\(.*", "", m.group(1)) if m else f0
            src = os.path.basename(m.group(2)) if m else "?"
            fns.append("%s@%s" % (name, src))
        races.append({"key": "|".join(sorted(fns)), "frames": [fr[:6] for fr in tops[:2]]})
    return races


def run_tsan(job):
    idx, proj, extra, sched, bindir = job
    root = runlayer.fresh_root("c16t%d" % idx)
    projgen.materialize(proj, root)
    args = [os.path.join(bindir, "cppcheck")] + list(proj["opts"]) + extra + proj["sources"]
    rc, out, err = vlib.run(args, cwd=root, timeout=900,
                            env={"CPPCHECK_VERIF_SCHED": str(sched), "TSAN_OPTIONS": "halt_on_error=0 exitcode=0 report_signal_unsafe=0 second_deadlock_stack=1"})
    runlayer.cleanup(root)
    return "tsan%d:%s:s%d" % (idx, " ".join(extra), sched), rc, parse_tsan(err)


def main(tier, seed, replay=None):
    t0 = time.time()
    vlib.build()
    mc, mcviol = model_check()
    violations = []
    if mcviol:
        p = vlib.save_replay(PID, "model", mcviol)
        violations.append({"key": "model:%s" % mcviol["violated"], "what": "ThreadLock.tla: the discipline admits a race", "replay": p})
        mc = (0, 0, [])
    jobs = []
    nproj = 5 if tier == "quick" else 60
    variants = [["-j2", "--executor=thread"], ["-j4", "--executor=thread"], ["-j8", "--executor=thread", "--showtime=summary"],
                ["-j3", "--executor=thread", "--showtime=file"], ["-j4", "--executor=thread", "--showtime=top5_file"]]
    for i in range(nproj):
        proj = projgen.gen_project(seed * 1000 + 600 + i, nfiles=6, with_header=True, with_inline=True)
        proj["opts"] = [o for o in proj["opts"] if o != "-q"]          # progress output goes through the report forwarder
        for vi, extra in enumerate(variants if tier == "thorough" else variants[:4]):
            for sd in ([seed, seed + 1] if tier == "thorough" else [seed + vi]):
                jobs.append((len(jobs), proj, extra, sd))
    runs = []
    naccess = 0
    objs = {}
    with concurrent.futures.ThreadPoolExecutor(max_workers=min(4, vlib.NCPU)) as ex:
        for label, rc, evs in ex.map(run_one, jobs):
            if rc is None:
                raise vlib.InfraError("cppcheck timeout in " + label)
            runs.append((label, evs))
            for e in evs:
                if e["e"] == "Access":
                    naccess += 1
                    objs[e["obj"]] = objs.get(e["obj"], 0) + 1
    rej, tstates = validate(runs)
    if rej:
        # re-run confirmation is pointless for a schedule dependent observation: a single unguarded access is a defect
        p = vlib.save_replay(PID, "unguarded-" + vlib.digest(rej["event"]), rej)
        violations.append({"key": "unguarded:%s:%s" % (rej["event"].get("obj"), rej["event"].get("site")),
                           "what": "access to %s at site %s without its guard while worker threads exist (%s)" % (rej["event"].get("obj"), rej["event"].get("site"), rej["label"]), "replay": p})
    # stage 3: ThreadSanitizer build, every reported race is a Race event which LockTrace.tla never accepts
    bindir = build_tsan()
    tjobs = []
    ntp = 2 if tier == "quick" else 12
    for i in range(ntp):
        proj = projgen.gen_project(seed * 1000 + 700 + i, nfiles=6, with_header=True, with_inline=True)
        proj["opts"] = [o for o in proj["opts"] if o != "-q"]
        for vi, extra in enumerate(TSAN_VARIANTS if tier == "thorough" else TSAN_VARIANTS[:3]):
            tjobs.append((len(tjobs), proj, extra, seed + vi, bindir))
    races = {}
    tsan_runs = 0
    with concurrent.futures.ThreadPoolExecutor(max_workers=min(4, vlib.NCPU)) as ex:
        for label, rc_, rs in ex.map(run_tsan, tjobs):
            if rc_ is None:
                raise vlib.InfraError("timeout of the ThreadSanitizer binary in " + label)
            tsan_runs += 1
            for r_ in rs:
                races.setdefault(r_["key"], dict(r_, label=label))
    shutil.rmtree(bindir, ignore_errors=True)
    for key, r_ in sorted(races.items()):
        rej2, st2 = validate([(r_["label"], [{"e": "ThreadsSpawned", "obj": "-", "held": True, "tid": 0},
                                              {"e": "Race", "obj": key, "held": False, "tid": 0, "site": key}])])
        tstates += st2
        if rej2:
            p = vlib.save_replay(PID, "race-" + vlib.digest(key), r_)
            violations.append({"key": "race:" + key, "what": "ThreadSanitizer reports a data race between %s (%s)" % (key, r_["label"]), "replay": p})
    rc, new, known = vlib.verdict(PID, violations)
    cov = {"states": mc[0] + tstates, "transitions": mc[1] + tstates, "traces_validated_against_impl": len(runs) if not rej else 0,
           "evaluations": naccess, "distinct_nontrivial": len(objs),
           "rule": "one evaluation per logged access of an instrumented site; distinct = number of distinct shared objects reached",
           "accesses_by_object": objs, "runs": len(runs), "tsan_runs": tsan_runs, "tsan_races": sorted(races), "samples": mc[2] + [{"run": runs[0][0], "first_accesses": runs[0][1][:5]}]}
    vlib.write_evidence(PID, tier, seed, "model_checking", cov, time.time() - t0, violations=new,
                        assumptions=["std::mutex::try_lock returns false for a mutex held by the calling thread (glibc behaviour)",
                                     "stage 2 observes instrumented sites only; stage 3 (ThreadSanitizer) observes all memory accesses of the schedules that occurred"])
    return rc
