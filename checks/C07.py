"""C07 - expression trees follow the C/C++ operator grammar.

spec/ExprGrammar.tla defines the operator table, well-typed expression trees, PrintExpr (minimal parentheses), Ast
(cppcheck's edge convention) and a reference parser of the ISO grammar.
  gen    TLC enumerates the statements (all trees with exactly n operators per stratum + a seeded sample of larger ones)
         and checks the laws Parse(PrintExpr(t)) = t and injectivity of PrintExpr on every one of them (spec self-consistency).
  run    every statement becomes one line of a generated C / C++ file; `cppcheck --dump`; the AST edges of each line are
         read off the dump (tokens named by their position in the printed statement).
  judge  TLC compares the observed edge set with Ast(t).
  clang  for every disputed statement the tree shape clang reports is compared (by TLC) with the spec's tree: only if
         clang agrees with the spec the case counts against cppcheck, otherwise it is a model_disagreement.
Statements cppcheck rejects with a syntax error are counted, not judged.
"""
import concurrent.futures
import json
import os
import re
import shutil
import sys
import time

import vlib

sys.path.insert(0, os.path.join(vlib.VERIF, "drivers"))
import clangtree  # noqa: E402
import dump2nd  # noqa: E402

PID = "C07"
META = {
    "cat": "exploration",
    "text": "TLC enumerates every well-typed expression tree with up to 2 (quick) / 3 (thorough) operators over the C/C++ operator table "
            "(all operators at size <= 1 and in all chains of two unary-level operators, one or two representatives per precedence level above) "
            "plus a seeded sample of trees with 3-11 operators, prints each with minimal parentheses and computes the expected AST edges in cppcheck's convention; the real binary "
            "parses every statement in C and in C++ mode and TLC compares the dumped edges with the expectation. The spec is guarded by laws "
            "checked on the same cases (a reference ISO-grammar parser inverts the printer; printing is injective) and by clang as second "
            "witness. The property quantifies over all expressions, so bounded-exhaustive enumeration plus sampling is the level reached.",
    "ref": "DESIGN.md section 4 C07",
    "note": "Covered: binary/assignment/comma/conditional operators, prefix/postfix unary, C casts, sizeof, calls, subscripts, . and ->, as statement, "
            "condition, return value and call argument. Not covered: C++-only forms (::, new/delete, templates, functional casts, lambdas), "
            "declarations/initialisers. Trusted: the column-to-token mapping of checks/C07.py, drivers/clangtree.py (notation change only), TLC, clang-14.",
    "technique": "TLA+ function spec (ExprGrammar.tla) with TLC-enumerated cases replayed into the real binary, TLC judge, clang second witness",
}

NPROC = 3
NTLC = 4
LINES_PER_FUNC = 40
LINES_PER_FILE = 400
SHARD = 8000
MAX_CLANG = 250
MAX_SHRINK = 300
# deep recursion of the spec's parser/printer needs stack; few GC threads: several TLC processes run side by side
JAVA_ENV = {"JAVA_TOOL_OPTIONS": "-Xss64m -XX:ParallelGCThreads=2"}

PRELUDE = {
    "c": "struct S { int m; };\nint f();\n",
    "cpp": "struct S { int m; };\nint f(...);\n",
}
FUNC_HEAD = "int g%d(int a, int b, int c, int *p, struct S s, struct S *q)\n{\n  int x; int *y;\n"
FUNC_TAIL = "  return 0;\n}\n"


ALL_CTX = ["asg", "if", "ret", "arg", "init"]
REP_BIN = ["*", "+", "-", "<<", "<", ">", "==", "&", "^", "|", "&&", "||"]
REP1_BIN = ["*", "-", "<<", "<", "==", "&", "^", "|", "&&", "||"]
OTHER_FAMS = ["leaf", "pcmp", "un", "inc", "asg", "comma", "cast", "sz", "call", "deref", "sub", "mem", "addr", "padd", "pinc", "pasg", "pcomma"]


def exact(pf, n, ctx, fam=("*",)):
    return {"kind": "exact", "pf": pf, "n": n, "ctx": list(ctx), "fam": list(fam)}


def bins(ops):
    return ["bin:" + o for o in ops]


def plan(tier):
    """The strata of a run, grouped into parts; every part is enumerated, run and judged by its own chain of TLC processes."""
    small = [exact("full", 0, ALL_CTX), exact("full", 1, ALL_CTX), {"kind": "unary2", "pf": "full"}]
    if tier == "quick":
        return [small + [{"kind": "big", "pf": "rep", "n": 150}],
                [exact("rep1", 2, ["asg"])]]
    parts = [small,
             [exact("rep", 2, ["asg"], bins(REP_BIN[:6]))], [exact("rep", 2, ["asg"], bins(REP_BIN[6:]) + ["cond", "pcond"] + OTHER_FAMS)],
             [exact("rep0", 3, ["asg"], bins(REP1_BIN[:5]))], [exact("rep0", 3, ["asg"], bins(REP1_BIN[5:]))],
             [exact("rep0", 3, ["asg"], ["cond", "pcond"] + OTHER_FAMS)],
             [{"kind": "big", "pf": "rep", "n": 1000}]]
    return parts


T0 = time.time()


def note(msg):
    print("[C07 %6.1fs] %s" % (time.time() - T0, msg), flush=True)


def tlc(mode, lang, env, seed, timeout):
    e = dict(JAVA_ENV)
    e.update(env)
    e.update({"MODE": mode, "LANG": lang})
    r = vlib.tlc("ExprGrammar", "ExprGrammar.cfg", env=e, workers=1, timeout=timeout, xmx="8g", extra=("-seed", str(seed)))
    if not r.ok:
        raise vlib.InfraError("model failure in ExprGrammar.tla mode=%s lang=%s (rc=%s)\n%s" % (mode, lang, r.rc, r.out[-3000:]))
    note("TLC %s %s done in %.1fs" % (mode, lang, r.wall))
    return r


# ------------------------------------------------------------------------------------------------ render + observe
def suffix(case):
    return " { }" if case["toks"][0] == "if" else " ;"


def render(cases, lang):
    """Source text and, per case, (line number, {column: token position})."""
    out = [PRELUDE[lang]]
    line = PRELUDE[lang].count("\n")
    where = []
    nf = 0
    for k, c in enumerate(cases):
        if k % LINES_PER_FUNC == 0:
            if k:
                out.append(FUNC_TAIL)
                line += FUNC_TAIL.count("\n")
            out.append(FUNC_HEAD % nf)
            line += FUNC_HEAD.count("\n")
            nf += 1
        col = 3
        cols = {}
        for i, t in enumerate(c["toks"]):
            cols[col] = i + 1
            col += len(t) + 1
        out.append("  " + " ".join(c["toks"]) + suffix(c) + "\n")
        line += 1
        where.append((line, cols))
    out.append(FUNC_TAIL)
    return "".join(out), where


def run_cppcheck_retry(args, cwd, timeout):
    for _ in range(60):
        try:
            return vlib.run_cppcheck(args, cwd=cwd, timeout=timeout)
        except OSError:
            time.sleep(1.0)
    raise vlib.InfraError("cppcheck binary not executable: %s" % vlib.cppcheck_bin())


def observe(cases, lang):
    """One observation per case: {id, status, edges}. status ok | rejected (syntax error) | nodump."""
    obs = {c["id"]: {"id": c["id"], "status": "rejected", "edges": []} for c in cases}
    todo = list(cases)
    work = vlib.mktmp("c07")
    name = "t.c" if lang == "c" else "t.cpp"
    try:
        for _attempt in range(40):
            if not todo:
                break
            text, where = render(todo, lang)
            with open(os.path.join(work, name), "w") as f:
                f.write(text)
            dump = os.path.join(work, name + ".dump")
            if os.path.exists(dump):
                os.unlink(dump)
            rc, out, err = run_cppcheck_retry(["--dump", "-q", "--language=" + ("c" if lang == "c" else "c++"), name], cwd=work, timeout=300)
            if rc is None or rc < 0:
                raise vlib.InfraError("cppcheck failed (rc=%s) on generated %s file, first statement: %s\n%s"
                                      % (rc, lang, " ".join(todo[0]["toks"]), err[-500:]))
            recs = dump2nd.dump_to_records(dump) if os.path.exists(dump) else []
            if recs:
                extract(recs[0], todo, where, obs)
                break
            # no configuration was dumped: a syntax error somewhere. Drop the statement at the reported line and try again.
            m = re.search(r"^%s:(\d+):\d+: error: .*\[(syntaxError|unknownMacro|internalAstError|cppcheckError|internalError)\]" % re.escape(name), err, re.M)
            bad_line = int(m.group(1)) if m else None
            idx = [k for k, (ln, _c) in enumerate(where) if ln == bad_line]
            if not idx:
                # cannot attribute: bisect
                if len(todo) == 1:
                    break
                half = len(todo) // 2
                for part in (todo[:half], todo[half:]):
                    for o in observe(part, lang):
                        obs[o["id"]] = o
                todo = []
                break
            del todo[idx[0]]
    finally:
        shutil.rmtree(work, ignore_errors=True)
    return [obs[c["id"]] for c in cases]


def extract(rec, cases, where, obs):
    """Names every dump token of a statement line by the position of the printed token at the same column.
    Tokens the tokenizer inserted (no printed token at their column): the "(" after sizeof is named -(position of sizeof),
    other inserted parentheses get a name outside the statement (they must not be AST nodes); any other inserted token
    means the tokenizer rewrote the statement before the AST was built -> status "rewritten" (counted, not judged)."""
    by_line = {}
    toks = rec["tokens"]
    by_id = {}
    for k, t in enumerate(toks):
        by_id[t["id"]] = k
        by_line.setdefault(t["linenr"], []).append(k)
    for c, (line, cols) in zip(cases, where):
        ks = by_line.get(line, [])
        last_col = max(cols)
        key = {}
        status = "ok"
        # "int z = e": the tokenizer splits the declaration into "int z ; z = e ;" and both z (and the inserted ";" and the "=")
        # carry the same position; of two tokens at one printed column the one that takes part in the AST is the statement's token
        split_decl = c["toks"][0] == "int"
        at_col = {}
        for k in ks:
            at_col.setdefault(toks[k]["column"], []).append(k)
        chosen = {}
        for col, lst in at_col.items():
            if col in cols:
                in_ast = [k for k in lst if toks[k]["astParent"] or toks[k]["astOperand1"] or toks[k]["astOperand2"]]
                chosen[col] = (in_ast or lst)[0] if split_decl else lst[0]
        for k in ks:
            t = toks[k]
            pos = cols.get(t["column"])
            if pos is not None and chosen.get(t["column"]) == k:
                key[k] = pos
            elif pos is not None and split_decl and len(at_col[t["column"]]) > 1:
                key[k] = 0          # the copy made by the declaration split
            elif t["column"] > last_col:
                key[k] = 0          # the ")" / ";" / "{ }" that end the statement
            elif t["str"] == "(" and k > 0 and toks[k - 1]["str"] == "sizeof" and key.get(k - 1, 0) > 0:
                key[k] = -key[k - 1]
            elif t["str"] in ("(", ")"):
                key[k] = 9000 + len(key)
            else:
                status = "rewritten"
                key[k] = 9000 + len(key)

        def ref(i):
            if not i:
                return 0
            k = by_id.get(i)
            return key.get(k, 9999) if k is not None else 9999
        edges = []
        for k in ks:
            t = toks[k]
            if t["astOperand1"] or t["astOperand2"]:
                edges.append([key[k], ref(t["astOperand1"]), ref(t["astOperand2"])])
        obs[c["id"]] = {"id": c["id"], "status": status, "edges": edges}


# ------------------------------------------------------------------------------------------------ the run
def run_part(lang, part, seed, work, planpath):
    """laws -> gen -> observe -> judge for one part of the plan in one language. Returns dict with counts and the disputed cases."""
    cases_path = os.path.join(work, "cases.%s.%d.ndjson" % (lang, part))
    r = tlc("gen", lang, {"PLAN": planpath, "OUT": cases_path}, seed, 3000)
    m = re.search(r'"CASES",\s*(\d+)', r.out)
    ml = re.search(r'"LAWS",\s*(\d+)', r.out)
    if not m or not ml or m.group(1) != ml.group(1):
        raise vlib.InfraError("ExprGrammar gen: laws / cases count missing\n" + r.out[-2000:])
    ncases = int(m.group(1))
    nlaws = int(ml.group(1))
    # shards of the case file (line based)
    shards = []
    with open(cases_path) as f:
        buf = []
        for line in f:
            buf.append(line)
            if len(buf) == SHARD:
                shards.append(buf)
                buf = []
        if buf:
            shards.append(buf)
    res = {"lang": lang, "laws": nlaws, "cases": ncases, "ok": 0, "rejected": 0, "bad": [], "by_n": {}, "samples": [], "rejected_samples": [], "distinct": set(),
           "rewritten": 0, "rewritten_samples": []}
    for si, lines in enumerate(shards):
        cases = [json.loads(x) for x in lines]
        light = [{"id": c["id"], "toks": c["toks"]} for c in cases]
        chunks = [light[i:i + LINES_PER_FILE] for i in range(0, len(light), LINES_PER_FILE)]
        obs = []
        with concurrent.futures.ThreadPoolExecutor(NPROC) as ex:
            for o in ex.map(lambda ch: observe(ch, lang), chunks):
                obs += o
        note("cppcheck %s part %d shard %d: %d statements observed" % (lang, part, si, len(obs)))
        spath = os.path.join(work, "shard.%s.%d.%d.ndjson" % (lang, part, si))
        opath = os.path.join(work, "obs.%s.%d.%d.ndjson" % (lang, part, si))
        bpath = os.path.join(work, "bad.%s.%d.%d.ndjson" % (lang, part, si))
        with open(spath, "w") as f:
            f.writelines(lines)
        vlib.write_ndjson(opath, obs)
        jr = tlc("judge", lang, {"CASES": spath, "OBS": opath, "OUT": bpath}, seed, 3000)
        mm = re.search(r'"JUDGED",\s*(\d+),\s*"OK",\s*(\d+),\s*"BAD",\s*(\d+)', jr.out)
        if not mm or int(mm.group(1)) != len(cases):
            raise vlib.InfraError("ExprGrammar judge gave no verdict\n" + jr.out[-2000:])
        bad = vlib.read_ndjson(bpath)
        if len(bad) != int(mm.group(3)):
            raise vlib.InfraError("ExprGrammar judge verdict/output mismatch")
        res["ok"] += int(mm.group(2))
        res["bad"] += bad
        for c, o in zip(cases, obs):
            n = c["n"]
            s = res["by_n"].setdefault(str(n), {"cases": 0, "ok": 0, "rejected": 0})
            s["cases"] += 1
            if o["status"] == "ok":
                s["ok"] += 1
                if n >= 2:
                    res["distinct"].add(" ".join(c["toks"]))
            elif o["status"] == "rewritten":
                s["rewritten"] = s.get("rewritten", 0) + 1
                res["rewritten"] += 1
                if len(res["rewritten_samples"]) < 8:
                    res["rewritten_samples"].append(" ".join(c["toks"]))
            else:
                s["rejected"] += 1
                res["rejected"] += 1
                if len(res["rejected_samples"]) < 8:
                    res["rejected_samples"].append(" ".join(c["toks"]))
        for c, o in list(zip(cases, obs))[:: max(1, len(cases) // 2)][:2]:
            res["samples"].append({"lang": lang, "stmt": " ".join(c["toks"]), "observed_edges": o["edges"], "status": o["status"]})
        for p in (spath, opath):
            os.unlink(p)
    os.unlink(cases_path)
    return res


def judge_cases(lang, cases_path, ncases, seed, work, tag, extra_env=None):
    """observe + judge the cases of one ndjson file; returns (observations, mismatch rows of TLC)."""
    cases = vlib.read_ndjson(cases_path)
    light = [{"id": c["id"], "toks": c["toks"]} for c in cases]
    chunks = [light[i:i + LINES_PER_FILE] for i in range(0, len(light), LINES_PER_FILE)]
    obs = []
    with concurrent.futures.ThreadPoolExecutor(NPROC) as ex:
        for o in ex.map(lambda ch: observe(ch, lang), chunks):
            obs += o
    opath = os.path.join(work, "obs.%s.%s.ndjson" % (lang, tag))
    bpath = os.path.join(work, "bad.%s.%s.ndjson" % (lang, tag))
    vlib.write_ndjson(opath, obs)
    jr = tlc("judge", lang, dict(extra_env or {}, CASES=cases_path, OBS=opath, OUT=bpath), seed, 3000)
    mm = re.search(r'"JUDGED",\s*(\d+),\s*"OK",\s*(\d+),\s*"BAD",\s*(\d+)', jr.out)
    if not mm or int(mm.group(1)) != len(cases):
        raise vlib.InfraError("ExprGrammar judge gave no verdict\n" + jr.out[-2000:])
    bad = vlib.read_ndjson(bpath)
    if len(bad) != int(mm.group(3)):
        raise vlib.InfraError("ExprGrammar judge verdict/output mismatch")
    return cases, obs, bad, int(mm.group(2))


CLASSES = [("sizeof", "class:sizeof-operand-without-parentheses"), ("notcast", "class:cast-parentheses-removed-after-not"),
           ("angle", "class:less-than-greater-than-taken-for-template-brackets")]


def classify(lang, reduced, seed, work):
    """Root-cause class of every disputed (reduced) statement: TLC prints it in the repaired variant (ExprGrammar.tla, Repair) and judges
    what cppcheck makes of that; the statement is in the class iff the repaired print is judged correct. Returns {id: class key}."""
    cls = {}
    if not reduced:
        return cls
    cpath = os.path.join(work, "cls.%s.ndjson" % lang)
    vlib.write_ndjson(cpath, [{"id": b["id"], "toks": b["toks"], "t": b["t"]} for b in reduced])
    for style, key in CLASSES:
        rpath = os.path.join(work, "rep.%s.%s.ndjson" % (lang, style))
        r = tlc("repair", lang, {"CASES": cpath, "OUT": rpath, "REPAIR": style}, seed, 1200)
        if '"REPAIRED", 0' in r.out.replace("<<", "").replace(">>", ""):
            continue
        cases, obs, bad, _ok = judge_cases(lang, rpath, None, seed, work, "rep" + style, extra_env={"REPAIR": style})
        wrong = {b["id"] for b in bad}
        for c, o in zip(cases, obs):
            if o["status"] == "ok" and c["id"] not in wrong and c["id"] not in cls:
                cls[c["id"]] = key
    return cls


def canon(toks):
    """Key of a failing statement: the int variables are interchangeable."""
    return " ".join("a" if t in ("b", "c") else t for t in toks)


def shrink(lang, bad, seed, work):
    """For every disputed statement find its smallest sub-expression that, alone in a statement, is disputed too
    (TLC enumerates the sub-expressions and judges them; picking the shortest is bookkeeping). Returns the distinct reduced rows."""
    if not bad:
        return []
    cpath = os.path.join(work, "disp.%s.ndjson" % lang)
    spath = os.path.join(work, "subs.%s.ndjson" % lang)
    vlib.write_ndjson(cpath, [{"id": b["id"], "t": b["t"]} for b in bad])
    tlc("subs", lang, {"CASES": cpath, "OUT": spath}, seed, 1200)
    subs, _obs, sbad, _ok = judge_cases(lang, spath, None, seed, work, "subs")
    parent = {c["id"]: c["parent"] for c in subs}
    best = {}
    for r in sbad:
        par = parent[r["id"]]
        if par not in best or len(r["toks"]) < len(best[par]["toks"]):
            best[par] = r
    reduced = {}
    for b in bad:
        r = best.get(b["id"], b)
        k = canon(r["toks"])
        if k not in reduced:
            reduced[k] = dict(r, id=len(reduced) + 1, from_stmt=" ".join(b["toks"]), instances=0)
        reduced[k]["instances"] += 1
    return list(reduced.values())


def clang_confirm(lang, bad, seed, work):
    """TLC compares clang's tree of every disputed statement with the spec's tree. Returns {id: agrees}."""
    bad = bad[:MAX_CLANG]
    if not bad:
        return {}
    src = [PRELUDE[lang]]
    for k, b in enumerate(bad):
        c = {"toks": b["toks"]}
        src.append("int g%d(int a, int b, int c, int *p, struct S s, struct S *q)\n{\n  int x; int *y;\n  %s%s\n  return 0;\n}\n"
                   % (k, " ".join(b["toks"]), suffix(c)))
    path = os.path.join(work, "disputed." + ("c" if lang == "c" else "cpp"))
    with open(path, "w") as f:
        f.write("".join(src))
    trees, err = clangtree.stmt_trees(path, lang)
    if trees is None:
        raise vlib.InfraError("clang failed: %s" % err)
    cpath = os.path.join(work, "dcases.%s.ndjson" % lang)
    opath = os.path.join(work, "dobs.%s.ndjson" % lang)
    rpath = os.path.join(work, "dres.%s.ndjson" % lang)
    vlib.write_ndjson(cpath, [{"id": b["id"], "t": b["t"]} for b in bad])
    vlib.write_ndjson(opath, [{"id": b["id"], "status": "ok" if trees.get("g%d" % k) else "none", "t": trees.get("g%d" % k) or {"k": "none"}}
                              for k, b in enumerate(bad)])
    tlc("clang", lang, {"CASES": cpath, "OBS": opath, "OUT": rpath}, seed, 600)
    return {r["id"]: r["agrees"] for r in vlib.read_ndjson(rpath)}


def main(tier, seed, replay=None):
    t0 = time.time()
    vlib.build()
    if replay:
        return do_replay(replay, seed)
    vlib.tmproot()
    work = vlib.mktmp("c07run")
    pl = plan(tier)
    tasks = []
    for k, part in enumerate(pl):
        pp = os.path.join(work, "plan%d.ndjson" % k)
        vlib.write_ndjson(pp, part)
        for lang in ("c", "cpp"):
            tasks.append((lang, k, pp))
    # biggest parts first; NTLC chains at a time (each chain: one TLC process or NPROC cppcheck processes)
    tasks.sort(key=lambda t: -max((st.get("n", 0) if st["kind"] == "exact" else 2) for st in pl[t[1]]))
    with concurrent.futures.ThreadPoolExecutor(NTLC) as ex:
        futs = [(lang, ex.submit(run_part, lang, k, seed, work, pp)) for lang, k, pp in tasks]
        parts = [(lang, f.result()) for lang, f in futs]
    res, nlaws = {}, {}
    for lang in ("c", "cpp"):
        rs = [r for l, r in parts if l == lang]
        agg = {"lang": lang, "cases": 0, "ok": 0, "rejected": 0, "rewritten": 0, "bad": [], "by_n": {}, "samples": [], "rejected_samples": [],
               "rewritten_samples": [], "distinct": set()}
        for r in rs:
            for key in ("cases", "ok", "rejected", "rewritten"):
                agg[key] += r[key]
            for key in ("bad", "samples", "rejected_samples", "rewritten_samples"):
                agg[key] += r[key]
            agg["distinct"] |= r["distinct"]
            for n, d in r["by_n"].items():
                t = agg["by_n"].setdefault(n, {})
                for kk, v in d.items():
                    t[kk] = t.get(kk, 0) + v
        # ids are per part: renumber the disputed cases
        for i, b in enumerate(agg["bad"]):
            b["id"] = i + 1
        agg["rejected_samples"] = agg["rejected_samples"][:10]
        agg["rewritten_samples"] = agg["rewritten_samples"][:10]
        res[lang] = agg
        nlaws[lang] = sum(r["laws"] for r in rs)

    violations = []
    disagreements = []
    not_examined = 0
    reduced_all = {}
    by_class = {}

    def second_opinion(lang):
        reduced = shrink(lang, res[lang]["bad"][:MAX_SHRINK], seed, work)
        return reduced, clang_confirm(lang, reduced, seed, work), classify(lang, reduced, seed, work)
    with concurrent.futures.ThreadPoolExecutor(2) as ex:
        opinions = dict(zip(("c", "cpp"), ex.map(second_opinion, ("c", "cpp"))))
    for lang in ("c", "cpp"):
        bad = res[lang]["bad"]
        not_examined += max(0, len(bad) - MAX_SHRINK)
        reduced, agrees, cls = opinions[lang]
        reduced_all[lang] = reduced
        for b in reduced:
            b["class"] = cls.get(b["id"])
            if b["class"]:
                by_class[b["class"]] = by_class.get(b["class"], 0) + b["instances"]
            stmt = " ".join(b["toks"])
            if b["id"] not in agrees:
                not_examined += b["instances"]
                continue
            if not agrees[b["id"]]:
                disagreements.append({"lang": lang, "stmt": stmt, "instances": b["instances"]})
                continue
            payload = {"lang": lang, "toks": b["toks"], "t": b["t"], "expected": b["expected"], "observed": b["observed"],
                       "reduced_from": b["from_stmt"], "instances_in_this_run": b["instances"]}
            p = vlib.save_replay(PID, "%s-%s" % (lang, vlib.digest(canon(b["toks"]))), payload)
            violations.append({"key": b["class"] or "%s:%s" % (lang, canon(b["toks"]).replace(" ", "_")),
                               "what": "[%s] %s : expected edges %s, cppcheck has %s (clang agrees with the spec; %d statements of this run reduce to it, e.g. %s)"
                                       % (lang, stmt, json.dumps(b["expected"]), json.dumps(b["observed"]), b["instances"], b["from_stmt"]), "replay": p})
    # statements that are not judged (rejected as syntax error / rewritten by the tokenizer before the AST exists) must stay rare:
    # measured on the pinned tree 0.06 % and 0.2 % (quick), 0.03 % and 0.1 % (thorough); more means the parser gives up on valid expressions
    for lang in ("c", "cpp"):
        for what, limit in (("rejected", 0.0015), ("rewritten", 0.006)):
            if res[lang][what] > limit * res[lang]["cases"]:
                p = vlib.save_replay(PID, "%s-too-many-%s" % (lang, what), {"lang": lang, "count": res[lang][what], "cases": res[lang]["cases"],
                                                                             "samples": res[lang][what + "_samples"]})
                violations.append({"key": "%s:too-many-%s" % (lang, what),
                                   "what": "[%s] %d of %d valid statements were %s (limit %.2f %%), e.g. %s"
                                           % (lang, res[lang][what], res[lang]["cases"], what, 100 * limit, res[lang][what + "_samples"][:3]), "replay": p})
    rc, new, known = vlib.verdict(PID, violations)

    total = sum(res[l]["cases"] for l in res)
    distinct = sum(len(res[l]["distinct"]) for l in res)
    cov = {
        "evaluations": total, "distinct_nontrivial": distinct,
        "rule": "one evaluation = one generated statement parsed by the real binary in one language and judged by TLC against Ast(t); "
                "distinct = different (language, token sequence); non-trivial = accepted by cppcheck and at least 2 operators (statement operator included)",
        "samples": res["c"]["samples"][:3] + res["cpp"]["samples"][:2],
        "exhaustive": True,
        "exhaustive_scope": "strata of kind 'exact' / 'unary2' in plan: all well-typed trees of the profile with exactly n operators; the 'big' stratum is a seeded sample",
        "plan": pl,
        "per_language": {l: {"cases": res[l]["cases"], "accepted": res[l]["ok"], "rejected_syntax": res[l]["rejected"],
                             "rewritten_by_tokenizer": res[l]["rewritten"], "rewritten_samples": res[l]["rewritten_samples"], "mismatches": len(res[l]["bad"]),
                             "distinct_reduced_mismatches": len(reduced_all[l]),
                             "by_operator_count": res[l]["by_n"], "rejected_samples": res[l]["rejected_samples"]} for l in res},
        "laws_checked_on_trees": nlaws, "model_disagreement": len(disagreements), "model_disagreement_samples": disagreements[:10],
        "mismatches_not_examined": not_examined, "known_findings": known, "disputed_statements_by_root_cause_class": by_class,
    }
    vlib.write_evidence(PID, tier, seed, "exploration", cov, time.time() - t0, violations=new,
                        assumptions=["dump columns are exact source columns (tokens are matched by line and column)",
                                     "clang-14's AST is the second witness for the expected tree shape",
                                     "only the operator forms listed in META.note are generated",
                                     "unary plus, a minus sign in front of a literal or after +/- may be folded away by the tokenizer (left open by the spec)"])
    print("C07 %s: %d statements (%s), accepted %s, rejected %s, rewritten %s, mismatches %s -> %d distinct reduced, clang-confirmed %d, model disagreements %d, laws on %s trees"
          % (tier, total, {l: res[l]["cases"] for l in res}, {l: res[l]["ok"] for l in res}, {l: res[l]["rejected"] for l in res},
             {l: res[l]["rewritten"] for l in res}, {l: len(res[l]["bad"]) for l in res}, sum(len(v) for v in reduced_all.values()),
             len(violations), len(disagreements), nlaws))
    return rc


def do_replay(path, seed):
    payload = json.load(open(path))
    lang = payload["lang"]
    if "toks" not in payload:
        print("rate violation (not a single statement), see %s: %s" % (path, json.dumps(payload)[:1000]))
        return 1
    work = vlib.mktmp("c07replay")
    case = {"id": 1, "n": 0, "toks": payload["toks"], "t": payload["t"]}
    obs = observe([{"id": 1, "toks": payload["toks"]}], lang)
    cpath, opath, bpath = (os.path.join(work, x) for x in ("c.ndjson", "o.ndjson", "b.ndjson"))
    vlib.write_ndjson(cpath, [case])
    vlib.write_ndjson(opath, obs)
    tlc("judge", lang, {"CASES": cpath, "OBS": opath, "OUT": bpath}, seed, 600)
    bad = vlib.read_ndjson(bpath)
    print("statement [%s]: %s   status %s" % (lang, " ".join(payload["toks"]), obs[0]["status"]))
    print("observed edges: %s" % json.dumps(obs[0]["edges"]))
    if bad:
        agrees = clang_confirm(lang, bad, seed, work)
        print("expected edges: %s ; clang agrees with the spec: %s" % (json.dumps(bad[0]["expected"]), agrees.get(1)))
        if agrees.get(1):
            print("VIOLATION property=%s replay=%s" % (PID, path))
            return 1
    print("replay: no violation reproduced")
    return 0
