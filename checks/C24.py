"""C24 - unmatched suppressions are reported exactly.

1. Trace validation: generated projects rich in suppressions are analysed with --enable=information under all three
   executors; every trace must be a behaviour of Run.tla, whose actions carry the checked/matched bookkeeping through
   the executors (MarkQ, SendSuppr/ParentSupprAdd, SupprUpdate) and whose Unmatched / EmitDirect / UnmatchedDone actions
   say which entries may, must and must not be reported, at which location.
2. Final observations: Unmatched.tla judges the unmatchedSuppression reports of every run against the project's planted
   findings and suppressions (O0-O4), and Rel.tla demands the same reports under every executor.
"""
import json
import os
import re
import time

import projgen
import rel
import runlayer
import runtrace
import vlib

PID = "C24"
CONFIRM_BY_REPLAY = True   # a new deviation is reported only if replaying its stored case repeats it
META = {
    "cat": "model_checking",
    "text": "Every run of generated suppression-heavy projects (command line id / id:file / id:file:line / glob forms, inline comments in sources "
            "and shared headers, never-matching ids) under the single, thread and process executor is validated step by step against Run.tla, "
            "which models the checked/matched flags per address space, their transfer back from workers, and the rules for which entries are "
            "reported as unmatched (soundness, completeness where the rules fix it, own location, once); TLC additionally judges the final "
            "reports against the project's planted findings (Unmatched.tla) and their equality across executors (Rel.tla). RunMC.tla proves the "
            "unmatched set of the parallel executors equal to the single-job one for the model scenarios.",
    "ref": "DESIGN.md section 4 C24",
    "note": "Hard obligations come from the statement (never for a matched entry, own location, once, equality across executors); conventions the "
            "manual does not define (line-specific entries only when consulted, never-consulted wildcards, header entries) are left open in the "
            "final-observation judge and bound only through the logged flags in the trace spec. Matching itself is C23.",
    "technique": "trace validation of the hooked binary against Run.tla + TLC-judged observations (Unmatched.tla, Rel.tla) + RunMC model check",
}

VARIANTS = [("j1", ["-j1"]), ("thread-j2", ["-j2", "--executor=thread"]), ("process-j2", ["-j2", "--executor=process"]),
            ("thread-j3", ["-j3", "--executor=thread"]), ("process-j3", ["-j3", "--executor=process"])]


def gen(seed):
    if seed < 0:
        return projgen.gen_special(-seed)
    p = projgen.gen_project(seed)
    # force information so that unmatched suppressions are reported; keep the other options
    opts = [o for o in p["opts"] if not o.startswith("--enable=")]
    en = sorted(set(p["enabled"] + ["information"])) if "all" not in p["enabled"] else ["all"]
    opts.append("--enable=" + ",".join(en))
    if seed % 5 == 0 and "--suppress=doesNotExist" not in opts:
        opts.append("--suppress=doesNotExist")
        p["supprs"].append({"id": "doesNotExist", "file": "", "line": -1, "inline": False, "glob": False})
    if seed % 7 == 0 and "--suppress=doesNotExist:f0.c" not in opts:
        opts.append("--suppress=doesNotExist:f0.c")
        p["supprs"].append({"id": "doesNotExist", "file": "f0.c", "line": -1, "inline": False, "glob": False})
    if seed % 2 == 0 and p["inline"]:
        # an inline suppression in code that no configuration analyses: it must NOT be reported as unmatched
        f0 = p["sources"][0]
        p["files"][f0] += "#if 0\n// cppcheck-suppress zerodiv\nint never%d(int x) { return x / 0; }\n#endif\n" % seed
    p["opts"] = opts
    return p


def reports_of(r):
    out = []
    for f in r["findings"]:
        if f["id"] == "unmatchedSuppression":
            m = re.match(r"Unmatched suppression: (.*)$", f["msg"])
            out.append({"file": f["file"], "line": f["line"], "id": m.group(1) if m else "?"})
    return out


def judge_unmatched(observations):
    work = vlib.mktmp("c24judge")
    inp = os.path.join(work, "obs.ndjson")
    out = os.path.join(work, "bad.ndjson")
    vlib.write_ndjson(inp, observations)
    r = vlib.tlc("Unmatched", "Unmatched.cfg", env={"OBS": inp, "OUT": out}, timeout=900)
    if not r.ok:
        raise vlib.InfraError("Unmatched.tla failed\n" + r.out[-2500:])
    m = re.search(r'"JUDGED",\s*(\d+),\s*"NONTRIVIAL",\s*(\d+),\s*"BAD",\s*(\d+)', r.out)
    if not m:
        raise vlib.InfraError("Unmatched.tla gave no verdict\n" + r.out[-2000:])
    return int(m.group(2)), vlib.read_ndjson(out)


def run_all(projs, variants, seeds):
    runs = {}
    for p in projs:
        root = runlayer.fresh_root(p["name"])
        projgen.materialize(p, root)
        rs = []
        for vname, vopts in variants:
            for sd in (seeds if vname != "j1" else seeds[:1]):
                r = runlayer.run_variant(p, root, "%s/%s/s%d" % (p["name"], vname, sd), vopts, env={"CPPCHECK_VERIF_SCHED": str(sd)})
                if r["rc"] is None:
                    raise vlib.InfraError("cppcheck timeout " + r["label"])
                if r["hdr"] is None:
                    raise vlib.InfraError("cppcheck did not start the analysis: %s\n%s" % (r["label"], (r["out"] + r["err"])[-400:]))
                rs.append(r)
        runlayer.cleanup(root)
        runs[p["name"]] = (p, rs)
    return runs


def judge_all(runs):
    obs_u, obs_rel, tr = [], [], []
    for pname, (p, rs) in runs.items():
        for i, r in enumerate(rs):
            obs_u.append({"name": r["label"], "info": True, "sources": p["sources"], "supprs": p["supprs"],
                          "located": [{"file": a, "line": b, "id": c, "sev": d} for a, b, c, d in p["located"]],
                          "reports": reports_of(r)})
            um = [f for f in r["findings"] if f["id"] == "unmatchedSuppression"]
            obs_rel.append(rel.obs(pname, "ref" if i == 0 else "alt", r["label"], um, 0))
            tr.append((r["label"], r["hdr"], r["events"]))
    nontrivial, bad_u = judge_unmatched(obs_u)
    npairs, bad_rel = rel.judge("SameBagAndExit", set(), obs_rel)
    tres = runtrace.validate(tr, keep_dir=os.path.join(vlib.OUT, "replays", PID))
    return nontrivial, bad_u, npairs, bad_rel, tres


def main(tier, seed, replay=None):
    t0 = time.time()
    vlib.build()
    if replay:
        payload = json.load(open(replay))
        projs = [gen(payload["seed"])]
        variants, seeds = VARIANTS, [1, 2]
    else:
        n = 9 if tier == "quick" else 200
        projs = [gen(seed * 1000 + 5 * i) for i in range(n)]        # multiples of 5: every project has a never-matching entry
        projs += [gen(-1), gen(-2)]                                 # translation units that disagree about a header suppression
        variants = VARIANTS[:3] if tier == "quick" else VARIANTS
        seeds = [seed] if tier == "quick" else [seed, seed + 1]
    runs = run_all(projs, variants, seeds)
    nontrivial, bad_u, npairs, bad_rel, tres = judge_all(runs)
    suspects = sorted(set([b["name"].split("/")[0] for b in bad_u] + [b["group"] for b in bad_rel] + [rj["label"].split("/")[0] for rj in tres.rejected]))
    violations = []
    if suspects:
        again = run_all([runs[s][0] for s in suspects], variants, seeds)
        _nt, bad_u, _np, bad_rel, tres2 = judge_all(again)
        for b in bad_u:
            pname = b["name"].split("/")[0]
            pseed = int(pname[1:])
            p = vlib.save_replay(PID, pname + "-unmatched", {"seed": pseed, "judgement": b, "opts": again[pname][0]["opts"]})
            cls = None
            if b["reasons"] == ["reported-although-matched"] and "/j1/" not in b["name"]:
                # the obligation is violated only by reports the shadowing root cause explains?
                proj_ = again[pname][0]
                # the reports that violate the obligation: a global entry for whose id an error finding is planted
                glob_reports = [r_ for r_ in b["reports"]
                                if any(not s_["inline"] and not runlayer._is_local(s_) and s_["id"] == r_["id"] for s_ in proj_["supprs"])
                                and any(l_[2] == r_["id"] and l_[3] == "error" for l_ in proj_["located"])]
                if glob_reports and all(runlayer.shadowed_global(proj_, r_["id"], r_["file"]) for r_ in glob_reports):
                    cls = runlayer.SHADOW_CLASS
            violations.append({"key": cls or "obs:%s:%s" % ("+".join(b["reasons"]), vlib.digest(again[pname][0]["files"])),
                               "what": "%s: %s reports=%s" % (b["name"], b["reasons"], b["reports"]), "replay": p})
        for b in bad_rel:
            pseed = int(b["group"][1:])
            p = vlib.save_replay(PID, b["group"] + "-rel", {"seed": pseed, "diff": b})
            cls = runlayer.explain_parallel_unmatched(again[b["group"]][0], b["onlyRef"], b["onlyAlt"])
            violations.append({"key": cls or "rel:%s:%s" % (b["alt"].split("/")[1], vlib.digest(again[b["group"]][0]["files"])),
                               "what": "unmatched reports differ between %s and %s: onlyRef=%s onlyAlt=%s" % (b["ref"], b["alt"], b["onlyRef"], b["onlyAlt"]), "replay": p})
        for rj in tres2.rejected:
            pname = rj["label"].split("/")[0]
            p = vlib.save_replay(PID, pname + "-trace", {"seed": int(pname[1:]), "rejected": rj})
            violations.append({"key": "trace:%s:%s" % ((rj["event"] or {}).get("e"), vlib.digest(again[pname][0]["files"])),
                               "what": "trace %s rejected at line %s: %s" % (rj["label"], rj["line"], json.dumps(rj["event"])[:300]), "replay": p})
    if replay:
        for v in violations:
            print(v["what"])
        if violations:
            print("VIOLATION property=%s replay=%s" % (PID, replay))
            return 1
        print("replay: no violation")
        return 0
    rc, new, known = vlib.verdict(PID, violations)
    nruns = sum(len(v[1]) for v in runs.values())
    any_run = next(iter(runs.values()))
    cov = {"states": tres.states, "transitions": tres.transitions, "traces_validated_against_impl": tres.validated,
           "evaluations": nruns, "distinct_nontrivial": nontrivial,
           "rule": "one run per (generated project, executor variant, schedule seed); non-trivial = run with at least one unmatchedSuppression report or a certainly-matched suppression (counted by TLC)",
           "relation_pairs": npairs, "projects": len(projs),
           "samples": [{"project": any_run[0]["desc"], "opts": any_run[0]["opts"], "supprs": any_run[0]["supprs"][:6],
                        "reports": reports_of(any_run[1][0])}]}
    vlib.write_evidence(PID, tier, seed, "model_checking", cov, time.time() - t0, violations=new,
                        assumptions=["which suppression matches which finding is taken from the logged query results in traces (C23 decides matching)",
                                     "final-observation oracle is partial by construction (exact-form suppressions on planted error findings, never-matching ids)"])
    return rc
