"""C27 - severity and certainty options gate findings monotonically.

Gate.tla enumerates the lattice of option sets (2^5 optional severities x --inconclusive = 64); the real binary analyses
every input under every option set; TLC judges Gated (a finding's severity is enabled, inconclusive only with
--inconclusive) on every run and Monotone (a larger option set reports every finding of a smaller one unchanged) on
every comparable pair of runs of the same input.
"""
import concurrent.futures
import json
import os
import re
import time

import projgen
import runlayer
import vlib

PID = "C27"
CONFIRM_BY_REPLAY = True   # a new deviation is reported only if replaying its stored case repeats it
META = {
    "cat": "exploration",
    "text": "The complete lattice of 64 severity/certainty option sets (enumerated by TLC from Gate.tla) is applied to every input (files built "
            "from snippets of every severity incl. inconclusive-only findings, the shipped samples, excerpts of test/cfg); TLC checks the "
            "gating predicate on every run and the subset relation on every comparable pair of runs of the same input (all of them, not only "
            "covering pairs).",
    "ref": "DESIGN.md section 4 C27",
    "note": "Findings are identified by (file, line, column, severity, certainty, id, message), so a finding that changes its severity or becomes "
            "inconclusive counts as altered. The checkers summary (its text counts the active checkers) is excluded. --enable=style is documented to "
            "enable warning, performance and portability as well.",
    "technique": "TLC-enumerated option lattice, TLC-judged gating and monotonicity relations over runs of the real binary",
}

EXCLUDE = ["checkersReport"]

SNIPPET_FILE = (
    "#include <stdlib.h>\n#include <string.h>\n#include <stdio.h>\n"
    "int e1(int x) { return x / 0; }\n"
    "int w1(int *p) { int v = *p; if (p) return v; return 0; }\n"
    "void s1(void) { int v; v = 1; }\n"
    "int po1(int *p) { int x; x = p; return x; }\n"
    "struct S { int a; };\n"
    "int inc1(const struct S *s) { int x = 0; if (s) x = s->a; return x; }\n"
    "void oom(void) { char *p = malloc(10); *p = 0; free(p); }\n"
    "void res(void) { FILE *f = fopen(\"x\", \"r\"); fgetc(f); fclose(f); }\n"
    "int w2(int a) { if (a == 1 && a == 2) return 1; return 0; }\n"
    "void pf1(const char *s) { size_t n = 0; for (size_t i = 0; i < strlen(s); i++) n++; }\n"
    "void term(const char *p) { char buf[10]; strncpy(buf, p, 10); (void)buf[0]; }\n"
    "// cppcheck-suppress doesNotExist\n"
    "int dup(int a) { return a; }\n"
)
CPP_FILE = (
    "#include <vector>\n#include <string>\n"
    "class C { public: C() {} int get() { return v; } int v; int w; };\n"
    "void pv(std::vector<int> v) { for (std::vector<int>::iterator it = v.begin(); it != v.end(); it++) {} }\n"
    "int f(const std::string s) { return s.size(); }\n"
    "struct B { virtual void f(); ~B(); };\n"
    "void g() { int a[2]; a[2] = 0; }\n"
)


def multi_value_files():
    """Tokens that carry SEVERAL values of different kinds for the same use (a definite value from a call site or an
    assignment, a value that depends on a condition further down, an inconclusive value): which of them a check reports must
    not depend on the enabled severities - a definite error may get company, it may not be replaced."""
    c = "static int tab[10];\n"
    n = 0
    for use, cond, bad in (("int v = tab[i];", "i == -3", "-1"), ("int v = tab[i];", "i == 12", "10"), ("int v = 1 << i;", "i == 40", "33"),
                           ("int v = 100 / i;", "i == 0", "0"), ("int v = 100 % i;", "i == 0", "0")):
        n += 1
        # definite value from the call site, conditional value from the check further down
        c += "int mv%d(int i) { %s if (%s) v = 0; return v; }\nint mc%d(void) { return mv%d(%s); }\n" % (n, use, cond, n, n, bad)
        # definite value on one branch, conditional value from the check further down
        c += "int mb%d(int i, int c) { if (c) i = %s; %s if (%s) v = 0; return v; }\n" % (n, bad, use, cond)
    c += "int mp1(int *p) { int v = *p; if (p == 0) v = 0; return v; }\nint mq1(void) { return mp1(0); }\n"
    c += "int mp2(int *p, int c) { if (c) p = 0; int v = *p; if (!p) v = 1; return v; }\n"
    cpp = "static int tab[10];\n"
    for n2, (use, first, second) in enumerate((("return tab[i];", "-2", "-1"), ("return 1 << i;", "40", "33"), ("return 100 / i;", "0", "0")), 1):
        # inconclusive value (passed to an unknown function, maybe by reference) before a definite value on one branch
        cpp += "int iv%d(int c) { int i = %s; unknown%d(i); if (c) i = %s; %s }\n" % (n2, first, n2, second, use)
    return {"multivalue.c": c}, {"multivalue.cpp": cpp}


def inputs(tier, seed):
    items = [("snippets.c", {"snippets.c": SNIPPET_FILE}, ["--library=posix", "--inline-suppr"]), ("classes.cpp", {"classes.cpp": CPP_FILE}, [])]
    mvc, mvcpp = multi_value_files()
    items += [("multivalue.c", mvc, []), ("multivalue.cpp", mvcpp, [])]
    sdir = os.path.join(vlib.REPO, "samples")
    names = sorted(os.listdir(sdir))
    if tier == "quick":
        names = names[(seed % 3)::5]
    for d in names:
        for fn in sorted(os.listdir(os.path.join(sdir, d))):
            if fn.startswith("bad") and fn.endswith((".c", ".cpp")):
                items.append(("%s_%s" % (d, fn), {fn: open(os.path.join(sdir, d, fn), errors="replace").read()}, []))
    cfgdir = os.path.join(vlib.REPO, "test", "cfg")
    for fn, lib in ([("std.c", "std")] if tier == "quick" else [("std.c", "std"), ("posix.c", "posix"), ("std.cpp", "std"), ("gnu.c", "gnu")]):
        lines = open(os.path.join(cfgdir, fn), errors="replace").read().splitlines(True)
        items.append(("cfg-" + fn, {fn: "".join(lines[:(700 if tier == "quick" else 4000)])}, ["--library=" + lib]))
    return items


def tlc_lattice():
    work = vlib.mktmp("c27gen")
    out = os.path.join(work, "lattice.ndjson")
    r = vlib.tlc("Gate", "Gate.cfg", env={"MODE": "gen", "OUT": out, "OBS": "/dev/null", "PARAMS": "/dev/null"}, timeout=600)
    if not r.ok:
        raise vlib.InfraError("Gate.tla gen failed\n" + r.out[-2000:])
    return vlib.read_ndjson(out)


def run_one(job):
    name, files, extra, opt = job
    root = vlib.mktmp("c27")
    projgen.materialize({"files": files}, root)
    args = ["-q", "--template=" + projgen.TEMPLATE] + extra
    if opt["en"]:
        args.append("--enable=" + ",".join(opt["en"]))
    if opt["inc"]:
        args.append("--inconclusive")
    rc, out, err = vlib.run_cppcheck(args + sorted(files), root, timeout=300)
    runlayer.cleanup(root)
    fs = projgen.parse_findings(err)
    return {"input": name, "en": opt["en"], "inc": opt["inc"], "rc": rc,
            "findings": [{"id": f["id"], "sev": f["sev"], "inc": f["inc"], "key": f["key"]} for f in fs]}


def judge(observations):
    work = vlib.mktmp("c27judge")
    inp = os.path.join(work, "obs.ndjson")
    par = os.path.join(work, "params.ndjson")
    out = os.path.join(work, "bad.ndjson")
    vlib.write_ndjson(inp, observations)
    vlib.write_ndjson(par, [{"exclude": EXCLUDE}])
    r = vlib.tlc("Gate", "Gate.cfg", env={"MODE": "judge", "OUT": out, "OBS": inp, "PARAMS": par}, timeout=3000, xmx="8g")
    if not r.ok:
        raise vlib.InfraError("Gate.tla judge failed\n" + r.out[-2500:])
    m = re.search(r'"RUNS",\s*(\d+),\s*"PAIRS",\s*(\d+),\s*"BADGATE",\s*(\d+),\s*"BADMONO",\s*(\d+)', r.out)
    if not m:
        raise vlib.InfraError("Gate.tla gave no verdict\n" + r.out[-2000:])
    return int(m.group(2)), vlib.read_ndjson(out)


def main(tier, seed, replay=None):
    t0 = time.time()
    vlib.build()
    lattice = tlc_lattice()
    items = inputs(tier, seed)
    if replay:
        want = json.load(open(replay))["input"]
        items = [it for it in items if it[0] == want]
    jobs = [(n, f, x, o) for (n, f, x) in items for o in lattice]
    obs = []
    with concurrent.futures.ThreadPoolExecutor(max_workers=min(8, vlib.NCPU)) as ex:
        for o in ex.map(run_one, jobs):
            if o["rc"] is None:
                raise vlib.InfraError("cppcheck timeout on %s" % o["input"])
            obs.append(o)
    npairs = 0
    bad = []
    # judge input by input (the pair relation is per input; keeps each TLC run small)
    byinput = {}
    for o in obs:
        byinput.setdefault(o["input"], []).append(o)
    for name, os_ in byinput.items():
        n, b = judge(os_)
        npairs += n
        bad += b
    violations = []
    seen = set()
    for b in bad:
        for k in b["keys"]:
            parts = k.split("|")
            key = "%s:%s/%s%s" % (b["kind"], parts[5], parts[3], "/inconclusive" if parts[4] else "")
            if key in seen:
                continue
            seen.add(key)
            p = vlib.save_replay(PID, b["kind"] + "-" + vlib.digest([b["input"], key]), {"input": b["input"], "judgement": b})
            violations.append({"key": key, "what": "%s on %s: --enable=%s%s%s: %s" % (
                b["kind"], b["input"], ",".join(b["en"]), " --inconclusive" if b["inc"] else "",
                (" vs --enable=%s%s" % (",".join(b["en2"]), " --inconclusive" if b["inc2"] else "")) if b["kind"] == "not-monotone" else "", k), "replay": p})
    if replay:
        for v in violations:
            print(v["what"])
        if violations:
            print("VIOLATION property=%s replay=%s" % (PID, replay))
            return 1
        print("replay: gated and monotone")
        return 0
    rc, new, known = vlib.verdict(PID, violations)
    sevs = {}
    for o in obs:
        for f in o["findings"]:
            k = f["sev"] + ("/inconclusive" if f["inc"] else "")
            sevs[k] = sevs.get(k, 0) + 1
    cov = {"evaluations": len(obs) + npairs, "distinct_nontrivial": len([1 for o in obs if o["findings"]]),
           "rule": "one run per (input, option set of the 64-element lattice) + one subset evaluation per comparable pair of runs of the same input; non-trivial = run that reports at least one finding",
           "exhaustive": True, "inputs": len(items), "option_sets": len(lattice), "comparable_pairs": npairs, "findings_by_severity": sevs,
           "samples": [obs[0], obs[len(obs) // 2]]}
    for s in cov["samples"]:
        s["findings"] = s["findings"][:4]
    vlib.write_evidence(PID, tier, seed, "exploration", cov, time.time() - t0, violations=new,
                        assumptions=["--enable=style implies warning, performance and portability (documented)"])
    return rc
