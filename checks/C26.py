"""C26 - reports are faithful in every output format.

spec/Report.tla defines, over byte tokens grouped in character classes, what a reported finding looks like in the text
output (--template / --template-location, the documented fields and escapes, the pre-defined formats shown in the manual),
in the XML output (decoded <error> element, class-level attribute escaping, the transcription of cppcheck-errors.rng) and
in the SARIF output (ruleId, level, message, locations; severity -> level table), and "exactly once" as bag equality.

  gen    TLC enumerates the pools (strings over the classes for messages / file names / ids / location infos, every
         template of <= 2 (thorough: 3) parts over the documented fields + literals + escapes, the manual's formats) and
         walks through their product (seeded): a case = template + options + the result lines of a scripted addon
         (drivers/fakeaddon_report.py prints them verbatim), or a real project whose file NAME and string literal carry the
         classes (findings with several locations, a symbol, a remark, an inconclusive one).
  run    three runs of the real binary per case: --template=..., --xml, --output-format=sarif (stderr or --output-file).
         XML is parsed with expat, SARIF with json: a parser failure is an observation ("not well-formed"), not an exception.
  judge  TLC computes Expect(case) per format and compares: text = segmentation of the output into the renderings, XML =
         RNG + raw attribute escaping + bag of decoded elements, SARIF = structure + bag of results, XML vs SARIF directly.
         Every deviation gets a CLASS key decided by TLC (e.g. xml:not-well-formed:control-character-in-file-name).
"""
import concurrent.futures
import json
import os
import re
import shutil
import sys
import time

import vlib

sys.path.insert(0, os.path.join(vlib.VERIF, "drivers"))
import report_conv as rc  # noqa: E402

PID = "C26"
META = {
    "cat": "exploration",
    "text": "Report.tla states the three output formats as functions of a reported finding (text through the documented --template / "
            "--template-location fields and escapes, the XML <error> element with the documented replacement of non-printable bytes and "
            "the attribute escaping a well-formed document needs, cppcheck-errors.rng transcribed element by element, the SARIF result "
            "with the severity->level table) and 'exactly once' as bag equality per format plus a direct XML-vs-SARIF comparison. TLC "
            "enumerates strings over the character classes (plain, space, < > & \" ' \\ { } %, tab, newline, cr, 0x01, 0x7f, a lone "
            "high byte, a UTF-8 pair, format-syntax look-alikes) for messages, file names, ids and location infos and all templates of "
            "<= 2 (thorough 3) parts, walks the product seeded, the real binary renders every case in the three formats and TLC judges "
            "each (finding, format). Exploration is the right level: rendering is a per-finding function, defects show on short strings "
            "of the right class, and the class pairs are covered systematically.",
    "ref": "DESIGN.md section 4 C26",
    "note": "Byte-exact encoding fidelity rests on the parsers as arbiters (expat for well-formedness and attribute decoding, Python's json "
            "+ strict UTF-8 decoding for 'valid JSON'); the specification pins structure, exactly-once and class-level escaping (raw "
            "attribute text must be free of raw < and \" and its references must resolve to the delivered value). cppcheck-errors.rng is "
            "checked through its TLA+ transcription (no RELAX NG validator installed). Findings with arbitrary texts enter through a "
            "scripted addon (raw result lines, also bytes a Python addon would not print); the relay itself is C34. For real projects the "
            "reference finding set is what the XML document carries (plus anchors known from the analysed source), compared in the "
            "replacement spelling. File names never contain / or \\ (path syntax) and real file names no double quote (cppcheck strips "
            "quotes from path arguments). {code} is only used with lines that exist or files that do not exist; templates with {code} "
            "do not use \\r. XML version 2 only. Trusted: TLC, expat, json, the token conversion in drivers/report_conv.py.",
    "technique": "TLA+ function spec of the three report formats; pools and cases enumerated by TLC, three runs of the real binary per case, TLC judges Decode(output) = Expect(case) per format and cross-format equality; laws of the spec checked by TLC",
}

WORKERS = 6
TLC_PAR = 3
CHUNK = 40

ADDON_SRC = ["int ok(int a)", "{ return a + 1; }", "/* end */"]
OPTS = ["-q", "--enable=style,warning,performance,portability,information", "--inconclusive", "--suppress=checkersReport"]


def real_source(lit):
    """the real project: one translation unit whose findings have several locations, a symbol, a remark, an inconclusive one
    and a message that quotes the string literal"""
    return [b"int f(int x) { return x / 0; }",
            b'void g(void) { if ("' + rc.untok(lit) + b'") {} }',
            b"void h(int *p) { *p = 3; }",
            b"int m(void) { int *p = 0; h(p); return 0; }",
            b"void u(void) { int xy; xy++; }",
            b"// REMARK why <&>",
            b"void r(void) { int q = 0; }",
            b"void s(char *p) { char a[10]; strncpy(a, p, 10); g2(a); }"]


def strtab_file():
    p = os.path.join(vlib.mktmp("c26str"), "strtab.json")
    with open(p, "w") as f:
        json.dump(rc.strtab(os.path.join(vlib.SPEC, "Report.tla")), f)
    return p


def tlc_env(mode, strtab, **kw):
    env = {"JAVA_TOOL_OPTIONS": "-Xss512m", "MODE": mode, "STRTAB": strtab, "OUT": "/dev/null", "OBS": "/dev/null", "NCASES": "0", "SEED": "1", "DEEP": "0"}
    env.update(kw)
    return env


def tlc_gen(strtab, ncases, seed, deep):
    """one TLC run: the laws of the specification (a violated law is a specification error, not a finding) and the cases"""
    out = os.path.join(vlib.mktmp("c26gen"), "cases.ndjson")
    r = vlib.tlc("Report", "Report.cfg", env=tlc_env("gen", strtab, OUT=out, NCASES=str(ncases), SEED=str(seed), DEEP="1" if deep else "0"),
                 timeout=2400, xmx="6g")
    if r.violation:
        raise vlib.InfraError("the laws of Report.tla do not hold (specification error)\n" + r.out[-2000:])
    if not r.ok:
        raise vlib.InfraError("Report.tla gen failed\n" + r.out[-3000:])
    cases = vlib.read_ndjson(out)
    if len(cases) != ncases:
        raise vlib.InfraError("Report.tla gen wrote %d of %d cases\n%s" % (len(cases), ncases, r.out[-2000:]))
    pools = {}
    m = re.search(r'"MSGS",\s*(\d+),\s*"FILES",\s*(\d+),\s*"TEMPLATES",\s*(\d+),\s*"LITERALS",\s*(\d+),\s*"REALFILES",\s*(\d+),\s*"BINFILES",\s*(\d+)', r.out)
    if m:
        pools = dict(zip(("messages", "file_names", "templates", "literals", "real_file_names", "file_names_with_raw_bytes"), map(int, m.groups())))
    return cases, pools


def tlc_judge_chunk(strtab, observations):
    work = vlib.mktmp("c26judge")
    inp = os.path.join(work, "obs.ndjson")
    out = os.path.join(work, "verdicts.ndjson")
    vlib.write_ndjson(inp, observations)
    r = vlib.tlc("Report", "Report.cfg", env=tlc_env("judge", strtab, OBS=inp, OUT=out), timeout=2400, xmx="3g")
    if not r.ok or '"JUDGED"' not in r.out:
        raise vlib.InfraError("Report.tla judge failed\n" + r.out[-4000:])
    v = vlib.read_ndjson(out)
    if len(v) != len(observations):
        raise vlib.InfraError("Report.tla judge wrote %d of %d verdicts" % (len(v), len(observations)))
    shutil.rmtree(work, ignore_errors=True)
    return v


def tlc_judge(strtab, observations):
    chunks = [observations[i:i + CHUNK] for i in range(0, len(observations), CHUNK)]
    verdicts = []
    with concurrent.futures.ThreadPoolExecutor(max_workers=TLC_PAR) as ex:
        for v in ex.map(lambda ch: tlc_judge_chunk(strtab, ch), chunks):
            verdicts += v
    return verdicts


# ------------------------------------------------------------------ running one case
def one_run(root, fmt_args, files, ofile):
    args = list(OPTS) + list(fmt_args)
    outp = os.path.join(root, "report.out")
    if os.path.exists(outp):
        os.remove(outp)
    if ofile:
        args.append("--output-file=report.out")
    for attempt in range(6):
        try:
            rcode, out, err = vlib.run([vlib.cppcheck_bin()] + args + files, cwd=root, timeout=120)
            break
        except OSError as ex:       # the shared build tree is being relinked by another check: wait for it
            if attempt == 5:
                raise vlib.InfraError("cannot execute %s: %s" % (vlib.cppcheck_bin(), ex))
            time.sleep(5)
            vlib._built.clear()
            vlib.build()
    if rcode is None:
        raise vlib.InfraError("cppcheck timed out: %r" % (args,))
    if ofile:
        data = open(outp, "rb").read() if os.path.exists(outp) else b""
    else:
        data = err.encode("utf-8", "surrogateescape")
    return rcode, data


def run_case(case):
    root = vlib.mktmp("c26")
    try:
        if case["kind"] == "real":
            name = rc.untok(case["proj"]["file"])
            lines = real_source(case["proj"]["lit"])
            with open(os.path.join(os.fsencode(root), name), "wb") as f:
                f.write(b"\n".join(lines) + b"\n")
            files = [name]
            extra = []
            src = [{"name": case["proj"]["file"], "lines": [rc.tok(l) for l in lines]}]
        else:
            with open(os.path.join(root, "f.c"), "w") as f:
                f.write("\n".join(ADDON_SRC) + "\n")
            os.mkdir(os.path.join(root, "lines"))
            with open(os.path.join(root, "lines", "f.c.lines"), "wb") as f:
                for a in case["lines"]:
                    f.write(rc.addon_line(a))
            with open(os.path.join(root, "fake.json"), "w") as f:
                if case["cid"] % 6 == 1:      # the addon as a Python script (run through runaddon.py) ...
                    desc = {"script": os.path.join(vlib.VERIF, "drivers", "fakeaddon_report.py"), "python": sys.executable}
                else:                         # ... or as an executable: same output, no interpreter start
                    desc = {"executable": os.path.join(vlib.VERIF, "drivers", "fakeaddon_report.sh")}
                desc["args"] = ["--lines-dir", os.path.join(root, "lines")]
                json.dump(desc, f)
            files = ["f.c"]
            extra = ["--addon=fake.json"]
            src = [{"name": rc.tok("f.c"), "lines": [rc.tok(l) for l in ADDON_SRC]}]
        targs = rc.template_args(case["tmpl"]) + (["--verbose"] if case["verbose"] else [])
        t_rc, t_out = one_run(root, extra + targs, files, case["ofile"])
        x_rc, x_out = one_run(root, extra + ["--xml"], files, case["ofile"])
        s_rc, s_out = one_run(root, extra + ["--output-format=sarif"], files, case["ofile"])
        xml = rc.xml_to_tree(x_out)
        xml["rc"] = x_rc
        sarif = rc.sarif_to_doc(s_out)
        sarif["rc"] = s_rc
        return {"case": case, "src": src, "text": {"rc": t_rc, "out": rc.tok(t_out)}, "xml": xml, "sarif": sarif}
    finally:
        shutil.rmtree(root, ignore_errors=True)


def run_cases(cases, budget_s=None, floor=0):
    """run the cases in order with WORKERS parallel runs; with a time budget the walk stops early (never before `floor`
    cases): the cases are a walk through the product space, a prefix of it is a smaller sample of the same kind"""
    t0 = time.time()
    obs = []
    with concurrent.futures.ThreadPoolExecutor(max_workers=WORKERS) as ex:
        pending = []
        it = iter(cases)
        done = False
        while True:
            while not done and len(pending) < WORKERS * 2:
                c = next(it, None)
                if c is None or (budget_s is not None and len(obs) + len(pending) >= floor and time.time() - t0 > budget_s):
                    done = True
                    break
                pending.append(ex.submit(run_case, c))
            if not pending:
                break
            obs.append(pending.pop(0).result())
    return obs


# ------------------------------------------------------------------ reporting
def show(ts):
    return rc.untok(ts).decode("latin-1").encode("unicode_escape").decode("ascii")


def describe(case):
    if case["kind"] == "real":
        return "real project file=%s literal=%s template=%s" % (show(case["proj"]["file"]), show(case["proj"]["lit"]),
                                                                 [a.decode("latin-1") for a in rc.template_args(case["tmpl"])])
    ls = []
    for a in case["lines"]:
        ls.append(rc.addon_line(a).decode("latin-1").encode("unicode_escape").decode("ascii"))
    return "addon lines=%s template=%s%s" % (ls, [a.decode("latin-1").encode("unicode_escape").decode("ascii") for a in rc.template_args(case["tmpl"])],
                                             " --verbose" if case["verbose"] else "")


def nonplain(ts):
    return any(len(t) != 1 or not t.isalnum() and t not in " ." for t in ts)


def collect(cases, verdicts, replay_path=None):
    by_cid = {c["cid"]: c for c in cases}
    per_key = {}
    for v in verdicts:
        for d in v["devs"]:
            per_key.setdefault(d["key"], []).append((v["cid"], d))
    violations = []
    for key in sorted(per_key):
        hits = per_key[key]
        cid, d = hits[0]
        p = replay_path or vlib.save_replay(PID, key.replace(":", "_").replace("/", "_"), {"case": by_cid[cid], "deviation": d, "cases_with_this_key": len(hits)})
        violations.append({"key": key, "what": "[%s] %s; %d case(s), first: %s" % (d["fmt"], d["what"], len(hits), describe(by_cid[cid])[:900]), "replay": p})
    return violations, per_key


def main(tier, seed, replay=None):
    t0 = time.time()
    vlib.build()
    strtab = strtab_file()
    if replay:
        payload = json.load(open(replay))
        obs = run_cases([payload["case"]])
        verdicts = tlc_judge(strtab, obs)
        for d in verdicts[0]["devs"]:
            print("deviation %s: %s" % (d["key"], d["what"]))
        violations, _ = collect([payload["case"]], verdicts, replay_path=replay)
        code, new, known = vlib.verdict(PID, violations)
        if not violations:
            print("replay: all three formats as specified")
        return code
    # The cases are a walk through the product of the pools: quick walks as far as ~2.5 minutes of runs allow on the shared
    # machine (at least 36 cases, at most 150), thorough ~25 minutes with the deeper pools (at least 300, at most 2400).
    ncases = 150 if tier == "quick" else 2400
    cases, pools = tlc_gen(strtab, ncases, seed, tier != "quick")
    t_gen = time.time() - t0
    if tier == "quick":
        obs = run_cases(cases, budget_s=max(60.0, 150.0 - t_gen), floor=36)
    else:
        obs = run_cases(cases, budget_s=1500.0, floor=300)
    cases = [o["case"] for o in obs]
    t_run = time.time() - t0 - t_gen
    verdicts = tlc_judge(strtab, obs)
    violations, per_key = collect(cases, verdicts)
    code, new, known = vlib.verdict(PID, violations)
    nref = sum(v["nref"] for v in verdicts)
    pairs = set()
    for c in cases:
        targs = b" ".join(rc.template_args(c["tmpl"]))
        if c["kind"] == "real":
            if nonplain(c["proj"]["file"][:-2]) or nonplain(c["proj"]["lit"]):
                pairs.add(vlib.digest([c["proj"], targs.decode("latin-1")]))
        for a in c["lines"]:
            if nonplain(a["msg"]) or nonplain(a["errorId"]) or any(nonplain(l["file"]) or nonplain(l["info"]) for l in a["locs"]) or a["shape"] != "file":
                pairs.add(vlib.digest([a, targs.decode("latin-1")]))
    by_dim = {}
    for c in cases:
        by_dim[c["dim"]] = by_dim.get(c["dim"], 0) + 1
    samples = [describe(cases[i])[:600] for i in (0, len(cases) // 2, len(cases) - 1)]
    cov = {"evaluations": nref * 3, "distinct_nontrivial": len(pairs),
           "rule": "evaluations = (reported finding, format) pairs judged by TLC; non-trivial = distinct (finding, template) pairs whose message, id, "
                   "file name or location info contains a token outside [A-Za-z0-9 .] or whose location shape is not the single-location one "
                   "(real projects: distinct (file name, literal, template))",
           "exhaustive": False, "cases": len(cases), "runs_of_the_binary": 3 * len(cases), "cases_per_dimension": by_dim, "pool_sizes": pools,
           "deviation_classes": {k: len(v) for k, v in per_key.items()}, "cases_with_deviation": len({cid for v in per_key.values() for cid, _ in v}),
           "wall_gen_s": round(t_gen, 1), "wall_run_s": round(t_run, 1), "samples": samples}
    vlib.write_evidence(PID, tier, seed, "exploration", cov, time.time() - t0, violations=new,
                        assumptions=["expat / json+UTF-8 are the arbiters of well-formedness", "findings are injected through a scripted addon",
                                     "real projects: the XML document is the reference finding set"])
    print("C26: %d cases, %d reported findings x 3 formats judged, %d deviation classes (%d new, %d known)" % (len(cases), nref, len(per_key), new, known))
    return code
