"""C10 - literal and constant values match the compiler on each platform.

spec/CInt.tla (integers on byte limbs), spec/CLit.tla (literal grammar, literal types, character constants, evaluation of
integer constant expressions with the usual arithmetic conversions and wrap-around) and spec/C10.tla (case sets, rendering,
judge).  One TLC run per (platform, language): gen -> drivers/c10probe.py (cppcheck --dump --platform=p, clang
--target=<triple> -fsyntax-only on `static_assert(type && value)`) -> judge.  A value cppcheck marks as known on the root
token of a case must equal the specified value; a difference counts against cppcheck only if clang accepted the specified
type and value on the matching target.  Generated platform files without a clang target are spec-only: differences there
are listed in the evidence and never reported as violations on their own.
"""
import json
import os
import re
import shutil
import sys
import time

import vlib

sys.path.insert(0, os.path.join(vlib.VERIF, "drivers"))
import cprobe  # noqa: E402

PID = "C10"
META = {
    "cat": "exploration",
    "text": "TLC enumerates literal spellings (4 bases, both prefix/digit cases, every suffix spelling incl. z/uz, digit separators, boundary "
            "magnitudes of every integer type), character constants (5 prefixes, simple/octal/hex escapes, multi-character constants), bool and "
            "exactly representable floating literals, and constant expressions with one or two operators over boundary literals (arithmetic, "
            "bitwise, shifts, comparisons, logic, casts, sizeof, ?:) for C and C++ on the built-in platforms and generated platform files; it "
            "computes their types and values on byte-limb integers and compares with the value cppcheck marks as known in --dump. Every "
            "expected (type, value) is confirmed by clang for the matching target before a difference counts. The case sets are finite and "
            "enumerated completely for the tier, so exploration is the right level.",
    "ref": "DESIGN.md section 4 C10",
    "note": "Trusted: TLC, clang 14 as second witness, the dump reader in drivers/cprobe.py. Undefined / unspecified results (signed overflow, bad "
            "shifts, division by zero) are never generated; conversion to signed types and multi-character constants follow the documented "
            "behaviour shared by gcc/clang/MSVC and are confirmed per case by clang. 'native' = x86_64 Linux. The strata are deterministic sets "
            "(no random sampling), so the seed does not select cases.",
    "technique": "TLA+ function specification (CInt/CLit), TLC-enumerated cases replayed into cppcheck --dump, TLC-computed verdict, clang second witness",
}

# quick: LP64 in both languages, LLP64 in C++, the generated 16-bit-int platform file in C
QUICK_SHARDS = [("native", "c"), ("native", "c++"), ("win64", "c++"), ("gen16", "c")]
TIER = ["quick"]
ALL_PLATFORMS = ["native", "unix32", "unix64", "win32A", "win32W", "win64", "gen16", "genarm", "genilp64"]
SPEC_ONLY = {"genilp64"}
LANGS = ["c", "c++"]


def tlc_c10(mode, tier, plat, lang, work):
    env = {"C10_MODE": mode, "C10_TIER": tier, "C10_PLAT": plat, "C10_LANG": lang, "C10_WORK": work,
           "C10_CASES": os.path.join(work, "cases.ndjson"), "C10_OBS": os.path.join(work, "obs.ndjson"),
           "C10_OUT": os.path.join(work, "out.ndjson"), "C10_DRIVER": os.path.join(vlib.VERIF, "drivers", "c10probe.py"),
           "CPROBE_CPPCHECK": cprobe.private_cppcheck(), "VERIF_TMP": work, "JDK_JAVA_OPTIONS": "-Xss256m"}
    r = vlib.tlc("C10", "Empty.cfg", env=env, workers=1, timeout=2400, xmx="4g")
    if not r.ok:
        if os.environ.get("C10_DEBUG_DIR"):
            open(os.path.join(os.environ["C10_DEBUG_DIR"], "fail-%s-%s-%s.log" % (mode, plat, lang.replace("+", "x"))), "w").write(r.out)
        raise vlib.InfraError("model failure in C10.tla (%s %s %s, rc=%s)\n%s" % (mode, plat, lang, r.rc, r.out[-3000:]))
    return r


def run_shard(args):
    tier, plat, lang = args
    work = vlib.mktmp("c10-%s-%s" % (plat, "cxx" if lang == "c++" else "c"))
    r = tlc_c10("run", tier, plat, lang, work)
    m = re.search(r'"C10VERDICT",(.*?)>>', r.out.replace("\n", " "))
    if not m:
        raise vlib.InfraError("C10.tla gave no verdict for %s/%s\n%s" % (plat, lang, r.out[-2000:]))
    parts = [x.strip().strip('"') for x in m.group(1).split(",")]
    counts = {parts[i]: int(parts[i + 1]) for i in range(0, len(parts) - 1, 2)}
    cases = vlib.read_ndjson(os.path.join(work, "cases.ndjson"))[1:]
    obs = vlib.read_ndjson(os.path.join(work, "obs.ndjson"))
    notable = vlib.read_ndjson(os.path.join(work, "out.ndjson"))
    byid = {o["id"]: o for o in obs}
    for n in notable:
        n["platform"], n["lang"] = plat, lang
        o = byid[n["id"]]
        if o.get("clang_msg"):
            n["clang_msg"] = o["clang_msg"]
    if counts.get("desync") or counts.get("cases") != len(cases):
        raise vlib.InfraError("case list / observation desynchronised for %s/%s" % (plat, lang))
    per_kind = {}
    for c, o in zip(cases, obs):
        k = per_kind.setdefault(c["kind"], {"cases": 0, "with_value": 0})
        k["cases"] += 1
        k["with_value"] += 1 if o["vkind"] else 0
    errs = [{"expr": o["expr"], "error": o["cppcheck_error"]} for o in obs if o.get("cppcheck_error")]
    step = max(1, len(cases) // 4)
    samples = [{"platform": plat, "lang": lang, "kind": c["kind"], "expr": c["expr"], "expect": c["expect"], "assert": c["w"][:200]} for c in cases[::step][:4]]
    shutil.rmtree(work, ignore_errors=True)
    return {"plat": plat, "lang": lang, "counts": counts, "notable": notable, "samples": samples, "per_kind": per_kind, "cppcheck_errors": errs}


def group_violations(shards):
    """One violation per (platform, language, stratum): the key pins the exact set of failing expressions and the values
    cppcheck reported, so a known finding tolerates exactly that set."""
    groups = {}
    for sh in shards:
        for n in sh["notable"]:
            if n["verdict"] == "violation":
                groups.setdefault((sh["plat"], sh["lang"], n["kind"]), []).append(n)
    out = []
    for (plat, lang, rule), rows in sorted(groups.items()):
        rows.sort(key=lambda r: r["expr"])
        dg = vlib.digest([[r["expr"], r["got"]] for r in rows])
        key = "%s:%s:%s:n%d:%s" % (plat, lang, rule, len(rows), dg)
        ex = rows[0]
        payload = {"platform": plat, "lang": lang, "rule": rule, "key": key, "tier": TIER[0],
                   "cases": [{"expr": r["expr"], "class": r["rule"], "expected": r["expected"], "cppcheck": r["got"]} for r in rows]}
        p = vlib.save_replay(PID, "%s-%s-%s" % (plat, "cxx" if lang == "c++" else "c", rule), payload)
        out.append({"key": key, "replay": p,
                    "what": "%d constant expressions of class '%s' with a wrong known value on %s (%s), e.g. `%s`: language/clang say %s, cppcheck says %s"
                            % (len(rows), rule, plat, lang, ex["expr"], ex["expected"], ex["got"])})
    return out


def run(tier, pairs):
    if not cprobe.host_is_lp64_linux():
        pairs = [pl for pl in pairs if pl[0] != "native"]
    TIER[0] = tier
    cprobe.private_cppcheck()

    def task(t):
        if t == "laws":
            return vlib.tlc_must_pass("CIntLaws", "Empty.cfg", workers=1, timeout=900, xmx="2g")
        return run_shard(t)

    res = cprobe.pmap(task, ["laws"] + [(tier, p, l) for p, l in pairs], workers=cprobe.WORKERS + 1)
    return res[1:]


def main(tier, seed, replay=None):
    t0 = time.time()
    vlib.build()
    if replay:
        return do_replay(replay)
    shards = run(tier, QUICK_SHARDS if tier == "quick" else [(p, l) for p in ALL_PLATFORMS for l in LANGS])
    violations = group_violations(shards)
    rc, new, known = vlib.verdict(PID, violations)
    tot = {}
    per_kind = {}
    for sh in shards:
        for k, v in sh["counts"].items():
            tot[k] = tot.get(k, 0) + v
        for k, v in sh["per_kind"].items():
            d = per_kind.setdefault(k, {"cases": 0, "with_value": 0})
            d["cases"] += v["cases"]
            d["with_value"] += v["with_value"]
    md = [n for sh in shards for n in sh["notable"] if n["clang"] == "fail"]
    md_samples = {}
    for n in md:
        md_samples.setdefault("%s/%s/%s" % (n["platform"], n["lang"], n["rule"]), []).append(
            {"expr": n["expr"], "spec": n["expected"], "clang": n.get("clang_msg", "")})
    for k in sorted(md_samples):
        print("model_disagreement x%d in %s, e.g. `%s` spec says %s; clang: %s"
              % (len(md_samples[k]), k, md_samples[k][0]["expr"], md_samples[k][0]["spec"], md_samples[k][0]["clang"][:160]))
    # spec-only platforms: differences are evidence, not violations; note whether the same expression also fails on a platform with a second witness
    builtin_bad = {(n["lang"], n["expr"]) for sh in shards if sh["plat"] not in SPEC_ONLY for n in sh["notable"] if n["verdict"] == "violation"}
    spec_only = [{"platform": n["platform"], "lang": n["lang"], "expr": n["expr"], "expected": n["expected"], "cppcheck": n["got"],
                  "also_fails_on_witnessed_platform": (n["lang"], n["expr"]) in builtin_bad}
                 for sh in shards for n in sh["notable"] if n["verdict"] == "spec_only_difference"]
    with_value = tot.get("cases", 0) - tot.get("novalue", 0)
    cov = {
        "evaluations": tot.get("cases", 0),
        "distinct_nontrivial": with_value,
        "rule": "per (platform, language): literal spellings (base x boundary magnitude x suffix spelling x separator placement), character "
                "constants, bool/float literals, and constant expressions with one or two operators over boundary leaves; every stratum is a TLA+ "
                "set (distinct by construction) enumerated completely for the tier; non-trivial = cppcheck reports a known value on the root token "
                "(judged cases)",
        "exhaustive": True,
        "samples": [s for sh in shards for s in sh["samples"]][:10],
        "platforms": sorted({sh["plat"] for sh in shards}), "languages": LANGS,
        "with_known_value": with_value, "no_known_value": tot.get("novalue", 0),
        "rewritten_by_cppcheck_but_judged": tot.get("rewritten", 0),
        "agree": with_value - tot.get("violation", 0) - tot.get("spec_only_difference", 0)
                 - sum(1 for n in md if n["verdict"] == "model_disagreement"),
        "wrong_value_cases": tot.get("violation", 0), "violation_groups": len(violations), "known_finding_groups": known,
        "model_disagreements": len(md), "model_disagreement_samples": {k: v[:3] for k, v in md_samples.items()},
        "spec_only_platforms": sorted(SPEC_ONLY & {sh["plat"] for sh in shards}),
        "spec_only_differences": len(spec_only), "spec_only_samples": spec_only[:12],
        "per_kind": per_kind,
        "cppcheck_internal_errors": [e for sh in shards for e in sh["cppcheck_errors"]][:20],
        "per_shard": {"%s/%s" % (sh["plat"], sh["lang"]): sh["counts"] for sh in shards},
    }
    vlib.write_evidence(PID, tier, seed, "exploration", cov, time.time() - t0, violations=new,
                        assumptions=["'native' = x86_64 Linux LP64 (asserted on the host)",
                                     "clang --target=<triple> implements the ABI of the cppcheck platform (msp430-elf / arm-none-eabi for the generated files gen16 / genarm)",
                                     "genilp64 has no compiler target: the specification is the only witness there (spec-only, never a violation)",
                                     "conversion to signed integer types is modulo 2^N; multi-character constants pack the low 8 bits of each character"])
    if md:
        print("note: %d model disagreements (spec vs clang) - not reported against cppcheck" % len(md))
    return rc


def do_replay(path):
    payload = json.load(open(path))
    tier = payload.get("tier", "thorough")
    shards = run(tier, [(payload["platform"], payload["lang"])])
    want = {c["expr"] for c in payload["cases"]}
    bad = [n for sh in shards for n in sh["notable"] if n["verdict"] == "violation" and n["expr"] in want]
    for n in bad[:20]:
        print("REPRODUCED %s/%s `%s`: expected %s, cppcheck %s" % (n["platform"], n["lang"], n["expr"], n["expected"], n["got"]))
    if bad:
        print("VIOLATION property=%s replay=%s" % (PID, path))
        return 1
    print("replay: none of the %d expressions of %s is reported with a wrong value any more" % (len(want), path))
    return 0
