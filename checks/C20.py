"""C20 - an interrupted run never corrupts later incremental results (fault enumeration).

Cache.tla is model-checked with the Kill action enabled after every step (entries may stay open = without end tag):
Transparent must hold for the next complete run; accepting an unclosed entry ("acceptopen") must be caught by TLC.
Binding: a reference run with a build directory records the number of hook events of every process; for EVERY event
index (each analyzer-info write point, each finding, each file boundary, whole-program analysis, the unmatched-
suppression reopen) the hooked binary is killed there (SIGKILL), then a complete run uses the same directory; in
addition every cache file of a complete directory is truncated at sampled byte offsets (torn write). TLC judges
SameSetAndExit(fresh run, run after the interruption) and validates the cache events of [killed run, complete run]
against CacheTrace.tla.
"""
import concurrent.futures
import json
import os
import random
import shutil
import time

import cachelayer
import rel
import runlayer
import vlib

PID = "C20"
CONFIRM_BY_REPLAY = True   # a new deviation is reported only if replaying its stored case repeats it
META = {
    "cat": "fault_enumeration",
    "text": "Every hook event of a run with a build directory (single job, thread executor and process executor incl. its workers) is used as a "
            "kill point, followed by a complete run on the same directory; every cache file is additionally truncated at sampled byte offsets. "
            "TLC compares the run after the interruption with a fresh run and validates the cache protocol events of both runs against "
            "CacheTrace.tla; Cache.tla with Kill enabled everywhere is model-checked (and the acceptopen variant must fail).",
    "ref": "DESIGN.md section 4 C20",
    "note": "Kill points are hook events (analyzer-info open/write/close/reopen are flushed at the hook so the on-disk state at the kill is the "
            "logged one); torn writes inside one buffered write are covered by the byte-level truncation. The checkers summary is excluded.",
    "technique": "fault enumeration over all hook kill points + byte truncation, TLC-judged relation, CacheTrace.tla validation, TLC model check of Cache.tla",
}

EXCLUDE = {"checkersReport"}
OPTS = cachelayer.OPTS + ["--enable=unusedFunction,information", "--suppress=doesNotExist:a.c", "--suppress=missingIncludeSystem"]
MODES = {"j1": (1, None), "thread": (3, "thread"), "process": (3, "process")}


def setup_root(name):
    root = runlayer.fresh_root(name)
    st = cachelayer.State()
    cachelayer.materialize(st, root)
    os.mkdir(os.path.join(root, "bd"))
    return root, st


def model_check():
    out = []
    states = 0
    for km, expect_ok in (("ideal", True), ("acceptopen", False)):
        work = vlib.mktmp("c20mc")
        cfg = os.path.join(work, "Cache.cfg")
        with open(cfg, "w") as f:
            f.write('SPECIFICATION Spec\nCONSTANTS\n  Files = {"a", "b"}\n  MaxEdits = 2\n  KeyMode = "%s"\n  Jobs = 2\n'
                    "INVARIANT Transparent\nINVARIANT EntrySound\nCHECK_DEADLOCK FALSE\n" % km)
        r = vlib.tlc("Cache", cfg, workers=4, timeout=1200)
        if r.error or (expect_ok and not r.ok):
            raise vlib.InfraError("Cache.tla (%s) unexpected result rc=%s\n%s" % (km, r.rc, r.out[-1500:]))
        if not expect_ok and r.ok:
            raise vlib.InfraError("Cache.tla: accepting unclosed entries did not violate Transparent (vacuous)")
        states += r.distinct
        out.append({"model": "Cache", "keymode": km, "distinct": r.distinct, "holds": r.ok})
    return states, out


def kill_case(case, fresh):
    """case = dict(mode, role, k, ctx). Runs: killed run, complete run. Returns (obs pair, cache history, died)."""
    jobs, executor = MODES[case["mode"]]
    root, st = setup_root("c20")
    fault = "%s:evt:%d:KILL%s" % (case["role"], case["k"], (":" + case["ctx"]) if case.get("ctx") else "")
    killed = cachelayer.run_cppcheck(root, st.sources, OPTS, builddir="bd", jobs=jobs, executor=executor, trace=True,
                                     env={"CPPCHECK_VERIF_FAULT": fault}, timeout=90)
    died = killed["rc"] is not None and (killed["rc"] < 0 or any(e.get("dies") for e in killed["cache_events"]) or killed["rc"] != fresh["rc"] or case["role"] == "child")
    after = cachelayer.run_cppcheck(root, st.sources, OPTS, builddir="bd", jobs=jobs, executor=executor, trace=True, timeout=90)
    runlayer.cleanup(root)
    return killed, after


def main(tier, seed, replay=None):
    t0 = time.time()
    vlib.build()
    violations = []
    mc_states, mc_samples = (0, []) if replay else model_check()
    # fresh reference (no build dir) and traced reference runs per mode (to count events)
    root, st = setup_root("c20ref")
    fresh = cachelayer.run_cppcheck(root, st.sources, OPTS, builddir=None, jobs=1)
    cases = []
    if replay:
        cases = [json.load(open(replay))["case"]]
    else:
        modes = ["j1", "process"] if tier == "quick" else ["j1", "thread", "process"]
        for mode in modes:
            jobs, executor = MODES[mode]
            shutil.rmtree(os.path.join(root, "bd"))
            os.mkdir(os.path.join(root, "bd"))
            tdir = vlib.mktmp("c20cnt")
            args = OPTS + ["--cppcheck-build-dir=bd", "-j%d" % jobs] + (["--executor=" + executor] if executor else []) + st.sources
            vlib.run_cppcheck(args, root, trace_dir=tdir, timeout=120)
            raw = vlib.read_traces(tdir)
            shutil.rmtree(tdir, ignore_errors=True)
            rootpid = [p for p, evs in raw.items() if any(e["e"] == "RunStart" for e in evs)][0]
            n_parent = len(raw[rootpid])
            step = 1 if tier == "thorough" else (3 if mode == "j1" else 4)
            for k in range(seed % step, n_parent + 2, step):
                cases.append({"mode": mode, "role": "parent", "k": k, "ctx": ""})
            for pid, evs in raw.items():
                if pid == rootpid:
                    continue
                fname = [e["file"] for e in evs if e["e"] == "ChildStart"][0]
                for k in range(seed % 5 if tier == "quick" else 0, len(evs) + 1, 1 if tier == "thorough" else 5):
                    cases.append({"mode": mode, "role": "child", "k": k, "ctx": fname})
    runlayer.cleanup(root)
    if fresh["rc"] is None:
        raise vlib.InfraError("fresh run timed out")

    obs = []
    histories = []
    idx = {}
    with concurrent.futures.ThreadPoolExecutor(max_workers=min(6, vlib.NCPU)) as ex:
        futs = [(c, ex.submit(kill_case, c, fresh)) for c in cases]
        for i, (c, fu) in enumerate(futs):
            killed, after = fu.result()
            if after["rc"] is None:
                violations.append({"key": "hang-after-kill:%s:%s" % (c["mode"], c["role"]), "what": "complete run after kill %s timed out" % c, "replay": vlib.save_replay(PID, "hang-%d" % i, {"case": c})})
                continue
            g = "k%d" % i
            obs.append(rel.obs(g, "ref", g + "/fresh", cachelayer.fobs(fresh), fresh["rc"]))
            obs.append(rel.obs(g, "alt", g + "/after-kill", cachelayer.fobs(after), after["rc"]))
            histories.append(("%s:%s" % (g, json.dumps(c, sort_keys=True)), [killed["cache_events"], after["cache_events"]]))
            idx[g] = (c, killed)

    # byte-level truncation of every cache file of a complete directory
    trunc_cases = []
    if not replay:
        root, st = setup_root("c20trunc")
        cachelayer.run_cppcheck(root, st.sources, OPTS, builddir="bd", jobs=1, timeout=120)
        bd = os.path.join(root, "bd")
        snapshot = {fn: open(os.path.join(bd, fn), "rb").read() for fn in sorted(os.listdir(bd))}
        rnd = random.Random(seed)
        for fn, data in snapshot.items():
            offs = sorted(set([0, 1, len(data) - 1, len(data) // 2] + [rnd.randrange(0, max(1, len(data))) for _ in range(3 if tier == "quick" else 30)]))
            for off in offs:
                trunc_cases.append((fn, off))
        for j, (fn, off) in enumerate(trunc_cases):
            for f2, data in snapshot.items():
                with open(os.path.join(bd, f2), "wb") as f:
                    f.write(data if f2 != fn else data[:off])
            after = cachelayer.run_cppcheck(root, st.sources, OPTS, builddir="bd", jobs=1, timeout=90)
            g = "t%d" % j
            if after["rc"] is None:
                violations.append({"key": "hang-after-truncation:%s" % fn, "what": "run after truncating %s at %d timed out" % (fn, off), "replay": ""})
                continue
            obs.append(rel.obs(g, "ref", g + "/fresh", cachelayer.fobs(fresh), fresh["rc"]))
            obs.append(rel.obs(g, "alt", g + "/after-truncation", cachelayer.fobs(after), after["rc"]))
            idx[g] = ({"truncate": fn, "offset": off}, None)
        runlayer.cleanup(root)

    npairs, bad = rel.judge("SameSetAndExit", EXCLUDE, obs)
    nval, rejected, tstates = cachelayer.validate_cache_histories(histories, keep_dir=os.path.join(vlib.OUT, "replays", PID))
    for b in bad:
        c, killed = idx[b["group"]]
        p = vlib.save_replay(PID, "kill-" + vlib.digest(c), {"case": c, "diff": b})
        last = ""
        if killed is not None:
            dying = [e for e in killed["cache_events"] if e.get("dies")]
            last = dying[-1]["e"] if dying else (killed["cache_events"][-1]["e"] if killed["cache_events"] else "")
        if "truncate" in c:
            key = "after-truncation:%s:fresh-only=%d:later-only=%d" % (c["truncate"].split(".")[-1], len(b["onlyRef"]), len(b["onlyAlt"]))
        else:
            key = "after-kill:%s:%s:at=%s:fresh-only=%s:later-only=%s" % (c["mode"], c["role"], last, ",".join(sorted(set(k.split("|")[5] for k in b["onlyRef"]))), ",".join(sorted(set(k.split("|")[5] for k in b["onlyAlt"]))))
        violations.append({"key": key, "what": "run after interruption %s differs from a fresh run: fresh-only=%s later-only=%s exit %s/%s" % (
            c, b["onlyRef"][:3], b["onlyAlt"][:3], b["exitRef"], b["exitAlt"]), "replay": p})
    for rj in rejected:
        p = vlib.save_replay(PID, "cachetrace-" + vlib.digest(rj["label"]), rj)
        violations.append({"key": "cachetrace:%s" % ((rj["event"] or {}).get("e")),
                           "what": "cache events of %s run %s rejected by CacheTrace.tla at line %s: %s" % (rj["label"], rj["run"], rj["line"], json.dumps(rj["event"])[:300]), "replay": p})
    if replay:
        for v in violations:
            print(v["what"])
        if violations:
            print("VIOLATION property=%s replay=%s" % (PID, replay))
            return 1
        print("replay: later run unaffected")
        return 0
    rc, new, known = vlib.verdict(PID, violations)
    cov = {"evaluations": npairs, "distinct_nontrivial": len(cases) + len(trunc_cases),
           "rule": "one evaluation per interruption (kill at hook event k of the parent or of a worker in mode j1/thread/process, or truncation of a cache file at a byte offset) followed by a complete run compared with a fresh run; all are distinct interruption points",
           "exhaustive": tier == "thorough", "kill_cases": len(cases), "truncation_cases": len(trunc_cases),
           "traces_validated_against_impl": nval, "states": mc_states + tstates, "cache_trace_rejected": len(rejected), "relation_bad": len(bad),
           "samples": mc_samples + cases[:2] + [{"truncate": t[0], "offset": t[1]} for t in trunc_cases[:2]]}
    vlib.write_evidence(PID, tier, seed, "fault_enumeration", cov, time.time() - t0, violations=new,
                        assumptions=["kill points are the hook events; analyzer-info streams are flushed at their hooks when tracing is on"])
    return rc
