"""C12 - configuration selection honours -D/-U and covers guarded code.

1. TLC (spec/CfgSelect.tla, step "gen") enumerates the conditional structures of the property's family and the
   option sets tried on each; step "laws" checks the laws that justify the formulas on every structure.
2. drivers/c12_run.py renders each structure as a C file (a division by zero of its own on every code line) and
   runs the hooked cppcheck, batched by option set; the observation is the sequence of configurations the loop
   started / really analysed / purged as identical (Config, ConfigChecked, HashSkip events) plus the findings.
3. TLC (step "judge") evaluates HonourD, HonourU, Cover, SkipSound, ReportExact on every observation.
4. Failing cases are reduced: a failing case one of whose one-step reductions (a conditional removed or replaced by
   one of its branches, an #else dropped, '#if defined(M)' respelled '#ifdef M', an option dropped) also fails is subsumed by it; the remaining cores are
   re-run alone (one file, one process), re-judged and reported, keyed by structure + option set.
"""
import concurrent.futures as cf
import json
import os
import re
import shutil
import sys
import time

import vlib

sys.path.insert(0, os.path.join(vlib.VERIF, "drivers"))
import c12_run  # noqa: E402

PID = "C12"
META = {
    "cat": "exploration",
    "text": "TLC enumerates every conditional structure of the stated family up to a node bound (all four spellings "
            "#ifdef/#ifndef/#if defined()/#if !defined(), optional #else, any nesting and sibling order) together with "
            "option sets over -D/-U/--max-configs/--force; the real binary analyses each rendered file and TLC judges the "
            "observed set of analysed configurations (hook events) and the findings against HonourD/HonourU/Cover. "
            "Exhaustive per stratum for the small bound, seeded strata above it; a claim over all structures of unbounded "
            "size is not made.",
    "ref": "DESIGN.md section 4 C12",
    "note": "The spec does not prescribe which configurations are chosen. 'Guard combinations' = number of distinct guard "
            "conjunctions over the code regions (root included); with -U the regions demanded are those some configuration "
            "without the undefined macros compiles. Trusted: the Config/ConfigChecked/HashSkip hooks, zerodiv being reported "
            "for `int z = 0; int r = N / z;`, TLC.",
    "technique": "TLA+ function spec (CfgSelect.tla): TLC-enumerated cases replayed into the hooked binary, TLC-judged observations",
}

WORKERS = 6          # parallel cppcheck processes
JUDGES = 3           # parallel TLC judges
BATCH = 250          # files per cppcheck process
SLAB = 2500          # structures per observe/judge slab

TIERS = {
    # NFULL: all spellings exhaustively; NFULL < n <= NPOL: polarity shapes with seeded spelling; MOD: stride of the largest
    # stratum; NOPT: structures with <= NOPT nodes get CfgSelect!FullOpts, larger ones LightOpts
    "quick": {"NFULL": 2, "NPOL": 4, "DEPTH": 3, "MOD": 4, "NOPT": 2, "LAWN": 2, "LAWP": 4},
    "thorough": {"NFULL": 3, "NPOL": 5, "DEPTH": 3, "MOD": 4, "NOPT": 2, "LAWN": 3, "LAWP": 5},
}
ENV0 = {"SEED": "0", "NFULL": "0", "NPOL": "0", "DEPTH": "0", "MOD": "1", "NOPT": "0",
        "OUT": "/dev/null", "CASES": "/dev/null", "OBS": "/dev/null"}


def tlc_step(step, env, timeout, xmx="8g", must_pass=True):
    e = dict(ENV0, STEP=step)
    e.update({k: str(v) for k, v in env.items()})
    r = vlib.tlc("CfgSelect", "CfgSelect.cfg", env=e, workers=1, timeout=timeout, xmx=xmx)
    if r.error or (must_pass and not r.ok):
        raise vlib.InfraError("model failure in CfgSelect.tla step=%s rc=%s\n%s" % (step, r.rc, r.out[-3000:]))
    return r


def gen(tier, seed, work):
    """TLC writes the cases; returns (path, number of structures, number of (structure, option set) cases)."""
    p = TIERS[tier]
    out = os.path.join(work, "cases.ndjson")
    r = tlc_step("gen", dict(SEED=seed, NFULL=p["NFULL"], NPOL=p["NPOL"], DEPTH=p["DEPTH"], MOD=p["MOD"], NOPT=p["NOPT"], OUT=out),
                 timeout=9000, xmx="14g")
    m = re.search(r'"GEN",\s*(\d+),\s*"OPTCASES",\s*(\d+)', r.out)
    if not m:
        raise vlib.InfraError("CfgSelect gen: no count\n" + r.out[-1500:])
    return out, int(m.group(1)), int(m.group(2))


def slabs(path, size):
    cur = []
    with open(path) as f:
        for line in f:
            line = line.strip()
            if line:
                cur.append(json.loads(line))
                if len(cur) >= size:
                    yield cur
                    cur = []
    if cur:
        yield cur


def local_cases(items):
    """items: [(forest, opt)] -> cases rendered by the driver; the judge verifies the rendering (RenderOk)."""
    return [{"id": i + 1, "n": c12_run.count_nodes(fo), "forest": fo, "lines": c12_run.lines_of(fo), "opts": [c12_run.norm_opt(o)],
             "local": True} for i, (fo, o) in enumerate(items)]


def laws(tier, seed):
    p = TIERS[tier]
    r = tlc_step("laws", {"SEED": seed, "NFULL": p["LAWN"], "NPOL": p["LAWP"], "DEPTH": p["DEPTH"]}, timeout=9000, must_pass=False)
    m = re.search(r'"LAWS",\s*(\d+),\s*"BAD",\s*(\d+)', r.out)
    if not m:
        raise vlib.InfraError("model failure in CfgSelect.tla step=laws rc=%s\n%s" % (r.rc, r.out[-3000:]))
    return int(m.group(1)), int(m.group(2))


def observe(pool, cases, work, batch=BATCH):
    """Runs every (case, option set); returns ({case_id: [run observation per option index]}, number of processes)."""
    groups = {}
    for c in cases:
        text = c12_run.render(c["lines"])
        for k, o in enumerate(c["opts"]):
            groups.setdefault(tuple(c12_run.opt_args(o)), []).append((c["id"], k, text))
    jobs = []
    for args, items in sorted(groups.items()):
        for i in range(0, len(items), batch):
            jobs.append((args, items[i:i + batch], os.path.join(work, "b%d" % len(jobs))))
    jobs.sort(key=lambda j: -len(j[1]))
    obs = {c["id"]: [None] * len(c["opts"]) for c in cases}
    for res in pool.map(c12_run.run_batch, jobs, chunksize=1):
        for cid, k, run in res:
            obs[cid][k] = run
    return obs, len(jobs)


def judge(cases, obs, work, tag, parts=JUDGES):
    """TLC judges chunks of aligned (cases, observations) files in parallel. Returns (bad, stats)."""
    parts = max(1, min(parts, len(cases) // 200 + 1))
    chunks = [cases[i::parts] for i in range(parts)]   # interleaved: every chunk gets small and large structures

    def one(i):
        cs = chunks[i]
        cp = os.path.join(work, "jc-%s-%d.ndjson" % (tag, i))
        op = os.path.join(work, "jo-%s-%d.ndjson" % (tag, i))
        bp = os.path.join(work, "jb-%s-%d.ndjson" % (tag, i))
        vlib.write_ndjson(cp, [dict({"id": c["id"], "forest": c["forest"], "opts": c["opts"]}, **({"lines": c["lines"]} if c.get("local") else {}))
                               for c in cs])
        vlib.write_ndjson(op, [{"id": c["id"],
                                "runs": [{"cfgs": [{"names": g["names"], "st": g["st"]} for g in r["cfgs"]],
                                          "reported": r["reported"], "others": r["others"], "rc": r["rc"]} for r in obs[c["id"]]]}
                               for c in cs])
        r = tlc_step("judge", {"CASES": cp, "OBS": op, "OUT": bp}, timeout=9000, xmx="6g")
        m = re.search(r'"JUDGED",\s*(\d+),\s*"BAD",\s*(\d+),\s*"COVERDEMANDED",\s*(\d+),\s*"NONTRIVIAL",\s*(\d+)', r.out)
        bad = vlib.read_ndjson(bp)
        if not m or int(m.group(2)) != len(bad):
            raise vlib.InfraError("CfgSelect judge gave no verdict\n" + r.out[-2000:])
        if any("RenderOk" in b["failed"] for b in bad):
            raise vlib.InfraError("drivers/c12_run.lines_of disagrees with CfgSelect!LinesOut")
        for f in (cp, op, bp):
            os.unlink(f)
        return bad, [int(m.group(j)) for j in (1, 3, 4)]

    bad = []
    stats = [0, 0, 0]
    with cf.ThreadPoolExecutor(max_workers=parts) as ex:
        for b, st in ex.map(one, range(parts)):
            bad += b
            stats = [a + x for a, x in zip(stats, st)]
    return bad, {"judged": stats[0], "cover_demanded": stats[1], "nontrivial": stats[2]}


class Item:
    """One failing (structure, option set)."""

    def __init__(self, case, k, run, verdict):
        self.case = dict(case, opts=[c12_run.norm_opt(case["opts"][k])], id=1)
        self.run = run
        self.verdict = verdict
        self.key = c12_run.case_key(case["forest"], case["opts"][k])


def minimise(pool, failing, ran, work):
    """failing: {key: Item}; ran: set of keys of all cases already run (failing or not).
    A failing case is *subsumed* if one of its one-step reductions (a conditional removed / replaced by one of its
    branches / an #else dropped / '#if [!]defined(M)' respelled '#if[n]def M' / one option dropped) fails too; the others are the *cores* that get reported.
    Reductions that were not part of the enumeration are rendered, run and judged like every other case."""
    frontier = dict(failing)
    cores = []
    rounds = extra = 0
    while frontier:
        rounds += 1
        need = {}
        red = {}
        for key, it in frontier.items():
            red[key] = []
            for fo, o in c12_run.reductions(it.case["forest"], it.case["opts"][0]):
                k2 = c12_run.case_key(fo, o)
                red[key].append(k2)
                if k2 not in ran and k2 not in need:
                    need[k2] = (fo, o)
        # only cases without an already known failing reduction need their unknown reductions decided
        undecided = [key for key in frontier if not any(k2 in failing for k2 in red[key])]
        todo = {}
        for key in undecided:
            for k2 in red[key]:
                if k2 in need:
                    todo[k2] = need[k2]
        new = {}
        if todo:
            keys = sorted(todo)
            cases = local_cases([todo[k] for k in keys])
            obs, _ = observe(pool, cases, os.path.join(work, "min%d" % rounds))
            bad, _st = judge(cases, obs, work, "m%d" % rounds)
            extra += len(cases)
            ran.update(keys)
            for b in bad:
                if "other" not in b["classes"]:
                    continue          # explained by a described class: not a reason to drop the larger case
                c = cases[b["id"] - 1]
                it = Item(c, 0, obs[c["id"]][0], b)
                new[it.key] = it
            failing.update(new)
        for key in frontier:
            if not any(k2 in failing for k2 in red[key]):
                cores.append(frontier[key])
        frontier = new
    return cores, rounds, extra


def confirm(pool, cores, work):
    """Re-runs every core alone - one file, one process - and re-judges it."""
    if not cores:
        return []
    cases = [dict(it.case, id=i + 1) for i, it in enumerate(cores)]
    obs, _ = observe(pool, cases, os.path.join(work, "confirm"), batch=1)
    bad, _st = judge(cases, obs, work, "confirm")
    return [{"case": cases[b["id"] - 1], "run": obs[b["id"]][0], "verdict": b} for b in bad]


def violation_of(item, key=None, note=""):
    s = item["case"]
    o = s["opts"][0]
    payload = {"forest": s["forest"], "lines": s["lines"], "opt": o, "n": s["n"],
               "source": c12_run.render(s["lines"]), "args": c12_run.opt_args(o),
               "observed": item["run"], "verdict": item["verdict"]}
    key = key or "core:" + vlib.digest({"forest": s["forest"], "opt": o})
    p = vlib.save_replay(PID, key.replace(":", "-").replace("+", "-"), payload)
    v = item["verdict"]
    what = note + "%s failed; args=%s; configurations=%s; uncovered lines=%s; reported=%s expected=%s; file:\n%s" % (
        ",".join(v["failed"]), " ".join(payload["args"]) or "(none)",
        [(g["cfg"], g["st"]) for g in item["run"]["cfgs"]], v["uncovered"], item["run"]["reported"], v["expected"],
        "".join("      %2d  %s\n" % (i, ln.split("{")[0].strip() if ln.startswith("void") else ln)
                for i, ln in enumerate(payload["source"].splitlines(), 1)))
    return {"key": key, "what": what, "replay": p}


def main(tier, seed, replay=None):
    t0 = time.time()
    vlib.build()
    if replay:
        return do_replay(replay)
    p = TIERS[tier]
    work = vlib.mktmp("c12")
    shutil.rmtree(os.path.join(vlib.OUT, "replays", PID), ignore_errors=True)   # replays of earlier runs
    failing = {}
    ran = set()
    stats = {"judged": 0, "cover_demanded": 0, "nontrivial": 0}
    by_n = {}
    failed_by_formula = {}
    counts = {"batches": 0, "cfgs": 0, "skips": 0, "structs": 0, "cases": 0, "failed": 0}
    classes = {}
    samples = []

    def absorb(slab, obs, res):
        bad, st = res
        for k in stats:
            stats[k] += st[k]
        by_id = {c["id"]: c for c in slab}
        for c in slab:
            for k, o in enumerate(c["opts"]):
                ran.add(c12_run.case_key(c["forest"], o))
        for b in bad:
            c = by_id[b["id"]]
            for f in b["failed"]:
                failed_by_formula[f] = failed_by_formula.get(f, 0) + 1
            counts["failed"] += 1
            if "other" in b["classes"]:
                it = Item(c, b["k"] - 1, obs[c["id"]][b["k"] - 1], b)
                failing[it.key] = it
                continue
            # a Cover failure whose uncovered regions all belong to a described class: counted per class, smallest example kept
            rank = (c["n"], len(c12_run.opt_args(c["opts"][b["k"] - 1])), len(c["lines"]), c["id"], b["k"])
            for cl in b["classes"]:
                e = classes.setdefault(cl, {"count": 0, "rank": None, "item": None})
                e["count"] += 1
                if e["rank"] is None or rank < e["rank"]:
                    e["rank"] = rank
                    e["item"] = Item(c, b["k"] - 1, obs[c["id"]][b["k"] - 1], b)

    with cf.ProcessPoolExecutor(max_workers=WORKERS) as pool, cf.ThreadPoolExecutor(max_workers=2) as bg:
        lawf = bg.submit(laws, tier, seed)
        path, nstruct, ncases = gen(tier, seed, work)
        t1 = time.time()
        pending = None
        for si, slab in enumerate(slabs(path, SLAB)):
            obs, nb = observe(pool, slab, os.path.join(work, "runs%d" % si))
            counts["batches"] += nb
            counts["structs"] += len(slab)
            for c in slab:
                by_n[c["n"]] = by_n.get(c["n"], 0) + 1
                counts["cases"] += len(c["opts"])
                for r in obs[c["id"]]:
                    counts["cfgs"] += len(r["cfgs"])
                    counts["skips"] += sum(1 for g in r["cfgs"] if g["st"] == "skipped")
            if len(samples) < 3 and slab:
                c = slab[-1] if si else slab[min(len(slab) - 1, 40)]
                samples.append({"source": c12_run.render(c["lines"]).splitlines(), "args": [c12_run.opt_args(o) for o in c["opts"]][:6],
                                "observed": [[(g["cfg"], g["st"]) for g in r["cfgs"]] for r in obs[c["id"]]][:6]})
            if pending:
                absorb(pending[0], pending[1], pending[2].result())
            pending = (slab, obs, bg.submit(judge, slab, obs, work, "s%d" % si))
        if pending:
            absorb(pending[0], pending[1], pending[2].result())
        if counts["structs"] != nstruct or counts["cases"] != ncases or stats["judged"] != ncases:
            raise vlib.InfraError("C12: %d/%d structures, %d/%d cases run, %d judged" % (counts["structs"], nstruct, counts["cases"], ncases, stats["judged"]))
        t2 = time.time()
        nfail = counts["failed"]
        nother = len(failing)
        cores, rounds, extra = minimise(pool, failing, ran, work)
        # every core and the smallest example of every class is run again alone before it is reported
        class_names = sorted(classes)
        confirmed_all = confirm(pool, cores + [classes[cl]["item"] for cl in class_names], work)
        confirmed = [it for it in confirmed_all if it["case"]["id"] <= len(cores)]
        confirmed_classes = {class_names[it["case"]["id"] - len(cores) - 1]: it for it in confirmed_all if it["case"]["id"] > len(cores)}
        t3 = time.time()
        nlaw, badlaw = lawf.result()
    if badlaw:
        raise vlib.InfraError("CfgSelect.tla: %d structures violate the laws of the specification itself" % badlaw)
    violations = []
    for cl in class_names:
        if cl in confirmed_classes and cl in confirmed_classes[cl]["verdict"]["classes"]:
            violations.append(violation_of(confirmed_classes[cl], key="class:" + cl,
                                           note="%d failing cases of this run are in class '%s'; smallest example: " % (classes[cl]["count"], cl)))
    violations += [violation_of(it) for it in sorted(confirmed, key=lambda it: (it["case"]["n"], len(c12_run.opt_args(it["case"]["opts"][0])),
                                                                              json.dumps(it["case"]["forest"], sort_keys=True)))]
    rc, new, known = vlib.verdict(PID, violations)
    print("C12: %d structures, %d cases; %d failed the judge: %d in %d described classes, %d others reduced to %d cores (%d confirmed alone); %d new, %d known"
          % (nstruct, ncases, nfail, nfail - nother, len(classes), nother, len(cores), len(confirmed), new, known))
    cov = {
        "evaluations": ncases + extra,
        "distinct_nontrivial": stats["nontrivial"],
        "rule": "TLC enumerates forests of conditional nodes: all 4 spellings x optional #else x every shape for <= %d nodes (exhaustive), "
                "polarity shapes with seeded spelling for %d..%d nodes (depth <= %d, stride %d on the largest); option sets CfgSelect!FullOpts for "
                "<= %d nodes, LightOpts (seeded macro choice) above. Cases are distinct by construction; non-trivial (counted by TLC in the judge) = "
                "Cover is demanded and >= 2 configurations were analysed, or a -D/-U names a macro of the file"
                % (p["NFULL"], p["NFULL"] + 1, p["NPOL"], p["DEPTH"], p["MOD"], p["NOPT"]),
        "exhaustive": p["MOD"] == 1,
        "structures": nstruct, "structures_by_nodes": {str(k): v for k, v in sorted(by_n.items())},
        "cppcheck_processes": counts["batches"], "judged": stats["judged"], "cover_demanded": stats["cover_demanded"],
        "failed_first_pass": nfail, "failed_by_formula": failed_by_formula, "failed_by_class": {cl: classes[cl]["count"] for cl in class_names},
        "failed_other": nother,
        "reduction_rounds": rounds, "reduction_extra_cases": extra, "cores": len(cores), "cores_confirmed_alone": len(confirmed),
        "known_findings_hit": known,
        "law_structures": nlaw,
        "configurations_observed": counts["cfgs"], "hash_skips_observed": counts["skips"],
        "phase_s": {"gen": round(t1 - t0, 1), "run+judge": round(t2 - t1, 1), "reduce+confirm": round(t3 - t2, 1)},
        "samples": samples,
    }
    vlib.write_evidence(PID, tier, seed, "exploration", cov, time.time() - t0, violations=new,
                        assumptions=["the hooks Config/ConfigChecked/HashSkip report the configurations the loop in CppCheck::checkInternal handles",
                                     "a division by zero `int z = 0; int r = N / z;` is reported in every configuration that compiles it",
                                     "macros of the family are not defined by the std library configuration (names M1..Mn)",
                                     "Cover failures whose uncovered regions all fall into a class described in CfgSelect.tla (RegionClass) are reported once per "
                                     "class; any other failing case is reported through its smallest failing reduction (core), larger failing cases that "
                                     "contain one are counted, not listed"])
    return rc


def do_replay(path):
    payload = json.load(open(path))
    work = vlib.mktmp("c12r")
    cases = local_cases([(payload["forest"], payload["opt"])])
    with cf.ProcessPoolExecutor(max_workers=1) as pool:
        obs, _ = observe(pool, cases, os.path.join(work, "runs"), batch=1)
    bad, _st = judge(cases, obs, work, "replay", parts=1)
    print("args: %s" % " ".join(c12_run.opt_args(payload["opt"])))
    print(c12_run.render(cases[0]["lines"]))
    print("observed: %s" % json.dumps(obs[1][0]))
    if bad:
        print("judge: %s" % json.dumps(bad[0]))
        print("VIOLATION property=%s replay=%s" % (PID, path))
        return 1
    print("replay: no violation reproduced")
    return 0
