"""C04 - definite runtime-error findings are true positives.

Generator profile c04safe: programs that exercise what the runtime-error checkers look at but are correct by
construction (division guarded by a test of the divisor, index guarded by a range test, pointer tested before use,
variable initialised on every path or through a callee, shift count masked or range-tested, addition guarded against
overflow). Profile c04bug: the same with the guard removed or inverted - used to measure that cppcheck does produce
error findings on this population (non-vacuity; those are expected to be true positives).
Every error-severity, non-inconclusive finding of a runtime-error id flags its AST node; TLC checks the invariant
NeverReached (spec/MiniC.tla): no execution that completes without undefined behaviour evaluates a flagged node. One
witnessed UB-free execution through the node is a counterexample, so the bounded input domain can only miss
violations, never invent one. The counterexample is confirmed by a native ASan+UBSan-clean run that reaches the node.
"""
import os
import sys

sys.path.insert(0, os.path.join(os.path.dirname(os.path.dirname(os.path.abspath(__file__))), "drivers"))

import minic  # noqa: E402
import minic_gen  # noqa: E402
import vlib  # noqa: E402

PID = "C04"
META = {
    "cat": "model_checking",
    "text": "Error-severity, non-inconclusive findings of the runtime-error checkers (zerodiv, nullPointer, arrayIndexOutOfBounds, "
            "negativeIndex, uninitvar, shiftTooManyBits*, shiftNegative, integerOverflow) reported by the real cppcheck on generated "
            "correct-by-construction programs (and on the same programs with the guard removed) flag AST nodes; TLC executes every flagged "
            "program on every input vector of the boundary-value domain with the MiniC semantics and checks NeverReached: no completed "
            "UB-free execution evaluates a flagged node.",
    "ref": "DESIGN.md section 4 C04",
    "note": "Heap findings (memleak, doubleFree, deallocuse) are outside the MiniC subset (no Heap.tla yet). A violation needs one witnessed "
            "UB-free execution, so bounds cannot cause false alarms. Witness and trusted base as C01.",
    "technique": "TLA+ executable semantics with explicit UB outcomes (MiniC.tla) model-checked by TLC, error findings as reachability invariants "
                 "+ native sanitizer witness",
}
PLAT = "p32"
ASSUMPTIONS = [
    "a runtime-error finding is located on the token of the expression whose evaluation is undefined (operator, subscript, pointer or variable)",
    "platform unix64 = native gcc x86-64 (second witness: ASan + UBSan clean run that reaches the node)",
]


def population(tier, seed):
    n = {"quick": (300, 250, 30), "thorough": (2000, 1500, 200)}[tier]
    progs = minic_gen.generate(seed * 1000 + 41, PLAT, "c04safe", n[0], "s_")
    progs += minic_gen.generate(seed * 1000 + 42, PLAT, "c04bug", n[1], "b_")
    progs += minic_gen.generate(seed * 1000 + 43, PLAT, "mix", n[2], "m_")
    return progs


def main(tier, seed, replay=None):
    vlib.build()
    if replay:
        return minic.replay(PID, replay)
    progs = population(tier, seed)
    sizes = (35, 300, 100) if tier == "quick" else (100, 400, 500)
    nsafe = sum(1 for p in progs if p["profile"] == "c04safe")
    rc, cov = minic.run_check(PID, tier, seed, progs, "flag", sizes, assumptions=ASSUMPTIONS,
                              extra={"programs_correct_by_construction": nsafe, "programs_guard_removed": sum(1 for p in progs if p["profile"] == "c04bug")})
    return rc
