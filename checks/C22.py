"""C22 - whole-program results do not depend on how summaries are stored.

1. WholeProgram.tla is model-checked: with a faithful XML round trip of the summaries the report is independent of the
   storage mode (mem / dir / both) and every finding is reported once, for every small program (all summary sets of
   <= 2 elements per file over 2 files x 2 functions); with a lossy round trip TLC must find the counterexample.
2. Generated call-graph programs (direct and nested null-pointer / uninitialised / array-index chains over 2-3 files
   with a shared header, unused functions, same-named static functions, conflicting class definitions) are analysed by
   the hooked binary in the storage modes  -j1 | -j1 + build dir | -jN thread + build dir | -jN process + build dir
   (XML output, all locations). TLC judges SameSetAndExit across the modes (Rel.tla) on the complete finding identity
   including the secondary locations, and UniquePrimary (each finding once) within every run.
"""
import concurrent.futures
import json
import os
import random
import time
import xml.etree.ElementTree as ET

import projgen
import rel
import runlayer
import vlib

PID = "C22"
CONFIRM_BY_REPLAY = True   # a new deviation is reported only if replaying its stored case repeats it
META = {
    "cat": "model_checking",
    "text": "TLC proves on WholeProgram.tla that the cross-translation-unit report is a function of the union of the per-file summaries whatever "
            "way they travel (memory, XML in the build directory, both) and is emitted once, and finds the counterexample when the round trip "
            "loses a record kind; generated call-graph programs are analysed by the real binary in four storage/executor modes and TLC compares "
            "the complete findings (id, message, primary and all secondary locations) across the modes and checks single emission per run.",
    "ref": "DESIGN.md section 4 C22",
    "note": "Only whole-program ids (ctu*, unusedFunction, one-definition-rule) are compared; per-file findings are C15/C18. Findings are read "
            "from --xml output with the standard library parser. Trusted: hooks are not needed here; TLC.",
    "technique": "TLC model check of WholeProgram.tla + TLC-judged relations (Rel.tla) over runs of the real binary in all storage modes",
}

WP = {"ctunullpointer", "ctuuninitvar", "ctuArrayIndex", "ctuPointerArith", "ctuOneDefinitionRuleViolation", "unusedFunction"}
MODES = [("mem-j1", ["-j1"], False), ("dir-j1", ["-j1"], True), ("dir-thread", ["-j3", "--executor=thread"], True),
         ("dir-process", ["-j2", "--executor=process"], True)]


def gen_program(seed):
    rnd = random.Random(seed)
    nfiles = rnd.choice([2, 2, 3])
    cpp = rnd.random() < 0.25
    ext = ".cpp" if cpp else ".c"
    files = {"f%d%s" % (i, ext): "#include \"h.h\"\n" for i in range(nfiles)}
    names = sorted(files)
    protos = []
    n = 0
    desc = []
    for _ in range(rnd.choice([1, 2, 2, 3])):
        n += 1
        kind = rnd.choice(["null-direct", "null-nested", "null-nested3", "uninit", "array", "unused", "static-dup", "safe",
                           "null-nested-2args", "null-nested-argpos", "uninit-nested"] + (["odr"] if cpp else []))
        desc.append(kind)
        a, b, c = (rnd.choice(names) for _ in range(3))
        if kind == "null-direct":
            protos.append("void d%d(int *p);" % n)
            files[a] += "void cd%d(void) { d%d(0); }\n" % (n, n)
            files[b] += "void d%d(int *p) { *p = %d; }\n" % (n, n)
        elif kind == "null-nested":
            protos += ["void m%d(int *p);" % n, "void e%d(int *p);" % n]
            files[a] += "void cn%d(void) { m%d(0); }\n" % (n, n)
            files[b] += "void m%d(int *p) { e%d(p); }\n" % (n, n)
            files[c] += "void e%d(int *p) { *p = %d; }\n" % (n, n)
        elif kind == "null-nested3":
            protos += ["void m%d(int *p);" % n, "void k%d(int *p);" % n, "void e%d(int *p);" % n]
            files[a] += "void cn%d(void) { int *q = 0; m%d(q); }\n" % (n, n)
            files[b] += "void m%d(int *p) { k%d(p); }\n" % (n, n)
            files[c] += "void k%d(int *p) { e%d(p); }\n" % (n, n)
            files[a] += "void e%d(int *p) { p[0] = %d; }\n" % (n, n)
        elif kind == "null-nested-2args":
            # the forwarding function passes BOTH of its parameters to the same callee: two nested-call records that differ
            # only in the parameter of the forwarding function; the null pointer arrives through the second one
            protos += ["void mm%d(int *a, int *b);" % n, "void ee%d(int *p);" % n]
            files[a] += "void cm%d(void) { int v = 0; mm%d(&v, 0); }\n" % (n, n)
            files[b] += "void mm%d(int *a, int *b) { ee%d(a); ee%d(b); }\n" % (n, n, n)
            files[c] += "void ee%d(int *p) { *p = %d; }\n" % (n, n)
        elif kind == "null-nested-argpos":
            # forwarded into the second parameter of the callee
            protos += ["void mp%d(int *p);" % n, "void ep%d(int *x, int *y);" % n]
            files[a] += "void cp%d(void) { mp%d(0); }\n" % (n, n)
            files[b] += "void mp%d(int *p) { int v = 0; ep%d(&v, p); }\n" % (n, n)
            files[c] += "void ep%d(int *x, int *y) { *x = 1; *y = %d; }\n" % (n, n)
        elif kind == "uninit-nested":
            protos += ["int mu%d(const int *p);" % n, "int ru%d(const int *p);" % n]
            files[a] += "int cu%d(void) { int x; return mu%d(&x); }\n" % (n, n)
            files[b] += "int mu%d(const int *p) { return ru%d(p); }\n" % (n, n)
            files[c] += "int ru%d(const int *p) { return *p + %d; }\n" % (n, n)
        elif kind == "uninit":
            protos.append("int r%d(const int *p);" % n)
            files[a] += "int cu%d(void) { int x; return r%d(&x); }\n" % (n, n)
            files[b] += "int r%d(const int *p) { return *p + %d; }\n" % (n, n)
        elif kind == "array":
            protos.append("void w%d(int *arr);" % n)
            files[a] += "void ca%d(void) { int arr[5]; arr[0] = 0; w%d(arr); }\n" % (n, n)
            files[b] += "void w%d(int *arr) { arr[10] = %d; }\n" % (n, n)
        elif kind == "unused":
            protos.append("int u%d(int v);" % n)
            files[a] += "int u%d(int v) { return v + %d; }\n" % (n, n)
            if rnd.random() < 0.5:
                files[b] += "int cu%d(void) { return u%d(1); }\n" % (n, n)
        elif kind == "static-dup":
            files[a] += "static int s%d(void) { return %d; }\nint us%da(void) { return s%d(); }\n" % (n, n, n, n)
            if b != a:
                files[b] += "static int s%d(void) { return %d; }\n" % (n, n + 1)
        elif kind == "safe":
            protos.append("void g%d(int *p);" % n)
            files[a] += "void cs%d(void) { int v = 0; g%d(&v); }\n" % (n, n)
            files[b] += "void g%d(int *p) { *p = %d; }\n" % (n, n)
        elif kind == "odr":
            files[a] += "struct S%d { int a; int f() { return a; } };\n" % n
            if b != a:
                files[b] += "struct S%d { char a; int f() { return a + 1; } };\n" % n
    files["h.h"] = "#ifndef H_H\n#define H_H\n" + "\n".join(protos) + "\n#endif\n"
    return {"name": "w%d" % seed, "files": files, "sources": names, "desc": "+".join(desc), "seed": seed}


def parse_xml(err):
    """XML (version 2) results on stderr -> findings with complete identity."""
    out = []
    start = err.find("<?xml")
    if start < 0:
        return out, [l for l in err.splitlines() if l.strip()]
    stray = [l for l in err[:start].splitlines() if l.strip()]
    try:
        root = ET.fromstring(err[start:])
    except ET.ParseError as ex:
        return out, ["<xml parse error: %s>" % ex]
    for e in root.iter("error"):
        locs = ["%s:%s:%s:%s" % (l.get("file"), l.get("line"), l.get("column"), l.get("info") or "") for l in e.findall("location")]
        prim = locs[0] if locs else "-"
        pk = "|".join([e.get("id"), e.get("severity"), e.get("msg"), prim.rsplit(":", 1)[0]])
        key = "|".join([e.get("id"), e.get("severity"), e.get("msg")] + locs)
        out.append({"id": e.get("id"), "key": key, "pk": pk})
    return out, stray


def run_program(prog):
    root = runlayer.fresh_root(prog["name"])
    projgen.materialize(prog, root)
    res = []
    for mname, mopts, bd in MODES:
        args = ["-q", "--xml", "--enable=unusedFunction", "--error-exitcode=3"] + mopts
        if bd:
            d = os.path.join(root, "bd-" + mname)
            os.mkdir(d)
            args.append("--cppcheck-build-dir=" + d)
        rc, out, err = vlib.run_cppcheck(args + prog["sources"], root, timeout=120)
        fs, stray = parse_xml(err)
        fs = [f for f in fs if f["id"] in WP] + [{"id": "<stderr>", "key": "<stderr>" + s, "pk": "<stderr>" + s} for s in stray]
        res.append((mname, rc, fs))
    runlayer.cleanup(root)
    return prog, res


def model_check():
    states = 0
    samples = []
    for rt, expect_ok in (("Faithful", True), ("LoseNested", False)):
        work = vlib.mktmp("wpmc")
        cfg = os.path.join(work, "WholeProgram.cfg")
        with open(cfg, "w") as f:
            f.write('SPECIFICATION Spec\nCONSTANTS\n  Files = {"a", "b"}\n  Funs = {"f", "g"}\n  RoundTrip = "%s"\n'
                    "INVARIANT StoreIndependent\nINVARIANT ReportedOnce\nCHECK_DEADLOCK FALSE\n" % rt)
        r = vlib.tlc("WholeProgram", cfg, workers=4, timeout=1500)
        if r.error:
            raise vlib.InfraError("WholeProgram.tla model failure (%s)\n%s" % (rt, r.out[-2000:]))
        if expect_ok and not r.ok:
            return None, {"roundtrip": rt, "violated": r.violated_name(), "tlc": r.out[-3000:]}
        if not expect_ok and r.ok:
            raise vlib.InfraError("WholeProgram.tla: a lossy round trip did not violate StoreIndependent (vacuous)")
        states += r.distinct
        samples.append({"model": "WholeProgram", "roundtrip": rt, "distinct": r.distinct, "holds": r.ok})
    return (states, samples), None


def classify(prog, b):
    def ids(keys):
        return ",".join(sorted(set(k.split("|")[0] for k in keys)))
    # the same unusedFunction message, only at the other one of two functions that have the same name in two files
    if len(b["onlyRef"]) == 1 and len(b["onlyAlt"]) == 1 and b["exitRef"] == b["exitAlt"]:
        r, a = b["onlyRef"][0].split("|"), b["onlyAlt"][0].split("|")
        if r[0] == a[0] == "unusedFunction" and r[2] == a[2] and r[3].split(":")[0] != a[3].split(":")[0]:
            return "unusedFunction-of-a-name-defined-in-two-files-is-located-in-another-file"
    return "store:%s:%s-vs-%s:only-mem=%s:only-other=%s" % (vlib.digest(prog["files"]), b["ref"].split("/")[-1], b["alt"].split("/")[-1], ids(b["onlyRef"]), ids(b["onlyAlt"]))


def main(tier, seed, replay=None):
    t0 = time.time()
    vlib.build()
    violations = []
    if replay:
        progs = [gen_program(json.load(open(replay))["seed"])]
        mc = (0, [])
    else:
        mc, mcviol = model_check()
        if mcviol:
            p = vlib.save_replay(PID, "model", mcviol)
            violations.append({"key": "model:%s" % mcviol["violated"], "what": "WholeProgram.tla (faithful round trip) violates %s" % mcviol["violated"], "replay": p})
            mc = (0, [])
        n = 60 if tier == "quick" else 1500
        progs = [gen_program(seed * 100000 + i) for i in range(n)]
    obs = []
    byname = {}
    with concurrent.futures.ThreadPoolExecutor(max_workers=min(8, vlib.NCPU)) as ex:
        for prog, res in ex.map(run_program, progs):
            byname[prog["name"]] = (prog, res)
            for i, (mname, rc, fs) in enumerate(res):
                if rc is None:
                    raise vlib.InfraError("cppcheck timeout %s %s" % (prog["name"], mname))
                obs.append(rel.obs(prog["name"], "ref" if i == 0 else "alt", prog["name"] + "/" + mname, fs, rc))
    npairs, bad = rel.judge("SameSetAndExit", set(), obs)
    nq, badq = rel.judge("UniquePrimary", set(), obs)
    for b in bad:
        prog, res = byname[b["group"]]
        p = vlib.save_replay(PID, prog["name"] + "-store", {"seed": prog["seed"], "desc": prog["desc"], "files": prog["files"], "diff": b})
        violations.append({"key": classify(prog, b), "what": "program %s (%s): %s vs %s differ: only-mem=%s only-other=%s exit %s/%s" % (
            prog["name"], prog["desc"], b["ref"], b["alt"], b["onlyRef"][:2], b["onlyAlt"][:2], b["exitRef"], b["exitAlt"]), "replay": p})
    for b in badq:
        prog, res = byname[b["group"]]
        p = vlib.save_replay(PID, prog["name"] + "-dup", {"seed": prog["seed"], "desc": prog["desc"], "files": prog["files"], "dup": b})
        violations.append({"key": "dup:%s:%s:%s" % (vlib.digest(prog["files"]), b["alt"].split("/")[-1], ",".join(sorted(set(k.split("|")[0] for k in b["onlyAlt"])))),
                           "what": "program %s (%s): run %s reports the same finding more than once: %s" % (prog["name"], prog["desc"], b["alt"], b["onlyAlt"][:2]), "replay": p})
    if replay:
        for v in violations:
            print(v["what"])
        if violations:
            print("VIOLATION property=%s replay=%s" % (PID, replay))
            return 1
        print("replay: storage independent")
        return 0
    rc, new, known = vlib.verdict(PID, violations)
    nontrivial = len([1 for prog, res in byname.values() if res[0][2]])
    kinds = {}
    for prog, res in byname.values():
        for f in res[0][2]:
            kinds[f["id"]] = kinds.get(f["id"], 0) + 1
    any_prog = next(iter(byname.values()))
    cov = {"states": mc[0], "transitions": mc[0], "traces_validated_against_impl": 0,
           "evaluations": npairs, "distinct_nontrivial": nontrivial,
           "rule": "one evaluation per (program, storage mode) pair against the in-memory single-job run; programs from the seeded call-graph generator; non-trivial = program whose in-memory run reports at least one whole-program finding",
           "programs": len(progs), "finding_kinds_in_reference_runs": kinds, "relation_bad": len(bad), "duplicate_bad": len(badq),
           "samples": mc[1] + [{"program": any_prog[0]["desc"], "files": any_prog[0]["files"], "reference": [f["key"] for f in any_prog[1][0][2]][:4]}]}
    vlib.write_evidence(PID, tier, seed, "model_checking", cov, time.time() - t0, violations=new,
                        assumptions=["summaries are abstracted to call / nested-call / unsafe-usage records in the model"])
    return rc
