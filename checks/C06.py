"""C06 - typedef, alias, macro and template expansion is transparent.

Same specification as C05 (spec/Rewrite.tla) with the rewrite kinds InlineTypedef, InlineUsing (C++), ExpandMacro
(object- and function-like) and HandInstantiate (explicitly instantiated function / class template <-> hand-written
non-template entity).  The observation contains the findings AND the value-flow facts of the using code (known integer
values per token from --dump, projected to abstract positions).  Findings and facts located inside the definition of the
expanded entity are not compared (the spec's Compared), ids about the construct itself are exempt (the spec's table).

TLC model-checks the action property on the abstract analyzer of Rewrite.tla (holds with the table, fails without it and
for an analyzer whose alias expansion loses `unsigned`), enumerates the histories (expansions mixed with Whitespace, RenameLocals, CommentLines so that an expansion must also be
transparent in another layout / spelling), drivers/rewrite_c06.py generates programs that use the entity in initialisers,
conditions, array indices, call arguments, member access, sizeof and casts, the hooked cppcheck analyses both forms, TLC
judges every step.  The macro expansions computed by the generator are cross-checked against `gcc -E -P`.
"""
import concurrent.futures
import json
import os
import random
import sys
import time

sys.path.insert(0, os.path.join(os.path.dirname(os.path.dirname(os.path.abspath(__file__))), "drivers"))

import rewrite_c06  # noqa: E402
import rewrite_core as rc  # noqa: E402
import rewrite_run as rr  # noqa: E402
import vlib  # noqa: E402

PID = "C06"
META = {
    "cat": "exploration",
    "text": "Generated programs use a typedef / using alias / object- or function-like macro / explicitly instantiated function or class "
            "template in value-relevant positions; every program exists in its sugar form and in the form with the entity expanded by "
            "hand; TLC-enumerated histories toggle the forms (also under another layout / spelling); the real cppcheck analyses every "
            "rendering (--enable=all --inconclusive --dump) and TLC decides for every step whether findings and known value-flow values "
            "of the using code are unchanged. The claim quantifies over all programs: exploration with measured distinct program pairs.",
    "ref": "DESIGN.md section 4 C06",
    "note": "Expansions are computed by the generator's own substitution (simple macros: no # / ##, arguments are not macro "
            "invocations) and cross-checked with gcc -E -P; DESIGN.md planned Cpp.tla for this, the compiler is used as the second "
            "witness instead. Trusted: renderer maps, dump / template parsing, TLC, gcc.",
    "technique": "TLA+ rewrite specification (action property, shared with C05) + TLC-enumerated expansion histories replayed on real "
                 "sources, observation traces (findings + value-flow facts) judged by TLC",
}

TIERS = {"quick": {"programs": 32, "chains": 3, "batch": 32}, "thorough": {"programs": 600, "chains": 8, "batch": 100}}
KINDS = set(rewrite_c06.KIND_LETTER.values())


def check_expansions(progs):
    """Second witness for ExpandMacro: gcc -E -P expands every sugar invocation to the generator's expansion."""
    bad = n = 0
    for p in progs:
        if "expansions" not in p:
            continue
        src = "".join("#define %s%s %s\n" % (m, "(" + ",".join(pr) + ")" if pr else "", b) for (m, pr, b) in p["macro_defs"])
        plain = lambda text: " ".join(t if isinstance(t, str) else rc.base_of(t[1]) for t in [rc.mark(x) for x in rc.lex_line(text)])
        exps = []
        for (sugar, exp) in p["expansions"]:
            src += plain(sugar) + "\n"
            exps.append(plain(exp))
        r, out, err = vlib.run(["gcc", "-E", "-P", "-x", "c", "-"], stdin=src.encode(), timeout=60)
        if r != 0:
            raise vlib.InfraError("gcc -E failed: " + err[:500])
        got = [l for l in out.splitlines() if l.strip()]
        if len(got) != len(exps):
            raise vlib.InfraError("gcc -E: unexpected number of lines")
        for g, e in zip(got, exps):
            n += 1
            if "".join(g.split()) != "".join(e.split()):
                bad += 1
    return n, bad


def violations_of(dev, index, batch):
    by_class = {}
    for d in dev:
        by_class.setdefault(d["class"], []).append(d)
    out = []
    for cls in sorted(by_class):
        ds = sorted(by_class[cls], key=lambda d: (len(d["hist"]), d["p"]))
        d = ds[0]
        pi, lang, _ch = index[d["trace"]]
        prog = batch[pi]
        payload = {"prog": rr.strip(prog), "lang": lang, "hist": d["hist"], "class": cls, "lost": d["lost"], "gained": d["gained"],
                   "occurrences": len(ds), "renderings": [{"after": a, "text": t} for a, t in rr.show_renderings(prog, d["hist"])[-2:]]}
        p = vlib.save_replay(PID, "dev-" + vlib.digest([cls]), payload)
        out.append({"key": cls, "what": "%s (%s) history %s: lost=%s gained=%s [%d occurrence(s)]" % (
            d["p"], lang, "+".join(d["hist"]), d["lost"][:2], d["gained"][:2], len(ds)), "replay": p})
    return out


def main(tier, seed, replay=None):
    t0 = time.time()
    vlib.build()
    if replay:
        payload = json.load(open(replay))
        dev, drv = rr.replay_one(payload, facts=True)
        for d in dev:
            print("deviation %s: lost=%s gained=%s" % (d["class"], d["lost"], d["gained"]))
        if drv:
            raise vlib.InfraError("driver problem on replay: %s" % drv)
        if dev:
            print("VIOLATION property=%s replay=%s" % (PID, replay))
            return 1
        print("replay: transparent")
        return 0
    T = TIERS[tier]
    pool = concurrent.futures.ThreadPoolExecutor(max_workers=2)
    model_futs = rr.model_check_async(pool, 2 if tier == "quick" else 3, PID)
    hists = rr.tlc_histories(PID, 3)
    progs = rewrite_c06.corpus(seed, T["programs"], vlib.REPO)
    nexp, badexp = check_expansions(progs)
    if badexp:
        raise vlib.InfraError("%d of %d macro expansions of the generator disagree with gcc -E -P" % (badexp, nexp))
    violations = []
    tot = {"runs": 0, "steps": 0, "steps_text_changed": 0, "findings_base": 0, "facts_base": 0, "ids": {}, "sev": {}, "witness_runs": 0, "witness_ok": 0, "distinct_pairs": 0}
    judged = 0
    driver_bad = []
    run_samples = []
    per_kind = {}
    for b0 in range(0, len(progs), T["batch"]):
        batch = progs[b0:b0 + T["batch"]]

        def chains_of(i, prog, b0=b0):
            r = random.Random(seed * 104729 + b0 + i)
            mine = rewrite_c06.KIND_LETTER[prog["xkinds"][0]]
            ok = lambda a: a.split(":")[0] not in KINDS or a == mine
            # the plain pair (sugar, expanded) always, then mixed histories that contain the expansion
            full = [h for h in hists if all(ok(a) for a in h) and mine in h]
            ch = [[mine]] + r.sample([h for h in full if len(h) == 3], T["chains"] - 1)
            per_kind[mine] = per_kind.get(mine, 0) + len(ch)
            return ch
        records, index, stats = rr.run_corpus(batch, chains_of, facts=True, witness_every=1 if tier == "quick" else 4, both_langs=False)
        n, dev, drv = rr.judge(records)
        judged += n
        driver_bad += drv
        violations += violations_of(dev, index, batch)
        for k in ("runs", "steps", "steps_text_changed", "findings_base", "facts_base", "witness_runs", "witness_ok", "distinct_pairs"):
            tot[k] += stats[k]
        if len(run_samples) < 2:
            run_samples += stats["samples"][:2 - len(run_samples)]
        for k in ("ids", "sev"):
            for a, c in stats[k].items():
                tot[k][a] = tot[k].get(a, 0) + c
    if driver_bad:
        raise vlib.InfraError("the driver did not follow Rewrite.tla (not a cppcheck finding): %s" % json.dumps(driver_bad[:5]))
    models = [f.result() for f in model_futs]
    pool.shutdown()
    rc_, new, known = vlib.verdict(PID, violations)
    cov = {"evaluations": judged, "states": sum(m["distinct"] for m in models), "distinct_nontrivial": tot["distinct_pairs"], "steps_with_changed_text": tot["steps_text_changed"],
           "rule": "one evaluation per judged history step (observation = findings + known value-flow values, before / after one "
                   "rewrite); distinct non-trivial = distinct (program, language, rewrite kind, text before, text after) with different texts",
           "exhaustive": False, "programs": len(progs), "histories_enumerated_by_tlc": len(hists), "histories_per_kind": per_kind,
           "cppcheck_runs": tot["runs"], "findings_in_base_renderings": tot["findings_base"], "valueflow_facts_in_base_renderings": tot["facts_base"],
           "distinct_ids": len(tot["ids"]), "ids": tot["ids"], "severities": tot["sev"],
           "macro_expansions_checked_with_gcc": nexp, "second_witness_runs": tot["witness_runs"], "second_witness_accepts": tot["witness_ok"],
           "deviation_classes": len(violations), "known": known,
           "samples": run_samples + models + [{"program": p["name"], "origin": p["origin"]} for p in progs[:4]] + [{"history": hists[len(hists) // 2]}]}
    vlib.write_evidence(PID, tier, seed, "exploration", cov, time.time() - t0, violations=new,
                        assumptions=["the two forms of a program are equivalent by construction (generator writes both) and both are accepted by "
                                     "gcc/g++ -fsyntax-only; macro expansions agree with gcc -E -P",
                                     "a use site projects to ONE abstract token in both forms; positions inside it are not distinguished"])
    return rc_
