------------------------------ MODULE ErrorList ------------------------------
(***************************************************************************)
(* C28: every built-in finding id is discoverable through --errorlist.     *)
(* IOEnv.OBS: line 1 = [errorlist |-> <<ids printed by --errorlist>>]       *)
(*            other lines = [id, sev, src ("output" | "raw-event"),         *)
(*                           input]  one per distinct observed (id, input)  *)
(* Outside the claim (statement): ids synthesised from library              *)
(* configuration <warn> entries (marked libwarn by the driver from the      *)
(* loaded .cfg files, not guessed from the spelling) and addon ids; the     *)
(* report-level ids that are not findings about analysed code are listed    *)
(* in Meta.                                                                 *)
(***************************************************************************)
EXTENDS Integers, Sequences, FiniteSets, TLC, Json, IOUtils, SequencesExt

In == ndJsonDeserialize(IOEnv.OBS)
Listed == ToSet(In[1].errorlist)
LibWarn == ToSet(In[1].libwarn)
Obs == SubSeq(In, 2, Len(In))

Meta == {"checkersReport"}        \* the checkers summary is not a finding (C25)

\* debug-severity diagnostics (--debug-warnings) are messages about the analysis, not findings about the analysed code
BuiltIn(o) == o.id \notin LibWarn /\ o.id \notin Meta /\ ~o.addon /\ o.sev # "debug"
Bad == {i \in DOMAIN Obs : BuiltIn(Obs[i]) /\ Obs[i].id \notin Listed}
Ids == {Obs[i].id : i \in DOMAIN Obs}

ASSUME PrintT(<<"IDS", Cardinality(Ids), "LISTED", Cardinality(Listed), "COVERED", Cardinality(Ids \cap Listed), "BAD", Cardinality({Obs[i].id : i \in Bad})>>)
ASSUME ndJsonSerialize(IOEnv.OUT, [i \in 1..Cardinality(Bad) |-> Obs[SetToSeq(Bad)[i]]])
=============================================================================
