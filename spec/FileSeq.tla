------------------------------- MODULE FileSeq -------------------------------
(***************************************************************************)
(* Histories of files for C17: every sequence of distinct files of the     *)
(* pool up to length K (subset x order).  TLC enumerates them; the driver  *)
(* runs each sequence and each file alone; Rel.tla (UnionOfParts) judges.  *)
(***************************************************************************)
EXTENDS Integers, Sequences, FiniteSets, TLC, Json, IOUtils, SequencesExt

Pool == ndJsonDeserialize(IOEnv.POOL)[1].files      \* sequence of file names
K == ndJsonDeserialize(IOEnv.POOL)[1].k

Names == {Pool[i] : i \in DOMAIN Pool}

RECURSIVE SeqsOfLen(_)
SeqsOfLen(n) == IF n = 0 THEN {<<>>}
                ELSE {Append(s, f) : s \in SeqsOfLen(n - 1), f \in Names} 

Distinct(s) == \A i, j \in DOMAIN s : i # j => s[i] # s[j]

AllSeqs == UNION {{s \in SeqsOfLen(n) : Distinct(s)} : n \in 1..K}

ASSUME PrintT(<<"SEQS", Cardinality(AllSeqs)>>)
ASSUME ndJsonSerialize(IOEnv.OUT, [i \in 1..Cardinality(AllSeqs) |-> [files |-> SetToSeq(AllSeqs)[i]]])
=============================================================================
