
