------------------------------- MODULE Rewrite -------------------------------
(***************************************************************************)
(* C05  Results are invariant under meaning-preserving rewrites.            *)
(* C06  Typedef, alias, macro and template expansion is transparent.        *)
(*                                                                         *)
(* A program has ONE meaning and MANY renderings.  The state is             *)
(*      <<prog, rendering, observed>>                                       *)
(* `prog' never changes.  A Rewrite(k) changes only `rendering' (how the    *)
(* program is laid out, how its identifiers are spelled, in which order     *)
(* its top-level items appear, whether a typedef / alias / macro /          *)
(* template is written as such or expanded by hand).  Observe runs the      *)
(* analyzer on the rendering and sets `observed' to its findings (and, for  *)
(* C06, its value-flow facts) PROJECTED BACK through the rendering: lines   *)
(* and columns become abstract positions (item, statement, token), spelled  *)
(* names become the names of `prog'.                                        *)
(*                                                                         *)
(* The property is an action property:                                      *)
(*      an Observe that follows rewrites leaves `observed' unchanged,       *)
(* except for findings whose documented meaning is ABOUT the thing the      *)
(* rewrite changed (the exclusion table Exempt below) and, for C06,         *)
(* findings located inside the definition of the expanded entity.           *)
(*                                                                         *)
(* The module is used in three ways (IOEnv.MODE):                           *)
(*   "model"  TLC checks the action property Invariance on a small abstract *)
(*            analyzer: it holds for the ideal analyzer with the table,     *)
(*            fails without the table and fails for four defective          *)
(*            analyzers (the property is neither too strong nor vacuous).   *)
(*   "gen"    TLC enumerates the rewrite histories (length <= MaxLen over   *)
(*            the alphabet, no step that leaves the rendering unchanged).   *)
(*   "judge"  TLC validates recorded observation traces of the real         *)
(*            cppcheck: every step must be the spec's Rewrite (the driver   *)
(*            changed exactly the rendering component the spec says, with   *)
(*            a declaration-respecting order), and every step must satisfy  *)
(*            StepOK; the deviating steps are written out with a class key  *)
(*            <rewrite kind>:<id>:<direction>, direction = appeared,        *)
(*            disappeared, moved (same message at another position), path   *)
(*            (same message and position, other secondary locations),       *)
(*            changed (another message).                                    *)
(***************************************************************************)
EXTENDS Integers, Sequences, FiniteSets, TLC, Json, IOUtils, SequencesExt

Mode == IOEnv.MODE

-----------------------------------------------------------------------------
(* The rewrite alphabet *)

LayoutKinds == {"Whitespace", "Indent", "BlankLines", "CommentLines"}
RenameKinds == {"RenameLocals", "RenameParams", "RenameTypes", "RenameFunctions"}
OrderKinds  == {"ReorderTopLevel"}
ExpandKinds == {"InlineTypedef", "InlineUsing", "ExpandMacro", "HandInstantiate"}

Role(k)  == CASE k = "RenameLocals" -> "l" [] k = "RenameParams" -> "p" [] k = "RenameTypes" -> "t" [] k = "RenameFunctions" -> "f"
XKind(k) == CASE k = "InlineTypedef" -> "typedef" [] k = "InlineUsing" -> "using" [] k = "ExpandMacro" -> "macro"
              [] k = "HandInstantiate" -> "template"

\* parameters: number of inserted lines (1, a few, more than fits in 8 bits), two renamings / two orders besides the original
FillSizes == {1, 3, 300}
Perms == {1, 2}

LettersC05 == [k : {"Whitespace", "Indent"}, n : {0}] \cup [k : {"BlankLines", "CommentLines"}, n : FillSizes]
              \cup [k : RenameKinds \cup OrderKinds, n : Perms]
LettersC06 == [k : ExpandKinds, n : {0}]
\* C06 histories mix the expansions with a few C05 rewrites (an expansion must also be transparent in another layout / spelling)
LettersC06Mix == LettersC06 \cup [k : {"Whitespace"}, n : {0}] \cup [k : {"RenameLocals"}, n : {2}] \cup [k : {"CommentLines"}, n : {3}]

-----------------------------------------------------------------------------
(* The rendering and what a rewrite does to it.                             *)
(*   ws    0..2  token separation style (2 also breaks long statements)     *)
(*   ind   0..3  indentation unit                                           *)
(*   fill  sequence of <<"b"|"c", n>>: n blank / comment lines in front of  *)
(*         a fixed subset of the statement boundaries (insertion; removal   *)
(*         is the same pair of programs read backwards)                     *)
(*   names [l,p,t,f -> 0..2] spelling scheme of locals, parameters, types,  *)
(*         functions (0 as written, 1 permutation of the spellings of one   *)
(*         scope, 2 fresh spellings in reverse lexicographic order)         *)
(*   order 0..2  which declaration-respecting order of the top-level items  *)
(*   x     [typedef,using,macro,template -> 0|1]  1 = written out by hand    *)

InitRendering == [ws |-> 0, ind |-> 0, fill |-> <<>>, names |-> [l |-> 0, p |-> 0, t |-> 0, f |-> 0], order |-> 0,
                  x |-> [typedef |-> 0, using |-> 0, macro |-> 0, template |-> 0]]

Apply(k, n, r) ==
  CASE k = "Whitespace"      -> [r EXCEPT !.ws = (@ + 1) % 3]
    [] k = "Indent"          -> [r EXCEPT !.ind = (@ + 1) % 4]
    [] k = "BlankLines"      -> [r EXCEPT !.fill = Append(@, <<"b", n>>)]
    [] k = "CommentLines"    -> [r EXCEPT !.fill = Append(@, <<"c", n>>)]
    [] k \in RenameKinds     -> [r EXCEPT !.names[Role(k)] = n]
    [] k \in OrderKinds      -> [r EXCEPT !.order = n]
    [] k \in ExpandKinds     -> [r EXCEPT !.x[XKind(k)] = 1 - @]

-----------------------------------------------------------------------------
(* The exclusion table.  An id is exempt from a family of rewrites when its *)
(* documented meaning speaks about what the family changes.                 *)
(*  layout  suspiciousSemicolon: "if (x); {" - the semicolon must be on the *)
(*            line of the `if' and the block must follow directly           *)
(*          duplicateBreak: conclusive only when no line separates the two  *)
(*            statements (#3383), so its certainty is a statement about     *)
(*            blank lines                                                   *)
(*          commaSeparatedReturn: a comma in a return statement that is     *)
(*            followed by a line break                                      *)
(*  names   shadowVariable / shadowArgument / shadowFunction / shadowMember: *)
(*            an inner declaration SPELLED like an outer one                *)
(*          funcArgNamesDifferent / funcArgOrderDifferent: declaration and  *)
(*            definition SPELL their parameters differently                 *)
(*  order   shadow*: whether the outer declaration is visible at the inner  *)
(*            one depends on which of them comes first                      *)
(*  alias   (InlineTypedef, InlineUsing) constVariablePointer,               *)
(*            constParameterPointer: advice on how to WRITE the declared    *)
(*            type ("can be declared as pointer to const"); it cannot be    *)
(*            followed where the pointer is hidden in the alias, and        *)
(*            cppcheck documents that it keeps silent there                 *)
(*  macro   (ExpandMacro) cppcheck documents that it does not criticise how *)
(*            text that comes out of a macro is WRITTEN (the text is the    *)
(*            macro's and may differ per configuration).  Hence exempt:     *)
(*            style findings located INSIDE the pasted replacement text     *)
(*            (same expression on both sides, same value in both branches,  *)
(*            ...: see Compared), knownConditionTrueFalse (not given for a  *)
(*            condition that contains macro text), and unknownMacro itself  *)
(*  templ   (HandInstantiate) templateRecursion: about the template itself  *)

ShadowIds == {"shadowVariable", "shadowArgument", "shadowFunction", "shadowMember"}
Exempt(k) ==
  CASE k \in LayoutKinds -> {"suspiciousSemicolon", "duplicateBreak", "commaSeparatedReturn"}
    [] k \in RenameKinds -> ShadowIds \cup {"funcArgNamesDifferent", "funcArgOrderDifferent"}
    [] k \in OrderKinds  -> ShadowIds
    [] k \in {"InlineTypedef", "InlineUsing"} -> {"constVariablePointer", "constParameterPointer"}
    [] k = "ExpandMacro" -> {"unknownMacro", "knownConditionTrueFalse"}
    [] k = "HandInstantiate" -> {"templateRecursion"}

\* what of an observation is compared across a step of kind k.  An observation is a set of records with at least
\* id, key (projected identity), mk (identity without locations), and for the expansion kinds: indef (located inside
\* the definition of the expanded entity), ingroup (located inside a use site of it), sev (severity)
Compared(obs, k, table) ==
  {f \in obs : /\ table => f.id \notin Exempt(k)
               /\ ~(k \in ExpandKinds /\ f.indef)
               /\ ~(table /\ k = "ExpandMacro" /\ f.ingroup /\ f.sev = "style")}
Keys(fs) == {f.key : f \in fs}

\* THE step predicate: rewrite(s) of kind k between two observations
StepOK(k, before, after, table) == Keys(Compared(before, k, table)) = Keys(Compared(after, k, table))

-----------------------------------------------------------------------------
(* The state machine.  `pending' (the kinds of the rewrites since the last  *)
(* Observe) and `steps' are bookkeeping that lets the two-step statement    *)
(* "Rewrite, then Observe" be written as a property of single steps.        *)

CONSTANTS Variant,    \* which abstract analyzer the model runs ("ideal" or a defective one, see Analyze)
          UseTable,   \* FALSE: compare without the exclusion table (shows that the table is needed)
          MaxLen      \* length bound of the rewrite histories

VARIABLES prog, rendering, observed, pending, steps
vars == <<prog, rendering, observed, pending, steps>>

\* ---- a small abstract program and analyzer (model mode only) -------------
\* Three top-level items of one statement each; item 3 uses a declaration of item 1 (so it must stay behind it).
\* Two local names u, v.  A finding is [id, at (item), about (name)].
AbsProg == [items |-> 1..3, deps |-> {<<3, 1>>},
            findings |-> {[id |-> "zerodiv", at |-> 1, about |-> "u"], [id |-> "uninitvar", at |-> 2, about |-> "v"],
                          [id |-> "nullPointer", at |-> 3, about |-> "u"], [id |-> "suspiciousSemicolon", at |-> 2, about |-> ""],
                          [id |-> "shadowVariable", at |-> 3, about |-> "v"],
                          \* C06: item 1 also defines an alias of an unsigned type, a template and a macro; item 3 uses them.
                          \* A finding inside the definition, a value-flow fact of the using code, a style remark on macro text
                          [id |-> "unusedStructMember", at |-> 1, about |-> "def"], [id |-> "valueflow", at |-> 3, about |-> "44"],
                          [id |-> "duplicateExpression", at |-> 3, about |-> "macrotext"]}]

OrderOf(r) == CASE r.order = 0 -> <<1, 2, 3>> [] r.order = 1 -> <<2, 1, 3>> [] r.order = 2 -> <<1, 3, 2>>
RespectsDeps(ord, deps) == \A d \in deps : (CHOOSE q \in DOMAIN ord : ord[q] = d[1]) > (CHOOSE q \in DOMAIN ord : ord[q] = d[2])
ASSUME Mode = "model" => \A o \in 0..2 : RespectsDeps(OrderOf([order |-> o]), AbsProg.deps)

Pos(r, it) == CHOOSE q \in 1..3 : OrderOf(r)[q] = it
\* fill operation number j puts its lines in front of item (j mod 3) + 1
FillBefore(r, it) == LET F == r.fill IN
  LET RECURSIVE S(_)
      S(j) == IF j = 0 THEN 0 ELSE S(j - 1) + (IF ((j - 1) % 3) + 1 = it THEN F[j][2] ELSE 0) IN S(Len(F))
LineOf(r, it) == LET RECURSIVE L(_)
                     L(q) == IF q = 0 THEN 0 ELSE L(q - 1) + FillBefore(r, OrderOf(r)[q]) + 1 IN L(Pos(r, it))
Spell(r, nm) == IF nm = "" THEN ""
                ELSE CASE r.names.l = 0 -> nm
                       [] r.names.l = 1 -> (IF nm = "u" THEN "v" ELSE "u")
                       [] r.names.l = 2 -> (IF nm = "u" THEN "zzb" ELSE "zza")
Unspell(r, c) == IF \E nm \in {"u", "v"} : Spell(r, nm) = c THEN CHOOSE nm \in {"u", "v"} : Spell(r, nm) = c ELSE c

\* findings whose MEANING depends on the rendering (that is why they are in the table)
Fires(f, r) == CASE f.id = "suspiciousSemicolon" -> r.ws # 2 /\ FillBefore(r, 3) = 0
                 [] f.id = "shadowVariable" -> r.names.l = r.names.p /\ Pos(r, 2) < Pos(r, 3)
                 [] f.id = "duplicateExpression" -> r.x.macro = 1      \* not said about text that comes out of a macro
                 [] OTHER -> TRUE

\* concrete findings [id, line, name, indef, ingroup, sev] of the analyzer on the rendering
Analyze(P, r) ==
  {[id |-> f.id,
    line |-> IF Variant = "line8" THEN LineOf(r, f.at) % 256 ELSE LineOf(r, f.at),           \* 8 bit line bookkeeping
    \* the finding inside the template definition names the instantiation / the hand-written entity
    name |-> IF f.about = "def" THEN (IF r.x.template = 1 THEN "byhand" ELSE "instance")
             \* an alias that loses `unsigned' changes the known value of the using code
             ELSE IF f.id = "valueflow" THEN (IF Variant = "aliasLosesSign" /\ r.x.typedef = 0 THEN "-212" ELSE f.about)
             ELSE IF f.about = "macrotext" THEN f.about
             ELSE Spell(r, f.about),
    indef |-> f.about = "def", ingroup |-> f.about = "macrotext", sev |-> IF f.id = "duplicateExpression" THEN "style" ELSE "error"]
   : f \in {f \in P.findings :
              /\ Fires(f, r)
              /\ ~(Variant = "nameKeyed" /\ f.id = "zerodiv" /\ Spell(r, f.about) \in {"zza", "zzb"})   \* heuristic keyed on a spelling
              /\ ~(Variant = "orderDep" /\ f.id = "nullPointer" /\ Pos(r, 2) > Pos(r, 3))}}          \* analysis depends on item order

\* projection back through the rendering's maps
Project(r, c) == LET at == IF \E it \in 1..3 : LineOf(r, it) = c.line THEN CHOOSE it \in 1..3 : LineOf(r, it) = c.line ELSE 0
                     nm == Unspell(r, c.name)
                 IN [id |-> c.id, key |-> <<c.id, at, nm>>, mk |-> <<c.id, nm>>, indef |-> c.indef, ingroup |-> c.ingroup, sev |-> c.sev]
ObservedOf(P, r) == {Project(r, c) : c \in Analyze(P, r)}

Init == /\ prog = AbsProg /\ rendering = InitRendering /\ observed = ObservedOf(AbsProg, InitRendering)
        /\ pending = {} /\ steps = 0

Rewrite(a) == /\ steps < MaxLen
              /\ Apply(a.k, a.n, rendering) # rendering
              /\ rendering' = Apply(a.k, a.n, rendering)
              /\ pending' = pending \cup {a.k}
              /\ steps' = steps + 1
              /\ UNCHANGED <<prog, observed>>

Observe == /\ pending # {}
           /\ observed' = ObservedOf(prog, rendering)
           /\ pending' = {}
           /\ UNCHANGED <<prog, rendering, steps>>

Next == (\E a \in LettersC05 \cup LettersC06 : Rewrite(a)) \/ Observe
Spec == Init /\ [][Next]_vars

\* what is compared after several rewrites: what every one of them compares
ComparedAll(obs, ks) == {f \in obs : \A k \in ks : f \in Compared(obs, k, UseTable)}

\* THE PROPERTY: the Observe after rewrites leaves `observed' unchanged (modulo the table)
Invariance == [][(pending # {} /\ pending' = {}) => Keys(ComparedAll(observed, pending)) = Keys(ComparedAll(observed', pending))]_vars
\* a rewrite changes only the rendering
OnlyRendering == [][rendering' # rendering => prog' = prog /\ observed' = observed]_vars
ProgFixed == [][prog' = prog]_vars

\* gen / judge mode run without behaviour: one state
IOInit == prog = <<>> /\ rendering = <<>> /\ observed = {} /\ pending = {} /\ steps = 0
IONext == UNCHANGED vars

-----------------------------------------------------------------------------
(* gen: the rewrite histories.  IOEnv.PARAMS: [prop, maxlen], IOEnv.OUT.   *)

GenP == IF Mode = "gen" THEN ndJsonDeserialize(IOEnv.PARAMS)[1] ELSE [prop |-> "C05", maxlen |-> 0]
Alphabet == IF GenP.prop = "C05" THEN LettersC05 ELSE LettersC06Mix

RECURSIVE After(_)
After(h) == IF h = <<>> THEN InitRendering ELSE Apply(h[Len(h)].k, h[Len(h)].n, After(SubSeq(h, 1, Len(h) - 1)))

RECURSIVE HistOfLen(_)
HistOfLen(m) == IF m = 0 THEN {<<>>}
                ELSE {Append(ha[1], ha[2]) : ha \in {ha \in HistOfLen(m - 1) \X Alphabet :
                                                       Apply(ha[2].k, ha[2].n, After(ha[1])) # After(ha[1])}}
Relevant(h) == GenP.prop = "C05" \/ \E i \in DOMAIN h : h[i].k \in ExpandKinds
Histories == IF Mode = "gen" THEN {h \in UNION {HistOfLen(m) : m \in 1..GenP.maxlen} : Relevant(h)} ELSE {}
LetterStr(a) == IF a.n = 0 THEN a.k ELSE a.k \o ":" \o ToString(a.n)

ASSUME Mode = "gen" => /\ PrintT(<<"HISTORIES", Cardinality(Histories)>>)
                       /\ LET S == SetToSeq(Histories) IN
                          ndJsonSerialize(IOEnv.OUT, [i \in DOMAIN S |-> [h |-> [j \in DOMAIN S[i] |-> LetterStr(S[i][j])]]])

-----------------------------------------------------------------------------
(* judge: recorded observation traces of the real analyzer.                 *)
(* IOEnv.TRACES (ndjson):                                                   *)
(*  [t |-> "prog", p, n (items), deps <<<<i, j>>...>> (item i stays behind   *)
(*     item j), orders (the item orders sigma_0..2), maps (name tables:     *)
(*     sequences of [scope, conc, base]), fixed (identifiers that are not   *)
(*     renamed: keywords, library and member names),                        *)
(*     obs (table of distinct observations, each a sequence of findings)]   *)
(*  [t |-> "trace", pi (line of its prog), lang, o0, cc0, steps <<[k, n, r  *)
(*     (rendering after the step), o (index into obs), m (index into maps), *)
(*     cc (1 compiles, 0 does not, -1 not tried)]...>>]                      *)
(* IOEnv.OUT: the deviating steps, one record per (step, id), and the steps *)
(* where the DRIVER did not follow the spec (t = "driver").                 *)

In == IF Mode = "judge" THEN ndJsonDeserialize(IOEnv.TRACES) ELSE <<>>
TraceIdx == {i \in DOMAIN In : In[i].t = "trace"}
ProgIdx == {i \in DOMAIN In : In[i].t = "prog"}

ObsSet(p, o) == {In[p].obs[o][j] : j \in DOMAIN In[p].obs[o]}

\* ReorderTopLevel: only permutations that keep every use behind its declaration
ValidOrder(p, ord) ==
  LET n == In[p].n
      pos(it) == CHOOSE q \in 1..n : ord[q] = it
  IN /\ Len(ord) = n /\ {ord[q] : q \in 1..n} = 0..(n - 1)
     /\ \A d \in DOMAIN In[p].deps : pos(In[p].deps[d][1]) > pos(In[p].deps[d][2])

\* Rename*: inside one scope a spelling denotes one name; a local scope and the program scope share a spelling only for
\* one name; no spelling of a renamed identifier is a keyword, a library or a member name
ValidNames(p, tab) ==
  LET E == {tab[j] : j \in DOMAIN tab}
      Fixed == {In[p].fixed[j] : j \in DOMAIN In[p].fixed}
  IN /\ \A a, b \in E : (a.conc = b.conc /\ (a.scope = b.scope \/ a.scope = -1 \/ b.scope = -1)) => a.base = b.base
     /\ \A a \in E : a.conc \notin Fixed

ProgOK(p) == /\ \A o \in DOMAIN In[p].orders : ValidOrder(p, In[p].orders[o])
             /\ \A m \in DOMAIN In[p].maps : ValidNames(p, In[p].maps[m])

StepIdx == UNION {{<<i, s>> : s \in DOMAIN In[i].steps} : i \in TraceIdx}
RBefore(i, s) == IF s = 1 THEN InitRendering ELSE In[i].steps[s - 1].r
OBefore(i, s) == IF s = 1 THEN In[i].o0 ELSE In[i].steps[s - 1].o
CBefore(i, s) == IF s = 1 THEN In[i].cc0 ELSE In[i].steps[s - 1].cc

\* the driver's step is the spec's Rewrite: exactly Apply on the rendering; and the second witness (a compiler) accepts
\* the rewritten text whenever it accepted the text before
DriverOK(i, s) == LET st == In[i].steps[s] IN
                  /\ st.r = Apply(st.k, st.n, RBefore(i, s))
                  /\ ~(CBefore(i, s) = 1 /\ st.cc = 0)

Hist(i, s) == [j \in 1..s |-> LetterStr([k |-> In[i].steps[j].k, n |-> In[i].steps[j].n])]

Deviations(i, s) ==
  LET st == In[i].steps[s]
      p == In[i].pi
      B == Compared(ObsSet(p, OBefore(i, s)), st.k, TRUE)
      A == Compared(ObsSet(p, st.o), st.k, TRUE)
      lost == {f \in B : f.key \notin Keys(A)}
      gained == {f \in A : f.key \notin Keys(B)}
      \* pk = identity with the primary location only (the other locations are the path that led there)
      Pk(f) == IF "pk" \in DOMAIN f THEN f.pk ELSE f.key
      Dir(id) == IF \E f \in lost, g \in gained : f.id = id /\ g.id = id /\ Pk(f) = Pk(g) THEN "path"
                 ELSE IF \E f \in lost, g \in gained : f.id = id /\ g.id = id /\ f.mk = g.mk THEN "moved"
                 ELSE IF (\E f \in lost : f.id = id) /\ (\E g \in gained : g.id = id) THEN "changed"
                 ELSE IF \E f \in lost : f.id = id THEN "disappeared" ELSE "appeared"
  IN IF StepOK(st.k, ObsSet(p, OBefore(i, s)), ObsSet(p, st.o), TRUE) THEN {}
     ELSE {[t |-> "dev", trace |-> i, step |-> s, p |-> In[p].p, lang |-> In[i].lang, hist |-> Hist(i, s), k |-> st.k,
            id |-> id, dir |-> Dir(id), class |-> st.k \o ":" \o id \o ":" \o Dir(id),
            lost |-> SetToSeq({f.key : f \in {f \in lost : f.id = id}}),
            gained |-> SetToSeq({f.key : f \in {f \in gained : f.id = id}})]
           : id \in {f.id : f \in lost \cup gained}}

AllDev == UNION {Deviations(x[1], x[2]) : x \in StepIdx}
DriverBad == {[t |-> "driver", trace |-> x[1], step |-> x[2], p |-> In[In[x[1]].pi].p, what |-> "step is not Apply / witness rejects"]
              : x \in {x \in StepIdx : ~DriverOK(x[1], x[2])}}
            \cup {[t |-> "driver", trace |-> 0, step |-> 0, p |-> In[p].p, what |-> "invalid order or name table"] : p \in {p \in ProgIdx : ~ProgOK(p)}}

ASSUME Mode = "judge" => /\ PrintT(<<"STEPS", Cardinality(StepIdx), "DEVIATIONS", Cardinality(AllDev), "DRIVER", Cardinality(DriverBad)>>)
                         /\ ndJsonSerialize(IOEnv.OUT, SetToSeq(AllDev) \o SetToSeq(DriverBad))
=============================================================================
