------------------------------- MODULE Rewrite -------------------------------
(***************************************************************************)
(* C05  Results are invariant under meaning-preserving rewrites.            *)
(* C06  Typedef, alias, macro and template expansion is transparent.        *)
(*                                                                         *)
(* A program has ONE meaning and MANY renderings.  The state is             *)
(*      <<prog, rendering, observed>>                                       *)
(* `prog' never changes.  A Rewrite(k) changes only `rendering' (how the    *)
(* program is laid out, how its identifiers are spelled, in which order     *)
(* its top-level items appear, whether a typedef / alias / macro /          *)
(* template is written as such or expanded by hand).  Observe runs the      *)
(* analyzer on the rendering and sets `observed' to its findings (and, for  *)
(* C06, its value-flow facts) PROJECTED BACK through the rendering: lines   *)
(* and columns become abstract positions (item, statement, token), spelled  *)
(* names become the names of `prog'.                                        *)
(*                                                                         *)
(* The property is an action property:                                      *)
(*      an Observe that follows rewrites leaves `observed' unchanged,       *)
(* except for findings whose documented meaning is ABOUT the thing the      *)
(* rewrite changed (the exclusion table Exempt below) and, for C06,         *)
(* findings located inside the definition of the expanded entity.           *)
(*                                                                         *)
(* The module is used in three ways (IOEnv.MODE):                           *)
(*   "model"  TLC checks the action property Invariance on a small abstract *)
(*            analyzer: it holds for the ideal analyzer with the table,     *)
(*            fails without the table and fails for three defective         *)
(*            analyzers (the property is neither too strong nor vacuous).   *)
(*   "gen"    TLC enumerates the rewrite histories (length <= MaxLen over   *)
(*            the alphabet, no step that leaves the rendering unchanged).   *)
(*   "judge"  TLC validates recorded observation traces of the real         *)
(*            cppcheck: every step must be the spec's Rewrite (the driver   *)
(*            changed exactly the rendering component the spec says, with   *)
(*            a declaration-respecting order), and every step must satisfy  *)
(*            StepOK; the deviating steps are written out with a class key. *)
(***************************************************************************)
EXTENDS Integers, Sequences, FiniteSets, TLC, Json, IOUtils, SequencesExt

Mode == IOEnv.MODE

-----------------------------------------------------------------------------
(* The rewrite alphabet *)

LayoutKinds == {"Whitespace", "Indent", "BlankLines", "CommentLines"}
RenameKinds == {"RenameLocals", "RenameParams", "RenameTypes", "RenameFunctions"}
OrderKinds  == {"ReorderTopLevel"}
ExpandKinds == {"InlineTypedef", "InlineUsing", "ExpandMacro", "HandInstantiate"}

Role(k)  == CASE k = "RenameLocals" -> "l" [] k = "RenameParams" -> "p" [] k = "RenameTypes" -> "t" [] k = "RenameFunctions" -> "f"
XKind(k) == CASE k = "InlineTypedef" -> "typedef" [] k = "InlineUsing" -> "using" [] k = "ExpandMacro" -> "macro"
              [] k = "HandInstantiate" -> "template"

\* parameters: number of inserted lines (1, a few, more than fits in 8 bits), two renamings / two orders besides the original
FillSizes == {1, 3, 300}
Perms == {1, 2}

LettersC05 == [k : {"Whitespace", "Indent"}, n : {0}] \cup [k : {"BlankLines", "CommentLines"}, n : FillSizes]
              \cup [k : RenameKinds \cup OrderKinds, n : Perms]
LettersC06 == [k : ExpandKinds, n : {0}]
\* C06 histories mix the expansions with a few C05 rewrites (an expansion must also be transparent in another layout / spelling)
LettersC06Mix == LettersC06 \cup [k : {"Whitespace"}, n : {0}] \cup [k : {"RenameLocals"}, n : {2}] \cup [k : {"CommentLines"}, n : {3}]

-----------------------------------------------------------------------------
(* The rendering and what a rewrite does to it.                             *)
(*   ws    0..2  token separation style (2 also breaks long statements)     *)
(*   ind   0..3  indentation unit                                           *)
(*   fill  sequence of <<"b"|"c", n>>: n blank / comment lines in front of  *)
(*         a fixed subset of the statement boundaries (insertion; removal   *)
(*         is the same pair of programs read backwards)                     *)
(*   names [l,p,t,f -> 0..2] spelling scheme of locals, parameters, types,  *)
(*         functions (0 as written, 1 permutation of the spellings of one   *)
(*         scope, 2 fresh spellings in reverse lexicographic order)         *)
(*   order 0..2  which declaration-respecting order of the top-level items  *)
(*   x     [typedef,using,macro,template -> 0|1]  1 = written out by hand    *)

InitRendering == [ws |-> 0, ind |-> 0, fill |-> <<>>, names |-> [l |-> 0, p |-> 0, t |-> 0, f |-> 0], order |-> 0,
                  x |-> [typedef |-> 0, using |-> 0, macro |-> 0, template |-> 0]]

Apply(k, n, r) ==
  CASE k = "Whitespace"      -> [r EXCEPT !.ws = (@ + 1) % 3]
    [] k = "Indent"          -> [r EXCEPT !.ind = (@ + 1) % 4]
    [] k = "BlankLines"      -> [r EXCEPT !.fill = Append(@, <<"b", n>>)]
    [] k = "CommentLines"    -> [r EXCEPT !.fill = Append(@, <<"c", n>>)]
    [] k \in RenameKinds     -> [r EXCEPT !.names[Role(k)] = n]
    [] k \in OrderKinds      -> [r EXCEPT !.order = n]
    [] k \in ExpandKinds     -> [r EXCEPT !.x[XKind(k)] = 1 - @]

-----------------------------------------------------------------------------
(* The exclusion table.  An id is exempt from a family of rewrites when its *)
(* documented meaning speaks about what the family changes.                 *)
(*  layout  suspiciousSemicolon: "if (x); {" - the semicolon must be on the *)
(*            line of the `if' and the block must follow directly           *)
(*          duplicateBreak: conclusive only when no line separates the two  *)
(*            statements (#3383), so its certainty is a statement about     *)
(*            blank lines                                                   *)
(*          commaSeparatedReturn: a comma in a return statement that is     *)
(*            followed by a line break                                      *)
(*  names   shadowVariable / shadowArgument / shadowFunction / shadowMember: *)
(*            an inner declaration SPELLED like an outer one                *)
(*          funcArgNamesDifferent / funcArgOrderDifferent: declaration and  *)
(*            definition SPELL their parameters differently                 *)
(*  order   shadow*: whether the outer declaration is visible at the inner  *)
(*            one depends on which of them comes first                      *)
(*  expand  templateRecursion, unknownMacro: findings about the template /  *)
(*            macro construct itself                                        *)

ShadowIds == {"shadowVariable", "shadowArgument", "shadowFunction", "shadowMember"}
Exempt(k) ==
  CASE k \in LayoutKinds -> {"suspiciousSemicolon", "duplicateBreak", "commaSeparatedReturn"}
    [] k \in RenameKinds -> ShadowIds \cup {"funcArgNamesDifferent", "funcArgOrderDifferent"}
    [] k \in OrderKinds  -> ShadowIds
    [] k \in ExpandKinds -> {"templateRecursion", "unknownMacro"}

\* what of an observation is compared across a step of kind k.  An observation is a set of records with at least
\* id, key (projected identity), mk (identity without locations), indef (located inside the expanded entity)
Compared(obs, k, table) == {f \in obs : (table => f.id \notin Exempt(k)) /\ ~(k \in ExpandKinds /\ f.indef)}
Keys(fs) == {f.key : f \in fs}

\* THE step predicate: rewrite(s) of kind k between two observations
StepOK(k, before, after, table) == Keys(Compared(before, k, table)) = Keys(Compared(after, k, table))

=============================================================================
