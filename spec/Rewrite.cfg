SPECIFICATION Spec
CONSTANTS
  Variant = "ideal"
  UseTable = TRUE
  MaxLen = 3
PROPERTY Invariance
PROPERTY OnlyRendering
PROPERTY ProgFixed
CHECK_DEADLOCK FALSE
