-------------------------------- MODULE Addon --------------------------------
(***************************************************************************)
(* C34: addon results are relayed faithfully.                              *)
(*                                                                         *)
(* An addon's output is a sequence of lines of the kinds below and an exit *)
(* code.  gen: TLC enumerates the sequences (length <= MaxLen) x exit code  *)
(* x severity option x suppression x executor x build dir.  judge: what the *)
(* real binary reported for the scripted addon is compared with Expected.   *)
(*                                                                         *)
(*   finding   JSON object with file/linenr/column, severity, message,      *)
(*             addon, errorId              -> reported as <addon>-<errorId> *)
(*   loc       the same with a "loc" array of locations                     *)
(*   unknown   a finding whose severity is not a severity     -> skipped    *)
(*   summary   {"summary": ...}  -> not reported, forwarded to the whole    *)
(*             program stage of the addon                                    *)
(*   badjson   starts with { but is not JSON                   -> skipped    *)
(*   checking  "Checking ..." progress line                    -> skipped    *)
(*   empty     empty line                                      -> skipped    *)
(*   text      any other text -> the addon failed: ONE internal error for   *)
(*             the file, nothing else of this addon run is relayed          *)
(* exit code # 0 -> the addon failed (as for text).  Never a crash.         *)
(***************************************************************************)
EXTENDS Integers, Sequences, FiniteSets, TLC, Json, IOUtils, SequencesExt

Mode == IOEnv.MODE
MaxLen == IF Mode = "gen" THEN ndJsonDeserialize(IOEnv.PARAMS)[1].maxlen ELSE 0

Sevs == {"error", "warning", "style", "information"}
Kinds == {[k |-> "finding", sev |-> s] : s \in Sevs} \cup
         {[k |-> "loc", sev |-> "error"], [k |-> "unknown", sev |-> "bogus"], [k |-> "summary", sev |-> "-"],
          [k |-> "badjson", sev |-> "-"], [k |-> "checking", sev |-> "-"], [k |-> "empty", sev |-> "-"], [k |-> "text", sev |-> "-"]}

RECURSIVE SeqsUpTo(_)
SeqsUpTo(n) == IF n = 0 THEN {<<>>} ELSE SeqsUpTo(n - 1) \cup {Append(s, x) : s \in {t \in SeqsUpTo(n - 1) : Len(t) = n - 1}, x \in Kinds}

Enables == {"none", "style", "all"}               \* --enable=
Cases == {[lines |-> ls, exit |-> e, enable |-> en, suppress |-> su, exec |-> x, builddir |-> b] :
             ls \in SeqsUpTo(MaxLen), e \in {0, 3}, en \in Enables, su \in BOOLEAN, x \in {"single", "thread", "process"}, b \in BOOLEAN}

\* ---------------------------------------------------------------- expectation
Enabled(en, sev) == sev = "error" \/ en = "all" \/ (en = "style" /\ sev \in {"warning", "style"})

Failed(c) == c.exit # 0 \/ \E i \in DOMAIN c.lines : c.lines[i].k = "text"

\* the i-th line as a finding key: id|file|line|column|severity|message  (the driver numbers findings by line index)
FKey(i, l) == [id |-> "fake-e" \o ToString(i), line |-> 10 + i, col |-> 3, sev |-> l.sev, msg |-> "msg " \o ToString(i)]

Relayed(c) == IF Failed(c) THEN {}
              ELSE {FKey(i, c.lines[i]) : i \in {j \in DOMAIN c.lines :
                       c.lines[j].k \in {"finding", "loc"} /\ Enabled(c.enable, c.lines[j].sev)
                       /\ ~(c.suppress /\ j = 1)}}               \* the suppression names the id of line 1
\* the case is played for the first translation unit; the second one prints the same summary lines (byte-identical) and
\* never fails: every summary of every translation unit is forwarded, identical ones included
SumLines(c) == Cardinality({i \in DOMAIN c.lines : c.lines[i].k = "summary"})
NSummaries(c) == SumLines(c) + (IF Failed(c) THEN 0 ELSE SumLines(c))

\* how the implementation must classify the lines (hook AddonLine): every JSON object line is "json"; reading stops
\* at the first text line
Coarse(k) == IF k \in {"finding", "loc", "unknown", "summary"} THEN "json" ELSE IF k = "badjson" THEN "badJson" ELSE k
FirstText(c) == IF \E i \in DOMAIN c.lines : c.lines[i].k = "text"
                THEN CHOOSE i \in DOMAIN c.lines : c.lines[i].k = "text" /\ \A j \in 1..(i-1) : c.lines[j].k # "text"
                ELSE Len(c.lines)
Logged(c) == [i \in 1..FirstText(c) |-> Coarse(c.lines[i].k)]

\* ---------------------------------------------------------------- judge
Obs == IF Mode = "judge" THEN ndJsonDeserialize(IOEnv.OBS) ELSE <<>>
Got(o) == {[id |-> o.addonFindings[i].id, line |-> o.addonFindings[i].line, col |-> o.addonFindings[i].col,
            sev |-> o.addonFindings[i].sev, msg |-> o.addonFindings[i].msg] : i \in DOMAIN o.addonFindings}

\* a finding given in the "loc" form has two locations; the note of its primary location is "he<TAB>re<TAB><i>": it must be
\* shown (--template-location) exactly as given, whatever executor relayed the finding
NoteCodes(i) == <<104, 101, 9, 114, 101, 9, 48 + i>>
LocNotesOK(o) ==
  LET c == o.case IN
    \A i \in DOMAIN c.lines :
       (c.lines[i].k = "loc" /\ FKey(i, c.lines[i]) \in Relayed(c)) =>
          \E n \in DOMAIN o.locNotes : o.locNotes[n].line = 10 + i /\ o.locNotes[n].col = 3 /\ o.locNotes[n].codes = NoteCodes(i)

Reasons(o) ==
  (IF o.signal THEN <<"crash">> ELSE <<>>)
  \o (IF o.signal \/ Got(o) = Relayed(o.case) THEN <<>> ELSE <<"relayed-findings-differ">>)
  \o (IF o.signal \/ (Failed(o.case) <=> o.internalErrors >= 1) THEN <<>> ELSE <<"failure-not-reported-as-internal-error">>)
  \o (IF o.signal \/ ~Failed(o.case) \/ o.internalErrors <= 1 THEN <<>> ELSE <<"more-than-one-internal-error">>)
  \o (IF o.signal \/ o.summariesForwarded = NSummaries(o.case) THEN <<>> ELSE <<"summaries-not-forwarded">>)
  \o (IF o.signal \/ o.kinds = Logged(o.case) \/ o.case.exit # 0 THEN <<>> ELSE <<"line-kinds-misclassified">>)
  \o (IF o.signal \/ LocNotesOK(o) THEN <<>> ELSE <<"location-note-differs">>)

BadIdx == {i \in DOMAIN Obs : Reasons(Obs[i]) # <<>>}

ASSUME Mode = "gen" => /\ PrintT(<<"CASES", Cardinality(Cases)>>)
                       /\ ndJsonSerialize(IOEnv.OUT, SetToSeq(Cases))
ASSUME Mode = "judge" => /\ PrintT(<<"JUDGED", Len(Obs), "BAD", Cardinality(BadIdx)>>)
                         /\ ndJsonSerialize(IOEnv.OUT, [i \in 1..Cardinality(BadIdx) |->
                               LET o == Obs[SetToSeq(BadIdx)[i]] IN
                                 [case |-> o.case, reasons |-> Reasons(o), got |-> o.addonFindings, internalErrors |-> o.internalErrors,
                                  summariesForwarded |-> o.summariesForwarded, kinds |-> o.kinds]])
=============================================================================
