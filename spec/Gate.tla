-------------------------------- MODULE Gate --------------------------------
(***************************************************************************)
(* C27: severity and certainty options gate findings monotonically.        *)
(*                                                                         *)
(* gen   : the lattice of option sets (subsets of the five optional         *)
(*         severities x --inconclusive)                                     *)
(* judge : observations [input, en (enabled names), inc, findings           *)
(*         [id, sev, inc, key]] of the real binary:                         *)
(*   Gated     every reported finding has an enabled severity (error is     *)
(*             always enabled; --enable=style also enables warning,         *)
(*             performance and portability, as documented) and is           *)
(*             inconclusive only with --inconclusive                        *)
(*   Monotone  for two runs of the same input with o1 <= o2 every finding   *)
(*             of the smaller run is reported unchanged by the larger run   *)
(***************************************************************************)
EXTENDS Integers, Sequences, FiniteSets, TLC, Json, IOUtils, SequencesExt

Sevs == {"warning", "style", "performance", "portability", "information"}
Mode == IOEnv.MODE

\* documented: --enable=style enables all of warning, style, performance, portability
Effective(en) == en \cup (IF "style" \in en THEN {"warning", "performance", "portability"} ELSE {})

Lattice == {[en |-> SetToSeq(e), inc |-> i] : e \in SUBSET Sevs, i \in BOOLEAN}

Obs == IF Mode = "judge" THEN ndJsonDeserialize(IOEnv.OBS) ELSE <<>>
Params == IF Mode = "judge" THEN ndJsonDeserialize(IOEnv.PARAMS)[1] ELSE [exclude |-> <<>>]
Excl == ToSet(Params.exclude)

En(o) == Effective(ToSet(o.en))
Kept(o) == {o.findings[i] : i \in {j \in DOMAIN o.findings : o.findings[j].id \notin Excl}}
Keys(o) == {f.key : f \in Kept(o)}

UngatedOf(o) == {f \in Kept(o) : ~(f.sev = "error" \/ f.sev \in En(o)) \/ (f.inc /\ ~o.inc)}
Leq(a, b) == a.input = b.input /\ En(a) \subseteq En(b) /\ (a.inc => b.inc)

BadGate == {i \in DOMAIN Obs : UngatedOf(Obs[i]) # {}}
BadMono == {p \in (DOMAIN Obs) \X (DOMAIN Obs) : p[1] # p[2] /\ Leq(Obs[p[1]], Obs[p[2]]) /\ ~(Keys(Obs[p[1]]) \subseteq Keys(Obs[p[2]]))}
NPairs == Cardinality({p \in (DOMAIN Obs) \X (DOMAIN Obs) : p[1] # p[2] /\ Leq(Obs[p[1]], Obs[p[2]])})

Out == [i \in 1..Cardinality(BadGate) |->
           LET o == Obs[SetToSeq(BadGate)[i]] IN [kind |-> "ungated", input |-> o.input, en |-> o.en, inc |-> o.inc, en2 |-> <<>>, inc2 |-> FALSE,
                                                     keys |-> SetToSeq({f.key : f \in UngatedOf(o)})]]
       \o [i \in 1..Cardinality(BadMono) |->
           LET p == SetToSeq(BadMono)[i] a == Obs[p[1]] b == Obs[p[2]] IN
             [kind |-> "not-monotone", input |-> a.input, en |-> a.en, inc |-> a.inc, en2 |-> b.en, inc2 |-> b.inc,
              keys |-> SetToSeq(Keys(a) \ Keys(b))]]

ASSUME Mode = "gen" => ndJsonSerialize(IOEnv.OUT, SetToSeq(Lattice))
ASSUME Mode = "judge" =>
         /\ PrintT(<<"RUNS", Len(Obs), "PAIRS", NPairs, "BADGATE", Cardinality(BadGate), "BADMONO", Cardinality(BadMono)>>)
         /\ ndJsonSerialize(IOEnv.OUT, Out)
=============================================================================
