-------------------------- MODULE TokenMatchGrammar --------------------------
(***************************************************************************)
(* C33: the patterns TLC enumerates from the documented grammar            *)
(* (TokenMatch.tla).  Elements are drawn from a pool: every alternative     *)
(* list of length 1 and 2 over the 15 commands and 20 literals (with and    *)
(* without the optional marker), a seeded sample of lists of length 3,      *)
(* every negation of a literal, a few character sets.  Patterns: the        *)
(* one-element patterns of the pool, seeded samples of length 2, 3, 4, and  *)
(* plain-word patterns for simpleMatch.  Every 17th is used with findmatch. *)
(* Shared by TokenMatchPatterns (writes them out) and TokenMatchGen.        *)
(*                                                                         *)
(* IOEnv.PARAMS: one line [seed, shard, nshards, ncore, reps, nons, n3alt,  *)
(*               s1, n2, n3, n4, nsimple, base (pid of generated pattern g  *)
(*               is base + g)]                                              *)
(***************************************************************************)
EXTENDS TokenMatch, Json, IOUtils, SequencesExt

P == ndJsonDeserialize(IOEnv.PARAMS)[1]

-----------------------------------------------------------------------------
(* Patterns generated from the grammar.                                     *)
Cmds == <<"any", "name", "type", "var", "varid", "num", "bool", "char", "str", "op", "cop", "comp", "assign", "or", "oror">>
Lits == << <<"x">>, <<"i","n","t">>, <<"i","f">>, <<"c","o","n","s","t">>, <<"t","r","u","e">>, <<"0">>,
           <<"(">>, <<")">>, <<"[">>, <<";">>, <<"=">>, <<"=","=">>, <<"<">>, <<"+">>, <<"*">>, <<"%">>,
           <<"&","&">>, <<"!">>, <<"!","=">>, <<":",":">> >>
Sets == << <<"(", ")">>, <<"+", "-", "*">>, <<";", "{", "}">>, <<"&", "|">>, <<"x", "0">>, <<"=", "<", ">">>, <<"[", "(">>, <<"%", "*">> >>

Alts == [i \in 1..Len(Cmds) |-> Cmd(Cmds[i])] \o [i \in 1..Len(Lits) |-> Lit(Lits[i])]
NA == Len(Alts)

\* index arithmetic instead of random numbers: H(j, c) is the c-th "digit" drawn for sample number j
H(j, c, m) == (((j * (<<613, 397, 211, 811>>[c])) + (P.seed * (<<97, 193, 389, 769>>[c])) + (j \div m) + c * 7) % m) + 1

A1 == [i \in 1..(2 * NA) |-> AltE(<<Alts[((i - 1) % NA) + 1]>>, i > NA)]
A2 == [i \in 1..(2 * NA * NA) |->
         AltE(<<Alts[((i - 1) % NA) + 1], Alts[(((i - 1) \div NA) % NA) + 1]>>, i > NA * NA)]
A3 == [i \in 1..P.n3alt |-> AltE(<<Alts[H(i, 1, NA)], Alts[H(i, 2, NA)], Alts[H(i, 3, NA)]>>, i % 2 = 0)]
NG == [i \in 1..Len(Lits) |-> NegE(Lits[i])]
ST == [i \in 1..Len(Sets) |-> SetE(Sets[i])]
Pool == A1 \o A2 \o A3 \o NG \o ST
M == Len(Pool)

\* all generated patterns, numbered 1..NGen: one-element patterns (every s1-th pool element, all of them for s1 = 1),
\* then samples of length 2, 3, 4, then simple patterns
NOne == (M - (P.seed % P.s1)) \div P.s1
One(j) == Pool[(j - 1) * P.s1 + (P.seed % P.s1) + 1]
NGen == NOne + P.n2 + P.n3 + P.n4 + P.nsimple
GenPattern(g) ==
  IF g <= NOne THEN <<One(g)>>
  ELSE IF g <= NOne + P.n2 THEN LET j == g - NOne IN <<Pool[H(j, 1, M)], Pool[H(j, 2, M)]>>
  ELSE IF g <= NOne + P.n2 + P.n3 THEN LET j == g - NOne - P.n2 IN <<Pool[H(j, 2, M)], Pool[H(j, 3, M)], Pool[H(j, 1, M)]>>
  ELSE IF g <= NOne + P.n2 + P.n3 + P.n4 THEN LET j == g - NOne - P.n2 - P.n3 IN <<Pool[H(j, 4, M)], Pool[H(j, 1, M)], Pool[H(j, 3, M)], Pool[H(j, 2, M)]>>
  ELSE LET j == g - NOne - P.n2 - P.n3 - P.n4
           n == (j % 3) + 1
       IN [k \in 1..n |-> AltE(<<Lit(Lits[H(j, k, Len(Lits))])>>, FALSE)]
GenIsSimple(g) == g > NOne + P.n2 + P.n3 + P.n4
GenKind(g) == IF GenIsSimple(g) THEN (IF g % 5 = 0 THEN "findsimplematch" ELSE "simpleMatch")
              ELSE IF g % 17 = 0 THEN "findmatch" ELSE "Match"

MyGen == {g \in 1..NGen : g % P.nshards = P.shard}


GenSeq == SetToSeq(MyGen)
=============================================================================
