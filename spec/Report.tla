------------------------------- MODULE Report -------------------------------
(***************************************************************************)
(* C26: reports are faithful in every output format.                       *)
(*                                                                         *)
(* A STRING of this specification is a sequence of BYTE TOKENS: a          *)
(* printable ASCII byte (0x20..0x7e) is the one-character TLA+ string      *)
(* itself, any other byte is "xHH".  The case space is built from a few    *)
(* representatives per CHARACTER CLASS (plain letter, space, < > & " ' \   *)
(* { } %, tab, newline, cr, a control character 0x01, 0x7f, a lone high    *)
(* byte 0xE9 (not valid UTF-8), the valid UTF-8 pair C3 A9) and a few      *)
(* multi-character ATOMS that look like syntax of an output format         *)
(* ("{line}", "&amp;", "%41", a backslash followed by n).                  *)
(*                                                                         *)
(* A FINDING is what cppcheck has decided to report:                       *)
(*   [id, sev, short, verbose, cwe, inconc, locs, remark]                  *)
(* locs is the location list in cppcheck's call-stack order, the LAST      *)
(* entry is the primary location.  The three output formats are defined    *)
(* as functions of a finding:                                              *)
(*   Text(T, f)    the text a --template / --template-location renders     *)
(*   XmlExp(f)     the <error> element (decoded attribute values)          *)
(*   SarifExp(f)   the SARIF result (ruleId, level, message, locations)    *)
(* plus Rng(doc), the transcription of cppcheck-errors.rng, and            *)
(* XmlAttrOK(raw, value), the escaping a well-formed attribute needs.      *)
(* "Exactly once": the reported findings and the rendered items are equal  *)
(* as BAGS in every format (text: one line group per distinct rendering).  *)
(*                                                                         *)
(* Modes (IOEnv.MODE):                                                     *)
(*   gen    enumerate the pools (strings over the classes, templates, ids) *)
(*          and walk through their product: IOEnv.NCASES cases, seeded by  *)
(*          IOEnv.SEED, written to IOEnv.OUT                               *)
(*   judge  read the observations IOEnv.OBS (case + what the three runs of *)
(*          the real binary printed, XML and SARIF already parsed by the   *)
(*          arbiters expat and json) and write one verdict per case with   *)
(*          its deviations (format, stable class key) to IOEnv.OUT         *)
(*   laws   check the algebraic laws of the definitions                    *)
(***************************************************************************)
EXTENDS Integers, Sequences, FiniteSets, TLC, Json, IOUtils, SequencesExt

Mode == IOEnv.MODE
\* S("abc") = <<"a","b","c">> : the table is produced by drivers/report_conv.py (TLA+ cannot look inside a string)
StrTab == JsonDeserialize(IOEnv.STRTAB)
S(x) == StrTab[x]

NL == "x0A"
TAB == "x09"
CR == "x0D"
U2 == <<"xC3", "xA9">>                       \* the valid UTF-8 two byte sequence (U+00E9)
Max2(a, b) == IF a >= b THEN a ELSE b

\* concatenation of a sequence of strings (divide and conquer: the recursion depth stays logarithmic)
RECURSIVE CatR(_, _, _)
CatR(ss, a, b) == IF a > b THEN <<>> ELSE IF a = b THEN ss[a] ELSE CatR(ss, a, (a + b) \div 2) \o CatR(ss, ((a + b) \div 2) + 1, b)
Cat(ss) == CatR(ss, 1, Len(ss))

RECURSIVE Digits(_)
Digits(n) == IF n < 10 THEN <<S("0123456789")[n + 1]>> ELSE Digits(n \div 10) \o <<S("0123456789")[(n % 10) + 1]>>

IsInfix(s, t) == \E i \in 1..(Len(t) - Len(s) + 1) : SubSeq(t, i, i + Len(s) - 1) = s
CountSub(s, t) == Cardinality({i \in 1..(Len(t) - Len(s) + 1) : SubSeq(t, i, i + Len(s) - 1) = s})
Has(s, tokset) == \E i \in 1..Len(s) : s[i] \in tokset

\* ------------------------------------------------------------------------
\* 1. Findings.  What the scripted addon prints is relayed as a finding
\*    (CppCheck::executeAddons; the relay itself is property C34).
\* ------------------------------------------------------------------------
Sevs == <<"error", "warning", "style", "performance", "portability", "information">>

FirstNL(s) == IF \E i \in 1..Len(s) : s[i] = NL THEN CHOOSE i \in 1..Len(s) : s[i] = NL /\ \A j \in 1..(i - 1) : s[j] # NL ELSE 0
\* "The summary and verbose message are separated by a newline; if there is no newline both are the given message"
Short(m)   == IF FirstNL(m) = 0 THEN m ELSE SubSeq(m, 1, FirstNL(m) - 1)
Verbose(m) == IF FirstNL(m) = 0 THEN m ELSE SubSeq(m, FirstNL(m) + 1, Len(m))

Relay(a) == [id |-> S("fake-") \o a.errorId, sev |-> a.sev, short |-> Short(a.msg), verbose |-> Verbose(a.msg),
             cwe |-> a.cwe, inconc |-> FALSE, locs |-> a.locs, remark |-> <<>>]

HasLoc(f) == f.locs # <<>>
Primary(f) == f.locs[Len(f.locs)]

\* ------------------------------------------------------------------------
\* 2. Text output (man/manual.md "Reformatting the text output", --help).
\*    A template is a sequence of parts [k, n, v]:
\*      k = "lit"  literal text v          k = "f"    field {n}
\*      k = "inc"  {inconclusive:v}        k = "esc"  backslash n (n, t or r)
\*    The VALUES put in for the fields are not scanned again.
\* ------------------------------------------------------------------------
Fields == {"file", "line", "column", "callstack", "severity", "id", "message", "cwe", "code", "remark"}

Spaces(n) == [i \in 1..n |-> " "]
RECURSIVE RStrip(_)
RStrip(l) == IF l # <<>> /\ l[Len(l)] \in {" ", TAB, CR, NL} THEN RStrip(SubSeq(l, 1, Len(l) - 1)) ELSE l
\* "{code} show the real code": the source line (trailing blanks removed, tabs shown as blanks), and below it a caret
\* under the column.  src is the list of files that exist: [name, lines].
SrcLine(src, file, line) ==
  IF line >= 1 /\ \E i \in 1..Len(src) : src[i].name = file /\ line <= Len(src[i].lines)
  THEN LET l == (CHOOSE x \in ToSet(src) : x.name = file).lines[line] IN [i \in 1..Len(RStrip(l)) |-> IF RStrip(l)[i] = TAB THEN " " ELSE RStrip(l)[i]]
  ELSE <<>>
Code(src, l) == SrcLine(src, l.file, l.line) \o <<NL>> \o Spaces(Max2(l.col - 1, 0)) \o S("^")

LocStr(l) == S("[") \o l.file \o S(":") \o Digits(l.line) \o S("]")
RECURSIVE Join(_, _)
Join(ss, sep) == IF ss = <<>> THEN <<>> ELSE IF Len(ss) = 1 THEN ss[1] ELSE ss[1] \o sep \o Join(Tail(ss), sep)
\* "{callstack} Write all locations. Each location is written in [{file}:{line}] format and the locations are separated by ->"
Callstack(f) == Join([i \in 1..Len(f.locs) |-> LocStr(f.locs[i])], S(" -> "))

EscTok(n) == CASE n = "n" -> NL [] n = "t" -> TAB [] n = "r" -> CR

FieldVal(n, f, verbose, src) ==
  CASE n = "id"        -> f.id
    [] n = "severity"  -> S(f.sev)
    [] n = "cwe"       -> Digits(f.cwe)
    [] n = "message"   -> IF verbose THEN f.verbose ELSE f.short
    [] n = "remark"    -> f.remark
    [] n = "callstack" -> IF HasLoc(f) THEN Callstack(f) ELSE <<>>
    [] n = "file"      -> IF HasLoc(f) THEN Primary(f).file ELSE S("nofile")      \* a finding without location is shown as nofile:0:0
    [] n = "line"      -> IF HasLoc(f) THEN Digits(Primary(f).line) ELSE S("0")
    [] n = "column"    -> IF HasLoc(f) THEN Digits(Primary(f).col) ELSE S("0")
    [] n = "code"      -> IF HasLoc(f) THEN Code(src, Primary(f)) ELSE <<>>

PartVal(p, f, verbose, src) ==
  CASE p.k = "lit" -> p.v
    [] p.k = "esc" -> <<EscTok(p.n)>>
    [] p.k = "inc" -> IF f.inconc THEN p.v ELSE <<>>
    [] p.k = "f"   -> FieldVal(p.n, f, verbose, src)

LocFieldVal(n, f, l, src) ==
  CASE n = "file"   -> l.file
    [] n = "line"   -> Digits(l.line)
    [] n = "column" -> Digits(l.col)
    [] n = "info"   -> IF l.info = <<>> THEN f.short ELSE l.info
    [] n = "code"   -> Code(src, l)
LocPartVal(p, f, l, src) ==
  CASE p.k = "lit" -> p.v
    [] p.k = "esc" -> <<EscTok(p.n)>>
    [] p.k = "f"   -> LocFieldVal(p.n, f, l, src)

F(n) == [k |-> "f", n |-> n, v |-> <<>>]
L(v) == [k |-> "lit", n |-> "", v |-> v]
E(n) == [k |-> "esc", n |-> n, v |-> <<>>]
I(v) == [k |-> "inc", n |-> "", v |-> v]

\* the pre-defined templates whose format the manual shows by example
GccLoc == <<F("file"), L(S(":")), F("line"), L(S(":")), F("column"), L(S(": note: ")), F("info"), E("n"), F("code")>>
Resolve(t) ==
  CASE t.name = "custom" -> [parts |-> t.parts, loc |-> IF t.hasloc THEN t.loc ELSE <<>>]
    [] t.name = "vs"     -> [parts |-> <<F("file"), L(S("(")), F("line"), L(S("): ")), F("severity"), L(S(": ")), F("message")>>, loc |-> <<>>]
    [] t.name = "gcc"    -> [parts |-> <<F("file"), L(S(":")), F("line"), L(S(":")), F("column"), L(S(": warning: ")), F("message"),
                                         L(S(" [")), F("id"), L(S("]")), E("n"), F("code")>>, loc |-> GccLoc]

\* "The first line in the warning is formatted by the --template format.  The other lines in the warning are formatted by
\*  the --template-location format" (one per location, in call-stack order; findings with a single location have none;
\*  "If this is not provided then no extra location info is shown")
Text(t, f, verbose, src) ==
  LET r == Resolve(t)
      main == Cat([i \in 1..Len(r.parts) |-> PartVal(r.parts[i], f, verbose, src)])
      locline(l) == <<NL>> \o Cat([i \in 1..Len(r.loc) |-> LocPartVal(r.loc[i], f, l, src)])
  IN main \o (IF r.loc # <<>> /\ Len(f.locs) >= 2 THEN Cat([i \in 1..Len(f.locs) |-> locline(f.locs[i])]) ELSE <<>>)

\* every rendered finding is followed by a newline; findings that render to the same text are shown once
RECURSIVE Seg(_, _)
Seg(out, R) == IF out = <<>> THEN R = {}
               ELSE \E r \in R : IsPrefix(r, out) /\ Seg(SubSeq(out, Len(r) + 1, Len(out)), R \ {r})

\* ------------------------------------------------------------------------
\* 3. XML output (man/manual.md "XML output", cppcheck-errors.rng).
\* ------------------------------------------------------------------------
\* "the strings should at least be safe for tinyxml2": every byte that is not printable ASCII is shown as a backslash and
\* three octal digits in msg, verbose, info and remark
OctOf == [t \in {"x01", "x09", "x0A", "x0D", "x7F", "xE9", "xC3", "xA9"} |->
            CASE t = "x01" -> S("\\001") [] t = "x09" -> S("\\011") [] t = "x0A" -> S("\\012") [] t = "x0D" -> S("\\015")
              [] t = "x7F" -> S("\\177") [] t = "xE9" -> S("\\351") [] t = "xC3" -> S("\\303") [] t = "xA9" -> S("\\251")]
Oct(t) == IF t \in DOMAIN OctOf THEN OctOf[t] ELSE S("\\???")
Replace(s) == Cat([i \in 1..Len(s) |-> IF Len(s[i]) = 1 THEN <<s[i]>> ELSE Oct(s[i])])
\* valid UTF-8 may be kept or replaced (the encoding of the document is UTF-8; "there is no utf-8 support around"): both
\* spellings are accepted by normalising a kept pair
NormU2(s) == Cat([i \in 1..Len(s) |-> IF s[i] = "xC3" /\ i < Len(s) /\ s[i + 1] = "xA9" THEN S("\\303")
                                      ELSE IF s[i] = "xA9" /\ i > 1 /\ s[i - 1] = "xC3" THEN S("\\251") ELSE <<s[i]>>])

\* the escaping a well-formed double-quoted attribute value needs: no raw < or ", every & starts a reference; and the
\* references resolve to the value (the arbiter delivers value; this pins the class-level escaping in the specification)
Entities == <<[e |-> S("&lt;"), c |-> "<"], [e |-> S("&gt;"), c |-> ">"], [e |-> S("&amp;"), c |-> "&"],
              [e |-> S("&quot;"), c |-> "\""], [e |-> S("&apos;"), c |-> "'"]>>
EntityAt(r, i) == IF r[i] = "&" /\ \E k \in 1..Len(Entities) : IsPrefix(Entities[k].e, SubSeq(r, i, Len(r)))
                  THEN CHOOSE k \in 1..Len(Entities) : IsPrefix(Entities[k].e, SubSeq(r, i, Len(r))) ELSE 0
\* (an entity contains no further &, so "inside an entity" is decided by looking back at most 5 tokens)
Unescape(r) == Cat([i \in 1..Len(r) |->
                     IF r[i] = "&" THEN (IF EntityAt(r, i) # 0 THEN <<Entities[EntityAt(r, i)].c>> ELSE <<"?bad-reference?">>)
                     ELSE IF \E j \in (IF i > 5 THEN i - 5 ELSE 1)..(i - 1) : r[j] = "&" /\ EntityAt(r, j) # 0 /\ j + Len(Entities[EntityAt(r, j)].e) > i /\ \A m \in (j + 1)..(i - 1) : r[m] # "&"
                          THEN <<>> ELSE <<r[i]>>])
\* line-end and attribute-value normalisation of XML 1.0: a raw tab / newline / cr in the document is delivered as a blank
\* (cr immediately followed by newline as ONE blank)
WsNorm(s) == Cat([i \in 1..Len(s) |-> IF s[i] = CR /\ i < Len(s) /\ s[i + 1] = NL THEN <<>> ELSE IF s[i] \in {TAB, NL, CR} THEN <<" ">> ELSE <<s[i]>>])
\* (numeric character references are left to the arbiter)
XmlAttrOK(raw, value) == IsInfix(S("&#"), raw) \/ (~Has(raw, {"<", "\""}) /\ WsNorm(Unescape(raw)) = value)

\* ---- cppcheck-errors.rng transcribed.  An element is [tag, attrs (sequence of [n, v, raw]), kids, text].
AttrNames(e) == {e.attrs[i].n : i \in 1..Len(e.attrs)}
HasAttr(e, n) == n \in AttrNames(e)
Attr(e, n) == IF HasAttr(e, n) THEN (CHOOSE a \in ToSet(e.attrs) : a.n = n).v ELSE <<>>
Letters == ToSet(S("abcdefghijklmnopqrstuvwxyzABCDEFGHIJKLMNOPQRSTUVWXYZ"))
DigitToks == ToSet(S("0123456789"))
\* xsd:NCName (ASCII part; the UTF-8 pair C3 A9 is the letter U+00E9)
RECURSIVE NameChars(_)
NameChars(s) == IF s = <<>> THEN TRUE
                ELSE IF Len(s) >= 2 /\ SubSeq(s, 1, 2) = U2 THEN NameChars(SubSeq(s, 3, Len(s)))
                ELSE s[1] \in Letters \cup DigitToks \cup {".", "-", "_"} /\ NameChars(Tail(s))
IsNCName(s) == s # <<>> /\ (s[1] \in Letters \cup {"_"} \/ (Len(s) >= 2 /\ SubSeq(s, 1, 2) = U2)) /\ NameChars(s)
IsNat(s) == s # <<>> /\ \A i \in 1..Len(s) : s[i] \in DigitToks             \* xsd:integer with minInclusive 0
RECURSIVE StripZeros(_)
StripZeros(s) == IF s # <<>> /\ s[1] = "0" THEN StripZeros(Tail(s)) ELSE s
RngSeverities == {S("error"), S("information"), S("performance"), S("portability"), S("style"), S("warning")}

RngLocation(l) ==
     {"rng:location:missing-attribute:" \o n : n \in {"file", "line", "column"} \ AttrNames(l)}
  \cup {"rng:location:attribute-not-allowed:" \o n : n \in AttrNames(l) \ {"file", "line", "column", "info"}}
  \cup (IF HasAttr(l, "line") /\ ~IsNat(Attr(l, "line")) THEN {"rng:location:line-not-a-non-negative-integer"} ELSE {})
  \cup (IF HasAttr(l, "column") /\ ~IsNat(Attr(l, "column")) THEN {"rng:location:column-not-a-non-negative-integer"} ELSE {})
  \cup (IF l.kids # <<>> \/ l.text # <<>> THEN {"rng:location:content-not-allowed"} ELSE {})

RngError(e) ==
     {"rng:error:missing-attribute:" \o n : n \in {"id", "msg", "severity", "verbose"} \ AttrNames(e)}
  \cup {"rng:error:attribute-not-allowed:" \o n : n \in AttrNames(e) \ {"id", "msg", "severity", "verbose", "inconclusive", "file0", "cwe", "hash"}}
  \cup (IF HasAttr(e, "id") /\ ~IsNCName(Attr(e, "id"))
        THEN {"rng:error:id-not-an-NCName"} ELSE {})
  \cup (IF HasAttr(e, "severity") /\ Attr(e, "severity") \notin RngSeverities THEN {"rng:error:severity-not-in-enumeration"} ELSE {})
  \cup (IF HasAttr(e, "inconclusive") /\ Attr(e, "inconclusive") \notin {S("true"), S("false"), S("0"), <<"1">>} THEN {"rng:error:inconclusive-not-boolean"} ELSE {})
  \cup (IF HasAttr(e, "cwe") /\ ~(IsNat(Attr(e, "cwe")) /\ StripZeros(Attr(e, "cwe")) # <<>>) THEN {"rng:error:cwe-not-a-positive-integer"} ELSE {})
  \cup (IF HasAttr(e, "hash") /\ ~(IsNat(Attr(e, "hash")) /\ StripZeros(Attr(e, "hash")) \notin {<<>>, <<"1">>}) THEN {"rng:error:hash-not-an-integer-above-1"} ELSE {})
  \cup UNION {IF e.kids[i].tag = "location" THEN RngLocation(e.kids[i])
              ELSE IF e.kids[i].tag = "symbol" THEN (IF e.kids[i].attrs # <<>> \/ e.kids[i].kids # <<>> THEN {"rng:symbol:only-text-allowed"} ELSE {})
              ELSE {"rng:error:element-not-allowed:" \o e.kids[i].tag} : i \in 1..Len(e.kids)}
  \cup (IF \E i, j \in 1..Len(e.kids) : i < j /\ e.kids[i].tag = "symbol" /\ e.kids[j].tag = "location" THEN {"rng:error:location-after-symbol"} ELSE {})
  \cup (IF e.text # <<>> THEN {"rng:error:text-not-allowed"} ELSE {})

VersionOK(v) == Len(v) >= 3 /\ v[1] \in DigitToks \ {"0"} /\ v[2] = "." /\ v[3] \in DigitToks        \* pattern [1-9]\.[0-9]+.*
Rng(doc) ==
  IF doc.tag # "results" THEN {"rng:root-is-not-results"}
  ELSE (IF AttrNames(doc) # {"version"} \/ Attr(doc, "version") # S("2") THEN {"rng:results:version-attribute"} ELSE {})
  \cup (IF Len(doc.kids) # 2 \/ doc.text # <<>> THEN {"rng:results:children-are-not-cppcheck-errors"}
        ELSE (IF doc.kids[1].tag # "cppcheck" \/ AttrNames(doc.kids[1]) # {"version"} \/ ~VersionOK(Attr(doc.kids[1], "version")) \/ doc.kids[1].kids # <<>>
              THEN {"rng:cppcheck-element"} ELSE {})
        \cup (IF doc.kids[2].tag # "errors" \/ doc.kids[2].attrs # <<>> \/ doc.kids[2].text # <<>> THEN {"rng:errors-element"}
              ELSE UNION {IF doc.kids[2].kids[i].tag = "error" THEN RngError(doc.kids[2].kids[i]) ELSE {"rng:errors:element-not-allowed:" \o doc.kids[2].kids[i].tag}
                          : i \in 1..Len(doc.kids[2].kids)}))

\* ---- the findings a document carries, and the element a finding must be reported as
ErrorElems(doc) == IF doc.tag = "results" /\ Len(doc.kids) = 2 /\ doc.kids[2].tag = "errors" THEN SelectSeq(doc.kids[2].kids, LAMBDA e : e.tag = "error") ELSE <<>>
XLoc(l) == [file |-> Attr(l, "file"), line |-> Attr(l, "line"), col |-> Attr(l, "column"), info |-> NormU2(Attr(l, "info"))]
XmlDecode(e) == [id |-> Attr(e, "id"), sev |-> Attr(e, "severity"), msg |-> NormU2(Attr(e, "msg")), verbose |-> NormU2(Attr(e, "verbose")),
                 cwe |-> Attr(e, "cwe"), inconc |-> Attr(e, "inconclusive"), file0 |-> Attr(e, "file0"),
                 locs |-> LET ls == SelectSeq(e.kids, LAMBDA k : k.tag = "location") IN [i \in 1..Len(ls) |-> XLoc(ls[i])]]
\* "All locations related to an error are listed with <location> elements. The primary location is listed first."
XmlExp(f, file0) == [id |-> f.id, sev |-> S(f.sev), msg |-> Replace(f.short), verbose |-> Replace(f.verbose),
                     cwe |-> IF f.cwe = 0 THEN <<>> ELSE Digits(f.cwe), inconc |-> IF f.inconc THEN S("true") ELSE <<>>, file0 |-> file0,
                     locs |-> [i \in 1..Len(f.locs) |-> LET l == f.locs[Len(f.locs) + 1 - i]
                                                        IN [file |-> l.file, line |-> Digits(Max2(l.line, 0)), col |-> Digits(l.col), info |-> Replace(l.info)]]]
RawAttrDevs(e) == {"xml:attribute-escaping:" \o e.attrs[i].n : i \in {j \in 1..Len(e.attrs) : ~XmlAttrOK(e.attrs[j].raw, e.attrs[j].v)}}

\* ------------------------------------------------------------------------
\* 4. SARIF output: results (ruleId, level, message, locations) with the severity -> level table
\* ------------------------------------------------------------------------
SarifLevel(sev) == CASE sev \in {"error", "warning"} -> "error"
                     [] sev \in {"style", "portability", "performance"} -> "warning"
                     [] OTHER -> "note"
\* SARIF regions are 1-based: a line / column below 1 is reported as 1
SLoc(l) == [uri |-> l.file, line |-> Max2(l.line, 1), col |-> Max2(l.col, 1)]
Bag(seq) == [x \in ToSet(seq) |-> Cardinality({i \in 1..Len(seq) : seq[i] = x})]
SarifExp(f) == [ruleId |-> f.id, level |-> SarifLevel(f.sev), msg |-> f.short, locs |-> Bag([i \in 1..Len(f.locs) |-> SLoc(f.locs[i])])]
\* artifactLocation.uri is a URI reference: %HH denotes the byte HH
HexToks == ToSet(S("0123456789")) \cup ToSet(S("abcdefABCDEF"))
PctTab == [x \in {"20", "25", "26", "27", "22", "3C", "3E", "7B", "7D", "09", "0A", "0D", "01", "7F", "E9", "C3", "A9", "41"} |->
            CASE x = "20" -> " " [] x = "25" -> "%" [] x = "26" -> "&" [] x = "27" -> "'" [] x = "22" -> "\"" [] x = "3C" -> "<" [] x = "3E" -> ">"
              [] x = "7B" -> "{" [] x = "7D" -> "}" [] x = "41" -> "A" [] OTHER -> "x" \o x]
Upper(t) == CASE t = "a" -> "A" [] t = "b" -> "B" [] t = "c" -> "C" [] t = "d" -> "D" [] t = "e" -> "E" [] t = "f" -> "F" [] OTHER -> t
RECURSIVE PctDecode(_)
PctDecode(u) == IF u = <<>> THEN <<>>
                ELSE IF u[1] = "%" /\ Len(u) >= 3 /\ u[2] \in HexToks /\ u[3] \in HexToks
                     THEN LET h == Upper(u[2]) \o Upper(u[3]) IN <<IF h \in DOMAIN PctTab THEN PctTab[h] ELSE "?pct" \o h>> \o PctDecode(SubSeq(u, 4, Len(u)))
                     ELSE <<u[1]>> \o PctDecode(Tail(u))
SarifDecode(r) == [ruleId |-> r.ruleId, level |-> r.level, msg |-> r.msg,
                   locs |-> Bag([i \in 1..Len(r.locs) |-> [uri |-> PctDecode(r.locs[i].uri), line |-> r.locs[i].line, col |-> r.locs[i].col]])]
SarifDecodeRawUri(r) == [ruleId |-> r.ruleId, level |-> r.level, msg |-> r.msg,
                         locs |-> Bag([i \in 1..Len(r.locs) |-> [uri |-> r.locs[i].uri, line |-> r.locs[i].line, col |-> r.locs[i].col]])]

\* ------------------------------------------------------------------------
\* 5. The case space (mode gen)
\* ------------------------------------------------------------------------
Plain == {"a", "b", "1"}
Special == {" ", "<", ">", "&", "\"", "'", "\\", "{", "}", "%"}
CtlToks == {TAB, NL, CR, "x01", "x7F"}
One(T) == {<<t>> : t \in T}
MsgAtoms == One(Plain \cup Special \cup CtlToks \cup {"xE9"}) \cup {U2, S("{line}"), S("{id}"), S("\\n"), S("&amp;"), S("%41")}
\* file names: no path separators (cppcheck normalises / and \ as path syntax on every platform)
FileAtoms == One((Plain \cup Special \cup CtlToks \cup {"xE9"}) \ {"\\"}) \cup {U2, S("%41"), S("&amp;")}
\* names a real file can have here and cppcheck accepts on its command line (it strips double quotes from path arguments)
RealFileAtoms == One((Plain \cup Special \cup {TAB, "x01", "x7F", "xE9"}) \ {"\\", "\""}) \cup {U2, S("%41"), S("&amp;")}
\* the spelling of a C string literal's content
LitAtoms == One((Plain \cup Special \cup {TAB, "x01", "x7F", "xE9"}) \ {"\\", "\""}) \cup {U2, <<"\\", "\"">>, <<"\\", "\\">>, S("\\n"), S("{line}"), S("&amp;")}

Pairs(A) == {a \o b : a \in A, b \in A}
Triples(A) == {a \o b \o c : a \in A, b \in A, c \in A}
MsgOK(m) == m # <<>> /\ m[Len(m)] # NL           \* "none of the error messages should end into it"

ErrIds == <<S("x"), S("a.b"), S("a_b"), S("A-1"), S("1a"), S("x") \o U2, S("a b"), S("a:b"), S("a<b"), S("a&b"), S("a\"b"), S("a'b"),
            <<"a", TAB, "b">>, <<"a", "x7F">>, S("{line}"), S("a b") \o <<">">> >>
ErrIdsBin == <<<<"a", "x01">>, <<"a", "xE9">>, <<"xE9", "x01">>>>
Infos == <<<<>>, S("info one"), S("i<&>\"'"), <<"i", TAB, "xE9">>, S("{line}"), S("info one") \o U2>>
BenignMsgs == <<S("plain text"), S("short") \o <<NL>> \o S("verbose text"), S("second message")>>
BenignFiles == <<S("f.c"), S("g h.c"), S("sub/k.c")>>                   \* f.c is the analysed file (it exists)

TemplateLits == {S(":"), S(" "), S(","), S("|"), S("<&>"), S("%s"), S("'q\""), S("{"), S("}"), <<"xE9">>, U2, S("[")}
PartPool == {F(n) : n \in Fields} \cup {L(v) : v \in TemplateLits} \cup {E(n) : n \in {"n", "t", "r"}} \cup {I(S("INC")), I(S(", inconclusive"))}
\* {code} takes its line separator from the template: templates with {code} do not use the cr escape here
TemplateOK(t) == ~(\E i, j \in 1..Len(t) : t[i] = F("code") /\ t[j] = E("r"))
\* the formats shown in the manual and in --help
DocTemplates == <<
  <<F("file"), L(S(":")), F("line"), L(S(":")), F("column"), L(S(": ")), F("severity"), L(S(":")), F("message")>>,
  <<F("file"), L(S(",")), F("line"), L(S(",")), F("severity"), L(S(",")), F("id"), L(S(",")), F("message")>>,
  <<F("file"), L(S(":")), F("line"), L(S(": ")), F("severity"), L(S(": ")), F("message"), E("n"), F("code")>>,
  <<F("file"), L(S("(")), F("line"), L(S("): ")), L(S("(")), F("severity"), L(S(") ")), F("message")>>,
  <<F("callstack"), L(S(" ")), F("message")>>,
  <<F("file"), L(S(":")), F("line"), L(S(": ")), F("message"), L(S(" [")), F("id"), L(S("]")), E("n"), F("remark")>>,
  <<F("id"), L(S("|")), F("cwe"), L(S("|")), I(S("INC")), L(S("|")), F("message"), L(S("|")), F("callstack"), L(S("|")), F("column")>> >>
LocTemplates == <<
  GccLoc,
  <<F("file"), L(S(":")), F("line"), L(S(": note: ")), F("info"), E("n"), F("code")>>,
  <<F("info"), L(S("|")), F("file"), E("t"), F("line")>>,
  <<F("column"), L(S("<")), F("info"), L(S(">"))>> >>

NCases == atoi(IOEnv.NCASES)
Seed == atoi(IOEnv.SEED)
Deep == IOEnv.DEEP = "1"
Pick(seq, n) == seq[(n % Len(seq)) + 1]
\* a pool as a sequence: everything of the first kind in order, then a seeded stride through the rest
Walk(first, rest, q) == IF q <= Len(first) THEN first[q] ELSE IF rest = <<>> THEN Pick(first, q) ELSE Pick(rest, (q - Len(first)) * 7 + Seed * 101)

MsgFirst == IF Mode = "gen" THEN SetToSeq({m \in MsgAtoms : MsgOK(m)}) ELSE <<>>
MsgRest  == IF Mode = "gen" THEN SetToSeq({m \in Pairs(MsgAtoms) \cup (IF Deep THEN Triples(MsgAtoms) ELSE {}) : MsgOK(m)}) ELSE <<>>
\* file names with a raw control character / a byte that is not UTF-8 are a stratum of their own ("filebin"): such a
\* name can make a whole document unreadable for the arbiter, which would hide the other findings of the case
Bin(s) == Has(s, {"x01", "xE9"})
FileFirst == IF Mode = "gen" THEN SetToSeq({a \o S(".c") : a \in {x \in FileAtoms : ~Bin(x)}}) ELSE <<>>
FileRest  == IF Mode = "gen" THEN SetToSeq({a \o S(".c") : a \in {x \in Pairs(FileAtoms) \cup (IF Deep THEN Triples(FileAtoms) ELSE {}) : ~Bin(x)}}) ELSE <<>>
FileBinFirst == IF Mode = "gen" THEN SetToSeq({a \o S(".c") : a \in {x \in FileAtoms : Bin(x)}}) ELSE <<>>
FileBinRest  == IF Mode = "gen" THEN SetToSeq({a \o S(".c") : a \in {x \in Pairs(FileAtoms) : Bin(x)}}) ELSE <<>>
RealFileFirst == IF Mode = "gen" THEN SetToSeq({a \o S(".c") : a \in RealFileAtoms}) ELSE <<>>
RealFileRest  == IF Mode = "gen" THEN SetToSeq({a \o S(".c") : a \in Pairs(RealFileAtoms)}) ELSE <<>>
LitFirst == IF Mode = "gen" THEN SetToSeq(LitAtoms) ELSE <<>>
LitRest  == IF Mode = "gen" THEN SetToSeq(Pairs(LitAtoms) \cup (IF Deep THEN Triples(LitAtoms) ELSE {})) ELSE <<>>
TmplFirst == IF Mode = "gen" THEN DocTemplates \o SetToSeq({<<p>> : p \in PartPool}) ELSE <<>>
TmplRest  == IF Mode = "gen"
             THEN SetToSeq({t \in {<<p, q>> : p \in PartPool, q \in PartPool} \cup (IF Deep THEN {<<p, q, r>> : p \in PartPool, q \in PartPool, r \in PartPool} ELSE {}) : TemplateOK(t)})
             ELSE <<>>

\* the dimension a case explores
Dims == <<"msg", "file", "id", "shape", "msg", "real", "msg", "filebin", "file", "shape", "msg", "idbin">>
DimOf(c) == Pick(Dims, c - 1)

\* the template of case c: every fourth case uses a pre-defined name
TemplateOf(c) ==
  IF c % 8 = 3 THEN [name |-> "gcc", parts |-> <<>>, loc |-> <<>>, hasloc |-> FALSE]
  ELSE IF c % 8 = 7 THEN [name |-> "vs", parts |-> <<>>, loc |-> <<>>, hasloc |-> FALSE]
  ELSE LET q == c - (c \div 8) * 2 IN
       \* (how many locations a value-flow finding of a real project carries depends on whether locations are shown at all -
       \*  Check::getErrorPath keeps the whole path only with --verbose, --xml or a location template; the real projects are
       \*  therefore always run with a location template, so that the three runs report the same findings)
       [name |-> "custom", parts |-> Walk(TmplFirst, TmplRest, q), loc |-> Pick(LocTemplates, c \div 3), hasloc |-> (c % 3 # 0 \/ DimOf(c) = "real")]

\* lines / columns: f.c exists and has 3 lines, so a line beyond that is only generated for the other names
LineOf(file, n) == IF file = S("f.c") THEN Pick(<<1, 3, 0, 2>>, n) ELSE Pick(<<1, 3, 0, 70000>>, n)
ColOf(n) == Pick(<<5, 1, 0, 12>>, n)
Loc1(file, n) == [file |-> file, line |-> LineOf(file, n), col |-> ColOf(n \div 4), info |-> <<>>]

KOf(dim) == CASE dim = "msg" -> 10 [] dim = "file" -> 6 [] dim = "id" -> 4 [] dim = "shape" -> 6 [] dim = "filebin" -> 2 [] dim = "idbin" -> 1 [] OTHER -> 0
\* number of the case among the cases of its dimension (1, 2, ...), for walking the pool of that dimension
Ord(c) == Cardinality({d \in 1..c : DimOf(d) = DimOf(c)})

\* the j-th result line of case c: the dimension of the case walks its pool, the other fields take harmless values (that
\* still vary: severity, line, column, cwe, which of the three harmless files / messages)
Line(c, j) ==
  LET dim == DimOf(c)
      q == (Ord(c) - 1) * KOf(dim) + j          \* running number of this finding within its dimension
      n == q + Seed * 7919
      file == IF dim = "file" THEN Walk(FileFirst, FileRest, q) ELSE IF dim = "filebin" THEN Walk(FileBinFirst, FileBinRest, q) ELSE Pick(BenignFiles, n)
      shape == IF dim = "shape" THEN Pick(<<"none", "loc", "file", "loc">>, q) ELSE "file"
      nloc == IF shape = "loc" THEN 2 + ((q \div 4) % 2) ELSE IF shape = "file" THEN 1 ELSE 0
  IN [errorId |-> IF dim = "id" THEN Pick(ErrIds, q - 1 + Seed) ELSE IF dim = "idbin" THEN Pick(ErrIdsBin, q - 1 + Seed) ELSE S("x") \o Digits(j),
      sev |-> Pick(Sevs, n \div 2),
      msg |-> IF dim = "msg" THEN Walk(MsgFirst, MsgRest, q) ELSE Pick(BenignMsgs, n \div 3),
      shape |-> shape,
      locs |-> [i \in 1..nloc |-> IF shape = "loc"
                                  THEN [Loc1(Pick(BenignFiles, n + i), n + i) EXCEPT !.info = Pick(Infos, q + i)]
                                  ELSE Loc1(file, n)],
      cwe |-> Pick(<<0, 398, 0>>, n)]

Case(c) ==
  LET dim == DimOf(c) IN
  [cid |-> c, kind |-> IF dim = "real" THEN "real" ELSE "addon", dim |-> dim,
   tmpl |-> TemplateOf(c), verbose |-> (c % 5 = 2), ofile |-> (c % 7 = 4),
   lines |-> [j \in 1..KOf(dim) |-> Line(c, j)],
   proj |-> IF dim = "real" THEN [file |-> Walk(RealFileFirst, RealFileRest, Ord(c)), lit |-> Walk(LitFirst, LitRest, Ord(c))]
            ELSE [file |-> <<>>, lit |-> <<>>]]

Cases == [c \in 1..NCases |-> Case(c)]

\* ------------------------------------------------------------------------
\* 6. The judge
\* ------------------------------------------------------------------------
Obs == IF Mode = "judge" THEN ndJsonDeserialize(IOEnv.OBS) ELSE <<>>

Dev(fmt, key, what) == [fmt |-> fmt, key |-> key, what |-> what]

\* ---- the reference findings of a case
\* addon cases: what the addon printed, relayed.  real cases: what the XML document carries (attribute values as delivered:
\* non-printable bytes already in their replacement spelling), located in the file of the case.
RECURSIVE ParseNat(_)
ParseNat(s) == IF s = <<>> THEN 0 ELSE ParseNat(SubSeq(s, 1, Len(s) - 1)) * 10 + ((CHOOSE i \in 1..10 : S("0123456789")[i] = s[Len(s)]) - 1)
NoneTok == S("none")            \* (a severity outside the six is judged as "none": the table of S must know the word)
SevName(tokens) == IF \E i \in 1..Len(Sevs) : S(Sevs[i]) = tokens THEN Sevs[CHOOSE i \in 1..Len(Sevs) : S(Sevs[i]) = tokens] ELSE "none"
FromXml(e, file) ==
  LET d == XmlDecode(e) IN
  [id |-> d.id, sev |-> SevName(d.sev), short |-> d.msg, verbose |-> d.verbose,
   cwe |-> IF IsNat(d.cwe) /\ Len(d.cwe) < 9 THEN ParseNat(d.cwe) ELSE 0, inconc |-> d.inconc = S("true"),
   locs |-> [i \in 1..Len(d.locs) |-> LET l == d.locs[Len(d.locs) + 1 - i]
                                      IN [file |-> file, line |-> IF IsNat(l.line) /\ Len(l.line) < 9 THEN ParseNat(l.line) ELSE 0,
                                          col |-> IF IsNat(l.col) /\ Len(l.col) < 9 THEN ParseNat(l.col) ELSE 0, info |-> l.info]],
   remark |-> NormU2(Attr(e, "remark"))]

IsReal(o) == o.case.kind = "real"
Ref(o) == IF IsReal(o) THEN (IF o.xml.ok THEN LET es == ErrorElems(o.xml.tree) IN [i \in 1..Len(es) |-> FromXml(es[i], o.case.proj.file)] ELSE <<>>)
          ELSE [i \in 1..Len(o.case.lines) |-> Relay(o.case.lines[i])]
\* real cases are compared in the replacement spelling on both sides (Replace is a homomorphism and leaves printable text alone)
N(o, s) == IF IsReal(o) THEN Replace(s) ELSE s

\* ---- content that looks like a template field
FieldMarks == {S("{line}"), S("{file}"), S("{column}"), S("{callstack}"), S("{code}"), S("{remark}"), S("{info}"), S("{message}"), S("{severity}"), S("{cwe}")}
Marked(f) == \E m \in FieldMarks : IsInfix(m, f.short) \/ IsInfix(m, f.verbose) \/ IsInfix(m, f.id)
                                   \/ \E i \in 1..Len(f.locs) : IsInfix(m, f.locs[i].info) \/ IsInfix(m, f.locs[i].file)

\* ---- text
HasField(t, n) == LET r == Resolve(t) IN (\E i \in 1..Len(r.parts) : r.parts[i] = F(n)) \/ (\E i \in 1..Len(r.loc) : r.loc[i] = F(n))
HasCR(f) == Has(f.short, {CR}) \/ Has(f.verbose, {CR}) \/ Has(f.id, {CR}) \/ \E i \in 1..Len(f.locs) : Has(f.locs[i].info, {CR}) \/ Has(f.locs[i].file, {CR})
\* A finding whose rendering is the empty text: the documentation does not say whether an empty line is shown; left open.
TextDevs(o) ==
  LET out == N(o, o.text.out)
      fs == Ref(o)
      rend(f) == N(o, Text(o.case.tmpl, f, o.case.verbose, o.src)) \o N(o, <<NL>>)
      nore(f) == rend([f EXCEPT !.remark = <<>>])
      empty == N(o, <<NL>>)
      R == {rend(fs[i]) : i \in 1..Len(fs)}
  IN IF o.text.rc # 0 THEN {Dev("text", "text:exit-status", "cppcheck exit status of the text run")}
     ELSE IF IsReal(o) /\ ~o.xml.ok THEN {}                                  \* no reference: not judged
     ELSE IF Seg(out, R) \/ Seg(out, R \ {empty}) THEN {}
     ELSE LET badf == {i \in 1..Len(fs) : rend(fs[i]) # empty /\ CountSub(rend(fs[i]), out) # 1}
          IN IF badf = {} THEN {Dev("text", "text:output-is-not-the-sequence-of-the-renderings", "every rendering occurs once but there is other output")}
             ELSE {Dev("text",
                       IF Marked(fs[i]) THEN "text:field-marker-inside-a-value-is-substituted-again"
                       ELSE IF HasCR(fs[i]) /\ HasField(o.case.tmpl, "code") THEN "text:carriage-return-inside-a-value-changes-the-line-separator-of-code"
                       ELSE IF fs[i].remark # <<>> /\ (nore(fs[i]) = empty \/ \E j \in 1..Len(fs) : j # i /\ nore(fs[j]) = nore(fs[i]))
                            THEN "text:finding-that-differs-only-by-its-remark-is-filtered-as-duplicate"
                       ELSE "text:rendering-not-exactly-once",
                       "finding " \o ToString(i)) : i \in badf}

\* ---- XML
\* a raw control character / a byte that is not UTF-8 makes the document ill-formed: which field of the case carries one
XmlBreak(o) ==
  IF IsReal(o) THEN (IF Has(o.case.proj.file, {"x01"}) THEN "control-character-in-file-name"
                     ELSE IF Has(o.case.proj.file, {"xE9"}) THEN "invalid-utf-8-in-file-name" ELSE "unknown")
  ELSE LET ls == o.case.lines IN
       IF \E i \in 1..Len(ls) : Has(ls[i].errorId, {"x01"}) THEN "control-character-in-id"
       ELSE IF \E i \in 1..Len(ls) : Has(ls[i].errorId, {"xE9"}) THEN "invalid-utf-8-in-id"
       ELSE IF \E i \in 1..Len(ls) : \E k \in 1..Len(ls[i].locs) : Has(ls[i].locs[k].file, {"x01"}) THEN "control-character-in-file-name"
       ELSE IF \E i \in 1..Len(ls) : \E k \in 1..Len(ls[i].locs) : Has(ls[i].locs[k].file, {"xE9"}) THEN "invalid-utf-8-in-file-name"
       ELSE "unknown"

\* field-wise comparison of a decoded element with the expected one
XmlFieldDevs(d, e) ==
     (IF d.id = e.id THEN {} ELSE IF d.id = WsNorm(e.id) THEN {"xml:id:tab-newline-cr-not-preserved"} ELSE {"xml:id:differs"})
  \cup (IF d.sev = e.sev THEN {} ELSE {"xml:severity:differs"})
  \cup (IF d.msg = e.msg THEN {} ELSE {"xml:msg:differs"})
  \cup (IF d.verbose = e.verbose THEN {} ELSE {"xml:verbose:differs"})
  \cup (IF d.cwe = e.cwe THEN {} ELSE {"xml:cwe:differs"})
  \cup (IF d.inconc = e.inconc THEN {} ELSE {"xml:inconclusive:differs"})
  \cup (IF d.file0 = e.file0 THEN {} ELSE {"xml:file0:differs"})
  \cup (IF Len(d.locs) # Len(e.locs) THEN {"xml:locations:count-differs"}
        ELSE UNION {  (IF d.locs[i].file = e.locs[i].file THEN {}
                       ELSE IF d.locs[i].file = WsNorm(e.locs[i].file) THEN {"xml:location-file:tab-newline-cr-not-preserved"}
                       ELSE IF \E j \in 1..Len(e.locs) : d.locs[i].file = e.locs[j].file THEN {"xml:locations:order-differs"} ELSE {"xml:location-file:differs"})
                 \cup (IF d.locs[i].line = e.locs[i].line /\ d.locs[i].col = e.locs[i].col THEN {} ELSE {"xml:location-line-column:differs"})
                 \cup (IF d.locs[i].info = e.locs[i].info THEN {} ELSE {"xml:location-info:differs"}) : i \in 1..Len(e.locs)})

XmlDevs(o) ==
  IF o.xml.rc # 0 THEN {Dev("xml", "xml:exit-status", "cppcheck exit status of the xml run")}
  ELSE IF ~o.xml.ok THEN {Dev("xml", "xml:not-well-formed:" \o XmlBreak(o), o.xml.err)}
  ELSE LET doc == o.xml.tree
           es == ErrorElems(doc)
           ds == [i \in 1..Len(es) |-> XmlDecode(es[i])]
           fs == Ref(o)
           xs == [i \in 1..Len(fs) |-> XmlExp(fs[i], S("f.c"))]
       IN {Dev("xml", k, "schema") : k \in Rng(doc)}
          \cup {Dev("xml", k, "raw attribute text") : k \in UNION {RawAttrDevs(es[i]) \cup UNION {RawAttrDevs(es[i].kids[j]) : j \in 1..Len(es[i].kids)} : i \in 1..Len(es)}}
          \cup (IF IsReal(o) THEN {}                    \* the reference of a real case IS the document; its anchors are judged in RealDevs
                ELSE IF Bag(ds) = Bag(xs) THEN {}
                ELSE IF Len(ds) # Len(xs) THEN {Dev("xml", "xml:findings:" \o (IF Len(ds) < Len(xs) THEN "missing" ELSE "too-many"), ToString(Len(ds)) \o " of " \o ToString(Len(xs)))}
                ELSE UNION {{Dev("xml", k, "finding " \o ToString(i)) : k \in XmlFieldDevs(ds[i], xs[i])} : i \in 1..Len(xs)})

\* ---- SARIF
SarifBreak(o) ==
  IF IsReal(o) THEN (IF Has(o.case.proj.file, {"xE9"}) THEN "invalid-utf-8-in-file-name"
                     ELSE IF Has(o.case.proj.lit, {"xE9"}) THEN "invalid-utf-8-in-message" ELSE "unknown")
  ELSE LET ls == o.case.lines IN
       IF \E i \in 1..Len(ls) : Has(ls[i].errorId, {"xE9"}) THEN "invalid-utf-8-in-id"
       ELSE IF \E i \in 1..Len(ls) : Has(Short(ls[i].msg), {"xE9"}) THEN "invalid-utf-8-in-message"
       ELSE IF \E i \in 1..Len(ls) : \E k \in 1..Len(ls[i].locs) : Has(ls[i].locs[k].file, {"xE9"}) THEN "invalid-utf-8-in-file-name"
       ELSE "unknown"

SarifDevs(o) ==
  IF o.sarif.rc # 0 THEN {Dev("sarif", "sarif:exit-status", "cppcheck exit status of the sarif run")}
  ELSE IF ~o.sarif.ok /\ o.sarif.kind = "structure" THEN {Dev("sarif", "sarif:structure", o.sarif.err)}
  ELSE IF ~o.sarif.ok THEN {Dev("sarif", "sarif:not-valid-json:" \o SarifBreak(o), o.sarif.err)}
  ELSE IF IsReal(o) /\ ~o.xml.ok THEN {}
  ELSE LET doc == o.sarif.doc
           fs == Ref(o)
           norm(r) == [r EXCEPT !.msg = N(o, NormU2(@))]
           exp == [i \in 1..Len(fs) |-> norm(SarifExp(fs[i]))]
           got == [i \in 1..Len(doc.results) |-> norm(SarifDecode(doc.results[i]))]
           gotraw == [i \in 1..Len(doc.results) |-> norm(SarifDecodeRawUri(doc.results[i]))]
           noloc == {i \in 1..Len(fs) : ~HasLoc(fs[i])}
           expLoc == SelectSeq(exp, LAMBDA r : DOMAIN r.locs # {})
       IN (IF doc.version # "2.1.0" \/ doc.nruns # 1 THEN {Dev("sarif", "sarif:version-or-runs", doc.version)} ELSE {})
          \cup {Dev("sarif", "sarif:result-without-exactly-one-rule", "result " \o ToString(i)) :
                  i \in {j \in 1..Len(doc.results) : Cardinality({k \in 1..Len(doc.rules) : doc.rules[k].id = doc.results[j].ruleId}) # 1}}
          \cup {Dev("sarif", "sarif:rule-level-differs-from-result-level", "result " \o ToString(i)) :
                  i \in {j \in 1..Len(doc.results) : \E k \in 1..Len(doc.rules) : doc.rules[k].id = doc.results[j].ruleId /\ doc.rules[k].level # doc.results[j].level}}
          \cup {Dev("sarif", "sarif:region-end-before-start", "result " \o ToString(i)) :
                  i \in {j \in 1..Len(doc.results) : \E k \in 1..Len(doc.results[j].locs) : LET l == doc.results[j].locs[k] IN l.eline < l.line \/ (l.eline = l.line /\ l.ecol < l.col)}}
          \cup (IF Bag(got) = Bag(exp) THEN {}
                ELSE IF Bag(gotraw) = Bag(exp) THEN {Dev("sarif", "sarif:uri-not-percent-encoded", "a % in a file name is followed by two hex digits")}
                ELSE IF noloc # {} /\ (Bag(got) = Bag(expLoc) \/ Bag(gotraw) = Bag(expLoc)) THEN {Dev("sarif", "sarif:finding-without-location-omitted", "finding " \o ToString(CHOOSE i \in noloc : TRUE))}
                ELSE IF Len(got) # Len(exp) THEN {Dev("sarif", "sarif:results:" \o (IF Len(got) < Len(exp) THEN "missing" ELSE "too-many"), ToString(Len(got)) \o " of " \o ToString(Len(exp)))}
                ELSE {Dev("sarif", IF got[i].ruleId # exp[i].ruleId THEN "sarif:ruleId:differs"
                                   ELSE IF got[i].level # exp[i].level THEN "sarif:level:differs"
                                   ELSE IF got[i].msg # exp[i].msg THEN "sarif:message:differs" ELSE "sarif:locations:differ",
                          "result " \o ToString(i)) : i \in {j \in 1..Len(exp) : got[j] # exp[j]}})

\* ---- anchors of the real projects: what was analysed is known, so some facts about the report are known too
RealDevs(o) ==
  IF ~IsReal(o) \/ ~o.xml.ok THEN {}
  ELSE LET es == ErrorElems(o.xml.tree)
           ds == [i \in 1..Len(es) |-> XmlDecode(es[i])]
           ids == {ds[i].id : i \in 1..Len(ds)}
           file == o.case.proj.file
       IN {Dev("xml", "real:expected-finding-missing:" \o x.n, "finding of the real project") :
             x \in {y \in {[n |-> "zerodiv", t |-> S("zerodiv")], [n |-> "incorrectStringBooleanError", t |-> S("incorrectStringBooleanError")],
                            [n |-> "nullPointer", t |-> S("nullPointer")], [n |-> "terminateStrncpy", t |-> S("terminateStrncpy")],
                            [n |-> "unreadVariable", t |-> S("unreadVariable")], [n |-> "uninitvar", t |-> S("uninitvar")]} : y.t \notin ids}}
          \cup UNION {{Dev("xml", IF ds[i].locs[k].file = WsNorm(file) THEN "xml:location-file:tab-newline-cr-not-preserved" ELSE "xml:location-file:differs", "finding " \o ToString(i)) :
                         k \in {m \in 1..Len(ds[i].locs) : ds[i].locs[m].file # file}} : i \in 1..Len(ds)}
          \cup UNION {IF ds[i].file0 = file THEN {} ELSE {Dev("xml", IF ds[i].file0 = WsNorm(file) THEN "xml:file0:tab-newline-cr-not-preserved" ELSE "xml:file0:differs", "finding " \o ToString(i))} : i \in 1..Len(ds)}
          \cup (IF \E i \in 1..Len(ds) : ds[i].id = S("incorrectStringBooleanError") /\ ~IsInfix(Replace(o.case.proj.lit), ds[i].msg)
                THEN {Dev("xml", "real:string-literal-not-in-message", "incorrectStringBooleanError")} ELSE {})
          \cup (IF \E i \in 1..Len(ds) : ds[i].id = S("terminateStrncpy") /\ ds[i].inconc # S("true") THEN {Dev("xml", "real:inconclusive-attribute-missing", "terminateStrncpy")} ELSE {})
          \cup (IF \E i \in 1..Len(es) : Attr(es[i], "id") = S("uninitvar") /\ ~\E k \in 1..Len(es[i].kids) : es[i].kids[k].tag = "symbol" /\ es[i].kids[k].text = S("x") \o S("y")
                THEN {Dev("xml", "real:symbol-element-missing", "uninitvar")} ELSE {})

\* ---- the three formats carry the same findings (direct comparison of what XML and SARIF deliver)
CrossDevs(o) ==
  IF ~(o.xml.rc = 0 /\ o.xml.ok /\ o.sarif.rc = 0 /\ o.sarif.ok) THEN {}
  ELSE LET es == ErrorElems(o.xml.tree)
           x == [i \in 1..Len(es) |-> LET d == XmlDecode(es[i]) IN
                   [ruleId |-> WsNorm(d.id), level |-> SarifLevel(SevName(d.sev)), msg |-> d.msg,
                    locs |-> Bag([k \in 1..Len(d.locs) |-> [file |-> WsNorm(d.locs[k].file),
                                                          line |-> IF IsNat(d.locs[k].line) /\ Len(d.locs[k].line) < 9 THEN Max2(ParseNat(d.locs[k].line), 1) ELSE 0,
                                                          col |-> IF IsNat(d.locs[k].col) /\ Len(d.locs[k].col) < 9 THEN Max2(ParseNat(d.locs[k].col), 1) ELSE 0]])]]
           s == [i \in 1..Len(o.sarif.doc.results) |-> LET r == o.sarif.doc.results[i] IN
                   [ruleId |-> WsNorm(r.ruleId), level |-> r.level, msg |-> Replace(r.msg),
                    locs |-> Bag([k \in 1..Len(r.locs) |-> [file |-> WsNorm(r.locs[k].uri), line |-> r.locs[k].line, col |-> r.locs[k].col]])]]
           xl == SelectSeq(x, LAMBDA r : DOMAIN r.locs # {})
       IN IF Bag(x) = Bag(s) THEN {}
          ELSE IF Bag(xl) = Bag(s) THEN {Dev("cross", "sarif:finding-without-location-omitted", "the XML document has more findings")}
          ELSE {Dev("cross", "cross:xml-and-sarif-carry-different-findings", ToString(Len(x)) \o " / " \o ToString(Len(s)))}

Judge(o) == [cid |-> o.case.cid, nref |-> Len(Ref(o)),
             devs |-> SetToSeq(TextDevs(o) \cup XmlDevs(o) \cup SarifDevs(o) \cup RealDevs(o) \cup CrossDevs(o))]

Verdicts == [i \in 1..Len(Obs) |-> Judge(Obs[i])]

\* ------------------------------------------------------------------------
\* 7. Laws of the definitions (mode laws): they guard against a wrong specification
\* ------------------------------------------------------------------------
LawStrings == One(Plain \cup Special \cup CtlToks \cup {"xE9"}) \cup Pairs(MsgAtoms)
F0 == [id |-> S("fake-") \o S("x"), sev |-> "style", short |-> S("short"), verbose |-> S("verbose text"), cwe |-> 398, inconc |-> FALSE,
       locs |-> <<[file |-> S("g h.c"), line |-> 3, col |-> 1, info |-> S("info one")], [file |-> S("f.c"), line |-> 70000, col |-> 5, info |-> <<>>]>>, remark |-> <<>>]
Custom(parts) == [name |-> "custom", parts |-> parts, loc |-> <<>>, hasloc |-> FALSE]
Laws ==
  /\ \A s \in LawStrings : Replace(Replace(s)) = Replace(s)                               \* the replacement spelling is printable: a fixed point
  /\ \A s \in LawStrings : \A i \in 1..Len(Replace(s)) : Len(Replace(s)[i]) = 1
  /\ \A s \in LawStrings, t \in One(Plain \cup CtlToks) : Replace(s \o t) = Replace(s) \o Replace(t)   \* homomorphism
  /\ \A s \in LawStrings : Short(s) \o (IF FirstNL(s) = 0 THEN <<>> ELSE <<NL>> \o Verbose(s)) = s   \* the message is split, nothing is lost
  /\ \A s \in LawStrings : ~Has(Short(s), {NL})
  /\ \A s \in LawStrings : Text(Custom(<<L(s)>>), F0, FALSE, <<>>) = s                   \* literal text is literal
  /\ \A s \in LawStrings : Text(Custom(<<F("message")>>), [F0 EXCEPT !.short = s], FALSE, <<>>) = s      \* a value is not scanned again
  /\ Text(Custom(<<F("callstack")>>), F0, FALSE, <<>>) = S("[") \o S("g h.c") \o S(":") \o <<"3">> \o S("]") \o S(" -> ") \o S("[") \o S("f.c") \o S(":") \o Digits(70000) \o S("]")
  /\ Text(Custom(<<F("file"), F("line"), F("column")>>), [F0 EXCEPT !.locs = <<>>], FALSE, <<>>) = S("nofile") \o S("0") \o S("0")
  /\ Digits(0) = S("0") /\ Digits(70000) = <<"7", "0", "0", "0", "0">> /\ ParseNat(Digits(4096)) = 4096
  /\ Seg(<<"a", NL, "b", NL>>, {<<"b", NL>>, <<"a", NL>>}) /\ ~Seg(<<"a", NL, "a", NL>>, {<<"a", NL>>}) /\ ~Seg(<<"a", NL>>, {<<"a", NL>>, <<"b", NL>>})
  /\ Seg(<<"a", NL, "a", NL, "b", NL>>, {<<"a", NL>>, <<"a", NL, "b", NL>>})             \* a rendering may be a prefix of another one
  /\ XmlAttrOK(S("&lt;") \o S("&amp;") \o S("&quot;") \o <<"a">>, <<"<", "&", "\"", "a">>)
  /\ ~XmlAttrOK(<<"<">>, <<"<">>) /\ ~XmlAttrOK(<<"&", "a">>, <<"&", "a">>) /\ ~XmlAttrOK(S("&lt;"), <<">">>)
  /\ IsNCName(S("fake-") \o S("a.b")) /\ IsNCName(S("x") \o U2) /\ ~IsNCName(S("a b")) /\ ~IsNCName(S("1a")) /\ ~IsNCName(S("a:b")) /\ ~IsNCName(<<>>)
  /\ PctDecode(S("%41") \o S("%")) = <<"A", "%">> /\ PctDecode(S("g h.c")) = S("g h.c")
  /\ XmlExp(F0, S("f.c")).locs[1].file = S("f.c") /\ XmlExp(F0, S("f.c")).locs[2].info = S("info one")     \* primary location first
  /\ \A i \in 1..Len(Sevs) : SarifLevel(Sevs[i]) \in {"error", "warning", "note"}

\* ------------------------------------------------------------------------
ASSUME Mode = "gen" =>
         /\ Laws
         /\ PrintT(<<"CASES", NCases, "MSGS", Len(MsgFirst) + Len(MsgRest), "FILES", Len(FileFirst) + Len(FileRest), "TEMPLATES", Len(TmplFirst) + Len(TmplRest),
                    "LITERALS", Len(LitFirst) + Len(LitRest), "REALFILES", Len(RealFileFirst) + Len(RealFileRest), "BINFILES", Len(FileBinFirst) + Len(FileBinRest)>>)
         /\ ndJsonSerialize(IOEnv.OUT, Cases)
ASSUME Mode = "judge" =>
         /\ PrintT(<<"JUDGED", Len(Obs)>>)
         /\ ndJsonSerialize(IOEnv.OUT, Verdicts)
ASSUME Mode = "laws" => Laws /\ PrintT(<<"LAWS", "ok">>)
=============================================================================
