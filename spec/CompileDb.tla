------------------------------ MODULE CompileDb ------------------------------
(***************************************************************************)
(* C32 - compilation-database import reproduces the compiler's options.    *)
(*                                                                         *)
(* An entry of compile_commands.json names a file, a working directory and  *)
(* a GCC-style command line, either as "arguments" (a JSON array of words)  *)
(* or as "command" (one string in shell quoting).  cppcheck must analyse    *)
(* the file with exactly the macro definitions, undefinitions, include      *)
(* paths and language standard that this command line specifies:            *)
(*                                                                         *)
(*     Observed(arguments form) = Observed(command form, every quoting      *)
(*                                style) = Options(args)                    *)
(*                                                                         *)
(* WORDS.  A word is a sequence of chunks.  A chunk is either a string of   *)
(* ordinary characters (letters, digits, - = / . _ :) or one of the four    *)
(* characters that shell quoting is about: SP, DQ ("), SQ ('), BS (\).       *)
(* An option prefix ("-D", "-I", "-std=" ...) is a chunk of its own, and so  *)
(* is the "=" between a macro name and its value, so that "how the word      *)
(* begins" can be read off without indexing into strings.                    *)
(*                                                                         *)
(* OPTIONS (GCC command-line rules).  A word is an ARGUMENT if the word      *)
(* before it is an option that takes a separate argument and is not itself   *)
(* an argument; otherwise it is read as an option (or an operand).  Only     *)
(* -D, -U, -I, -isystem and -std= contribute; the argument of any other      *)
(* option (-o x, -MF x, -MT x, -x c, -include x) contributes nothing, however *)
(* much it looks like one of them, and neither does a path operand such as   *)
(* /Data/x.o (MSVC spellings /D /I /U are not GCC options).                  *)
(*                                                                         *)
(* QUOTING.  Styles that generators of compilation databases emit and on     *)
(* which POSIX sh and cppcheck's documented behaviour agree:                 *)
(*   bare   no special character                                             *)
(*   cmake  CMake: the option prefix bare, the rest in double quotes with \" *)
(*          and \\ if it contains SP, SQ, BS or is empty; else \" bare       *)
(*   dq     the whole word in double quotes, DQ and BS backslash-escaped     *)
(*   sq     the whole word in single quotes, SQ written as '\''  (shlex)     *)
(*   bs     no quotes, every special character backslash-escaped            *)
(* A backslash before an ordinary character is never generated: POSIX sh     *)
(* drops it, cppcheck keeps it on purpose (Windows paths).                   *)
(*                                                                         *)
(* MODEs (IOEnv.MODE): laws, gen, judge.                                     *)
(***************************************************************************)
EXTENDS Integers, Sequences, FiniteSets, TLC, Json, IOUtils, SequencesExt

Mode == IOEnv.MODE

SP == " "
DQ == "\""
SQ == "'"
BS == "\\"
Special == {SP, DQ, SQ, BS}

Concat(s) == FoldLeft(LAMBDA acc, c : acc \o c, "", s)
Text(w) == Concat(w)                       \* the word as the compiler receives it
HasSpecial(w) == \E i \in DOMAIN w : w[i] \in Special

(***************************************************************************)
(* Options                                                                 *)
(***************************************************************************)
Contributing == {"-D", "-U", "-I", "-isystem"}                 \* joined or separate argument
OtherSep == {"-o", "-MF", "-MT", "-MQ", "-x", "-include", "-imacros", "-iquote", "-idirafter"}   \* separate argument, no contribution

\* the word is an option that takes the NEXT word as its argument
TakesNext(w) == Len(w) = 1 /\ w[1] \in (Contributing \cup OtherSep)

\* IsArg(args)[i]: word i is the argument of the option before it
RECURSIVE IsArgUpTo(_, _)
IsArgUpTo(args, i) == IF i = 1 THEN FALSE ELSE (~IsArgUpTo(args, i - 1)) /\ TakesNext(args[i - 1])
IsOptionWord(args, i, p) == ~IsArgUpTo(args, i) /\ args[i][1] = p
\* the value of option p at word i: the rest of the word, or the next word
ValueAt(args, i) == IF Len(args[i]) = 1 THEN args[i + 1] ELSE Tail(args[i])
Occurrences(args, p) == SelectSeq([i \in DOMAIN args |-> i],
                                  LAMBDA i : IsOptionWord(args, i, p) /\ (Len(args[i]) > 1 \/ i < Len(args)))
ValuesOf(args, p) == [n \in DOMAIN Occurrences(args, p) |-> ValueAt(args, Occurrences(args, p)[n])]

\* "-DN" is "-DN=1";  "-DN=v" defines N as v (v may be empty)
DefName(v) == v[1]
DefValue(v) == IF Len(v) >= 2 /\ v[2] = "=" THEN Text(SubSeq(v, 3, Len(v))) ELSE "1"

Options(args) ==
  [defs   |-> [n \in DOMAIN ValuesOf(args, "-D") |-> [name |-> DefName(ValuesOf(args, "-D")[n]), value |-> DefValue(ValuesOf(args, "-D")[n])]],
   undefs |-> {Text(v) : v \in ToSet(ValuesOf(args, "-U"))},
   incs   |-> [n \in DOMAIN ValuesOf(args, "-I") |-> Text(ValuesOf(args, "-I")[n])],
   sys    |-> [n \in DOMAIN ValuesOf(args, "-isystem") |-> Text(ValuesOf(args, "-isystem")[n])],
   std    |-> LET o == SelectSeq([i \in DOMAIN args |-> i], LAMBDA i : IsOptionWord(args, i, "-std="))
              IN IF Len(o) = 0 THEN "" ELSE Text(Tail(args[o[Len(o)]]))]

(***************************************************************************)
(* Quoting                                                                 *)
(***************************************************************************)
Styles == {"cmake", "dq", "sq", "bs"}

Esc(c, set) == IF c \in set THEN <<BS, c>> ELSE <<c>>
\* sequences of atoms (chunks); the command string is their concatenation
InDq(w) == <<DQ>> \o FlattenSeq([i \in DOMAIN w |-> Esc(w[i], {DQ, BS})]) \o <<DQ>>
InSq(w) == <<SQ>> \o FlattenSeq([i \in DOMAIN w |-> IF w[i] = SQ THEN <<SQ, BS, SQ, SQ>> ELSE <<w[i]>>]) \o <<SQ>>
InBs(w) == FlattenSeq([i \in DOMAIN w |-> Esc(w[i], Special)])
\* CMake quotes the part after the option prefix
CmakePart(r) == IF Len(r) = 0 \/ \E i \in DOMAIN r : r[i] \in {SP, SQ, BS} THEN InDq(r) ELSE FlattenSeq([i \in DOMAIN r |-> Esc(r[i], {DQ})])
PrefixLen(w) == IF Len(w) >= 3 /\ w[1] = "-D" /\ w[3] = "=" THEN 3
                ELSE IF Len(w) >= 2 /\ w[2] = "=" /\ w[1] \notin Special THEN 2     \* separate argument of -D: N=value
                ELSE IF Len(w) >= 2 /\ w[1] \in {"-I", "-isystem", "-U", "-D"} THEN 1 ELSE 0
QuoteWord(style, all, w) ==
  IF ~HasSpecial(w) /\ ~(all /\ style \in {"dq", "sq"}) /\ ~(style = "cmake" /\ PrefixLen(w) = Len(w) /\ Len(w) >= 2 /\ w[Len(w)] = "=")
  THEN w
  ELSE CASE style = "dq" -> InDq(w)
         [] style = "sq" -> InSq(w)
         [] style = "bs" -> InBs(w)
         [] style = "cmake" -> SubSeq(w, 1, PrefixLen(w)) \o CmakePart(SubSeq(w, PrefixLen(w) + 1, Len(w)))
QuoteAtoms(style, all, args) ==
  FlattenSeq([i \in DOMAIN args |-> IF i = 1 THEN QuoteWord(style, all, args[i]) ELSE <<SP>> \o QuoteWord(style, all, args[i])])
Command(style, all, args) == Concat(QuoteAtoms(style, all, args))

(***************************************************************************)
(* What a POSIX shell makes of a command (on atoms): the reference reading  *)
(* of a "command" string.  Only used for the round-trip law; "?" marks a     *)
(* construct on which sh and cppcheck are documented to differ.              *)
(***************************************************************************)
RECURSIVE Sh(_, _, _, _, _, _)
\* a: atoms, i: position, m: "n"|"d"|"s", cur: chunks of the current word, started: a word is open, out: finished words
Sh(a, i, m, cur, started, out) ==
  IF i > Len(a) THEN (IF m # "n" THEN <<<<"?">>>> ELSE IF started THEN Append(out, cur) ELSE out)
  ELSE LET c == a[i] IN
    IF m = "s" THEN (IF c = SQ THEN Sh(a, i + 1, "n", cur, TRUE, out) ELSE Sh(a, i + 1, "s", Append(cur, c), TRUE, out))
    ELSE IF m = "d" THEN
      (IF c = DQ THEN Sh(a, i + 1, "n", cur, TRUE, out)
       ELSE IF c = BS THEN (IF i < Len(a) /\ a[i + 1] \in {DQ, BS} THEN Sh(a, i + 2, "d", Append(cur, a[i + 1]), TRUE, out) ELSE <<<<"?">>>>)
       ELSE Sh(a, i + 1, "d", Append(cur, c), TRUE, out))
    ELSE
      (IF c = SP THEN (IF started THEN Sh(a, i + 1, "n", <<>>, FALSE, Append(out, cur)) ELSE Sh(a, i + 1, "n", <<>>, FALSE, out))
       ELSE IF c = DQ THEN Sh(a, i + 1, "d", cur, TRUE, out)
       ELSE IF c = SQ THEN Sh(a, i + 1, "s", cur, TRUE, out)
       ELSE IF c = BS THEN (IF i < Len(a) /\ a[i + 1] \in Special THEN Sh(a, i + 2, "n", Append(cur, a[i + 1]), TRUE, out) ELSE <<<<"?">>>>)
       ELSE Sh(a, i + 1, "n", Append(cur, c), TRUE, out))
ShWords(atoms) == Sh(atoms, 1, "n", <<>>, FALSE, <<>>)
\* adjacent ordinary chunks are one piece of text: compare words by their text
Texts(args) == [i \in DOMAIN args |-> Text(args[i])]

(***************************************************************************)
(* Case space: an argument vector is  argv0, up to three ELEMENTS, -c, file *)
(* An element is one or two words with a class name (used to name a          *)
(* deviation).                                                               *)
(***************************************************************************)
El(cls, ws) == [cls |-> cls, ws |-> ws]

\* macro values: A numeric, E empty, Q contains "=", S string literals, C character literal, W backslash
DefBodies == <<
  [cls |-> "plain",    v |-> <<"A">>],
  [cls |-> "plain",    v |-> <<"B">>],
  [cls |-> "num",      v |-> <<"A", "=", "2">>],
  [cls |-> "neg",      v |-> <<"A", "=", "-1">>],
  [cls |-> "empty",    v |-> <<"E", "=">>],
  [cls |-> "eq",       v |-> <<"Q", "=", "x", "=", "y">>],
  [cls |-> "str-sp",   v |-> <<"S", "=", DQ, "a", SP, "b", DQ>>],
  [cls |-> "str",      v |-> <<"S", "=", DQ, "x", DQ>>],
  [cls |-> "chr",      v |-> <<"C", "=", SQ, "c", SQ>>],
  [cls |-> "bslash",   v |-> <<"W", "=", "a", BS, "b">>]
>>
IncPaths == <<
  [cls |-> "rel",   v |-> <<"inc">>],
  [cls |-> "rel2",  v |-> <<"sub/inc">>],
  [cls |-> "abs",   v |-> <<"/opt/inc">>],
  [cls |-> "space", v |-> <<"sp", SP, "ace">>]
>>
\* words that look like options / MSVC options but stand where GCC expects the argument of another option
Decoys == <<
  [cls |-> "file",     v |-> <<"out.o">>],
  [cls |-> "likeD",    v |-> <<"-D", "X">>],
  [cls |-> "likeI",    v |-> <<"-I", "junk">>],
  [cls |-> "likeU",    v |-> <<"-U", "Y">>],
  [cls |-> "likeStd",  v |-> <<"-std=", "c89">>],
  [cls |-> "slashD",   v |-> <<"/Data/x.o">>],
  [cls |-> "slashU",   v |-> <<"/Users/x.d">>],
  [cls |-> "slashI",   v |-> <<"/Include/x.h">>]
>>
Elements ==
     {El("D-joined:" \o DefBodies[i].cls, <<<<"-D">> \o DefBodies[i].v>>) : i \in DOMAIN DefBodies}
\cup {El("D-sep:" \o DefBodies[i].cls, <<<<"-D">>, DefBodies[i].v>>) : i \in DOMAIN DefBodies}
\cup {El("U-joined", <<<<"-U", n>>>>) : n \in {"B", "Z"}} \cup {El("U-sep", <<<<"-U">>, <<n>>>>) : n \in {"B", "Z"}}
\cup {El("I-joined:" \o IncPaths[i].cls, <<<<"-I">> \o IncPaths[i].v>>) : i \in DOMAIN IncPaths}
\cup {El("I-sep:" \o IncPaths[i].cls, <<<<"-I">>, IncPaths[i].v>>) : i \in DOMAIN IncPaths}
\cup {El("isystem-sep", <<<<"-isystem">>, <<"sys">>>>), El("isystem-joined", <<<<"-isystem", "sys">>>>)}
\cup {El("std", <<<<"-std=", s>>>>) : s \in {"c89", "c99", "c11"}}
\cup {El("arg-of:-o:" \o Decoys[i].cls, <<<<"-o">>, Decoys[i].v>>) : i \in DOMAIN Decoys}
\cup {El("arg-of:" \o o \o ":" \o Decoys[i].cls, <<<<o>>, Decoys[i].v>>) : o \in {"-MF", "-include", "-MT"}, i \in {2, 6}}
\cup {El("arg-of:-x", <<<<"-x">>, <<"c">>>>)}
\cup {El("flag", <<<<f>>>>) : f \in {"-O2", "-Wall", "-g", "-pthread", "-fno-common", "-march=native"}}

\* an element whose second word only looks like an option (the argument of -o, -MF, -MT, -include)
IsDecoy(e) == Len(e.ws) = 2 /\ e.ws[1][1] \in {"-o", "-MF", "-MT", "-include"} /\ e.ws[2] # <<"out.o">>
Words(els) == FlattenSeq([i \in DOMAIN els |-> els[i].ws])
\* a command line a build system would emit: no macro defined twice or defined and undefined, no directory twice,
\* one -std at most (the decoys do not count: they are arguments)
WellFormed(els) ==
  LET o == Options(Words(els)) IN
  /\ \A i, j \in DOMAIN o.defs : i # j => o.defs[i].name # o.defs[j].name
  /\ \A i \in DOMAIN o.defs : o.defs[i].name \notin o.undefs
  /\ \A i, j \in DOMAIN o.incs : i # j => o.incs[i] # o.incs[j]
  /\ Cardinality({i \in DOMAIN els : els[i].cls = "std"}) <= 1
  /\ Cardinality({i \in DOMAIN els : els[i].cls \in {"U-joined", "U-sep"}}) = Cardinality(o.undefs)
  /\ Cardinality({i \in DOMAIN els : els[i].cls \in {"isystem-sep", "isystem-joined"}}) <= 1

Params == ndJsonDeserialize(IOEnv.PARAMS)[1]
ElemSeq == SetToSeq(Elements)

\* forms of one case: the arguments array and the command string in every style
Forms == <<[form |-> "arguments", style |-> "", all |-> FALSE],
           [form |-> "command", style |-> "cmake", all |-> FALSE],
           [form |-> "command", style |-> "dq", all |-> FALSE],
           [form |-> "command", style |-> "dq", all |-> TRUE],
           [form |-> "command", style |-> "sq", all |-> FALSE],
           [form |-> "command", style |-> "sq", all |-> TRUE],
           [form |-> "command", style |-> "bs", all |-> FALSE]>>

\* the full argument vector of a case; the file word is a placeholder the renderer replaces by the entry's file
FILEWORD == "@FILE@"
ArgsOf(c) == <<<<c.argv0>>>> \o Words(c.els) \o <<<<"-c">>, <<FILEWORD>>>>

CaseRec(id, els, argv0, dirkind, filekind) ==
  LET c == [els |-> els, argv0 |-> argv0]
      args == ArgsOf(c) IN
  [id |-> id, els |-> els, argv0 |-> argv0, dirkind |-> dirkind, filekind |-> filekind,
   classes |-> [i \in DOMAIN els |-> els[i].cls],
   arguments |-> Texts(args),
   commands |-> [f \in 1..(Len(Forms) - 1) |-> Command(Forms[f + 1].style, Forms[f + 1].all, args)]]

DirKinds == <<"abs", "abs-sub", "rel-dot", "rel-sub">>
FileKinds == <<"rel", "abs">>

ASSUME Mode = "gen" =>
  LET p == TLCEval(Params)
      es == TLCEval(ElemSeq)
      n == Len(es)
      s1 == TLCEval(SetToSeq({<<e>> : e \in Elements}))
      s2 == TLCEval(IF p.pairs THEN SetToSeq({v \in {<<a, b>> : a \in Elements, b \in Elements} : WellFormed(v)}) ELSE <<>>)
      \* most sampled triples avoid the decoy arguments, so that a deviation of theirs is not attributed to a decoy
      cs == TLCEval(SetToSeq({e \in Elements : ~IsDecoy(e)}))
      s3 == TLCEval(SetToSeq({v \in {[m \in DOMAIN p.sample[k] |-> es[(p.sample[k][m] % n) + 1]] : k \in DOMAIN p.sample}
                                      \cup {[m \in DOMAIN p.sample_clean[k] |-> cs[(p.sample_clean[k][m] % Len(cs)) + 1]] : k \in DOMAIN p.sample_clean}
                                    : WellFormed(v)}
                             \ (ToSet(s1) \cup ToSet(s2))))
      all == TLCEval(s1 \o s2 \o s3)
      mine == TLCEval(SelectSeq([i \in DOMAIN all |-> i], LAMBDA i : i % p.nshards = p.shard))
  IN /\ ndJsonSerialize(IOEnv.OUT, [k \in DOMAIN mine |->
          CaseRec(mine[k], all[mine[k]], IF mine[k] % 2 = 0 THEN "gcc" ELSE "/usr/bin/cc",
                  DirKinds[(mine[k] % 4) + 1], FileKinds[((mine[k] \div 4) % 2) + 1])])
     /\ PrintT(<<"VECTORS", Len(all), "MINE", Len(mine), "S1", Len(s1), "S2", Len(s2), "S3", Len(s3), "ELEMENTS", n>>)

(***************************************************************************)
(* Judge.  The renderer turned every case into one compilation-database      *)
(* entry per form; an observation says what cppcheck used for that entry:    *)
(*   defines  the text of "Defines:" / FileSettings::defines  ("A=1;B=2")     *)
(*   undefs   sequence of names;  incs  sequence of absolute directories      *)
(*   std      FileSettings::standard (unit binding only, "-" when not seen)   *)
(*   facts    (end-to-end only) names of the probes of the source that fired  *)
(*   ok       the entry was analysed at all                                   *)
(* IOEnv.ROOT is the absolute directory that holds compile_commands.json.    *)
(***************************************************************************)
Root == IOEnv.ROOT
DirOf(kind) == IF kind \in {"abs", "rel-dot"} THEN Root ELSE Root \o "/sub"
AbsInc(p, kind) == IF p = "/opt/inc" THEN p ELSE DirOf(kind) \o "/" \o p

DefText(o) == FoldLeft(LAMBDA acc, d : (IF acc = "" THEN "" ELSE acc \o ";") \o d.name \o "=" \o d.value, "", o.defs)
Expected(c) ==
  LET o == Options(ArgsOf(c)) IN
  [defines |-> DefText(o), undefs |-> o.undefs, incs |-> [i \in DOMAIN o.incs |-> AbsInc(o.incs[i], c.dirkind)], std |-> o.std]

\* probes of the analysed source: a probe fires (a finding at its line) iff its condition holds in the analysed
\* configuration.  Truth under the expected options:
DefinedIn(o, n) == \E i \in DOMAIN o.defs : o.defs[i].name = n
ValueIn(o, n) == LET i == CHOOSE i \in DOMAIN o.defs : o.defs[i].name = n IN o.defs[i].value
Probes == <<
  [fact |-> "def:A", cond |-> "defined(A)"], [fact |-> "def:B", cond |-> "defined(B)"], [fact |-> "def:E", cond |-> "defined(E)"],
  [fact |-> "def:Q", cond |-> "defined(Q)"], [fact |-> "def:S", cond |-> "defined(S)"], [fact |-> "def:C", cond |-> "defined(C)"],
  [fact |-> "def:W", cond |-> "defined(W)"], [fact |-> "def:X", cond |-> "defined(X)"], [fact |-> "def:Y", cond |-> "defined(Y)"],
  [fact |-> "def:Z", cond |-> "defined(Z)"],
  [fact |-> "A==1", cond |-> "defined(A) && A == 1"], [fact |-> "A==2", cond |-> "defined(A) && A == 2"],
  [fact |-> "A==-1", cond |-> "defined(A) && A == -1"], [fact |-> "B==1", cond |-> "defined(B) && B == 1"],
  [fact |-> "c99", cond |-> "__STDC_VERSION__ >= 199901L"], [fact |-> "c11", cond |-> "__STDC_VERSION__ >= 201112L"],
  [fact |-> "inc:inc", cond |-> "defined(H_INC)"], [fact |-> "inc:sub/inc", cond |-> "defined(H_SUB_INC)"],
  [fact |-> "inc:sub/sub/inc", cond |-> "defined(H_SUB_SUB_INC)"], [fact |-> "inc:sp ace", cond |-> "defined(H_SP_ACE)"],
  [fact |-> "inc:sub/sp ace", cond |-> "defined(H_SUB_SP_ACE)"] >>
\* which facts are decided by the options (a probe of the language standard is decided only if -std= is given)
Decided(o) == {Probes[i].fact : i \in DOMAIN Probes} \ (IF o.std = "" THEN {"c99", "c11"} ELSE {})
Holds(o, kind, f) ==
  CASE f \in {"def:A", "def:B", "def:E", "def:Q", "def:S", "def:C", "def:W", "def:X", "def:Y", "def:Z"} ->
         \E n \in {"A", "B", "E", "Q", "S", "C", "W", "X", "Y", "Z"} : f = "def:" \o n /\ DefinedIn(o, n)
    [] f = "A==1"  -> DefinedIn(o, "A") /\ ValueIn(o, "A") = "1"
    [] f = "A==2"  -> DefinedIn(o, "A") /\ ValueIn(o, "A") = "2"
    [] f = "A==-1" -> DefinedIn(o, "A") /\ ValueIn(o, "A") = "-1"
    [] f = "B==1"  -> DefinedIn(o, "B") /\ ValueIn(o, "B") = "1"
    [] f = "c99"   -> o.std \in {"c99", "c11"}
    [] f = "c11"   -> o.std = "c11"
    \* a header of directory d (relative to the root) is found iff d is one of the include directories
    [] OTHER       -> \E i \in DOMAIN o.incs : f = "inc:" \o (IF kind \in {"abs", "rel-dot"} THEN "" ELSE "sub/") \o o.incs[i]

JCases == IF Mode = "judge" THEN ndJsonDeserialize(IOEnv.CASES) ELSE <<>>
JObs   == IF Mode = "judge" THEN ndJsonDeserialize(IOEnv.OBS) ELSE <<>>
\* JObs[n].forms[f] is the observation of form f of case n
JExp == [n \in DOMAIN JCases |-> Expected(JCases[n])]

\* the differences between one observation and the expectation, as short texts; empty set = conforming
Diff(n, ob) ==
  LET e == JExp[n] IN
  IF ~ob.ok THEN {"entry not analysed"}
  ELSE (IF ob.defines # e.defines THEN {"defines: expected [" \o e.defines \o "] observed [" \o ob.defines \o "]"} ELSE {})
  \cup (IF ToSet(ob.undefs) # e.undefs THEN {"undefines differ"} ELSE {})
  \cup (IF ob.incs # e.incs THEN {"include paths differ"} ELSE {})
  \cup (IF ob.std # "-" /\ ob.std # e.std THEN {"standard: expected [" \o e.std \o "] observed [" \o ob.std \o "]"} ELSE {})
  \cup (IF ob.e2e
        THEN LET o == Options(ArgsOf(JCases[n]))
                 want == {f \in Decided(o) : Holds(o, JCases[n].dirkind, f)}
                 got == ToSet(ob.facts) \cap Decided(o) IN
             IF got # want THEN {"effective configuration differs: expected probes " \o ToString(want) \o " observed " \o ToString(got)} ELSE {}
        ELSE {})

JPairs == UNION {{<<n, f>> : f \in DOMAIN JObs[n].forms} : n \in DOMAIN JCases}
\* evaluated once per (case, form)
DiffOf == [p \in JPairs |-> Diff(p[1], JObs[p[1]].forms[p[2]])]
BadPairs == {p \in JPairs : DiffOf[p] # {}}
BadRec(p) ==
  [id |-> JCases[p[1]].id, form |-> p[2],
   formname |-> IF p[2] = 1 THEN "arguments" ELSE "command:" \o Forms[p[2]].style \o (IF Forms[p[2]].all THEN "-all" ELSE ""),
   diff |-> SetToSeq(DiffOf[p]),
   expected |-> [defines |-> JExp[p[1]].defines, undefs |-> SetToSeq(JExp[p[1]].undefs), incs |-> JExp[p[1]].incs, std |-> JExp[p[1]].std]]

ASSUME Mode = "judge" =>
  /\ Len(JCases) = Len(JObs)
  /\ \A n \in DOMAIN JCases : JCases[n].id = JObs[n].id
  /\ ndJsonSerialize(IOEnv.OUT, LET b == SetToSeq(BadPairs) IN [m \in DOMAIN b |-> BadRec(b[m])])
  /\ PrintT(<<"JUDGED", Cardinality(JPairs), "CASES", Len(JCases),
              "NONTRIVIAL", Cardinality({n \in DOMAIN JCases : JExp[n].defines # "" \/ JExp[n].undefs # {} \/ Len(JExp[n].incs) > 0 \/ JExp[n].std # ""}),
              "BAD", Cardinality(BadPairs)>>)

(***************************************************************************)
(* Laws.  Round trip: the POSIX-shell reading of every rendering gives the   *)
(* words back.  Option semantics: the manual's / GCC's standard examples.    *)
(***************************************************************************)
\* (guarded: TLC evaluates every constant definition at startup in every mode)
LawVectors == IF Mode # "laws" THEN {} ELSE {<<e>> : e \in Elements} \cup (IF Params.pairs THEN {v \in {<<a, b>> : a \in Elements, b \in Elements} : WellFormed(v)} ELSE {})
W(s) == <<s>>
Laws == Mode = "laws" =>
  /\ \A v \in LawVectors : LET args == ArgsOf([els |-> v, argv0 |-> "gcc"]) IN
        \A f \in 2..Len(Forms) : Texts(ShWords(QuoteAtoms(Forms[f].style, Forms[f].all, args))) = Texts(args)
  \* quoting never changes the options, because it never changes the words
  /\ \A v \in LawVectors : LET args == ArgsOf([els |-> v, argv0 |-> "gcc"]) IN
        \A f \in 2..Len(Forms) : Concat(QuoteAtoms(Forms[f].style, Forms[f].all, args)) = Command(Forms[f].style, Forms[f].all, args)
  \* joined and separate spellings mean the same
  /\ \A i \in DOMAIN DefBodies : Options(<<W("gcc"), <<"-D">> \o DefBodies[i].v>>) = Options(<<W("gcc"), W("-D"), DefBodies[i].v>>)
  /\ \A i \in DOMAIN IncPaths : Options(<<W("gcc"), <<"-I">> \o IncPaths[i].v>>) = Options(<<W("gcc"), W("-I"), IncPaths[i].v>>)
  \* the argument of another option contributes nothing
  /\ \A o \in OtherSep, i \in DOMAIN Decoys : Options(<<W("gcc"), W(o), Decoys[i].v>>) = Options(<<W("gcc")>>)
  \* ... but the same word standing alone is an option
  /\ Options(<<W("gcc"), <<"-D", "X">>>>).defs = <<[name |-> "X", value |-> "1"]>>
  /\ Options(<<W("gcc"), W("-o"), <<"-D", "X">>, <<"-D", "A">>>>).defs = <<[name |-> "A", value |-> "1"]>>
  \* examples: what CMake writes for -DS="a b" and what it means
  /\ Command("cmake", FALSE, <<W("cc"), <<"-D", "S", "=", DQ, "a", SP, "b", DQ>>>>) = "cc -DS=\"\\\"a b\\\"\""
  /\ Command("cmake", FALSE, <<W("cc"), <<"-D", "S", "=", DQ, "x", DQ>>>>) = "cc -DS=\\\"x\\\""
  /\ Command("cmake", FALSE, <<W("cc"), <<"-D", "E", "=">>, <<"-I", "sp", SP, "ace">>>>) = "cc -DE=\"\" -I\"sp ace\""
  /\ Command("sq", FALSE, <<W("cc"), <<"-D", "C", "=", SQ, "c", SQ>>>>) = "cc '-DC='\\''c'\\'''"
  /\ Options(<<W("cc"), <<"-D", "S", "=", DQ, "a", SP, "b", DQ>>, <<"-D", "A">>, <<"-U", "Z">>, <<"-std=", "c99">>, W("-I"), W("inc")>>)
       = [defs |-> <<[name |-> "S", value |-> "\"a b\""], [name |-> "A", value |-> "1"]>>, undefs |-> {"Z"}, incs |-> <<"inc">>, sys |-> <<>>, std |-> "c99"]

ASSUME Mode = "laws" => Laws /\ PrintT(<<"LAWS", Cardinality(LawVectors), Cardinality(Elements)>>)

\* the probes, for the renderer of the analysed source
ASSUME Mode = "probes" => ndJsonSerialize(IOEnv.OUT, Probes)
=============================================================================
