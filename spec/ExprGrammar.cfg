\* ExprGrammar has no behaviour: TLC evaluates the ASSUMEs selected by IOEnv.MODE.
