---- MODULE P_tmp_c30 ----
EXTENDS LibValid
B9 == {-20, -15, -10, 0, 5, 10, 15, 20, 100}
X1 == SetToSeq(Items(B9))
X4 == SetToSeq(Items(ToSetOf(Params.bounds)))
X5 == TLCEval(SetToSeq(Items(ToSetOf(Params.bounds))))
NN == 3000
ASSUME IOEnv.W = "1" => \A i \in 1..NN : X1[(i % Len(X1)) + 1].k # "zz"
ASSUME IOEnv.W = "2" => LET xx == SetToSeq(Items(B9)) IN \A i \in 1..NN : xx[(i % Len(xx)) + 1].k # "zz"
ASSUME IOEnv.W = "3" => LET xx == TLCEval(SetToSeq(Items(B9))) IN \A i \in 1..NN : xx[(i % Len(xx)) + 1].k # "zz"
ASSUME IOEnv.W = "4" => \A i \in 1..NN : X4[(i % Len(X4)) + 1].k # "zz"
ASSUME IOEnv.W = "5" => \A i \in 1..NN : X5[(i % Len(X5)) + 1].k # "zz"
ASSUME IOEnv.W = "6" => LET xx == TLCEval(SetToSeq(Items(ToSetOf(Params.bounds)))) IN \A i \in 1..NN : xx[(i % Len(xx)) + 1].k # "zz"
ASSUME IOEnv.W = "7" => LET xx == SetToSeq(Items(ToSetOf(Params.bounds))) IN \A i \in 1..NN : xx[(i % Len(xx)) + 1].k # "zz"
====
