
