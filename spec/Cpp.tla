--------------------------------- MODULE Cpp ---------------------------------
(***************************************************************************)
(* C11 - preprocessing matches a conforming preprocessor.                  *)
(*                                                                         *)
(* A small conforming-preprocessor semantics (ISO C 6.10, C++ [cpp]) over  *)
(* a small token alphabet.  The input of the semantics is already split    *)
(* into preprocessing tokens and logical lines (the renderer writes every  *)
(* token separated by one blank, so translation phases 1-3 are trivial);   *)
(* the output is the sequence of the spellings of the preprocessing tokens *)
(* that reach translation phase 7.  White space is not part of the output. *)
(*                                                                         *)
(* Covered: object-like and function-like macros, argument collection over *)
(* nested parentheses, complete macro replacement of arguments before      *)
(* substitution (6.10.3.1), # (6.10.3.2), ## with placemarkers (6.10.3.3), *)
(* __VA_ARGS__, rescanning with the rule that a macro name found during    *)
(* its own replacement is not replaced and stays unavailable (6.10.3.4,    *)
(* formalised with hide sets as in Prosser's algorithm), #undef, #if /     *)
(* #ifdef / #ifndef / #elif / #else / #endif with integer expressions and  *)
(* `defined`, #include "x" and <x> over a virtual file tree with -I order, *)
(* a forced include (--include), -D and -U.                                *)
(*                                                                         *)
(* Whatever the standard leaves undefined or ill-formed (invalid paste     *)
(* result, wrong argument count, unterminated invocation, header not       *)
(* found, bad #if expression ...) evaluates to the token Undef; a case     *)
(* whose expected output contains Undef is not judged.                     *)
(*                                                                         *)
(* Steps (IOEnv.STEP): "gen" writes the cases of a stratum, "judge"        *)
(* compares the observations of cppcheck -E and of the second witness      *)
(* (gcc -E) with Expected, "laws" checks laws of the definitions.          *)
(***************************************************************************)
EXTENDS Integers, Sequences, FiniteSets, TLC, Json, IOUtils, SequencesExt

Step == IOEnv.STEP

(***************************************************************************)
(* Tokens.  s: spelling, k: kind, h: hide set (names of the macros whose   *)
(* replacement produced the token).                                        *)
(***************************************************************************)
Nums == {"0", "1", "2", "3"}
Str1 == "\"s\""            \* "s"
Str2 == "\"\\n\""          \* "\n"  (4 characters)
Strs == {Str1, Str2}
Puncts == {"(", ")", ",", ";", "+", "-", "*", "<", ">", "<=", ">=", "==", "!=", "&&", "||", "!", "?", ":",
           "#", "##", "...", "[", "]", "++"}
Kind(s) == IF s \in Nums THEN "num" ELSE IF s \in Strs THEN "str" ELSE IF s \in Puncts THEN "p" ELSE "id"
Tok(s) == [s |-> s, k |-> Kind(s), h |-> {}]
Toks(ss) == [i \in DOMAIN ss |-> Tok(ss[i])]
Undef == [s |-> "?undef", k |-> "undef", h |-> {}]
PM == [s |-> "", k |-> "pm", h |-> {}]          \* placemarker (6.10.3.3p2)
Spell(ts) == [i \in DOMAIN ts |-> ts[i].s]
Defined(ts) == \A i \in DOMAIN ts : ts[i].k # "undef"

\* spelling of a string literal inside a stringized argument: \ before every " and \ (6.10.3.2p2)
StrEsc(s) == IF s = Str1 THEN "\\\"s\\\"" ELSE IF s = Str2 THEN "\\\"\\\\n\\\"" ELSE s

(***************************************************************************)
(* Macro table: name -> [fun, params, va, body].  The entry "" is a        *)
(* sentinel (no identifier is spelled "").                                 *)
(***************************************************************************)
NoMacros == ("" :> [fun |-> FALSE, params |-> <<>>, va |-> FALSE, body |-> <<>>])
IsMacro(M, n) == n # "" /\ n \in DOMAIN M
DefineM(M, n, d) == (n :> d) @@ M
UndefM(M, n) == [x \in (DOMAIN M) \ ({n} \ {""}) |-> M[x]]
ParamNames(m) == {m.params[i] : i \in DOMAIN m.params} \cup (IF m.va THEN {"__VA_ARGS__"} ELSE {})

\* a definition the standard accepts: # only before a parameter (function-like), ## not at either end,
\* parameters distinct, __VA_ARGS__ only in variadic macros
ValidDef(m) ==
  LET b == m.body n == Len(m.body) IN
  /\ \A i \in 1..n : b[i].s = "##" => i > 1 /\ i < n
  /\ m.fun => \A i \in 1..n : b[i].s = "#" => i < n /\ b[i + 1].s \in ParamNames(m)
  /\ Cardinality({m.params[i] : i \in DOMAIN m.params}) = Len(m.params)
  /\ \A i \in 1..n : b[i].s = "__VA_ARGS__" => m.va
  /\ \A i \in DOMAIN m.params : m.params[i] # "__VA_ARGS__"

(***************************************************************************)
(* ## : the token formed by the spellings of both operands (6.10.3.3p3).   *)
(* If the result is not a valid preprocessing token the behaviour is       *)
(* undefined.                                                              *)
(***************************************************************************)
Paste(l, r) ==
  IF l.k = "pm" THEN r
  ELSE IF r.k = "pm" THEN l
  ELSE IF l.k = "undef" \/ r.k = "undef" THEN Undef
  ELSE LET h == l.h \cap r.h IN
    IF l.k = "id" /\ r.k \in {"id", "num"} THEN [s |-> l.s \o r.s, k |-> "id", h |-> h]
    ELSE IF l.k = "num" /\ r.k \in {"id", "num"} THEN [s |-> l.s \o r.s, k |-> "num", h |-> h]     \* pp-number
    ELSE IF l.k = "p" /\ r.k = "p" /\ (l.s \o r.s) \in Puncts THEN [s |-> l.s \o r.s, k |-> "p", h |-> h]
    ELSE Undef

\* OS ## RS : the last token of OS is pasted with the first token of RS
Glue(os, rs) ==
  IF os = <<>> THEN rs ELSE IF rs = <<>> THEN os
  ELSE SubSeq(os, 1, Len(os) - 1) \o <<Paste(os[Len(os)], rs[1])>> \o Tail(rs)

\* # : spellings of the argument's tokens separated by one blank (the renderer separates all tokens by one blank)
RECURSIVE JoinSp(_)
JoinSp(ts) == IF ts = <<>> THEN "" ELSE IF Len(ts) = 1 THEN (IF ts[1].k = "str" THEN StrEsc(ts[1].s) ELSE ts[1].s)
              ELSE (IF ts[1].k = "str" THEN StrEsc(ts[1].s) ELSE ts[1].s) \o " " \o JoinSp(Tail(ts))
\* (a string literal that was itself made by # would need its escaped spelling; strings cannot be inspected here: not judged)
Stringize(ts) == IF Defined(ts) /\ \A i \in DOMAIN ts : ts[i].k = "str" => ts[i].s \in Strs THEN [s |-> "\"" \o JoinSp(ts) \o "\"", k |-> "str", h |-> {}] ELSE Undef

(***************************************************************************)
(* Argument collection: the tokens between the parentheses of an           *)
(* invocation, split at the commas that are not inside nested parentheses. *)
(***************************************************************************)
\* index of the ")" matching the "(" at ts[1], 0 if there is none
RECURSIVE MatchFrom(_, _, _)
MatchFrom(ts, i, depth) ==
  IF i > Len(ts) THEN 0
  ELSE IF ts[i].s = "(" /\ ts[i].k = "p" THEN MatchFrom(ts, i + 1, depth + 1)
  ELSE IF ts[i].s = ")" /\ ts[i].k = "p" THEN (IF depth = 1 THEN i ELSE MatchFrom(ts, i + 1, depth - 1))
  ELSE MatchFrom(ts, i + 1, depth)
MatchParen(ts) == MatchFrom(ts, 1, 0)

\* split at top-level commas: <<a , ( b , c ) , d>> -> << <<a>>, <<( b , c )>>, <<d>> >>; no tokens -> << <<>> >>
RECURSIVE SplitFrom(_, _, _, _)
SplitFrom(ts, i, depth, cur) ==
  IF i > Len(ts) THEN <<cur>>
  ELSE IF ts[i].s = "," /\ ts[i].k = "p" /\ depth = 0 THEN <<cur>> \o SplitFrom(ts, i + 1, 0, <<>>)
  ELSE SplitFrom(ts, i + 1,
                 IF ts[i].k = "p" /\ ts[i].s = "(" THEN depth + 1 ELSE IF ts[i].k = "p" /\ ts[i].s = ")" THEN depth - 1 ELSE depth,
                 Append(cur, ts[i]))
SplitArgs(ts) == SplitFrom(ts, 1, 0, <<>>)

RECURSIVE JoinComma(_)
JoinComma(as) == IF as = <<>> THEN <<>> ELSE IF Len(as) = 1 THEN as[1] ELSE as[1] \o <<Tok(",")>> \o JoinComma(Tail(as))

\* parameter -> argument (token sequence) for an invocation with the raw arguments as; "?" -> <<Undef>> if the count is wrong
Bind(m, as0) ==
  LET n == Len(m.params)
      as == IF n = 0 /\ ~m.va /\ as0 = << <<>> >> THEN <<>> ELSE as0      \* F() for a macro without parameters
      ok == IF m.va THEN Len(as) >= n ELSE Len(as) = n
      named == [p \in {m.params[i] : i \in 1..n} |-> as[CHOOSE i \in 1..n : m.params[i] = p]]
      va == IF m.va THEN ("__VA_ARGS__" :> JoinComma(SubSeq(as, n + 1, Len(as)))) ELSE ("" :> <<>>)
  IN IF ok THEN ("" :> <<>>) @@ named @@ va ELSE ("?" :> <<Undef>>)

(***************************************************************************)
(* Macro replacement (6.10.3).  Expand(ts) rescans ts from the left;       *)
(* Subst builds the replacement of one invocation.  fuel bounds the depth  *)
(* of replacements; the hide sets make every expansion terminate (law      *)
(* Terminates), the bound only turns a mistake in this module into Undef.  *)
(***************************************************************************)
Fuel == 24
MaxLen == 100      \* token sequences longer than this are not judged (TLC evaluates Expand with one stack frame per token)
HsAdd(hs, ts) == [i \in DOMAIN ts |-> [ts[i] EXCEPT !.h = @ \cup hs]]
NoPM(ts) == SelectSeq(ts, LAMBDA t : t.k # "pm")

RECURSIVE Expand(_, _, _), Subst(_, _, _, _, _, _, _)
Expand(ts, M, fuel) ==
  IF ts = <<>> THEN <<>>
  ELSE IF Len(ts) > MaxLen THEN <<Undef>>
  ELSE LET t == Head(ts) rest == Tail(ts) IN
    IF t.k # "id" \/ ~IsMacro(M, t.s) \/ t.s \in t.h THEN <<t>> \o Expand(rest, M, fuel)
    ELSE IF fuel = 0 THEN <<Undef>>
    ELSE LET m == M[t.s] IN
      IF ~m.fun
      THEN Expand(Subst(m, 1, ("" :> <<>>), t.h \cup {t.s}, <<>>, M, fuel - 1) \o rest, M, fuel - 1)
      ELSE IF rest = <<>> \/ ~(rest[1].s = "(" /\ rest[1].k = "p") THEN <<t>> \o Expand(rest, M, fuel)
      ELSE LET close == MatchParen(rest) IN
        IF close = 0 THEN <<Undef>>                                    \* unterminated invocation
        ELSE LET P == Bind(m, SplitArgs(SubSeq(rest, 2, close - 1)))
                 hs == (t.h \cap rest[close].h) \cup {t.s}
             IN IF "?" \in DOMAIN P \/ ~Defined(SubSeq(rest, 2, close - 1)) THEN <<Undef>>   \* wrong number of arguments / undefined inside
                ELSE Expand(Subst(m, 1, P, hs, <<>>, M, fuel - 1) \o SubSeq(rest, close + 1, Len(rest)), M, fuel - 1)

\* i: position in the replacement list, P: parameter -> argument, os: output so far
Subst(m, i, P, hs, os, M, fuel) ==
  LET b == m.body n == Len(m.body)
      IsParam(j) == j <= n /\ b[j].k = "id" /\ b[j].s # "" /\ b[j].s \in DOMAIN P
      IsHash(j) == m.fun /\ j < n /\ b[j].s = "#" /\ b[j].k = "p" /\ IsParam(j + 1)
      IsPaste(j) == j <= n /\ b[j].s = "##" /\ b[j].k = "p"
      \* operand of ## : the argument as it is (not macro-replaced), a placemarker if it has no tokens
      Raw(j) == IF IsParam(j) THEN (IF P[b[j].s] = <<>> THEN <<PM>> ELSE P[b[j].s]) ELSE <<b[j]>>
  IN
  IF i > n THEN HsAdd(hs, NoPM(os))
  ELSE IF IsHash(i) THEN Subst(m, i + 2, P, hs, os \o <<Stringize(P[b[i + 1].s])>>, M, fuel)
  ELSE IF IsPaste(i) THEN
       (IF IsHash(i + 1) THEN Subst(m, i + 3, P, hs, Glue(os, <<Stringize(P[b[i + 2].s])>>), M, fuel)
        ELSE IF i + 1 <= n THEN Subst(m, i + 2, P, hs, Glue(os, Raw(i + 1)), M, fuel)
        ELSE <<Undef>>)
  ELSE IF IsPaste(i + 1) THEN Subst(m, i + 1, P, hs, os \o Raw(i), M, fuel)
  ELSE IF IsParam(i) THEN Subst(m, i + 1, P, hs, os \o Expand(P[b[i].s], M, fuel), M, fuel)
  ELSE Subst(m, i + 1, P, hs, os \o <<b[i]>>, M, fuel)

\* a text run: all tokens between two directives
ExpandText(ss, M) ==
  LET r == Expand(Toks(ss), M, Fuel) IN
  \* an invocation may not be completed by tokens behind a directive or the end of a file: not judged
  IF r # <<>> /\ r[Len(r)].k = "id" /\ IsMacro(M, r[Len(r)].s) /\ M[r[Len(r)].s].fun /\ r[Len(r)].s \notin r[Len(r)].h
  THEN r \o <<Undef>> ELSE r

(***************************************************************************)
(* #if expressions (6.10.1): `defined` is evaluated first, then macros are *)
(* replaced, remaining identifiers are 0, the result is an integer         *)
(* constant expression over || && == != < > <= >= + - * ! unary- ?:        *)
(* Err is the value of an expression that is not well-formed.              *)
(***************************************************************************)
Err == -99999
RECURSIVE DefinedPass(_, _)
DefinedPass(ss, M) ==
  IF ss = <<>> THEN <<>>
  ELSE IF ss[1] = "defined" THEN
    IF Len(ss) >= 4 /\ ss[2] = "(" /\ Kind(ss[3]) = "id" /\ ss[4] = ")"
    THEN <<Tok(IF IsMacro(M, ss[3]) THEN "1" ELSE "0")>> \o DefinedPass(SubSeq(ss, 5, Len(ss)), M)
    ELSE IF Len(ss) >= 2 /\ Kind(ss[2]) = "id" /\ ss[2] # "defined"
    THEN <<Tok(IF IsMacro(M, ss[2]) THEN "1" ELSE "0")>> \o DefinedPass(SubSeq(ss, 3, Len(ss)), M)
    ELSE <<Undef>>
  ELSE <<Tok(ss[1])>> \o DefinedPass(Tail(ss), M)

NumVal(s) == CASE s = "0" -> 0 [] s = "1" -> 1 [] s = "2" -> 2 [] s = "3" -> 3 [] OTHER -> Err
B2I(b) == IF b THEN 1 ELSE 0
R(v, i) == [v |-> v, i |-> i]
IsP(ts, i, s) == i <= Len(ts) /\ ts[i].k = "p" /\ ts[i].s = s

RECURSIVE ECond(_, _), ELor(_, _), ELorR(_, _), ELand(_, _), ELandR(_, _), EEq(_, _), EEqR(_, _), ERel(_, _), ERelR(_, _),
          EAdd(_, _), EAddR(_, _), EMul(_, _), EMulR(_, _), EUn(_, _)
ECond(ts, i) ==
  LET c == ELor(ts, i) IN
  IF c.v = Err \/ ~IsP(ts, c.i, "?") THEN c
  ELSE LET a == ECond(ts, c.i + 1) IN
       IF a.v = Err \/ ~IsP(ts, a.i, ":") THEN R(Err, a.i)
       ELSE LET b == ECond(ts, a.i + 1) IN IF b.v = Err THEN b ELSE R(IF c.v # 0 THEN a.v ELSE b.v, b.i)
ELor(ts, i) == ELorR(ts, ELand(ts, i))
ELorR(ts, l) == IF l.v = Err \/ ~IsP(ts, l.i, "||") THEN l
                ELSE LET r == ELand(ts, l.i + 1) IN IF r.v = Err THEN r ELSE ELorR(ts, R(B2I(l.v # 0 \/ r.v # 0), r.i))
ELand(ts, i) == ELandR(ts, EEq(ts, i))
ELandR(ts, l) == IF l.v = Err \/ ~IsP(ts, l.i, "&&") THEN l
                 ELSE LET r == EEq(ts, l.i + 1) IN IF r.v = Err THEN r ELSE ELandR(ts, R(B2I(l.v # 0 /\ r.v # 0), r.i))
EEq(ts, i) == EEqR(ts, ERel(ts, i))
EEqR(ts, l) == IF l.v = Err \/ ~(IsP(ts, l.i, "==") \/ IsP(ts, l.i, "!=")) THEN l
               ELSE LET r == ERel(ts, l.i + 1) IN
                    IF r.v = Err THEN r ELSE EEqR(ts, R(B2I(IF ts[l.i].s = "==" THEN l.v = r.v ELSE l.v # r.v), r.i))
ERel(ts, i) == ERelR(ts, EAdd(ts, i))
ERelR(ts, l) == IF l.v = Err \/ ~(IsP(ts, l.i, "<") \/ IsP(ts, l.i, ">") \/ IsP(ts, l.i, "<=") \/ IsP(ts, l.i, ">=")) THEN l
                ELSE LET r == EAdd(ts, l.i + 1) o == ts[l.i].s IN
                     IF r.v = Err THEN r
                     ELSE ERelR(ts, R(B2I(CASE o = "<" -> l.v < r.v [] o = ">" -> l.v > r.v [] o = "<=" -> l.v <= r.v [] o = ">=" -> l.v >= r.v), r.i))
EAdd(ts, i) == EAddR(ts, EMul(ts, i))
EAddR(ts, l) == IF l.v = Err \/ ~(IsP(ts, l.i, "+") \/ IsP(ts, l.i, "-")) THEN l
                ELSE LET r == EMul(ts, l.i + 1) IN
                     IF r.v = Err THEN r ELSE EAddR(ts, R(IF ts[l.i].s = "+" THEN l.v + r.v ELSE l.v - r.v, r.i))
EMul(ts, i) == EMulR(ts, EUn(ts, i))
EMulR(ts, l) == IF l.v = Err \/ ~IsP(ts, l.i, "*") THEN l
                ELSE LET r == EUn(ts, l.i + 1) IN IF r.v = Err THEN r ELSE EMulR(ts, R(l.v * r.v, r.i))
EUn(ts, i) ==
  IF i > Len(ts) THEN R(Err, i)
  ELSE IF IsP(ts, i, "!") THEN LET r == EUn(ts, i + 1) IN IF r.v = Err THEN r ELSE R(B2I(r.v = 0), r.i)
  ELSE IF IsP(ts, i, "-") THEN LET r == EUn(ts, i + 1) IN IF r.v = Err THEN r ELSE R(0 - r.v, r.i)
  ELSE IF IsP(ts, i, "+") THEN EUn(ts, i + 1)
  ELSE IF IsP(ts, i, "(") THEN LET r == ECond(ts, i + 1) IN IF r.v = Err \/ ~IsP(ts, r.i, ")") THEN R(Err, r.i) ELSE R(r.v, r.i + 1)
  ELSE IF ts[i].k = "num" THEN R(NumVal(ts[i].s), i + 1)
  ELSE IF ts[i].k = "id" THEN R(0, i + 1)
  ELSE R(Err, i)

\* value of the controlling expression ss (spellings) under M; Err if it is not a valid expression
IfValue(ss, M) ==
  LET ts == Expand(DefinedPass(ss, M), M, Fuel) IN
  IF ~Defined(ts) \/ ts = <<>> THEN Err
  ELSE LET r == ECond(ts, 1) IN IF r.v # Err /\ r.i = Len(ts) + 1 THEN r.v ELSE Err

(***************************************************************************)
(* Files, directives, conditional inclusion, #include.                     *)
(*                                                                         *)
(* A case: files (sequence of [dir, name, lines]), main (index), incs      *)
(* (sequence of -I directories), forced (sequence of file indexes given    *)
(* with --include), defs (sequence of [name, body] from -D, body = <<"1">> *)
(* for a plain -D name), undefs (names from -U, applied after all -D).     *)
(* A line is [k, ...]: text(toks) define(name, fun, params, va, body)      *)
(* undef(name) if(toks) ifdef(name) ifndef(name) elif(toks) else endif     *)
(* include(form "q" | "a", name).                                          *)
(***************************************************************************)
MaxIncludeDepth == 6

\* the file an #include names: "q" searches the directory of the including file first, then the -I directories
\* in order; "a" only the -I directories (6.10.2: implementation-defined places; this is the rule gcc and the
\* cppcheck manual document).  0 = not found.
FindIn(case, dirs, name) ==
  LET hits == SelectSeq(dirs, LAMBDA d : \E f \in DOMAIN case.files : case.files[f].dir = d /\ case.files[f].name = name)
  IN IF hits = <<>> THEN 0 ELSE CHOOSE f \in DOMAIN case.files : case.files[f].dir = hits[1] /\ case.files[f].name = name
Resolve(case, fromFile, form, name) ==
  FindIn(case, (IF form = "q" THEN <<case.files[fromFile].dir>> ELSE <<>>) \o case.incs, name)

\* conditional stack entry: [live: the enclosing group is processed, taken: a branch of this #if was already chosen,
\* on: the current branch is processed, else: #else seen]
Top(st) == st[Len(st)]
Pop(st) == SubSeq(st, 1, Len(st) - 1)
On(st) == st = <<>> \/ Top(st).on

\* result of processing: [out: tokens, M: macro table]
RECURSIVE File(_, _, _, _), LinesFrom(_, _, _, _, _, _, _, _)
File(case, f, M, depth) ==
  IF depth > MaxIncludeDepth THEN [out |-> <<Undef>>, M |-> M]
  ELSE LinesFrom(case, f, 1, M, <<>>, <<>>, <<>>, depth)

\* i: next line; st: conditional stack; run: spellings of the pending text run; out: output so far
LinesFrom(case, f, i, M, st, run, out, depth) ==
  LET ls == case.files[f].lines
      Flush == out \o ExpandText(run, M)
  IN
  IF i > Len(ls) THEN [out |-> (IF st = <<>> THEN Flush ELSE Flush \o <<Undef>>), M |-> M]       \* unterminated #if
  ELSE LET l == ls[i] k == ls[i].k IN
    IF k = "text" THEN LinesFrom(case, f, i + 1, M, st, IF On(st) THEN run \o l.toks ELSE run, out, depth)
    ELSE IF k \in {"if", "ifdef", "ifndef"} THEN
      IF ~On(st) THEN LinesFrom(case, f, i + 1, M, Append(st, [live |-> FALSE, taken |-> TRUE, on |-> FALSE, else |-> FALSE]), run, out, depth)
      ELSE LET v == IF k = "if" THEN IfValue(l.toks, M) ELSE IF k = "ifdef" THEN B2I(IsMacro(M, l.name)) ELSE B2I(~IsMacro(M, l.name))
           IN IF v = Err THEN [out |-> Flush \o <<Undef>>, M |-> M]
              ELSE LinesFrom(case, f, i + 1, M, Append(st, [live |-> TRUE, taken |-> v # 0, on |-> v # 0, else |-> FALSE]), <<>>, Flush, depth)
    ELSE IF k = "elif" THEN
      IF st = <<>> \/ Top(st).else THEN [out |-> Flush \o <<Undef>>, M |-> M]
      ELSE IF ~Top(st).live \/ Top(st).taken
           THEN LinesFrom(case, f, i + 1, M, Append(Pop(st), [Top(st) EXCEPT !.on = FALSE]), <<>>, Flush, depth)
           ELSE LET v == IfValue(l.toks, M) IN
                IF v = Err THEN [out |-> Flush \o <<Undef>>, M |-> M]
                ELSE LinesFrom(case, f, i + 1, M, Append(Pop(st), [Top(st) EXCEPT !.on = v # 0, !.taken = v # 0]), <<>>, Flush, depth)
    ELSE IF k = "else" THEN
      IF st = <<>> \/ Top(st).else THEN [out |-> Flush \o <<Undef>>, M |-> M]
      ELSE LinesFrom(case, f, i + 1, M, Append(Pop(st), [Top(st) EXCEPT !.on = Top(st).live /\ ~Top(st).taken, !.taken = TRUE, !.else = TRUE]),
                     <<>>, Flush, depth)
    ELSE IF k = "endif" THEN
      IF st = <<>> THEN [out |-> Flush \o <<Undef>>, M |-> M]
      ELSE LinesFrom(case, f, i + 1, M, Pop(st), <<>>, Flush, depth)
    ELSE IF ~On(st) THEN LinesFrom(case, f, i + 1, M, st, run, out, depth)              \* other directives in skipped groups
    ELSE IF k = "define" THEN
      LET d == [fun |-> l.fun, params |-> l.params, va |-> l.va, body |-> Toks(l.body)] IN
      \* redefinition: constraint violation unless identical.  #define of a name given with -U: the cppcheck manual gives -U its own
      \* meaning ("hide certain #ifdef code paths"), gcc's -U only cancels earlier definitions - left open
      IF ~ValidDef(d) \/ IsMacro(M, l.name) \/ l.name \in {"defined", "__VA_ARGS__"} \/ \E u \in DOMAIN case.undefs : case.undefs[u] = l.name
      THEN [out |-> Flush \o <<Undef>>, M |-> M]
      ELSE LinesFrom(case, f, i + 1, DefineM(M, l.name, d), st, <<>>, Flush, depth)
    ELSE IF k = "undef" THEN LinesFrom(case, f, i + 1, UndefM(M, l.name), st, <<>>, Flush, depth)
    ELSE IF k = "include" THEN
      LET g == Resolve(case, f, l.form, l.name) IN
      IF g = 0 THEN [out |-> Flush \o <<Undef>>, M |-> M]
      ELSE LET r == File(case, g, M, depth + 1) IN LinesFrom(case, f, i + 1, r.M, st, <<>>, Flush \o r.out, depth)
    ELSE [out |-> Flush \o <<Undef>>, M |-> M]

\* -D name[=body] in order, then -U (the cppcheck manual: -U name is not defined)
RECURSIVE CmdMacros(_, _, _)
CmdMacros(defs, i, M) ==
  IF i > Len(defs) THEN M
  ELSE CmdMacros(defs, i + 1, DefineM(UndefM(M, defs[i].name), defs[i].name,
                                      [fun |-> FALSE, params |-> <<>>, va |-> FALSE, body |-> Toks(defs[i].body)]))
RECURSIVE UndefAll(_, _, _)
UndefAll(us, i, M) == IF i > Len(us) THEN M ELSE UndefAll(us, i + 1, UndefM(M, us[i]))

RECURSIVE Forced(_, _, _, _)
Forced(case, i, M, out) ==
  IF i > Len(case.forced) THEN [out |-> out, M |-> M]
  ELSE LET r == File(case, case.forced[i], M, 1) IN Forced(case, i + 1, r.M, out \o r.out)

\* the token spellings a conforming preprocessor hands to phase 7 for the case, <<"?undef">> somewhere if not defined
ExpectedFull(case) ==
  LET M0 == UndefAll(case.undefs, 1, CmdMacros(case.defs, 1, NoMacros))
      fr == Forced(case, 1, M0, <<>>)
      r == File(case, case.main, fr.M, 0)
  IN [out |-> fr.out \o r.out, M |-> r.M]
ExpectedToks(case) == ExpectedFull(case).out
Expected(case) == Spell(ExpectedToks(case))

(***************************************************************************)
(* Case generation.  Draw(c, j): the j-th pseudo-random number of case c.  *)
(* (The case sets take a dummy argument: TLC evaluates every definition    *)
(* without arguments when it starts, whatever the step.)                   *)
(***************************************************************************)
Seed == atoi(IOEnv.SEED) % 40000
H1(c, j) == ((c % 46337) * 31337 + (j % 4000) * 7919 + Seed * 13 + (c \div 46337) * 101) % 1000003
Draw(c, j) == ((H1(c, j) % 46337) * 40503 + (H1(c, j) \div 46337) * 977 + j) % 1000003
Pick(c, j, seq) == seq[1 + (Draw(c, j) % Len(seq))]

Txt(toks) == [k |-> "text", toks |-> toks]
Def(name, fun, params, va, body) == [k |-> "define", name |-> name, fun |-> fun, params |-> params, va |-> va, body |-> body]
MainOnly(lines) == [files |-> <<[dir |-> "src", name |-> "main", lines |-> lines]>>, main |-> 1, incs |-> <<>>, forced |-> <<>>,
                    defs |-> <<>>, undefs |-> <<>>]

\* -------- stratum "small": exhaustive, one function-like macro F(x) with a body of <= 3 tokens, every source line of a list
SmallAlphabet == <<"x", "a", "F", "#", "##", "1", ",">>
SmallBodies(u) == UNION {[1..n -> {SmallAlphabet[i] : i \in DOMAIN SmallAlphabet}] : n \in 0..atoi(IOEnv.SMALLN)}
SmallSources == << <<"F", "(", "a", ")">>, <<"F", "(", ")">>, <<"F", "(", "F", "(", "a", ")", ")">>,
                   <<"F", "(", "F", ")", "(", "a", ")">>, <<"F", "(", "a", "b", ")", "F">>, <<"F", "(", "(", "a", ",", "b", ")", ")">>,
                   <<"F", "(", Str1, "+", Str2, ")">>, <<"F", "F", "(", "1", ")", "(", "2", ")">> >>
SmallCases(u) ==
  LET bodies == SetToSeq({b \in SmallBodies(0) : ValidDef([fun |-> TRUE, params |-> <<"x">>, va |-> FALSE, body |-> Toks(b)])})
  IN [n \in 1..(Len(bodies) * Len(SmallSources)) |->
        LET b == bodies[1 + ((n - 1) \div Len(SmallSources))] s == SmallSources[1 + ((n - 1) % Len(SmallSources))]
        IN MainOnly(<<Def("F", TRUE, <<"x">>, FALSE, b), Txt(s), Txt(<<";">>)>>)]

\* -------- stratum "pair": exhaustive, object-like A and function-like F(x), bodies of <= 2 tokens
PairA(u) == UNION {[1..n -> {"a", "A", "F", "##", "1", "(", ")"}] : n \in 0..2}
PairF(u) == UNION {[1..n -> {"x", "A", "F", "#", "##"}] : n \in 0..2}
PairSources == << <<"A">>, <<"F", "(", "A", ")">>, <<"A", "(", "a", ")">>, <<"F", "(", "F", ")", "(", "A", ")">>, <<"F", "(", ")", "A", "F">> >>
PairCases(u) ==
  LET as == SetToSeq({b \in PairA(0) : ValidDef([fun |-> FALSE, params |-> <<>>, va |-> FALSE, body |-> Toks(b)])})
      fs == SetToSeq({b \in PairF(0) : ValidDef([fun |-> TRUE, params |-> <<"x">>, va |-> FALSE, body |-> Toks(b)])})
      N == Len(as) * Len(fs) * Len(PairSources)
  IN [n \in 1..N |->
        LET s == PairSources[1 + ((n - 1) % Len(PairSources))]
            q == (n - 1) \div Len(PairSources)
        IN MainOnly(<<Def("A", FALSE, <<>>, FALSE, as[1 + (q % Len(as))]), Def("F", TRUE, <<"x">>, FALSE, fs[1 + (q \div Len(as))]),
                      Txt(s), Txt(<<";">>)>>)]

\* -------- stratum "expand": seeded; up to three macros out of A B (object-like) F G (function-like) V (variadic) + two text lines
BodyItems(params, fun) ==
  (IF params = <<>> THEN << <<"a">> >> ELSE [i \in DOMAIN params |-> <<params[i]>>] \o [i \in DOMAIN params |-> <<params[i]>>])
  \o << <<"a">>, <<"b">>, <<"1">>, <<"2">>, <<"A">>, <<"B">>, <<"F">>, <<"G">>, <<"+">>, <<",">>, <<"##">>, <<"##">>, <<Str1>>,
        <<"(">>, <<")">>, <<"F", "(", "a", ")">>, <<"G", "(", "1", ",", "b", ")">>, <<"V", "(", "a", ",", "b", ")">> >>
  \o (IF fun /\ params # <<>> THEN [i \in DOMAIN params |-> <<"#", params[i]>>] \o << <<"G", "(", params[1], ",", "A", ")">>, <<"F", "(", params[1], ")">> >>
      ELSE <<>>)
RECURSIVE GenItems(_, _, _, _, _), TrimPaste(_)
GenItems(c, j, n, params, fun) == IF n = 0 THEN <<>> ELSE Pick(c, j, BodyItems(params, fun)) \o GenItems(c, j + 1, n - 1, params, fun)
\* a replacement list may not begin or end with ##
TrimPaste(b) == IF b # <<>> /\ b[1] = "##" THEN TrimPaste(Tail(b))
                ELSE IF b # <<>> /\ b[Len(b)] = "##" THEN TrimPaste(SubSeq(b, 1, Len(b) - 1)) ELSE b
GenBody(c, j, n, params, fun) == TrimPaste(GenItems(c, j, n, params, fun))

ArgItems == << <<>>, <<"a">>, <<"b">>, <<"1">>, <<"A">>, <<"B">>, <<"F">>, <<"G">>, <<"a", "+", "b">>, <<"(", "a", ",", "b", ")">>,
               <<"F", "(", "a", ")">>, <<"G", "(", "a", ",", "1", ")">>, <<Str1>>, <<Str2, "a">>, <<"A", "B">>, <<"F", "(", "A", ")">>,
               <<"V", "(", "1", ")">>, <<"G">>, <<"#">>, <<"-", "1">> >>
CallOf(c, j, name, nargs) ==
  <<name, "(">> \o (IF nargs = 0 THEN <<>> ELSE IF nargs = 1 THEN Pick(c, j, ArgItems)
                    ELSE IF nargs = 2 THEN Pick(c, j, ArgItems) \o <<",">> \o Pick(c, j + 1, ArgItems)
                    ELSE Pick(c, j, ArgItems) \o <<",">> \o Pick(c, j + 1, ArgItems) \o <<",">> \o Pick(c, j + 2, ArgItems)) \o <<")">>
SrcItem(c, j) ==
  LET d == Draw(c, j) % 12 IN
  CASE d = 0 -> <<"A">> [] d = 1 -> <<"B">> [] d = 2 -> CallOf(c, j + 1, "F", 1) [] d = 3 -> CallOf(c, j + 1, "G", 2)
    [] d = 4 -> CallOf(c, j + 1, "V", 1 + (Draw(c, j + 5) % 3)) [] d = 5 -> CallOf(c, j + 1, "F", 1) \o CallOf(c, j + 3, "F", 1)
    [] d = 6 -> <<"F">> [] d = 7 -> <<"a", "+">> [] d = 8 -> CallOf(c, j + 1, "V", 0)
    [] d = 9 -> CallOf(c, j + 1, "G", 1 + (Draw(c, j + 5) % 2)) [] d = 10 -> <<"F", "(", "G", ")", "(", "a", ",", "b", ")">>
    [] OTHER -> CallOf(c, j + 1, "F", 1 + (Draw(c, j + 5) % 7) \div 6)
ExpandCase(c) ==
  LET defA == Def("A", FALSE, <<>>, FALSE, GenBody(c, 10, Draw(c, 1) % 4, <<>>, FALSE))
      defB == Def("B", FALSE, <<>>, FALSE, GenBody(c, 20, Draw(c, 2) % 3, <<>>, FALSE))
      defF == Def("F", TRUE, <<"x">>, FALSE, GenBody(c, 30, 1 + (Draw(c, 3) % 4), <<"x">>, TRUE))
      defG == Def("G", TRUE, <<"x", "y">>, FALSE, GenBody(c, 40, 1 + (Draw(c, 4) % 4), <<"x", "y">>, TRUE))
      defV == Def("V", TRUE, IF Draw(c, 6) % 2 = 0 THEN <<"x">> ELSE <<>>, TRUE,
                  GenBody(c, 50, 1 + (Draw(c, 5) % 4), (IF Draw(c, 6) % 2 = 0 THEN <<"x">> ELSE <<>>) \o <<"__VA_ARGS__">>, TRUE))
      all == <<defA, defB, defF, defG, defV>>
      mask == 1 + (Draw(c, 7) % 31)
      chosen == SelectSeq(all, LAMBDA d : LET b == CASE d.name = "A" -> 1 [] d.name = "B" -> 2 [] d.name = "F" -> 4 [] d.name = "G" -> 8 [] OTHER -> 16
                                          IN (mask \div b) % 2 = 1)
      undefLine == IF Draw(c, 8) % 6 = 0 THEN <<[k |-> "undef", name |-> Pick(c, 9, <<"A", "F", "G">>)]>> ELSE <<>>
  IN MainOnly(chosen \o <<Txt(SrcItem(c, 60) \o SrcItem(c, 70))>> \o undefLine \o <<Txt(SrcItem(c, 80) \o <<";">>)>>)

\* -------- stratum "cond": seeded; -D/-U, object-like macros, nested #if / #elif / #else with integer expressions
Atoms == << <<"0">>, <<"1">>, <<"2">>, <<"A">>, <<"B">>, <<"C">>, <<"Q">>, <<"defined", "A">>, <<"defined", "(", "B", ")">>,
            <<"!", "defined", "C">>, <<"defined", "(", "Q", ")">>, <<"(", "A", "+", "1", ")">>, <<"-", "1">>, <<"!", "B">>,
            <<"F", "(", "1", ")">>, <<"3">> >>
BinOps == <<"||", "&&", "==", "!=", "<", ">", "<=", ">=", "+", "-", "*", "&&", "||", "==">>
RECURSIVE GenExpr(_, _, _)
GenExpr(c, j, n) ==
  IF n = 0 THEN Pick(c, j, Atoms)
  ELSE LET d == Draw(c, j) % 8 IN
    IF d = 0 THEN <<"(">> \o GenExpr(c, j + 1, n - 1) \o <<")">> \o <<Pick(c, j + 17, BinOps)>> \o Pick(c, j + 18, Atoms)
    ELSE IF d = 1 THEN GenExpr(c, j + 1, n - 1) \o <<"?">> \o Pick(c, j + 17, Atoms) \o <<":">> \o Pick(c, j + 18, Atoms)
    ELSE IF d = 2 THEN <<"!", "(">> \o GenExpr(c, j + 1, n - 1) \o <<")">>
    ELSE Pick(c, j + 17, Atoms) \o <<Pick(c, j + 18, BinOps)>> \o GenExpr(c, j + 1, n - 1)
Mark(n) == Txt(<<"t", "+", IF n % 4 = 0 THEN "0" ELSE IF n % 4 = 1 THEN "1" ELSE IF n % 4 = 2 THEN "2" ELSE "3", ";", "A">>)
CondBodies == << <<>>, <<"0">>, <<"1">>, <<"2">>, <<"1", "+", "1">>, <<"B">>, <<"(", "2", ")">>, <<"C", "-", "1">>, <<"1">>, <<"0">> >>
RECURSIVE GenIf(_, _, _)
GenIf(c, j, depth) ==
  LET kind == Draw(c, j) % 5
      head == IF kind = 0 THEN [k |-> "ifdef", name |-> Pick(c, j + 1, <<"A", "B", "C", "Q">>)]
              ELSE IF kind = 1 THEN [k |-> "ifndef", name |-> Pick(c, j + 1, <<"A", "B", "C", "Q">>)]
              ELSE [k |-> "if", toks |-> GenExpr(c, j + 2, Draw(c, j + 1) % 3)]
      inner == IF depth > 0 /\ Draw(c, j + 30) % 3 = 0 THEN GenIf(c, j + 100, depth - 1) ELSE <<>>
      elif == IF Draw(c, j + 31) % 3 = 0 THEN <<[k |-> "elif", toks |-> GenExpr(c, j + 40, Draw(c, j + 32) % 2)], Mark(j + 1)>> ELSE <<>>
      els == IF Draw(c, j + 33) % 2 = 0 THEN <<[k |-> "else"], Mark(j + 2)>>
                \o (IF depth > 0 /\ Draw(c, j + 34) % 4 = 0 THEN GenIf(c, j + 200, depth - 1) ELSE <<>>) ELSE <<>>
  IN <<head, Mark(j)>> \o inner \o elif \o els \o <<[k |-> "endif"]>>
CondCase(c) ==
  LET nm == <<"A", "B", "C">>
      defs == SelectSeq([i \in 1..3 |-> IF Draw(c, i) % 3 # 0 THEN Def(nm[i], FALSE, <<>>, FALSE, Pick(c, 10 + i, CondBodies)) ELSE Txt(<<>>)],
                        LAMBDA l : l.k = "define")
      fdef == IF Draw(c, 4) % 3 = 0 THEN <<Def("F", TRUE, <<"x">>, FALSE, Pick(c, 5, << <<"x">>, <<"x", "+", "1">>, <<"(", "x", "==", "A", ")">>, <<"0">> >>))>> ELSE <<>>
      cmdD == SelectSeq([i \in 1..3 |-> IF Draw(c, 20 + i) % 4 = 0 /\ Draw(c, i) % 3 = 0      \* only macros the file does not define itself
                                        THEN [name |-> nm[i], body |-> Pick(c, 24 + i, << <<"1">>, <<"1">>, <<"2">>, <<>>, <<"0">>, <<"B">> >>)]
                                        ELSE [name |-> "", body |-> <<>>]], LAMBDA d : d.name # "")
      cmdU == IF Draw(c, 28) % 5 = 0 THEN <<Pick(c, 29, <<"A", "B", "Q">>)>> ELSE <<>>
      undefLine == IF Draw(c, 30) % 5 = 0 THEN <<[k |-> "undef", name |-> Pick(c, 31, nm)]>> ELSE <<>>
      \* -U of a macro the file defines would be a definition after -U: fine (the file's #define wins)
      base == MainOnly(defs \o fdef \o GenIf(c, 100, 2) \o undefLine \o GenIf(c, 600, 1) \o <<Txt(<<"e", ";">>)>>)
  IN [base EXCEPT !.defs = cmdD, !.undefs = cmdU]

\* -------- stratum "include": seeded; header h in up to three directories with different contents, "h"/<h>, -I order,
\*          nested include, include guard, forced include
HeaderIn(dir, tag) == [dir |-> dir, name |-> "h", lines |-> <<[k |-> "ifndef", name |-> "GUARD_" \o tag], Def("GUARD_" \o tag, FALSE, <<>>, FALSE, <<>>),
                                                           [k |-> "undef", name |-> "W"], Def("W", FALSE, <<>>, FALSE, <<tag>>),
                                                           Txt(<<"in", tag, ";">>), [k |-> "endif"]>>]
IncludeCase(c) ==
  LET places == SelectSeq(<<"src", "inc1", "inc2", "src/sub">>, LAMBDA d : Draw(c, CASE d = "src" -> 1 [] d = "inc1" -> 2 [] d = "inc2" -> 3 [] OTHER -> 4) % 2 = 0)
      hs == [i \in DOMAIN places |-> HeaderIn(places[i], CASE places[i] = "src" -> "s" [] places[i] = "inc1" -> "i" [] places[i] = "inc2" -> "j" [] OTHER -> "u")]
      \* g: a second header in inc2 or src/sub that includes "h" itself (search starts in g's own directory)
      gdir == Pick(c, 5, <<"inc2", "src/sub", "inc1">>)
      g == [dir |-> gdir, name |-> "g", lines |-> <<[k |-> "include", form |-> Pick(c, 6, <<"q", "q", "a">>), name |-> "h"], Txt(<<"g", "W", ";">>)>>]
      pre == [dir |-> "src", name |-> "pre", lines |-> <<Def("P", FALSE, <<>>, FALSE, <<"7">>), Def("A", FALSE, <<>>, FALSE, <<"1">>)>>]
      incs == Pick(c, 7, << <<>>, <<"inc1">>, <<"inc2">>, <<"inc1", "inc2">>, <<"inc2", "inc1">>, <<"inc1", "inc2", "src/sub">>, <<"src/sub", "inc1">> >>)
      useG == Draw(c, 8) % 2 = 0
      useForced == Draw(c, 9) % 4 = 0
      main == [dir |-> "src", name |-> "main", lines |->
                 <<[k |-> "include", form |-> Pick(c, 10, <<"q", "a">>), name |-> "h"], Txt(<<"m", "W", ";">>)>>
                 \o (IF useG THEN <<[k |-> "include", form |-> Pick(c, 11, <<"q", "a">>), name |-> "g"]>> ELSE <<>>)
                 \o (IF Draw(c, 12) % 2 = 0 THEN <<[k |-> "undef", name |-> "GUARD_i"]>> ELSE <<>>)
                 \o <<[k |-> "include", form |-> Pick(c, 13, <<"q", "a">>), name |-> "h"], Txt(<<"P", "A", "W", ";">>)>>]
      files == <<main>> \o hs \o <<g, pre>>
  IN [files |-> files, main |-> 1, incs |-> incs, forced |-> IF useForced THEN <<Len(files)>> ELSE <<>>, defs |-> <<>>, undefs |-> <<>>]

\* one stratum per gen step (several run in parallel): IOEnv.STRATUM; the seeded strata take the case numbers IOEnv.FROM..IOEnv.TO;
\* IOEnv.SMALLN bounds the body length of stratum "small"
StratumCases(name, from, to) ==
  CASE name = "small" -> LET s == SmallCases(0) IN [i \in DOMAIN s |-> [c |-> i, case |-> s[i]]]
    [] name = "pair" -> LET s == PairCases(0) IN [i \in DOMAIN s |-> [c |-> i, case |-> s[i]]]
    [] name = "expand" -> [i \in 1..(to - from + 1) |-> [c |-> from + i - 1, case |-> ExpandCase(from + i - 1)]]
    [] name = "cond" -> [i \in 1..(to - from + 1) |-> [c |-> from + i - 1, case |-> CondCase(from + i - 1)]]
    [] name = "include" -> [i \in 1..(to - from + 1) |-> [c |-> from + i - 1, case |-> IncludeCase(from + i - 1)]]

ASSUME Step = "gen" =>
  LET cs == StratumCases(IOEnv.STRATUM, atoi(IOEnv.FROM), atoi(IOEnv.TO))
      \* defined: the semantics defines the output of the case (the others are not run at all)
      out == [i \in DOMAIN cs |-> [c |-> cs[i].c, stratum |-> IOEnv.STRATUM, case |-> cs[i].case, defined |-> Defined(ExpectedToks(cs[i].case))]]
  IN ndJsonSerialize(IOEnv.OUT, out) /\ PrintT(<<"GEN", Len(out)>>) /\ PrintT(<<"DEFINED", Len(SelectSeq(out, LAMBDA o : o.defined))>>)

(***************************************************************************)
(* Judge.  IOEnv.CASES: gen output; IOEnv.OBS: one line per case, aligned: *)
(*   [id, cppcheck: [ok, toks], gcc: [ok, toks]]  (ok = FALSE: the tool    *)
(*   reported an error for the case).                                      *)
(* verdict:  "undefined"  the spec does not define the output - not judged *)
(*           "model"      spec and second witness disagree - not judged,   *)
(*                        counted as model_disagreement                     *)
(*           "ok"         cppcheck = spec = gcc                             *)
(*           "bad"        spec = gcc, cppcheck differs                     *)
(***************************************************************************)
Verdict(case, ob) ==
  LET e == Expected(case) IN
  IF \E i \in DOMAIN e : e[i] = "?undef" THEN "undefined"
  ELSE IF ~ob.gcc.ok \/ ob.gcc.toks # e THEN "model"
  ELSE IF ob.cppcheck.ok /\ ob.cppcheck.toks = e THEN "ok" ELSE "bad"

\* Classes of deviations (verdict "bad"): a description of the input / of the difference, one report key per class;
\* "other" cases are reduced by the driver and keyed by their core.
\*   error:<kind>      cppcheck stopped with a preprocessor error (kind = its message without the names)
\*   hash-in-text      a # token outside a directive and outside a macro definition
\*   painted-name-replaced   (no conditionals) the expected output keeps a macro name that may not be replaced again (6.10.3.4p2)
\*   function-like-name-not-invoked   (no conditionals) cppcheck's output keeps NAME ( of a function-like macro that the spec replaces
\*   object-like-name-not-replaced    (no conditionals) cppcheck's output keeps the name of an object-like macro that the spec replaces
\*   if-mixes-equality-and-relational an #if / #elif expression uses == or != together with < > <= >=
\*   if-unary-plus     (with conditionals) an #if / #elif expression or an object-like macro body has a unary +
\*   unbalanced-parentheses-in-output (no conditionals) the expected output has not as many ( as )
Class(case, ob) ==
  LET full == ExpectedFull(case)
      allLines == FoldLeft(LAMBDA a, f : a \o f.lines, <<>>, case.files)
      hasCond == \E i \in DOMAIN allLines : allLines[i].k \in {"if", "ifdef", "ifndef", "elif", "else", "endif"}
      hashInText == \E i \in DOMAIN allLines : allLines[i].k = "text" /\ \E j \in DOMAIN allLines[i].toks : allLines[i].toks[j] = "#"
      painted == \E i \in DOMAIN full.out : full.out[i].k = "id" /\ full.out[i].s \in full.out[i].h /\ IsMacro(full.M, full.out[i].s)
      ct == ob.cppcheck.toks
      notInvoked == \E i \in 1..(Len(ct) - 1) : IsMacro(full.M, ct[i]) /\ full.M[ct[i]].fun /\ ct[i + 1] = "("
                       /\ ~\E j \in DOMAIN full.out : full.out[j].s = ct[i]
      notReplaced == \E i \in DOMAIN ct : IsMacro(full.M, ct[i]) /\ ~full.M[ct[i]].fun /\ ~\E j \in DOMAIN full.out : full.out[j].s = ct[i]
      eqRel == \E i \in DOMAIN allLines : allLines[i].k \in {"if", "elif"}
                  /\ (\E j \in DOMAIN allLines[i].toks : allLines[i].toks[j] \in {"==", "!="})
                  /\ (\E j \in DOMAIN allLines[i].toks : allLines[i].toks[j] \in {"<", ">", "<=", ">="})
      UnaryPlus(ts) == \E j \in DOMAIN ts : ts[j] = "+" /\ (j = 1 \/ ts[j - 1] \in (Puncts \ {")"}))
      unaryPlus == \E i \in DOMAIN allLines : IF allLines[i].k \in {"if", "elif"} THEN UnaryPlus(allLines[i].toks)
                                               ELSE IF allLines[i].k = "define" THEN (~allLines[i].fun) /\ UnaryPlus(allLines[i].body)
                                               ELSE FALSE
      NumOf(x) == Cardinality({j \in DOMAIN full.out : full.out[j].s = x /\ full.out[j].k = "p"})
      unbalanced == NumOf("(") # NumOf(")")
  IN IF ~ob.cppcheck.ok /\ ob.cppcheck.kind # "" THEN "error:" \o ob.cppcheck.kind
     ELSE IF hashInText THEN "hash-in-text"
     ELSE IF ~hasCond /\ painted THEN "painted-name-replaced"
     ELSE IF ~hasCond /\ notInvoked THEN "function-like-name-not-invoked"
     ELSE IF ~hasCond /\ notReplaced THEN "object-like-name-not-replaced"
     ELSE IF ~hasCond /\ unbalanced THEN "unbalanced-parentheses-in-output"
     ELSE IF eqRel THEN "if-mixes-equality-and-relational"
     ELSE IF hasCond /\ unaryPlus THEN "if-unary-plus"
     ELSE "other"

\* a case is non-trivial if preprocessing changes it: some macro is replaced, a group skipped, or a file included
NonTrivial(case) ==
  LET e == Expected(case)
      src == FoldLeft(LAMBDA a, l : IF l.k = "text" THEN a \o l.toks ELSE a, <<>>, case.files[case.main].lines)
  IN e # src

ASSUME Step = "judge" =>
  LET cases == ndJsonDeserialize(IOEnv.CASES)
      obs == ndJsonDeserialize(IOEnv.OBS)
      vs == [i \in DOMAIN cases |-> LET v == Verdict(cases[i].case, obs[i]) IN
                                     [id |-> cases[i].id, v |-> v, expected |-> Expected(cases[i].case),
                                      class |-> IF v = "bad" THEN Class(cases[i].case, obs[i]) ELSE "", nontrivial |-> NonTrivial(cases[i].case)]]
      Count(x) == Len(SelectSeq(vs, LAMBDA r : r.v = x))
  IN /\ Len(obs) = Len(cases) /\ \A i \in DOMAIN obs : obs[i].id = cases[i].id
     /\ ndJsonSerialize(IOEnv.OUT, SelectSeq(vs, LAMBDA r : r.v \in {"bad", "model"}))
     /\ PrintT(<<"JUDGED", Len(vs)>>) /\ PrintT(<<"OK", Count("ok")>>) /\ PrintT(<<"BAD", Count("bad")>>)
     /\ PrintT(<<"MODEL", Count("model")>>) /\ PrintT(<<"UNDEFINED", Count("undefined")>>)
     /\ PrintT(<<"NONTRIVIAL", Len(SelectSeq(vs, LAMBDA r : r.nontrivial /\ r.v \in {"ok", "bad"}))>>)

(***************************************************************************)
(* Laws of the definitions (step "laws"), on the exhaustive strata:        *)
(*   Terminates   no expansion runs out of fuel (every Undef has a cause   *)
(*                the standard names; checked by re-running with more fuel)*)
(*   Idempotent   text without macro names is unchanged                    *)
(*   Painted      a macro name left in the output cannot be replaced any   *)
(*                more: rescanning the output changes nothing that the     *)
(*                hide sets do not forbid (object-like names are painted)  *)
(*   Determinism  Expected is a function of the case (by construction);    *)
(*                output does not depend on the fuel bound                 *)
(***************************************************************************)
LawCase(case) ==
  LET ls == case.files[case.main].lines
      M == FoldLeft(LAMBDA m, l : IF l.k = "define" /\ ValidDef([fun |-> l.fun, params |-> l.params, va |-> l.va, body |-> Toks(l.body)])
                                  THEN DefineM(m, l.name, [fun |-> l.fun, params |-> l.params, va |-> l.va, body |-> Toks(l.body)]) ELSE m,
                    NoMacros, ls)
      src == FoldLeft(LAMBDA a, l : IF l.k = "text" THEN a \o l.toks ELSE a, <<>>, ls)
      r1 == Expand(Toks(src), M, Fuel)
      r2 == Expand(Toks(src), M, 2 * Fuel)
      plain == SelectSeq(src, LAMBDA s : ~IsMacro(M, s))
  IN /\ r1 = r2
     /\ Spell(Expand(Toks(plain), M, Fuel)) = plain
     /\ \A i \in DOMAIN r1 : (r1[i].k = "id" /\ IsMacro(M, r1[i].s) /\ ~M[r1[i].s].fun) => r1[i].s \in r1[i].h

ASSUME Step = "laws" =>
  LET cs == SmallCases(0) \o PairCases(0)
      bad == SelectSeq(cs, LAMBDA c : ~LawCase(c))
  IN PrintT(<<"LAWS", Len(cs)>>) /\ PrintT(<<"BAD", Len(bad)>>) /\ bad = <<>>
=============================================================================
