----------------------------- MODULE FileSelect -----------------------------
(***************************************************************************)
(* Which files cppcheck analyses, given input paths, -i patterns and        *)
(* --file-filter patterns (property C31).  Documented behaviour:            *)
(*  - "If a directory is given instead of a filename, *.cpp, *.cxx, *.cc,   *)
(*    *.c++, *.c, *.ipp, *.ixx, *.tpp, and *.txx files are checked          *)
(*    recursively from the given directory" (cppcheck --help, manual.md     *)
(*    "Checking all files in a folder");                                    *)
(*  - "-i <str>: ignore files that match <str>", "--file-filter=<str>: only *)
(*    those files matching the filter will be checked"; the patterns follow *)
(*    the rules of PathMatch.tla, relative to the current directory;        *)
(*  - C31: each file once, in sorted order, reported under canonical paths. *)
(*                                                                         *)
(* A case is a directory tree (a set of regular files given by their paths  *)
(* relative to the current directory cwd), a list of input paths, a list    *)
(* of -i patterns and a list of --file-filter patterns.  The observation is *)
(* the sequence of names in the "Checking <name> ..." lines of one run of   *)
(* the real binary in cwd.                                                  *)
(*                                                                         *)
(* Left open (not judged), because the documentation is silent:             *)
(*  - files whose extension cppcheck accepts without documenting it (other  *)
(*    letter case such as .C / .CPP, and .cl) when found by traversal;      *)
(*  - a file named explicitly whose extension is not a documented one;      *)
(*  - every membership that hangs on an Open verdict of PathMatch.tla;      *)
(*  - which of its possible names a file reachable through several input    *)
(*    paths is reported under, and the relative order of files that belong  *)
(*    to different input paths;                                             *)
(*  - whether "sorted" compares whole path strings or component by          *)
(*    component (both accepted; characters compare by their ASCII code).    *)
(*                                                                         *)
(* Steps (environment variable STEP): "gen" writes the cases (sampled with  *)
(* the seed from the menus in IOEnv.PARAMS), "judge" reads the observations *)
(* and writes the cases that violate the expectation.                       *)
(***************************************************************************)
EXTENDS PathMatch, TLC, Json, IOUtils

-----------------------------------------------------------------------------
(* characters and their order *)
Ascii == <<" ", "!", "\"", "#", "$", "%", "&", "'", "(", ")", "*", "+", ",", "-", ".", "/",
           "0", "1", "2", "3", "4", "5", "6", "7", "8", "9", ":", ";", "<", "=", ">", "?", "@",
           "A", "B", "C", "D", "E", "F", "G", "H", "I", "J", "K", "L", "M", "N", "O", "P", "Q", "R", "S",
           "T", "U", "V", "W", "X", "Y", "Z", "[", "\\", "]", "^", "_", "`",
           "a", "b", "c", "d", "e", "f", "g", "h", "i", "j", "k", "l", "m", "n", "o", "p", "q", "r", "s",
           "t", "u", "v", "w", "x", "y", "z", "{", "|", "}", "~">>
Code == [c \in ToSet(Ascii) |-> CHOOSE i \in DOMAIN Ascii : Ascii[i] = c]

\* a < b comparing character codes, a proper prefix first
RECURSIVE LessStr(_, _)
LessStr(a, b) ==
  IF b = <<>> THEN FALSE
  ELSE IF a = <<>> THEN TRUE
  ELSE IF Head(a) = Head(b) THEN LessStr(Tail(a), Tail(b))
  ELSE Code[Head(a)] < Code[Head(b)]

\* a < b comparing component by component
RECURSIVE LessSeqOfStr(_, _)
LessSeqOfStr(a, b) ==
  IF b = <<>> THEN FALSE
  ELSE IF a = <<>> THEN TRUE
  ELSE IF Head(a) = Head(b) THEN LessSeqOfStr(Tail(a), Tail(b))
  ELSE LessStr(Head(a), Head(b))
LessComps(a, b) == LessSeqOfStr(Comps(a), Comps(b))

SortedBy(s, Less(_, _)) == \A i, j \in DOMAIN s : i < j => (s[i] = s[j] \/ Less(s[i], s[j]))
Sorted(s) == SortedBy(s, LessStr) \/ SortedBy(s, LessComps)

-----------------------------------------------------------------------------
(* extensions *)
LastIndexOf(s, c) == LET I == {i \in DOMAIN s : s[i] = c} IN IF I = {} THEN 0 ELSE CHOOSE i \in I : \A k \in I : k <= i
Basename(f) == SubSeq(f, LastIndexOf(f, Sep) + 1, Len(f))
\* the extension of a file name: from its last '.', empty if there is none
Ext(f) == LET b == Basename(f) k == LastIndexOf(b, ".") IN IF k = 0 THEN <<>> ELSE SubSeq(b, k, Len(b))

Documented == {<<".", "c", "p", "p">>, <<".", "c", "x", "x">>, <<".", "c", "c">>, <<".", "c", "+", "+">>, <<".", "c">>,
               <<".", "i", "p", "p">>, <<".", "i", "x", "x">>, <<".", "t", "p", "p">>, <<".", "t", "x", "x">>}
Lower(c) == LET up == <<"A","B","C","D","E","F","G","H","I","J","K","L","M","N","O","P","Q","R","S","T","U","V","W","X","Y","Z">>
                lo == <<"a","b","c","d","e","f","g","h","i","j","k","l","m","n","o","p","q","r","s","t","u","v","w","x","y","z">>
            IN IF \E i \in DOMAIN up : up[i] = c THEN lo[CHOOSE i \in DOMAIN up : up[i] = c] ELSE c
LowerStr(s) == [i \in DOMAIN s |-> Lower(s[i])]
\* "yes": a documented source extension; "open": accepted by the implementation without being documented
\* (another letter case of a documented one, .cl); "no": anything else, in particular headers
ExtStatus(f) ==
  IF Ext(f) \in Documented THEN "yes"
  ELSE IF LowerStr(Ext(f)) \in Documented \cup {<<".", "c", "l">>} THEN "open"
  ELSE "no"

-----------------------------------------------------------------------------
(* the expectation for one case: cwd, files, inputs, ign, filt *)

FileId(c, f) == Canon(Join(c.cwd, f))                 \* canonical absolute path of a file of the tree
Loc(c, x)    == Canon(PathString(x, c.cwd))           \* canonical absolute path an input / a reported name denotes

\* input path x names the file itself / a directory above the file
Names(c, x, f) == Loc(c, x) = FileId(c, f)
Above(c, x, f) ==
  LET d == Loc(c, x) id == FileId(c, f)
  IN Len(id) > Len(d) /\ SubSeq(id, 1, Len(d)) = d /\ (d = <<Sep>> \/ id[Len(d) + 1] = Sep)
Reaches(c, x, f) == Names(c, x, f) \/ Above(c, x, f)

\* the canonical name under which f is reported when found through x: the input path as given, followed by
\* the way from there to the file
NameVia(c, x, f) ==
  IF Names(c, x, f) THEN Canon(x)
  ELSE LET d == Loc(c, x) id == FileId(c, f)
           rest == SubSeq(id, (IF d = <<Sep>> THEN 2 ELSE Len(d) + 2), Len(id))
       IN Canon(x \o <<Sep>> \o rest)

\* three-valued conjunction over {"yes", "no", "open"}
All3(S) == IF "no" \in S THEN "no" ELSE IF "open" \in S THEN "open" ELSE "yes"
\* "yes" if some pattern of the list must match the file, "open" if none must but one may
Some3(c, pats, f) ==
  LET V == {Verdict(pats[k], FileId(c, f), c.cwd, "reg") : k \in DOMAIN pats}
  IN IF "T" \in V THEN "yes" ELSE IF "Open" \in V THEN "open" ELSE "no"
Not3(v) == IF v = "yes" THEN "no" ELSE IF v = "no" THEN "yes" ELSE "open"

\* is f analysed when reached through x
Selected(c, x, f) ==
  All3({ IF Names(c, x, f) THEN (IF ExtStatus(f) = "yes" THEN "yes" ELSE "open") ELSE ExtStatus(f),
         Not3(Some3(c, c.ign, f)),
         IF c.filt = <<>> THEN "yes" ELSE Some3(c, c.filt, f) })

Files(c)  == ToSet(c.files)
Inputs(c) == ToSet(c.inputs)
Via(c, f) == {x \in Inputs(c) : Reaches(c, x, f)}
Status(c, f) ==
  LET S == {Selected(c, x, f) : x \in Via(c, f)}
  IN IF "yes" \in S THEN "yes" ELSE IF "open" \in S THEN "open" ELSE "no"

MustIds(c) == {FileId(c, f) : f \in {g \in Files(c) : Status(c, g) = "yes"}}
MayIds(c)  == {FileId(c, f) : f \in {g \in Files(c) : Status(c, g) # "no"}}

\* what is wrong with the observed sequence of reported names (empty sets / FALSE = nothing)
Judgement(c) ==
  LET obs  == c.checked
      ids  == [k \in DOMAIN obs |-> Loc(c, obs[k])]
      file(id) == CHOOSE f \in Files(c) : FileId(c, f) = id
      known == {k \in DOMAIN obs : \E f \in Files(c) : FileId(c, f) = ids[k]}
      \* files that belong to exactly one input path, per input path, in the observed order
      own(x) == SelectSeq(obs, LAMBDA n : \E f \in Files(c) : FileId(c, f) = Loc(c, n) /\ Via(c, f) = {x})
  IN [id |-> c.id,
      missing    |-> MustIds(c) \ ToSet(ids),                                  \* must be analysed, is not
      unexpected |-> ToSet(ids) \ MayIds(c),                                   \* analysed, must not be
      twice      |-> {ids[k] : k \in {n \in DOMAIN ids : \E m \in DOMAIN ids : m < n /\ ids[m] = ids[n]}},
      badname    |-> {obs[k] : k \in {n \in known : obs[n] \notin {NameVia(c, x, file(ids[n])) : x \in Via(c, file(ids[n]))}}},
      unsorted   |-> {x \in Inputs(c) : ~Sorted(own(x))}]

Fine(j) == j.missing = {} /\ j.unexpected = {} /\ j.twice = {} /\ j.badname = {} /\ j.unsorted = {}
Printable(j) == [id |-> j.id, missing |-> SetToSeq(j.missing), unexpected |-> SetToSeq(j.unexpected),
                 twice |-> SetToSeq(j.twice), badname |-> SetToSeq(j.badname), unsorted |-> SetToSeq(j.unsorted)]

-----------------------------------------------------------------------------
(* gen: the sampled case space *)
(* PARAMS (one ndjson record): files = menu of file paths, pats = menu of   *)
(* patterns, each [s, abs]; n = number of cases; seed.  abs = TRUE marks a  *)
(* string that the driver prefixes with the current directory.              *)
Params == ndJsonDeserialize(IOEnv.PARAMS)[1]

\* pseudo-random numbers from (seed, case, draw): three rounds of x -> x*x + k modulo a prime below 2^15.5
M == 46337
Mix(x, k) == (x * x + k) % M
Rnd(c, d) == Mix(Mix(Mix((Params.seed * 7919 + c * 104729 + d * 1299709 + 12345) % M, c % M), d), 77)

Pick(S, c, d) == LET q == SetToSeq(S) IN q[1 + Rnd(c, d) % Len(q)]

\* the tree of case c: every file of the menu with probability about 1/3 (at least one)
TreeOf(c) ==
  LET T == {i \in DOMAIN Params.files : Rnd(c, i) % 3 = 0}
  IN IF T = {} THEN {Params.files[1 + Rnd(c, 50) % Len(Params.files)]} ELSE {Params.files[i] : i \in T}

\* the directories of a tree (as relative paths) and the ways to spell a directory or a file as input path
DirsOf(T) == UNION {{Flatten(SubSeq(Comps(f), 1, n), TRUE) : n \in 1..(Len(Comps(f)) - 1)} : f \in T}
Str(s, abs) == [s |-> s, abs |-> abs]
DirSpellings(d) ==
  {Str(d, FALSE), Str(d \o <<Sep>>, FALSE), Str(<<".", Sep>> \o d, FALSE), Str(d \o <<Sep, ".">>, FALSE),
   Str(d \o <<Sep, ".", ".", Sep>> \o Last(Comps(d)), FALSE), Str(d \o <<Sep, Sep>>, FALSE), Str(d, TRUE)}
CwdSpellings == {Str(<<".">>, FALSE), Str(<<".", Sep>>, FALSE), Str(<<>>, TRUE), Str(<<".", Sep, ".">>, FALSE)}
FileSpellings(f) == {Str(f, FALSE), Str(<<".", Sep>> \o f, FALSE), Str(f, TRUE)}

InputChoices(T) ==
  [cwd   |-> CwdSpellings,
   dirs  |-> UNION {DirSpellings(d) : d \in DirsOf(T)},
   files |-> UNION {FileSpellings(f) : f \in T}]

\* one input path: the current directory (3 of 8), a directory of the tree (3 of 8), a file (2 of 8)
InputOf(T, c, d) ==
  LET ch == InputChoices(T)
      r == Rnd(c, d) % 8
  IN IF r < 3 \/ (r < 6 /\ ch.dirs = {}) THEN Pick(ch.cwd, c, d + 1)
     ELSE IF r < 6 THEN Pick(ch.dirs, c, d + 1)
     ELSE Pick(ch.files, c, d + 1)

PatOf(c, d) == Params.pats[1 + Rnd(c, d) % Len(Params.pats)]

CaseOf(c) ==
  LET T == TreeOf(c)
      nin == IF Rnd(c, 60) % 4 = 0 THEN 2 ELSE 1
      nign == Rnd(c, 61) % 3                       \* 0, 1 or 2 -i patterns
      nfilt == IF Rnd(c, 62) % 3 = 0 THEN 1 + Rnd(c, 63) % 2 ELSE 0
  IN [id |-> c, files |-> SetToSeq(T),
      inputs |-> [k \in 1..nin |-> InputOf(T, c, 70 + 2 * k)],
      ign  |-> [k \in 1..nign |-> PatOf(c, 80 + k)],
      filt |-> [k \in 1..nfilt |-> PatOf(c, 90 + k)]]

Gen(dummy) == /\ ndJsonSerialize(IOEnv.CASES, [c \in 1..Params.n |-> CaseOf(c)])
              /\ PrintT(<<"GEN", Params.n>>)

-----------------------------------------------------------------------------
(* judge *)
\* observations: [id, cwd, files, inputs, ign, filt, checked] with all strings as they were used in the run
Obs == IF IOEnv.STEP = "judge" THEN ndJsonDeserialize(IOEnv.OBS) ELSE <<>>
Verdicts == TLCEval([k \in DOMAIN Obs |-> Judgement(Obs[k])])
BadCases == {k \in DOMAIN Obs : ~Fine(Verdicts[k])}
\* measured: cases in which the patterns decide something (a file of the tree that has a source extension
\* and lies under an input path is excluded), cases with an open membership
Deciding == {k \in DOMAIN Obs : \E f \in Files(Obs[k]) : Via(Obs[k], f) # {} /\ ExtStatus(f) = "yes" /\ Status(Obs[k], f) = "no"}
WithOpen == {k \in DOMAIN Obs : MustIds(Obs[k]) # MayIds(Obs[k])}
RECURSIVE SumRange(_, _, _)
SumRange(f(_), lo, hi) == IF lo > hi THEN 0 ELSE IF lo = hi THEN f(lo)
                          ELSE LET mid == (lo + hi) \div 2 IN SumRange(f, lo, mid) + SumRange(f, mid + 1, hi)
NChecked == LET N(k) == Len(Obs[k].checked) IN SumRange(N, 1, Len(Obs))

Judge(dummy) ==
  /\ ndJsonSerialize(IOEnv.OUT, [i \in 1..Cardinality(BadCases) |-> Printable(Verdicts[SetToSeq(BadCases)[i]])])
  /\ PrintT(<<"JUDGE", "CASES", Len(Obs), "BAD", Cardinality(BadCases), "DECIDING", Cardinality(Deciding),
              "WITHOPEN", Cardinality(WithOpen), "FILES", NChecked>>)

ASSUME CASE IOEnv.STEP = "gen"   -> Gen(0)
         [] IOEnv.STEP = "judge" -> Judge(0)
=============================================================================
