----------------------------- MODULE FileSelect -----------------------------
(***************************************************************************)
(* Which files cppcheck analyses, given input paths, -i patterns and        *)
(* --file-filter patterns (property C31).  Documented behaviour:            *)
(*  - "If a directory is given instead of a filename, *.cpp, *.cxx, *.cc,   *)
(*    *.c++, *.c, *.ipp, *.ixx, *.tpp, and *.txx files are checked          *)
(*    recursively from the given directory" (cppcheck --help, manual.md     *)
(*    "Checking all files in a folder");                                    *)
(*  - "-i <str>: ignore files that match <str>", "--file-filter=<str>: only *)
(*    those files matching the filter will be checked"; the patterns follow *)
(*    the rules of PathMatch.tla, relative to the current directory;        *)
(*  - C31: each file once, in sorted order, reported under canonical paths. *)
(*                                                                         *)
(* A case is a directory tree (a set of regular files given by their paths  *)
(* relative to the current directory cwd), a list of input paths, a list    *)
(* of -i patterns and a list of --file-filter patterns.  The observation is *)
(* the sequence of names in the "Checking <name> ..." lines of one run of   *)
(* the real binary in cwd, and the file names under which the findings of   *)
(* that run are reported (every file of a tree contains one certain bug).   *)
(*                                                                         *)
(* Left open (not judged), because the documentation is silent:             *)
(*  - files whose extension cppcheck accepts without documenting it (other  *)
(*    letter case such as .C / .CPP, and .cl) when found by traversal;      *)
(*  - a file named explicitly whose extension is not a documented one;      *)
(*  - every membership that hangs on an Open verdict of PathMatch.tla;      *)
(*  - which of its possible names a file reachable through several input    *)
(*    paths is reported under, and the relative order of files that belong  *)
(*    to different input paths;                                             *)
(*  - whether "sorted" compares whole path strings or component by          *)
(*    component (both accepted; characters compare by their ASCII code).    *)
(*                                                                         *)
(* Steps (environment variable STEP): "gen" writes the cases (sampled with  *)
(* the seed from the menus in IOEnv.PARAMS), "judge" reads the observations *)
(* and writes the cases that violate the expectation.                       *)
(***************************************************************************)
EXTENDS PathMatch, TLC, Json, IOUtils

-----------------------------------------------------------------------------
(* characters and their order *)
Ascii == <<" ", "!", "\"", "#", "$", "%", "&", "'", "(", ")", "*", "+", ",", "-", ".", "/",
           "0", "1", "2", "3", "4", "5", "6", "7", "8", "9", ":", ";", "<", "=", ">", "?", "@",
           "A", "B", "C", "D", "E", "F", "G", "H", "I", "J", "K", "L", "M", "N", "O", "P", "Q", "R", "S",
           "T", "U", "V", "W", "X", "Y", "Z", "[", "\\", "]", "^", "_", "`",
           "a", "b", "c", "d", "e", "f", "g", "h", "i", "j", "k", "l", "m", "n", "o", "p", "q", "r", "s",
           "t", "u", "v", "w", "x", "y", "z", "{", "|", "}", "~">>
Code == [c \in ToSet(Ascii) |-> CHOOSE i \in DOMAIN Ascii : Ascii[i] = c]

\* a < b comparing character codes, a proper prefix first
RECURSIVE LessStr(_, _)
LessStr(a, b) ==
  IF b = <<>> THEN FALSE
  ELSE IF a = <<>> THEN TRUE
  ELSE IF Head(a) = Head(b) THEN LessStr(Tail(a), Tail(b))
  ELSE Code[Head(a)] < Code[Head(b)]

\* a < b comparing component by component
RECURSIVE LessSeqOfStr(_, _)
LessSeqOfStr(a, b) ==
  IF b = <<>> THEN FALSE
  ELSE IF a = <<>> THEN TRUE
  ELSE IF Head(a) = Head(b) THEN LessSeqOfStr(Tail(a), Tail(b))
  ELSE LessStr(Head(a), Head(b))
LessComps(a, b) == LessSeqOfStr(Comps(a), Comps(b))

SortedBy(s, Less(_, _)) == \A i, j \in DOMAIN s : i < j => (s[i] = s[j] \/ Less(s[i], s[j]))
Sorted(s) == SortedBy(s, LessStr) \/ SortedBy(s, LessComps)

-----------------------------------------------------------------------------
(* extensions *)
LastIndexOf(s, c) == LET I == {i \in DOMAIN s : s[i] = c} IN IF I = {} THEN 0 ELSE CHOOSE i \in I : \A k \in I : k <= i
Basename(f) == SubSeq(f, LastIndexOf(f, Sep) + 1, Len(f))
\* the extension of a file name: from its last '.', empty if there is none
Ext(f) == LET b == Basename(f) k == LastIndexOf(b, ".") IN IF k = 0 THEN <<>> ELSE SubSeq(b, k, Len(b))

Documented == {<<".", "c", "p", "p">>, <<".", "c", "x", "x">>, <<".", "c", "c">>, <<".", "c", "+", "+">>, <<".", "c">>,
               <<".", "i", "p", "p">>, <<".", "i", "x", "x">>, <<".", "t", "p", "p">>, <<".", "t", "x", "x">>}
\* "yes": a documented source extension; "open": accepted by the implementation without being documented
\* (another letter case of a documented one, .cl); "no": anything else, in particular headers
ExtStatus(f) ==
  IF Ext(f) \in Documented THEN "yes"
  ELSE IF LowerStr(Ext(f)) \in Documented \cup {<<".", "c", "l">>} THEN "open"
  ELSE "no"

-----------------------------------------------------------------------------
(* the expectation for one case c = [cwd, files, inputs, ign, filt, checked] *)

\* is directory d (a canonical absolute path) above the canonical absolute path id
AboveId(d, id) == Len(id) > Len(d) /\ SubSeq(id, 1, Len(d)) = d /\ (d = <<Sep>> \/ id[Len(d) + 1] = Sep)

\* three-valued conjunction over {"yes", "no", "open"}
All3(S) == IF "no" \in S THEN "no" ELSE IF "open" \in S THEN "open" ELSE "yes"
Not3(v) == IF v = "yes" THEN "no" ELSE IF v = "no" THEN "yes" ELSE "open"
Best3(S) == IF "yes" \in S THEN "yes" ELSE IF "open" \in S THEN "open" ELSE "no"

\* The facts of a case:
\*   fid[f]    canonical absolute path of file f of the tree
\*   loc[x]    canonical absolute path that input path x denotes
\*   via[f]    the input paths through which f is reached: x names f itself, or a directory above f
\*   ign[f], filt[f]  "yes" if some pattern of the list must match f, "open" if none must but one may
\*   status[f] is f analysed: "yes", "no", "open"
\* (Each table is handed on as an operator argument and forced with TLCEval: TLC evaluates an argument once,
\*  whereas a LET definition is evaluated again at every use.)
Some3(pinfos, ti) ==
  LET V == {VerdictI(pinfos[k], ti, "reg") : k \in DOMAIN pinfos}
  IN IF "T" \in V THEN "yes" ELSE IF "Open" \in V THEN "open" ELSE "no"

Facts4(c, F, X, fid, loc, via, ign, filt) ==
  LET \* f reached through x: named explicitly (a documented extension is certainly analysed, anything else
      \* is left open) or found by traversal (the extension decides)
      selected(x, f) == All3({ IF loc[x] = fid[f] THEN (IF ExtStatus(f) = "yes" THEN "yes" ELSE "open") ELSE ExtStatus(f),
                               Not3(ign[f]), filt[f] })
  IN [F |-> F, X |-> X, fid |-> fid, loc |-> loc, via |-> via,
      status |-> [f \in F |-> Best3({selected(x, f) : x \in via[f]})]]
Facts3(c, F, X, fid, loc, via, tinfo, igninfo, filtinfo) ==
  Facts4(c, F, X, fid, loc, via,
         TLCEval([f \in F |-> IF via[f] = {} THEN "no" ELSE Some3(igninfo, tinfo[f])]),
         TLCEval([f \in F |-> IF via[f] = {} \/ c.filt = <<>> THEN "yes" ELSE Some3(filtinfo, tinfo[f])]))
Facts2(c, F, X, fid, loc) ==
  Facts3(c, F, X, fid, loc,
         TLCEval([f \in F |-> {x \in X : loc[x] = fid[f] \/ AboveId(loc[x], fid[f])}]),
         TLCEval([f \in F |-> PathInfo(fid[f], c.cwd)]),
         TLCEval([k \in DOMAIN c.ign |-> PatInfo(c.ign[k], c.cwd)]),
         TLCEval([k \in DOMAIN c.filt |-> PatInfo(c.filt[k], c.cwd)]))
Facts1(c, F, X) ==
  Facts2(c, F, X, TLCEval([f \in F |-> Canon(Join(c.cwd, f))]), TLCEval([x \in X |-> Canon(PathString(x, c.cwd))]))
Facts(c) == TLCEval(Facts1(c, ToSet(c.files), ToSet(c.inputs)))

\* the canonical name under which f is reported when found through x: the input path as given, followed by
\* the way from there to the file
NameVia(e, x, f) ==
  IF e.loc[x] = e.fid[f] THEN Canon(x)
  ELSE LET d == e.loc[x] id == e.fid[f]
           rest == SubSeq(id, (IF d = <<Sep>> THEN 2 ELSE Len(d) + 2), Len(id))
       IN Canon(x \o <<Sep>> \o rest)

\* what is wrong with the observed sequence obs of reported names (empty sets = nothing), and two measures;
\* e = Facts(c), ids[k] = the canonical absolute path that obs[k] denotes
Judgement3(c, e, obs, ids, must, may, fileOf) ==
  LET known == {k \in DOMAIN obs : ids[k] \in DOMAIN fileOf}
      \* the observed files that belong to exactly one input path x, in the observed order
      ownIdx(x) == SelectSeq([k \in DOMAIN obs |-> k], LAMBDA k : k \in known /\ e.via[fileOf[ids[k]]] = {x})
      own(x) == [n \in DOMAIN ownIdx(x) |-> obs[ownIdx(x)[n]]]
  IN [id |-> c.id,
      missing    |-> must \ ToSet(ids),                                        \* must be analysed, is not
      unexpected |-> ToSet(ids) \ may,                                         \* analysed, must not be
      twice      |-> {ids[k] : k \in {n \in DOMAIN ids : \E m \in DOMAIN ids : m < n /\ ids[m] = ids[n]}},
      badname    |-> {obs[k] : k \in {n \in known : obs[n] \notin {NameVia(e, x, fileOf[ids[n]]) : x \in e.via[fileOf[ids[n]]]}}},
      unsorted   |-> {x \in e.X : ~Sorted(TLCEval(own(x)))},
      \* findings are reported for exactly the analysed files, under the same names
      misreported |-> IF "reported" \in DOMAIN c
                      THEN (ToSet(c.reported) \ ToSet(obs)) \cup (ToSet(obs) \ ToSet(c.reported))
                      ELSE {},                                                 \* (an observation without findings)
      \* the patterns decide something: a file with a documented source extension under an input path is excluded
      deciding   |-> \E f \in e.F : e.via[f] # {} /\ ExtStatus(f) = "yes" /\ e.status[f] = "no",
      withopen   |-> must # may]
Judgement2(c, e) ==
  Judgement3(c, e, c.checked,
             TLCEval([k \in DOMAIN c.checked |-> Canon(PathString(c.checked[k], c.cwd))]),
             {e.fid[f] : f \in {g \in e.F : e.status[g] = "yes"}},
             {e.fid[f] : f \in {g \in e.F : e.status[g] # "no"}},
             TLCEval([id \in {e.fid[f] : f \in e.F} |-> CHOOSE f \in e.F : e.fid[f] = id]))
Judgement(c) == Judgement2(c, Facts(c))

Fine(j) == j.missing = {} /\ j.unexpected = {} /\ j.twice = {} /\ j.badname = {} /\ j.unsorted = {} /\ j.misreported = {}
Printable(j) == [id |-> j.id, missing |-> SetToSeq(j.missing), unexpected |-> SetToSeq(j.unexpected),
                 twice |-> SetToSeq(j.twice), badname |-> SetToSeq(j.badname), unsorted |-> SetToSeq(j.unsorted),
                 misreported |-> SetToSeq(j.misreported)]

-----------------------------------------------------------------------------
(* gen: the sampled case space *)
(* PARAMS (one ndjson record): files = menu of file paths, pats = menu of   *)
(* patterns, each [s, abs]; n = number of cases; seed.  abs = TRUE marks a  *)
(* string that the driver prefixes with the current directory.              *)
Params == ndJsonDeserialize(IOEnv.PARAMS)[1]

\* pseudo-random numbers from (seed, case, draw): three rounds of x -> x*x + k modulo a prime below 2^15.5
M == 46337
Mix(x, k) == (x * x + k) % M
Rnd(c, d) == Mix(Mix(Mix((Params.seed * 7919 + c * 104729 + d * 1299709 + 12345) % M, c % M), d), 77)

Pick(S, c, d) == LET q == SetToSeq(S) IN q[1 + (Rnd(c, d) % Len(q))]

\* the tree of case c: every file of the menu with probability about 1/3 (at least one)
TreeOf(c) ==
  LET T == {i \in DOMAIN Params.files : Rnd(c, i) % 3 = 0}
  IN IF T = {} THEN {Params.files[1 + (Rnd(c, 50) % Len(Params.files))]} ELSE {Params.files[i] : i \in T}

\* the directories of a tree (as relative paths) and the ways to spell a directory or a file as input path
DirsOf(T) == UNION {{Flatten(SubSeq(Comps(f), 1, n), TRUE) : n \in 1..(Len(Comps(f)) - 1)} : f \in T}
Str(s, abs) == [s |-> s, abs |-> abs]
DirSpellings(d) ==
  {Str(d, FALSE), Str(d \o <<Sep>>, FALSE), Str(<<".", Sep>> \o d, FALSE), Str(d \o <<Sep, ".">>, FALSE),
   Str(d \o <<Sep, ".", ".", Sep>> \o Last(Comps(d)), FALSE), Str(d \o <<Sep, Sep>>, FALSE), Str(d, TRUE)}
CwdSpellings == {Str(<<".">>, FALSE), Str(<<".", Sep>>, FALSE), Str(<<>>, TRUE), Str(<<".", Sep, ".">>, FALSE)}
FileSpellings(f) == {Str(f, FALSE), Str(<<".", Sep>> \o f, FALSE), Str(f, TRUE)}

InputChoices(T) ==
  [cwd   |-> CwdSpellings,
   dirs  |-> UNION {DirSpellings(d) : d \in DirsOf(T)},
   files |-> UNION {FileSpellings(f) : f \in T}]

\* one input path: the current directory (3 of 8), a directory of the tree (3 of 8), a file (2 of 8)
InputOf(T, c, d) ==
  LET ch == InputChoices(T)
      r == Rnd(c, d) % 8
  IN IF r < 3 \/ (r < 6 /\ ch.dirs = {}) THEN Pick(ch.cwd, c, d + 1)
     ELSE IF r < 6 THEN Pick(ch.dirs, c, d + 1)
     ELSE Pick(ch.files, c, d + 1)

PatOf(c, d) == Params.pats[1 + (Rnd(c, d) % Len(Params.pats))]

CaseOf(c) ==
  LET T == TreeOf(c)
      nin == IF Rnd(c, 60) % 4 = 0 THEN 2 ELSE 1
      nign == Rnd(c, 61) % 3                       \* 0, 1 or 2 -i patterns
      nfilt == IF Rnd(c, 62) % 3 = 0 THEN 1 + (Rnd(c, 63) % 2) ELSE 0
  IN [id |-> c, files |-> SetToSeq(T),
      inputs |-> [k \in 1..nin |-> InputOf(T, c, 70 + 2 * k)],
      ign  |-> [k \in 1..nign |-> PatOf(c, 80 + k)],
      filt |-> [k \in 1..nfilt |-> PatOf(c, 90 + k)]]

Gen(dummy) == /\ ndJsonSerialize(IOEnv.CASES, [c \in 1..Params.n |-> CaseOf(c)])
              /\ PrintT(<<"GEN", Params.n>>)

-----------------------------------------------------------------------------
(* judge *)
\* observations: [id, cwd, files, inputs, ign, filt, checked, reported] with all strings as they were used in the run
Obs == IF IOEnv.STEP = "judge" THEN ndJsonDeserialize(IOEnv.OBS) ELSE <<>>
Verdicts == TLCEval([k \in DOMAIN Obs |-> Judgement(Obs[k])])
BadCases == {k \in DOMAIN Obs : ~Fine(Verdicts[k])}
\* measured: cases in which the patterns decide something, cases with an open membership
Deciding == {k \in DOMAIN Obs : Verdicts[k].deciding}
WithOpen == {k \in DOMAIN Obs : Verdicts[k].withopen}
RECURSIVE SumRange(_, _, _)
SumRange(f(_), lo, hi) == IF lo > hi THEN 0 ELSE IF lo = hi THEN f(lo)
                          ELSE LET mid == (lo + hi) \div 2 IN SumRange(f, lo, mid) + SumRange(f, mid + 1, hi)
NChecked == LET N(k) == Len(Obs[k].checked) IN SumRange(N, 1, Len(Obs))

Judge(dummy) ==
  /\ ndJsonSerialize(IOEnv.OUT, [i \in 1..Cardinality(BadCases) |-> Printable(Verdicts[SetToSeq(BadCases)[i]])])
  /\ PrintT(<<"JUDGE", "CASES", Len(Obs), "BAD", Cardinality(BadCases), "DECIDING", Cardinality(Deciding),
              "WITHOPEN", Cardinality(WithOpen), "FILES", NChecked>>)

ASSUME CASE IOEnv.STEP = "gen"   -> Gen(0)
         [] IOEnv.STEP = "judge" -> Judge(0)
=============================================================================
