---------------------------- MODULE TokenMatchGen ----------------------------
(***************************************************************************)
(* C33, step "gen": TLC                                                     *)
(*  1. checks laws of the pattern language (TokenMatch.tla) on the token    *)
(*     universe and on the patterns it generates,                           *)
(*  2. takes the patterns enumerated from the documented grammar            *)
(*     (TokenMatchGrammar.tla),                                             *)
(*  3. derives for every pattern - the generated ones and the ones taken    *)
(*     from lib/*.cpp - a covering set of token lists from the spec: with   *)
(*     a list that matches element by element as base, every element gets   *)
(*     one matching token per alternative and tokens it does not accept,    *)
(*     optional / negated elements are left out and doubled, the list ends  *)
(*     at every position.                                                   *)
(*                                                                         *)
(* Input  IOEnv.PARAMS   see TokenMatchGrammar                              *)
(*        IOEnv.TOKENS   the token universe: line i = attributes of token i *)
(*                       as reported by the real Token class (harness);     *)
(*                       tokens 1..ncore are the "core" (all classes of     *)
(*                       tokens), the others are the literals of patterns   *)
(*        IOEnv.PATTERNS this shard's source patterns [pid, kind, cs, hv]   *)
(* Output IOEnv.OUTCOVER [pid, ok (spec's parser accepts), cases]           *)
(*                       case = [t (token ids), s (start), e (end or -1)]   *)
(***************************************************************************)
EXTENDS TokenMatchGrammar

U   == ndJsonDeserialize(IOEnv.TOKENS)
Lib == ndJsonDeserialize(IOEnv.PATTERNS)

N    == Len(U)
Core == 1..P.ncore
V    == 1                  \* the varid argument used with the synthetic token lists

-----------------------------------------------------------------------------
(* Seeded choice: the r elements of S with the smallest rank.               *)
RankA == 1 + ((P.seed * 7919 + 4001) % 10005)
RankB == (P.seed * 101) % 10007
Rank(u) == (u * RankA + RankB) % 10007       \* injective on 1..10006 (10007 is prime)

\* the core in rank order, computed once; Pick filters it (sets reaching outside the core - several tokens with
\* the spelling of one literal - are taken in TLC's own order)
CoreOrder == TLCEval(SortSeq([i \in 1..P.ncore |-> i], LAMBDA a, b : Rank(a) < Rank(b)))
Pick(S, r) == IF Cardinality(S) <= r THEN S
              ELSE LET q == IF S \subseteq Core THEN SelectSeq(CoreOrder, LAMBDA u : u \in S) ELSE SetToSeq(S)
                   IN {q[i] : i \in 1..r}

-----------------------------------------------------------------------------
(* Index of the universe.                                                   *)
Strs  == {U[u].s : u \in 1..N}
\* (TLCEval: compute once; TLC would otherwise re-evaluate these lazy functions at every application)
ByStr == TLCEval([s \in Strs |-> TLCEval({u \in 1..N : U[u].s = s})])
ByCmd == TLCEval([c \in CmdNames |-> TLCEval({u \in Core : AltMatches(Cmd(c), U[u], V)})])

StrIdx(s) == IF s \in Strs THEN ByStr[s] ELSE {}
AltIdx(a) == IF a.cmd = "lit" THEN StrIdx(a.lit) ELSE ByCmd[a.cmd]

\* tokens accepted by element e (for literals: anywhere in the universe, otherwise within the core)
ElemIdx(e) ==
  IF e.k = "set" THEN UNION {StrIdx(c) : c \in RangeOf(e.cs)}
  ELSE IF e.k = "neg" THEN Core \ StrIdx(e.lit)
  ELSE UNION {AltIdx(e.alts[i]) : i \in 1..Len(e.alts)}

\* per element: the token of the base list, one token (reps tokens) per alternative, tokens that are not accepted
Info(e) ==
  LET acc == ElemIdx(e)
      prim == IF acc = {} THEN 1 ELSE CHOOSE x \in Pick(acc, 1) : TRUE
      reps == IF e.k = "set" THEN acc
              ELSE IF e.k = "neg" THEN Pick(acc, P.reps)
              ELSE UNION {Pick(AltIdx(e.alts[i]), P.reps) : i \in 1..Len(e.alts)}
      nons == IF e.k = "neg" THEN StrIdx(e.lit) ELSE Pick(Core \ acc, P.nons)
  IN [prim |-> prim, sub |-> reps \cup nons, non |-> nons]

-----------------------------------------------------------------------------
(* What the cover is derived from: the parsed pattern; for source patterns   *)
(* the spec's parser rejects, a crude reading (every word: its non-empty     *)
(* "|"-parts as literals / commands) that only serves to choose tokens.      *)
CrudeElem(w) ==
  LET parts == SelectSeq(Split(w, "|"), LAMBDA x : x # <<>>)
  IN IF parts = <<>> THEN AltE(<<Lit(w)>>, FALSE)
     ELSE AltE([i \in 1..Len(parts) |-> IF Join(parts[i]) \in DOMAIN CmdTable THEN Cmd(CmdTable[Join(parts[i])]) ELSE Lit(parts[i])], FALSE)
Crude(cs) == LET ws == Words(cs) IN [i \in 1..Len(ws) |-> CrudeElem(ws[i])]

LibParsed == TLCEval([k \in 1..Len(Lib) |-> TLCEval(IF IsSimpleKind(Lib[k].kind) THEN ParseSimple(Lib[k].cs) ELSE Parse(Lib[k].cs))])
LibElems  == TLCEval([k \in 1..Len(Lib) |-> TLCEval(IF LibParsed[k].ok THEN LibParsed[k].elems ELSE Crude(Lib[k].cs))])

AllElems == UNION ({RangeOf(LibElems[k]) : k \in 1..Len(Lib)} \cup {RangeOf(GenPattern(g)) : g \in MyGen})
InfoTab  == TLCEval([e \in AllElems |-> TLCEval(Info(e))])

Cover(p) ==
  LET n    == Len(p)
      full == [i \in 1..n |-> InfoTab[p[i]].prim]
      skippable(i) == p[i].k = "neg" \/ p[i].opt
  IN {full, full \o <<full[n]>>}
     \cup UNION {{[full EXCEPT ![i] = r] : r \in InfoTab[p[i]].sub} : i \in 1..n}
     \cup {SubSeq(full, 1, i - 1) \o SubSeq(full, i + 1, n) : i \in {x \in 1..n : skippable(x)}}
     \cup {SubSeq(full, 1, i) \o SubSeq(full, i, n) : i \in {x \in 1..n : skippable(x)}}
     \cup {SubSeq(full, 1, k) : k \in 0..(n - 1)}

\* find: the lists as they are, and behind one / two tokens (one the first element rejects, one it accepts), with end tokens
FindCases(p) ==
  LET lists == Cover(p)
      x == IF InfoTab[p[1]].non = {} THEN 1 ELSE CHOOSE u \in InfoTab[p[1]].non : TRUE
      y == InfoTab[p[1]].prim
  IN {[t |-> l, s |-> 0, e |-> -1] : l \in lists}
     \cup {[t |-> <<x>> \o l, s |-> 0, e |-> -1] : l \in lists}
     \cup {[t |-> <<x>> \o l, s |-> 0, e |-> 1] : l \in lists}
     \cup {[t |-> <<y, x>> \o l, s |-> 1, e |-> -1] : l \in lists}
     \cup {[t |-> <<y, x>> \o l, s |-> 0, e |-> 2] : l \in lists}
     \cup {[t |-> <<x, x>> \o l, s |-> 0, e |-> 3] : l \in lists}

Cases(kind, p) ==
  IF p = <<>> THEN {[t |-> <<>>, s |-> 0, e |-> -1], [t |-> <<1>>, s |-> 0, e |-> -1]}
  ELSE IF IsFindKind(kind) THEN FindCases(p)
  ELSE {[t |-> l, s |-> 0, e |-> -1] : l \in Cover(p)}

-----------------------------------------------------------------------------
(* Laws (a wrong spec should not survive them).                             *)
TokOK == {u \in 1..N : TokenOK(U[u])}
M1(a, u) == AltMatches(Cmd(a), U[u], V)

ASSUME LawCommands ==
  \A u \in TokOK :
     /\ M1("any", u)
     /\ M1("type", u) = (M1("name", u) /\ ~M1("var", u))
     /\ (M1("varid", u) => M1("var", u))
     /\ (M1("comp", u) => M1("cop", u)) /\ (M1("cop", u) => M1("op", u)) /\ (M1("assign", u) => M1("op", u))
     /\ (M1("or", u) => M1("cop", u)) /\ (M1("oror", u) => M1("cop", u)) /\ ~(M1("or", u) /\ M1("oror", u))
     /\ (M1("bool", u) => M1("name", u))
     /\ Cardinality({c \in {"name", "num", "char", "str", "op"} : M1(c, u)}) <= 1
     /\ (M1("assign", u) => ~M1("cop", u))

\* on the base lists: the greedy reading implies the liberal one, tokens behind the pattern do not matter,
\* Greedy = all elements passed, a one-element negation is the complement of the literal
ASSUME LawMatching ==
  \A g \in {x \in MyGen : x % 5 = 0} : LET p == GenPattern(g) IN
     \A l \in Cover(p) : LET toks == [i \in 1..Len(l) |-> U[l[i]]] IN
        /\ (MatchGreedy(p, toks, V) => MatchExists(p, toks, V))
        /\ (MatchGreedy(p, toks, V) = (Progress(p, toks, V, 1, 1) = Len(p)))
        /\ (toks # <<>> => PassesFirst(p, toks, V) = (Progress(p, toks, V, 1, 1) >= 1))
        /\ (Len(toks) >= Len(p) => MatchGreedy(p, toks, V) = MatchGreedy(p, toks \o <<U[1]>>, V))
        /\ (Len(toks) >= Len(p) => MatchExists(p, toks, V) = MatchExists(p, toks \o <<U[1]>>, V))
        /\ (Len(p) = 1 /\ p[1].k = "neg" /\ Len(toks) = 1 =>
              MatchGreedy(p, toks, V) = ~MatchGreedy(<<AltE(<<Lit(p[1].cs)>>, FALSE)>>, toks, V))
        /\ (0 \in FindMatch(p, toks, V, 0, -1) \/ \E r \in FindMatch(p, toks, V, 0, -1) : MatchExists(p, Suffix(toks, r), V))

ASSUME LawEmpty == MatchGreedy(<<>>, <<>>, V) /\ MatchGreedy(<<NegE(<<"x">>)>>, <<>>, V) /\ ~MatchGreedy(<<AltE(<<Cmd("any")>>, FALSE)>>, <<>>, V)
                   /\ MatchGreedy(<<AltE(<<Cmd("any")>>, TRUE)>>, <<>>, V)

-----------------------------------------------------------------------------
(* Output.                                                                  *)
CoverOut ==
  [k \in 1..Len(Lib) |-> [pid |-> Lib[k].pid, ok |-> LibParsed[k].ok, cases |-> SetToSeq(Cases(Lib[k].kind, LibElems[k]))]]
  \o [k \in 1..Len(GenSeq) |-> [pid |-> P.base + GenSeq[k], ok |-> TRUE, cases |-> SetToSeq(Cases(GenKind(GenSeq[k]), GenPattern(GenSeq[k])))]]

ASSUME ndJsonSerialize(IOEnv.OUTCOVER, CoverOut)
ASSUME PrintT(<<"GEN", Len(GenSeq), "POOL", M, "TOKOK", Cardinality(TokOK), "TOKENS", N, "ELEMS", Cardinality(AllElems)>>)
=============================================================================
