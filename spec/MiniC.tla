-------------------------------- MODULE MiniC --------------------------------
(***************************************************************************)
(* The executions of the programs of a batch as a state machine (semantics  *)
(* in MiniCSem.tla) and the properties C01 / C03 / C04 as invariants.        *)
(* Init picks a program and an input vector of its boundary-value domain;    *)
(* the machine is deterministic from there, so TLC explores every execution  *)
(* of every program on that domain.                                          *)
(*                                                                         *)
(*   FactsHold (C01, C03)   status = "done" => no fact was contradicted       *)
(*   NeverReached (C04)     status = "done" => no flagged node was evaluated  *)
(*                                                                         *)
(* Both are evaluated only in executions that completed without undefined    *)
(* behaviour: an execution that hits UB, is abandoned (a value left TLC's     *)
(* integers) or exhausts the step budget never reaches status "done".         *)
(* When an execution ends the machine prints one line                         *)
(*     X {p: program, s: status, w: reason, n: steps, seen, res, inp, bad}     *)
(* from which the check counts what was explored (evidence only).             *)
(***************************************************************************)
EXTENDS MiniCSem

VARIABLES prog,     \* index of the program in Batch
          input,    \* the argument vector
          store, kont,
          rv,       \* <<>> or <<value>>: value carried by a return statement to the R item
          status,   \* "run" | "done" | "ub" | "abandon" | "fuel"
          evals,    \* ghost: evaluations of the last step
          seen,     \* ghost: fact-carrying nodes evaluated so far
          bad,      \* ghost: first contradicted fact
          steps
vars == <<prog, input, store, kont, rv, status, evals, seen, bad, steps>>

Init ==
  /\ prog \in 1..Len(Batch)
  /\ input \in Inputs(prog)
  /\ store = <<NewFrame(prog, 1, input)>>
  /\ kont = <<Item("S", P(prog).funcs[1].body)>>
  /\ rv = <<>> /\ status = "run" /\ evals = <<>> /\ seen = {} /\ bad = NoBad /\ steps = 0

Report(st, w, sn, res, b) ==
  PrintT("X " \o ToJson([p |-> prog, s |-> st, w |-> w, n |-> steps, seen |-> sn, res |-> res, inp |-> input, bad |-> b,
                          flagged |-> {id \in sn : IsFlagged(prog, id)}]))

Step ==
  /\ status = "run"
  /\ IF steps >= Fuel
     THEN /\ status' = "fuel"
          /\ UNCHANGED <<prog, input, store, kont, rv, evals, seen, bad, steps>>
          /\ Report("fuel", "", seen, <<>>, bad)
     ELSE LET r  == Exec(prog, Head(kont), store, Tail(kont), rv)
              s2 == IF r.s # "ok" THEN r.s ELSE IF r.kont = <<>> THEN "done" ELSE "run"
              sn == IF r.s = "ok" THEN seen \cup FactNodes(prog, r.ev) ELSE seen
          IN /\ store' = r.st /\ kont' = r.kont /\ evals' = r.ev
             /\ rv' = IF r.kont = <<>> THEN <<>> ELSE r.rv
             /\ steps' = steps + 1
             /\ status' = s2
             /\ seen' = sn
             /\ bad' = IF bad.set \/ r.s # "ok" THEN bad ELSE FirstContradiction(prog, r.ev, r.pre, r.post)
             /\ UNCHANGED <<prog, input>>
             /\ (s2 # "run" => Report(s2, r.w, sn, IF s2 = "done" THEN r.rv ELSE <<>>, bad'))

Next == Step
Spec == Init /\ [][Next]_vars

FactsHold    == (status = "done") => ~bad.set
NeverReached == (status = "done") => \A id \in seen : ~IsFlagged(prog, id)

ASSUME BatchOK
=============================================================================
