---------------------------- MODULE ContainersCore ----------------------------
(* Exhaustive core of C02: every straight-line sequence of at most MAXLEN        *)
(* operations on one container (followed by `return size`), written as lists of   *)
(* operation records to IOEnv.OUT.  Python numbers nodes and mentions.            *)
EXTENDS Integers, Sequences, FiniteSets, TLC, Json, IOUtils, SequencesExt
Ops == {[k |-> "push", v |-> 1], [k |-> "pop", v |-> 0], [k |-> "clear", v |-> 0], [k |-> "resize", v |-> 2],
        [k |-> "ins", v |-> 2], [k |-> "era", v |-> 0], [k |-> "hpush", v |-> 0]}
RECURSIVE SeqsOf(_)
SeqsOf(n) == IF n = 0 THEN {<<>>} ELSE {<<o>> \o s : o \in Ops, s \in SeqsOf(n - 1)}
Core(maxlen) == UNION {SeqsOf(n) : n \in 1..maxlen}
ASSUME LET c == SetToSeq(Core(atoi(IOEnv.MAXLEN))) IN PrintT(<<"CORE", Len(c)>>) /\ ndJsonSerialize(IOEnv.OUT, c)
=============================================================================
