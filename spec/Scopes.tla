------------------------------- MODULE Scopes -------------------------------
(***************************************************************************)
(* C08 - "Name resolution agrees with the compiler" (also the program      *)
(* source of C35).                                                         *)
(*                                                                         *)
(* BEHAVIOURS ARE PROGRAMS.  A behaviour of this specification writes a    *)
(* C++ (or C) translation unit one construct at a time; the state is what  *)
(* a reader of the program text has to remember to know what every name    *)
(* means:                                                                  *)
(*                                                                         *)
(*   stack   the scopes that are open, outermost (the file) first          *)
(*   tabs    the lasting scopes (file, namespaces, classes) by path: which *)
(*           variable names they declare, which functions f they declare   *)
(*   decl    every declaration made so far; its position is its id         *)
(*   prog    history variable: the program text so far as a sequence of    *)
(*           items.  Every name token of the text carries the id of the    *)
(*           declaration the LANGUAGE binds it to.                         *)
(*                                                                         *)
(* Declare allocates a fresh id (shadowing an outer declaration of the     *)
(* same name wherever C++ allows it), Use records the id found by          *)
(* innermost-first lookup, Call records the overload chosen by arity and   *)
(* exact match / promotion / conversion ranking.  The rules are those of   *)
(* ISO C++ [basic.scope], [basic.lookup], [expr.prim.lambda.capture],      *)
(* [over.match.best] restricted to the constructs generated here; clang is *)
(* the second witness for every program (see ScopesJudge.tla).             *)
(*                                                                         *)
(* Scope kinds: file, ns (namespace, can be reopened), class (struct with  *)
(* fields, static members, inline member functions), func / meth (the      *)
(* parameters and the outermost block of a function are ONE scope: a local *)
(* of the outermost block may not redeclare a parameter), block, for (the  *)
(* for-init declaration and the loop body are one scope in C++), lambda    *)
(* (init-captures, parameters and body).                                   *)
(*                                                                         *)
(* Bounds and feature switches come from IOEnv.PARAMS (one JSON line per   *)
(* profile; a behaviour belongs to one profile, so one TLC run enumerates  *)
(* the programs of all profiles).                                          *)
(* A program is written to IOEnv.OUT (one JSON line, appended) when it has *)
(* reached P.K items; open scopes are closed by Finish.                    *)
(***************************************************************************)
EXTENDS ScopesText, Json, IOUtils

VARIABLES stack, tabs, decl, prog,
          pf          \* which profile (line of IOEnv.PARAMS) this behaviour obeys; chosen initially, never changed
vars == <<stack, tabs, decl, prog, pf>>
\* (the number of items of prog that are not closing braces is Size; Next writes nothing once Size = P.K)

Profiles == ndJsonDeserialize(IOEnv.PARAMS)
P == Profiles[pf]
\* P.name    label of the profile, copied into every emitted program
\* P.K       number of items (closing braces not counted) of an emitted program
\* P.nv      number of variable names (1..3)
\* P.depth   maximal number of open scopes below the file
\* P.ns P.cls P.lam P.ovl P.loop P.qual P.init   feature switches (BOOLEAN): namespaces, classes, lambdas, overloaded f,
\*           for loops, qualified names, initialisers that use a name
\* P.late    a member function may use a name that only becomes a member later in the class
\* P.maxpar  maximal number of parameters of a generated function
\* P.sigs    parameter type lists that a declaration of f may have
\* P.argt    argument types a call of f may use

VarSeq == SubSeq(<<"x", "y", "z">>, 1, P.nv)
Vars   == {VarSeq[i] : i \in DOMAIN VarSeq}
Ord(n) == CHOOSE i \in DOMAIN VarSeq : VarSeq[i] = n

NoVars == [n \in Vars |-> 0]                  \* a scope that declares nothing
LocalKinds == {"func", "meth", "block", "for", "lambda"}

Frame(k, path, tbl, cap, pend) == [k |-> k, path |-> path, tbl |-> tbl, cap |-> cap, pend |-> pend]
\* cap of a lambda frame: [all |-> default capture present, names |-> explicitly captured names, this |-> `this` captured]
NoCap == [all |-> FALSE, names |-> {}, this |-> FALSE]

Top  == stack[Len(stack)]
Size == Len(SelectSeq(prog, LAMBDA it : it.op # "close"))
InBody == Top.k \in LocalKinds
NextId == Len(decl) + 1
Here == Len(prog) + 1                            \* number of the item being written

Declared == {decl[i].nm : i \in DOMAIN decl}
\* names are introduced in the order x, y, z (programs that differ only in the choice of names are the same program)
Fresh(n, also) == \A i \in 1..(Ord(n) - 1) : VarSeq[i] \in Declared \cup also

(***************************************************************************)
(* LOOKUP.                                                                 *)
(*                                                                         *)
(* Scan(i, n, crossed): unqualified lookup of the variable name n starting *)
(* in frame i and going outwards.  `crossed` collects the capture          *)
(* specifications of the lambda bodies the search has left.  Result:       *)
(*   [kind |-> "found", id]    bound now                                   *)
(*   [kind |-> "class", outer] the search left a member function body: the *)
(*                             name means a member of the class if the     *)
(*                             COMPLETE class has one (even when declared  *)
(*                             later in the text), otherwise `outer`, what *)
(*                             the enclosing namespaces give (0: nothing)  *)
(*   [kind |-> "none"]         not declared / not usable here              *)
(* A variable with automatic storage found outside a lambda body must be   *)
(* captured by every lambda in between (explicitly or by a default         *)
(* capture); a non-static member needs `this` (explicit or by default);    *)
(* namespace-scope variables and static members need no capture.           *)
(***************************************************************************)
CapturesVar(c, n)  == c.all \/ n \in c.names
CapturesThis(c)    == c.all \/ c.this

RECURSIVE Outer(_, _)
Outer(i, n) ==                                   \* lookup in the namespace / file frames from i outwards; 0 = not found
  IF i = 0 THEN 0
  ELSE IF stack[i].k \in {"file", "ns"} /\ tabs[stack[i].path].v[n] # 0 THEN tabs[stack[i].path].v[n]
  ELSE Outer(i - 1, n)

RECURSIVE Scan(_, _, _)
Scan(i, n, crossed) ==
  LET f == stack[i] IN
  IF f.k \in LocalKinds THEN
       IF f.tbl[n] # 0
       THEN IF \A c \in crossed : CapturesVar(c, n) THEN [kind |-> "found", id |-> f.tbl[n]] ELSE [kind |-> "none"]
       ELSE Scan(i - 1, n, IF f.k = "lambda" THEN crossed \cup {f.cap} ELSE crossed)
  ELSE IF f.k = "class" THEN
       IF \A c \in crossed : CapturesThis(c) THEN [kind |-> "class", outer |-> Outer(i - 1, n)] ELSE [kind |-> "none"]
  ELSE LET g == Outer(i, n) IN IF g # 0 THEN [kind |-> "found", id |-> g] ELSE [kind |-> "none"]

Lookup(n) == Scan(Len(stack), n, {})

\* index of the enclosing class frame (0: not inside a class)
ClassFrame == IF \E i \in DOMAIN stack : stack[i].k = "class" THEN CHOOSE i \in DOMAIN stack : stack[i].k = "class" ELSE 0

\* `this` may be written here: inside a member function, and every lambda in between captures it
ThisOK == /\ ClassFrame # 0 /\ InBody
          /\ \A i \in (ClassFrame + 1)..Len(stack) : stack[i].k = "lambda" => CapturesThis(stack[i].cap)

(***************************************************************************)
(* OVERLOAD RESOLUTION for calls f(a1..an) with arguments of arithmetic    *)
(* type.  Name lookup stops at the innermost namespace / file scope that   *)
(* declares any f BEFORE the call (inner declarations hide outer ones,     *)
(* there is no argument dependent lookup for arithmetic types).  Every     *)
(* candidate with the right number of parameters is viable; conversion     *)
(* ranks: 0 exact, 1 promotion (char, short -> int; float -> double),      *)
(* 2 conversion.  The call is well-formed iff one candidate is at least as *)
(* good as every other in all arguments and better in one.                 *)
(***************************************************************************)
Rank(a, p) == IF a = p THEN 0
              ELSE IF (a \in {"char", "short"} /\ p = "int") \/ (a = "float" /\ p = "double") THEN 1
              ELSE 2
BetterSig(s, t, args) == /\ \A j \in DOMAIN args : Rank(args[j], s[j]) <= Rank(args[j], t[j])
                         /\ \E j \in DOMAIN args : Rank(args[j], s[j]) < Rank(args[j], t[j])
\* ids of the best viable functions among the declaration ids C
Best(C, args) == LET V == {c \in C : Len(decl[c].sig) = Len(args)}
                 IN {c \in V : \A d \in V \ {c} : BetterSig(decl[c].sig, decl[d].sig, args)}

RECURSIVE FunScope(_)
FunScope(i) ==                                   \* the functions f visible from frame i: those of the innermost declaring scope
  IF i = 0 THEN {}
  ELSE IF stack[i].k \in {"file", "ns"} /\ tabs[stack[i].path].f # {} THEN tabs[stack[i].path].f
  ELSE FunScope(i - 1)

(***************************************************************************)
(* Writing the program.                                                    *)
(***************************************************************************)
NewVar(n, st) == [nm |-> n, st |-> st, sig |-> <<>>]
SetVar(path, n, id) == [tabs EXCEPT ![path].v[n] = id]

Push(fr, it, newdecls, newtabs) ==
  /\ stack' = Append(stack, fr)
  /\ prog' = Append(prog, it)
  /\ decl' = decl \o newdecls
  /\ tabs' = newtabs

CanOpen == Len(stack) <= P.depth

OpenNs(nm) ==
  /\ P.ns /\ CanOpen /\ Top.k \in {"file", "ns"}
  /\ LET path == Top.path \o <<nm>> IN
       /\ path \in {<<"N">>, <<"N", "M">>}
       /\ Push(Frame("ns", path, NoVars, NoCap, {}), Item("ns", nm, 0, "", <<>>, <<>>), <<>>,
               IF path \in DOMAIN tabs THEN tabs ELSE tabs @@ (path :> [v |-> NoVars, f |-> {}]))

OpenClass ==
  /\ P.cls /\ CanOpen /\ Top.k \in {"file", "ns"}
  /\ LET nm == "S" \o ToString(Here)
         path == Top.path \o <<nm>> IN
       Push(Frame("class", path, NoVars, NoCap, {}), Item("class", nm, 0, "", <<>>, <<>>), <<>>,
            tabs @@ (path :> [v |-> NoVars, f |-> {}]))

\* parameter lists: distinct names, introduced in canonical order
SeqsUpTo(S, k) == {<<>>} \cup (IF k >= 1 THEN {<<a>> : a \in S} ELSE {}) \cup (IF k >= 2 THEN {<<a, b>> : a, b \in S} ELSE {})
ParamLists == {ps \in SeqsUpTo(Vars, P.maxpar) :
                 /\ \A i, j \in DOMAIN ps : i # j => ps[i] # ps[j]
                 /\ \A j \in DOMAIN ps : Fresh(ps[j], {ps[i] : i \in 1..(j - 1)})}
ParamTbl(ps, first) == [n \in Vars |-> IF \E j \in DOMAIN ps : ps[j] = n THEN first - 1 + (CHOOSE j \in DOMAIN ps : ps[j] = n) ELSE 0]
ParamSubs(ps, first) == [j \in DOMAIN ps |-> Sub(ps[j], first - 1 + j, "param")]
ParamDecls(ps) == [j \in DOMAIN ps |-> NewVar(ps[j], "auto")]

OpenFunc(ps) ==
  /\ CanOpen /\ Top.k \in {"file", "ns", "class"}
  /\ Push(Frame(IF Top.k = "class" THEN "meth" ELSE "func", <<>>, ParamTbl(ps, NextId), NoCap, {}),
          Item("func", "g" \o ToString(Here), 0, "", <<>>, ParamSubs(ps, NextId)), ParamDecls(ps), tabs)

OpenBlock ==
  /\ CanOpen /\ InBody
  /\ Push(Frame("block", <<>>, NoVars, NoCap, {}), Item("block", "", 0, "", <<>>, <<>>), <<>>, tabs)

\* for (int n = 0; n < 2; n++) {     the condition and the increment see the variable of the for-init-statement
OpenFor(n) ==
  /\ P.loop /\ CanOpen /\ InBody /\ Fresh(n, {})
  /\ Push(Frame("for", <<>>, [NoVars EXCEPT ![n] = NextId], NoCap, {}),
          Item("for", n, NextId, "local", <<>>, <<Sub(n, NextId, "use"), Sub(n, NextId, "use")>>), <<NewVar(n, "auto")>>, tabs)

(***************************************************************************)
(* Lambda expressions   auto lK = [captures](params) mutable {             *)
(*   captures "=" / "&"        default capture                             *)
(*            n, &n            simple capture: n must name a variable with *)
(*                             automatic storage visible here (and usable  *)
(*                             here: captured by the enclosing lambdas)    *)
(*            this             inside member functions                     *)
(*            m = n            init-capture: declares m in the lambda's    *)
(*                             scope, n is looked up in the enclosing one  *)
(* A parameter may not have the name of a simple or init capture.          *)
(***************************************************************************)
AutoUse(n) == LET r == Lookup(n) IN r.kind = "found" /\ decl[r.id].st = "auto"

OpenLambdaDefault(mode, ps) ==
  /\ P.lam /\ CanOpen /\ InBody /\ mode \in {"=", "&"}
  /\ Push(Frame("lambda", <<>>, ParamTbl(ps, NextId), [all |-> TRUE, names |-> {}, this |-> FALSE], {}),
          Item("lambda", "l" \o ToString(Here), 0, mode, <<>>, ParamSubs(ps, NextId)), ParamDecls(ps), tabs)

OpenLambdaCapture(n, how, ps) ==
  /\ P.lam /\ CanOpen /\ InBody /\ how \in {"copy", "ref"} /\ AutoUse(n)
  /\ \A j \in DOMAIN ps : ps[j] # n
  /\ Push(Frame("lambda", <<>>, ParamTbl(ps, NextId), [all |-> FALSE, names |-> {n}, this |-> FALSE], {}),
          Item("lambda", "l" \o ToString(Here), 0, "list", <<>>, <<Sub(n, Lookup(n).id, how)>> \o ParamSubs(ps, NextId)), ParamDecls(ps), tabs)

OpenLambdaThis(ps) ==
  /\ P.lam /\ P.cls /\ CanOpen /\ ThisOK
  /\ Push(Frame("lambda", <<>>, ParamTbl(ps, NextId), [all |-> FALSE, names |-> {}, this |-> TRUE], {}),
          Item("lambda", "l" \o ToString(Here), 0, "list", <<>>, <<Sub("this", 0, "this")>> \o ParamSubs(ps, NextId)), ParamDecls(ps), tabs)

OpenLambdaInit(m, n, ps) ==
  /\ P.lam /\ P.init /\ CanOpen /\ InBody /\ Fresh(m, {})
  /\ LET r == Lookup(n) IN
       /\ r.kind = "found"
       /\ \A j \in DOMAIN ps : ps[j] # m
       /\ Push(Frame("lambda", <<>>, [ParamTbl(ps, NextId + 1) EXCEPT ![m] = NextId], NoCap, {}),
               Item("lambda", "l" \o ToString(Here), 0, "list", <<>>,
                    <<Sub(m, NextId, "initcap"), Sub(n, r.id, "initsrc")>> \o ParamSubs(ps, NextId + 1)),
               <<NewVar(m, "auto")>> \o ParamDecls(ps), tabs)

(***************************************************************************)
(* Closing a scope.  At the closing brace of a class the uses in member    *)
(* function bodies that left their function are bound (complete-class      *)
(* context): to the member of that name if the class has one, otherwise to *)
(* what was visible outside the class.                                     *)
(***************************************************************************)
Resolve(p, path, tb) == IF tb[path].v[p.n] # 0 THEN tb[path].v[p.n] ELSE IF p.this THEN 0 ELSE p.outer

PatchOne(pr, p, id) == IF p.s = 0 THEN [pr EXCEPT ![p.i].id = id] ELSE [pr EXCEPT ![p.i].sub[p.s].id = id]

RECURSIVE Patch(_, _, _, _)
Patch(pr, pend, path, tb) ==
  IF pend = {} THEN pr
  ELSE LET p == CHOOSE q \in pend : TRUE IN Patch(PatchOne(pr, p, Resolve(p, path, tb)), pend \ {p}, path, tb)

Resolvable(fr, tb) == \A p \in fr.pend : Resolve(p, fr.path, tb) # 0

CloseProg(fr, pr, tb) == Append(IF fr.k = "class" THEN Patch(pr, fr.pend, fr.path, tb) ELSE pr, CloseItem)

\* an empty scope is not closed (it would be the same program as without it), except those that declare something
LastDeclares == LET it == prog[Len(prog)] IN it.op \in {"for", "decl", "use", "call", "fdecl", "close"} \/ it.sub # <<>>

Close ==
  /\ Len(stack) > 1 /\ LastDeclares
  /\ Top.k = "class" => Resolvable(Top, tabs)
  /\ stack' = Front(stack)
  /\ prog' = CloseProg(Top, prog, tabs)
  /\ UNCHANGED <<tabs, decl>>

RECURSIVE Finish(_, _)
Finish(st, pr) == IF Len(st) = 1 THEN pr ELSE Finish(Front(st), CloseProg(st[Len(st)], pr, tabs))
Finishable == \A i \in DOMAIN stack : stack[i].k = "class" => Resolvable(stack[i], tabs)

(***************************************************************************)
(* Declarations of variables.  `int n;` / `int n = 0;`, in a class         *)
(* `int n;` or `static int n;`.  A name may be declared once per scope.    *)
(* With an initialiser `int n = m;` the name m is looked up AFTER n has    *)
(* been declared (point of declaration): `int x = x;` means the new x.     *)
(***************************************************************************)
\* the use of name m in an initialiser / statement written as item `it` sub-token s; binds now or is left to the class
UseNow(m)  == Lookup(m).kind = "found"
UseId(m)   == LET r == Lookup(m) IN IF r.kind = "found" THEN r.id ELSE 0
Pending(m, s, this) == [i |-> Here, s |-> s, n |-> m, this |-> this,
                        outer |-> IF this THEN 0 ELSE LET r == Lookup(m) IN IF r.kind = "class" THEN r.outer ELSE 0]
AddPending(st, p) == [st EXCEPT ![ClassFrame].pend = @ \cup {p}]

\* a use that is left to the end of the class is only written when it can still become bound
PendOK(n, r) == r.outer # 0 \/ tabs[stack[ClassFrame].path].v[n] # 0 \/ (P.late /\ n \in Declared)

DeclareScope(n, st) ==                            \* in a namespace, the file or a class
  /\ Top.k \in {"file", "ns", "class"} /\ Fresh(n, {})
  /\ tabs[Top.path].v[n] = 0
  /\ st \in (IF Top.k = "class" THEN {"field", "smember"} ELSE {"global"})
  /\ prog' = Append(prog, Item("decl", n, NextId, st, <<>>, <<>>))
  /\ decl' = Append(decl, NewVar(n, st))
  /\ tabs' = SetVar(Top.path, n, NextId)
  /\ UNCHANGED stack

DeclareLocal(n) ==
  /\ InBody /\ Fresh(n, {}) /\ Top.tbl[n] = 0
  /\ prog' = Append(prog, Item("decl", n, NextId, "local", <<>>, <<>>))
  /\ decl' = Append(decl, NewVar(n, "auto"))
  /\ stack' = [stack EXCEPT ![Len(stack)].tbl[n] = NextId]
  /\ UNCHANGED tabs

\* int n = m;  in a function body or at namespace scope; m is looked up in the state AFTER the declaration of n
DeclareInit(n, m) ==
  /\ P.init /\ Fresh(n, {})
  /\ \/ /\ InBody /\ Top.tbl[n] = 0
        /\ LET st2 == [stack EXCEPT ![Len(stack)].tbl[n] = NextId]
               r == IF m = n THEN [kind |-> "found", id |-> NextId] ELSE Lookup(m) IN
             /\ r.kind = "found" \/ (r.kind = "class" /\ PendOK(m, r))
             /\ prog' = Append(prog, Item("decl", n, NextId, "local", <<>>, <<Sub(m, IF r.kind = "found" THEN r.id ELSE 0, "init")>>))
             /\ stack' = IF r.kind = "found" THEN st2 ELSE AddPending(st2, Pending(m, 1, FALSE))
             /\ decl' = Append(decl, NewVar(n, "auto"))
             /\ UNCHANGED tabs
     \/ /\ Top.k \in {"file", "ns"} /\ tabs[Top.path].v[n] = 0
        /\ LET mid == IF m = n THEN NextId ELSE Outer(Len(stack), m) IN
             /\ mid # 0
             /\ prog' = Append(prog, Item("decl", n, NextId, "global", <<>>, <<Sub(m, mid, "init")>>))
             /\ decl' = Append(decl, NewVar(n, "global"))
             /\ tabs' = SetVar(Top.path, n, NextId)
             /\ UNCHANGED stack

(***************************************************************************)
(* Uses (expression statements `n = 1;`).                                  *)
(*   plain  n          unqualified lookup                                  *)
(*   this   this->n    a member of the enclosing class (bound at its end)  *)
(*   qual   N::M::n    a variable of that namespace / a static member of   *)
(*                     that class, declared before this point              *)
(*   glob   ::n        the variable of the global namespace                *)
(* In a member function a plain use whose lookup leaves the function is    *)
(* written now and bound when the class is complete; it is only written    *)
(* when the name can still become bound (already a member, visible outside *)
(* the class, or P.late allows declaring the member later).                *)
(***************************************************************************)
UsePlain(n) ==
  /\ InBody
  /\ LET r == Lookup(n) IN
       \/ /\ r.kind = "found"
          /\ prog' = Append(prog, Item("use", n, r.id, "plain", <<>>, <<>>))
          /\ UNCHANGED stack
       \/ /\ r.kind = "class" /\ PendOK(n, r)
          /\ prog' = Append(prog, Item("use", n, 0, "plain", <<>>, <<>>))
          /\ stack' = AddPending(stack, Pending(n, 0, FALSE))
  /\ UNCHANGED <<tabs, decl>>

UseThis(n) ==
  /\ P.cls /\ ThisOK
  /\ (tabs[stack[ClassFrame].path].v[n] # 0 \/ (P.late /\ n \in Declared))
  /\ prog' = Append(prog, Item("use", n, 0, "this", <<>>, <<>>))
  /\ stack' = AddPending(stack, Pending(n, 0, TRUE))
  /\ UNCHANGED <<tabs, decl>>

UseQual(n, path) ==
  /\ P.qual /\ InBody /\ path \in DOMAIN tabs
  /\ tabs[path].v[n] # 0
  /\ decl[tabs[path].v[n]].st \in {"global", "smember"}
  /\ prog' = Append(prog, Item("use", n, tabs[path].v[n], IF path = <<>> THEN "glob" ELSE "qual", path, <<>>))
  /\ UNCHANGED <<stack, tabs, decl>>

(***************************************************************************)
(* Functions f: declarations `void f(T1, T2);` at file / namespace scope   *)
(* (each parameter list once per scope), calls `f(a1, a2);` in bodies.     *)
(***************************************************************************)
TypeSubs(ts, form) == [j \in DOMAIN ts |-> Sub(ts[j], 0, form)]

FDecl(sig) ==
  /\ P.ovl /\ Top.k \in {"file", "ns"}
  /\ \A c \in tabs[Top.path].f : decl[c].sig # sig
  /\ prog' = Append(prog, Item("fdecl", "f", NextId, "", <<>>, TypeSubs(sig, "ptype")))
  /\ decl' = Append(decl, [nm |-> "f", st |-> "fn", sig |-> sig])
  /\ tabs' = [tabs EXCEPT ![Top.path].f = @ \cup {NextId}]
  /\ UNCHANGED stack

Call(args) ==
  /\ P.ovl /\ InBody
  /\ LET b == Best(FunScope(Len(stack)), args) IN
       /\ Cardinality(b) = 1
       /\ prog' = Append(prog, Item("call", "f", CHOOSE c \in b : TRUE, "", <<>>, TypeSubs(args, "atype")))
  /\ UNCHANGED <<stack, tabs, decl>>

Sigs == {P.sigs[i] : i \in DOMAIN P.sigs}
ArgT == {P.argt[i] : i \in DOMAIN P.argt}
ArgLists == SeqsUpTo(ArgT, 2)

(***************************************************************************)
(* The behaviours.                                                         *)
(***************************************************************************)
Init ==
  /\ pf \in DOMAIN Profiles
  /\ stack = <<Frame("file", <<>>, NoVars, NoCap, {})>>
  /\ tabs = (<<>> :> [v |-> NoVars, f |-> {}])
  /\ decl = <<>>
  /\ prog = <<>>

\* what can be written inside a function / lambda body, and what at file, namespace or class level
BodyNext ==
  \/ OpenBlock
  \/ \E n \in Vars : OpenFor(n)
  \/ \E mode \in {"=", "&"}, ps \in {q \in ParamLists : Len(q) <= 1} : OpenLambdaDefault(mode, ps)
  \/ \E n \in Vars, how \in {"copy", "ref"}, ps \in {q \in ParamLists : Len(q) <= 1} : OpenLambdaCapture(n, how, ps)
  \/ \E ps \in {q \in ParamLists : Len(q) <= 1} : OpenLambdaThis(ps)
  \/ \E m, n \in Vars : OpenLambdaInit(m, n, <<>>)
  \/ \E n \in Vars : DeclareLocal(n)
  \/ \E n, m \in Vars : DeclareInit(n, m)
  \/ \E n \in Vars : UsePlain(n)
  \/ \E n \in Vars : UseThis(n)
  \/ \E n \in Vars, path \in DOMAIN tabs : UseQual(n, path)
  \/ \E args \in ArgLists : Call(args)

ScopeNext ==
  \/ \E nm \in {"N", "M"} : OpenNs(nm)
  \/ OpenClass
  \/ \E ps \in ParamLists : OpenFunc(ps)
  \/ \E n \in Vars, st \in {"global", "field", "smember"} : DeclareScope(n, st)
  \/ \E n, m \in Vars : DeclareInit(n, m)
  \/ \E sig \in Sigs : FDecl(sig)

Next == /\ Size < P.K
        /\ \/ Close
           \/ IF InBody THEN BodyNext ELSE ScopeNext
        /\ UNCHANGED pf

Spec == Init /\ [][Next]_vars

(***************************************************************************)
(* Invariants of the specification itself (checked on every state).        *)
(*   UsesBound      every bound use names exactly one declaration, of the  *)
(*                  same name; a call names a declaration of f             *)
(*   DeclsDistinct  the declaring tokens of the text carry the ids         *)
(*                  1..Len(decl), each exactly once                        *)
(*   UsesVisible    the declaration a use is bound to is written before    *)
(*                  the use, or is a member of a class the use is inside   *)
(*                  (the only place where the language looks ahead)        *)
(***************************************************************************)
SpecInv ==
  LET T == Toks(prog)
      D == {t \in T : t.role \in {"decl", "fdecl"}}
      U == {t \in T : t.role \in {"use", "call"}}
      DeclOf(t) == CHOOSE d \in D : d.id = t.id
  IN  \* UsesBound
      /\ \A t \in U : t.id # 0 =>
            /\ t.id \in DOMAIN decl /\ decl[t.id].nm = t.nm
            /\ Cardinality({d \in D : d.id = t.id}) = 1
      \* DeclsDistinct
      /\ Cardinality(D) = Len(decl)
      /\ {t.id : t \in D} = DOMAIN decl
      \* UsesVisible
      /\ \A t \in U : t.id # 0 =>
            \/ DeclOf(t).i < t.i \/ (DeclOf(t).i = t.i /\ DeclOf(t).s < t.s)
            \/ decl[t.id].st \in {"field", "smember"}
      \* unbound uses exist only while their class is open
      /\ \A t \in U : t.id = 0 => ClassFrame # 0 /\ \E p \in stack[ClassFrame].pend : p.i = t.i /\ p.s = t.s

(***************************************************************************)
(* Emission of complete programs.                                          *)
(*   IsC: the program uses only what C has (file and block scopes,         *)
(*   functions, for-init declarations); it is then also rendered as C.     *)
(***************************************************************************)
IsC(pr) == \A i \in DOMAIN pr :
             /\ pr[i].op \in {"func", "block", "for", "close", "decl", "use"}
             /\ pr[i].op = "use" => pr[i].form = "plain"
             /\ pr[i].op = "decl" /\ pr[i].form = "global" => pr[i].sub = <<>>     \* C wants constant initialisers at file scope

\* A program is emitted when its last item is worth judging: a use / call, or a declaration written AFTER a use of the
\* same name (a later declaration must not change what the earlier use means).
Ends == LET it == prog[Len(prog)] IN
          \/ it.op \in {"use", "call"}
          \/ it.op = "decl" /\ it.sub # <<>>
          \/ it.op \in {"decl", "fdecl"} /\ \E i \in 1..(Len(prog) - 1) :
                \/ prog[i].op \in {"use", "call"} /\ prog[i].nm = it.nm
                \/ \E j \in DOMAIN prog[i].sub : prog[i].sub[j].form \in {"init", "initsrc", "copy", "ref"} /\ prog[i].sub[j].nm = it.nm
Complete == Size = P.K /\ Ends /\ Finishable

\* The hard case of class scope: a use bound to a declaration written LATER although a declaration of the same name is
\* written before the use.  Emitted as a tag so that a sampled evaluation can make sure to contain these programs.
LooksAhead(pr) == LET T == Toks(pr) IN
  \E t \in T : /\ t.role = "use"
               /\ \E d \in T : d.role = "decl" /\ d.id = t.id /\ d.i > t.i
               /\ \E e \in T : e.role = "decl" /\ e.nm = t.nm /\ e.i < t.i

Write(pr) == Serialize(ToJson([prog |-> pr, c |-> IsC(pr), profile |-> P.name, hard |-> LooksAhead(pr)]) \o "\n", IOEnv.OUT,
                       [format |-> "TXT", charset |-> "UTF-8", openOptions |-> <<"WRITE", "CREATE", "APPEND">>]).exitValue = 0
Emit == Complete => Write(Finish(stack, prog))
=============================================================================
