------------------------------ MODULE Containers ------------------------------
(***************************************************************************)
(* Small-step semantics of programs over standard sequence containers       *)
(* (std::vector<int>, std::string) and the property C02: every             *)
(* container-size fact cppcheck printed (known size, impossible size,        *)
(* impossible size range) holds for the real size of the container at that   *)
(* mention, in every execution that completes without undefined behaviour.   *)
(*                                                                         *)
(* Abstract state of a container: the sequence of small integers it holds    *)
(* (for sequence containers only its length matters, the contents make the   *)
(* copies / swaps / erases honest).  A program is a table of nodes            *)
(*    [k, c, d, v, op, j, m1, m2, a, ss, es]                                  *)
(* c, d = container indexes, v = constant, j = index of an input parameter    *)
(* (0 = none), m1 / m2 = ids of the MENTIONS of c / d in the statement (a      *)
(* fact is attached to a mention = one token of the container's name), a =    *)
(* condition node, ss / es = statement lists.                                 *)
(*   statements  push(c,v) pop(c) clear(c) resize(c,v) ins(c,v) era(c)         *)
(*               swap(c,d) copy(c,d) [c = d] front(c) back(c) size(c)          *)
(*               hpush(c) hclear(c) hread(c)   calls passing c by reference    *)
(*               if(a,ss,es) loop(j or v, ss) ret                              *)
(*   conditions  empty(c) nempty(c) szcmp(c,op,v) par(j,op,v)                  *)
(* Undefined behaviour: pop_back / erase(begin()) / front / back on an empty   *)
(* container.  evals = <<mention, size at that moment>> of the last step; a    *)
(* mention is evaluated BEFORE the member function it is the object of runs.   *)
(***************************************************************************)
EXTENDS Integers, Sequences, FiniteSets, TLC, Json, IOUtils

Batch == ndJsonDeserialize(IOEnv.BATCH)
Fuel  == atoi(IOEnv.FUEL)
P(pi)     == Batch[pi]
N(pi, id) == Batch[pi].nodes[id]

VARIABLES prog, input, cs, kont, status, evals, seen, bad, steps
vars == <<prog, input, cs, kont, status, evals, seen, bad, steps>>

Cmp(op, a, b) == CASE op = "<" -> a < b [] op = "<=" -> a <= b [] op = ">" -> a > b [] op = ">=" -> a >= b
                   [] op = "==" -> a = b [] op = "!=" -> a # b

Zeros(n) == [i \in 1..n |-> 0]
Resize(s, k) == IF k <= Len(s) THEN SubSeq(s, 1, k) ELSE s \o Zeros(k - Len(s))

\* condition: [v, ev]
Cond(pi, id, st, inp) ==
  LET n == N(pi, id) IN
  CASE n.k = "empty"  -> [v |-> Len(st[n.c]) = 0, ev |-> <<<<n.m1, Len(st[n.c])>>>>]
    [] n.k = "nempty" -> [v |-> Len(st[n.c]) # 0, ev |-> <<<<n.m1, Len(st[n.c])>>>>]
    [] n.k = "szcmp"  -> [v |-> Cmp(n.op, Len(st[n.c]), n.v), ev |-> <<<<n.m1, Len(st[n.c])>>>>]
    [] n.k = "par"    -> [v |-> Cmp(n.op, inp[n.j], n.v), ev |-> <<>>]

Stmts(ss) == [i \in 1..Len(ss) |-> <<"S", ss[i], 0>>]
Ok(st, k, ev) == [s |-> "ok", w |-> "", st |-> st, kont |-> k, ev |-> ev]
Ub(w, st, ev) == [s |-> "ub", w |-> w, st |-> st, kont |-> <<>>, ev |-> ev]

Exec(pi, item, st, rest, inp) ==
  LET id == item[2] n == N(pi, id) len == IF n.c > 0 THEN Len(st[n.c]) ELSE 0 m == <<<<n.m1, len>>>> IN
  IF item[1] = "L"
  THEN IF item[3] > 0 THEN Ok(st, Stmts(n.ss) \o <<<<"L", id, item[3] - 1>>>> \o rest, <<>>) ELSE Ok(st, rest, <<>>)
  ELSE
  CASE n.k = "push"   -> Ok([st EXCEPT ![n.c] = Append(@, n.v)], rest, m)
    [] n.k = "pop"    -> IF len = 0 THEN Ub("pop_back on an empty container", st, <<>>)
                         ELSE Ok([st EXCEPT ![n.c] = SubSeq(@, 1, len - 1)], rest, m)
    [] n.k = "clear"  -> Ok([st EXCEPT ![n.c] = <<>>], rest, m)
    [] n.k = "resize" -> Ok([st EXCEPT ![n.c] = Resize(@, n.v)], rest, m)
    [] n.k = "ins"    -> Ok([st EXCEPT ![n.c] = <<n.v>> \o @], rest, <<<<n.m1, len>>, <<n.m2, len>>>>)   \* c.insert(c.begin(), v): two mentions
    [] n.k = "era"    -> IF len = 0 THEN Ub("erase(begin()) on an empty container", st, <<>>)
                         ELSE Ok([st EXCEPT ![n.c] = Tail(@)], rest, <<<<n.m1, len>>, <<n.m2, len>>>>)
    [] n.k = "swap"   -> Ok([st EXCEPT ![n.c] = st[n.d], ![n.d] = st[n.c]], rest, <<<<n.m1, len>>, <<n.m2, Len(st[n.d])>>>>)
    [] n.k = "copy"   -> Ok([st EXCEPT ![n.c] = st[n.d]], rest, <<<<n.m2, Len(st[n.d])>>>>)   \* the left side is written, not read
    [] n.k \in {"front", "back"} -> IF len = 0 THEN Ub("front/back of an empty container", st, <<>>) ELSE Ok(st, rest, m)
    [] n.k \in {"size", "hread"} -> Ok(st, rest, m)
    [] n.k = "hpush"  -> Ok([st EXCEPT ![n.c] = Append(@, 1)], rest, m)
    [] n.k = "hclear" -> Ok([st EXCEPT ![n.c] = <<>>], rest, m)
    [] n.k = "if"     -> LET c == Cond(pi, n.a, st, inp) IN Ok(st, Stmts(IF c.v THEN n.ss ELSE n.es) \o rest, c.ev)
    [] n.k = "loop"   -> Ok(st, <<<<"L", id, IF n.j > 0 THEN inp[n.j] ELSE n.v>>>> \o rest, <<>>)
    [] n.k = "ret"    -> Ok(st, <<>>, m)

-----------------------------------------------------------------------------
(* Facts: P(pi).mf[mention] = sequence of [k, v]: eq ne gt lt on the size.   *)
Holds(f, len) == CASE f.k = "eq" -> len = f.v [] f.k = "ne" -> len # f.v [] f.k = "gt" -> len > f.v [] f.k = "lt" -> len < f.v
NoBad == [set |-> FALSE, m |-> 0, len |-> 0, fact |-> 0]
First(pi, ev) ==
  LET cs2 == UNION {{<<i, j>> : j \in {j \in 1..Len(P(pi).mf[ev[i][1]]) : ~Holds(P(pi).mf[ev[i][1]][j], ev[i][2])}} : i \in 1..Len(ev)}
  IN IF cs2 = {} THEN NoBad
     ELSE LET c == CHOOSE c \in cs2 : \A d \in cs2 : c[1] < d[1] \/ (c[1] = d[1] /\ c[2] <= d[2])
          IN [set |-> TRUE, m |-> ev[c[1]][1], len |-> ev[c[1]][2], fact |-> c[2]]

Inputs(pi) == IF P(pi).only # <<>> THEN {P(pi).only}
              ELSE [1..P(pi).np -> 0..3]

Init == /\ prog \in 1..Len(Batch)
        /\ input \in Inputs(prog)
        /\ cs = [i \in 1..P(prog).ncont |-> <<>>]
        /\ kont = Stmts(P(prog).body)
        /\ status = "run" /\ evals = <<>> /\ seen = {} /\ bad = NoBad /\ steps = 0

Report(st, w, sn, b) == PrintT("X " \o ToJson([p |-> prog, s |-> st, w |-> w, n |-> steps, seen |-> sn, inp |-> input, bad |-> b,
                                                sizes |-> [i \in 1..Len(cs') |-> Len(cs'[i])]]))

Step ==
  /\ status = "run"
  /\ IF steps >= Fuel
     THEN /\ status' = "fuel" /\ UNCHANGED <<prog, input, cs, kont, evals, seen, bad, steps>> /\ Report("fuel", "", seen, bad)
     ELSE LET r  == Exec(prog, Head(kont), cs, Tail(kont), input)
              s2 == IF r.s # "ok" THEN r.s ELSE IF r.kont = <<>> THEN "done" ELSE "run"
              sn == IF r.s = "ok" THEN seen \cup {r.ev[i][1] : i \in {i \in 1..Len(r.ev) : P(prog).mf[r.ev[i][1]] # <<>>}} ELSE seen
          IN /\ cs' = r.st /\ kont' = r.kont /\ evals' = r.ev /\ steps' = steps + 1 /\ status' = s2 /\ seen' = sn
             /\ bad' = IF bad.set \/ r.s # "ok" THEN bad ELSE First(prog, r.ev)
             /\ UNCHANGED <<prog, input>>
             /\ (s2 # "run" => Report(s2, r.w, sn, bad'))
Next == Step

SizeFactsHold == (status = "done") => ~bad.set
=============================================================================
