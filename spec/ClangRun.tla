------------------------------ MODULE ClangRun ------------------------------
(***************************************************************************)
(* C35, first clause: "for any program clang accepts, analysis with        *)
(* --clang never crashes".                                                 *)
(*                                                                         *)
(* Input IOEnv.OBS: ndjson, one line per translation unit that clang       *)
(* accepts:                                                                *)
(*   label  name of the unit                                               *)
(*   diag   clang printed diagnostics (warnings) for the unit              *)
(*   a      how `cppcheck --clang=clang-14 --dump` ended:                  *)
(*          "ok", "internal-error" (cppcheck reported an internal error    *)
(*          and went on - the property allows that), "nodump",             *)
(*          "crash" (killed by a signal / abnormal exit status),           *)
(*          "timeout"                                                      *)
(*   asig   exit status / signal of run a (text without blanks)            *)
(*   b      the same run with --cppcheck-build-dir (then cppcheck reads    *)
(*          clang's diagnostics from a file of their own instead of from   *)
(*          the stream that carries the AST); "" when it was not made      *)
(*   bsig                                                                  *)
(*                                                                         *)
(* A run that does not terminate normally violates the property.  The     *)
(* class of the violation (identity for known findings) is decided here:   *)
(* if the unit has diagnostics, the run with a build directory ends        *)
(* normally and only the run that receives diagnostics and AST in one      *)
(* stream dies, the cause is the interleaved stream; otherwise the class   *)
(* is the unit itself.                                                     *)
(* Output IOEnv.OUT: [label, run, status, key, what] per abnormal run.     *)
(***************************************************************************)
EXTENDS Integers, Sequences, TLC, Json, IOUtils

In == ndJsonDeserialize(IOEnv.OBS)

Normal(s)   == s \in {"ok", "internal-error", "nodump", ""}
Abnormal(s) == ~Normal(s)

KeyA(r) == IF r.diag /\ r.b # "" /\ Normal(r.b)
           THEN r.a \o ":" \o r.asig \o ":clang-diagnostics-interleaved-with-the-ast-dump"
           ELSE r.a \o ":" \o r.asig \o ":unit:" \o r.digest
KeyB(r) == r.b \o ":" \o r.bsig \o ":unit:" \o r.digest

BadOf(r) == (IF Abnormal(r.a) THEN <<[label |-> r.label, run |-> "plain", status |-> r.a, key |-> KeyA(r),
                                      what |-> "cppcheck --clang --dump ended with " \o r.a \o " (" \o r.asig \o ")"]>> ELSE <<>>)
         \o (IF Abnormal(r.b) THEN <<[label |-> r.label, run |-> "builddir", status |-> r.b, key |-> KeyB(r),
                                      what |-> "cppcheck --clang --dump --cppcheck-build-dir ended with " \o r.b \o " (" \o r.bsig \o ")"]>> ELSE <<>>)

RECURSIVE Flat(_)
Flat(q) == IF q = <<>> THEN <<>> ELSE Head(q) \o Flat(Tail(q))
Bad == Flat([k \in DOMAIN In |-> BadOf(In[k])])

ASSUME PrintT(<<"RUNS", Len(In), "ABNORMAL", Len(Bad)>>)
ASSUME ndJsonSerialize(IOEnv.OUT, Bad)
=============================================================================
