----------------------------- MODULE MiniCTypes -----------------------------
(***************************************************************************)
(* Integer types of the MiniC subset, parameterised by a platform:         *)
(* widths, signedness, integer promotions, usual arithmetic conversions,   *)
(* conversion to a type, and the value-level meaning of every operator     *)
(* including the cases C leaves undefined (ISO C11 6.3.1, 6.5.5-6.5.7).     *)
(*                                                                         *)
(* Platforms.  "p32" is cppcheck --platform=unix64 and the native x86-64    *)
(* gcc of this machine (int 32, long 64).  "p16" is the generated platform  *)
(* file spec/p16.xml (int 16, long 32) on which every boundary value of     *)
(* int, including wrap-around of unsigned int, lies inside TLC's 32 bit     *)
(* integers.  Plain char is signed on both.                                 *)
(*                                                                         *)
(* TLC computes with 32 bit integers and stops with an error on overflow,   *)
(* so every operation is guarded: values are kept in [-TMAX, TMAX]; an       *)
(* operation of a type of 32 or more bits whose mathematical result cannot  *)
(* be computed inside that interval yields the outcome "abandon" (the       *)
(* execution is dropped and counted, nothing is concluded from it).  For     *)
(* the types below 32 bits every result, every wrap-around and every        *)
(* overflow is decided exactly.                                             *)
(*                                                                         *)
(* Implementation-defined behaviour follows what gcc documents (and what    *)
(* cppcheck's platform model assumes): conversion of an out-of-range value   *)
(* to a signed type is modulo 2^N, >> of a negative value is arithmetic.     *)
(***************************************************************************)
EXTENDS Integers, Sequences

TMAX == 2147483647

IntTypes == {"char", "schar", "uchar", "short", "ushort", "int", "uint", "long", "ulong"}

Bits(pl, ty) ==
  CASE ty \in {"char", "schar", "uchar"} -> 8
    [] ty \in {"short", "ushort"}        -> 16
    [] ty \in {"int", "uint"}            -> IF pl = "p16" THEN 16 ELSE 32
    [] ty \in {"long", "ulong"}          -> IF pl = "p16" THEN 32 ELSE 64

IsSigned(ty) == ty \in {"char", "schar", "short", "int", "long"}

Rank(ty) ==
  CASE ty \in {"char", "schar", "uchar"} -> 1
    [] ty \in {"short", "ushort"}        -> 2
    [] ty \in {"int", "uint"}            -> 3
    [] ty \in {"long", "ulong"}          -> 4

Pow2(n) == 2 ^ n          \* used with n <= 30 only

Narrow(pl, ty) == Bits(pl, ty) < 32      \* types whose whole range is inside TLC's integers

\* Smallest / largest value of a narrow type.
NMin(pl, ty) == IF IsSigned(ty) THEN -Pow2(Bits(pl, ty) - 1) ELSE 0
NMax(pl, ty) == IF IsSigned(ty) THEN Pow2(Bits(pl, ty) - 1) - 1 ELSE Pow2(Bits(pl, ty)) - 1

\* The part of a type's range that the model explores.
RMin(pl, ty) == IF Narrow(pl, ty) THEN NMin(pl, ty) ELSE IF IsSigned(ty) THEN -TMAX ELSE 0
RMax(pl, ty) == IF Narrow(pl, ty) THEN NMax(pl, ty) ELSE TMAX

\* "every value of t1 is a value of t2" (needed by promotion and the usual arithmetic conversions)
Includes(pl, t2, t1) ==
  IF IsSigned(t1) THEN IsSigned(t2) /\ Bits(pl, t2) >= Bits(pl, t1)
  ELSE IF IsSigned(t2) THEN Bits(pl, t2) > Bits(pl, t1) ELSE Bits(pl, t2) >= Bits(pl, t1)

\* 6.3.1.1p2 integer promotions
Promote(pl, ty) ==
  IF Rank(ty) >= 3 THEN ty ELSE IF Includes(pl, "int", ty) THEN "int" ELSE "uint"

UnsignedOf(ty) == IF ty \in {"int", "uint"} THEN "uint" ELSE "ulong"

\* 6.3.1.8 usual arithmetic conversions (integer operands)
Common(pl, t1, t2) ==
  LET a == Promote(pl, t1)
      b == Promote(pl, t2)
  IN IF a = b THEN a
     ELSE IF IsSigned(a) = IsSigned(b) THEN (IF Rank(a) >= Rank(b) THEN a ELSE b)
     ELSE LET u == IF IsSigned(a) THEN b ELSE a
              s == IF IsSigned(a) THEN a ELSE b
          IN IF Rank(u) >= Rank(s) THEN u
             ELSE IF Includes(pl, s, u) THEN s
             ELSE UnsignedOf(s)

\* 6.4.4.1: type of a decimal literal v >= 0 with suffix "" "u" "L" "uL" (the first type of the list that holds v)
LitType(pl, v, suffix) ==
  LET fits(t) == Narrow(pl, t) => v <= NMax(pl, t)
  IN CASE suffix = ""   -> IF fits("int") THEN "int" ELSE "long"
       [] suffix = "u"  -> IF fits("uint") THEN "uint" ELSE "ulong"
       [] suffix = "L"  -> "long"
       [] suffix = "uL" -> "ulong"

-----------------------------------------------------------------------------
(* Outcomes of a value computation *)
Ok(v)       == [s |-> "ok", v |-> v, w |-> ""]
Ub(w)       == [s |-> "ub", v |-> 0, w |-> w]
Abandon(w)  == [s |-> "abandon", v |-> 0, w |-> w]

Abs(x) == IF x < 0 THEN -x ELSE x

\* Can TLC compute a+b, a-b, a*b ?  (a, b in [-TMAX, TMAX])
SafeAdd(a, b) == IF b >= 0 THEN a <= TMAX - b ELSE a >= (-TMAX) - b
SafeSub(a, b) == IF b >= 0 THEN a >= (-TMAX) + b ELSE a <= TMAX + b
SafeMul(a, b) == a = 0 \/ b = 0 \/ Abs(a) <= TMAX \div Abs(b)

\* C division truncates towards zero (6.5.5p6); TLA+ \div is the floor.
TruncDiv(a, b) == LET q == Abs(a) \div Abs(b) IN IF (a < 0) = (b < 0) THEN q ELSE -q
TruncRem(a, b) == a - b * TruncDiv(a, b)

\* (a * b) mod 2^n for 0 <= a, b < 2^16, n <= 16, without leaving TLC's integers
MulMod(a, b, n) ==
  LET m  == Pow2(n)
      lo == a * (b % 256)
      hi == ((a * (b \div 256)) % m) * 256
  IN (lo + hi) % m

\* Conversion of a value to a type (6.3.1.3).
Conv(pl, ty, v) ==
  IF Narrow(pl, ty)
  THEN LET m == v % Pow2(Bits(pl, ty))
       IN IF IsSigned(ty) /\ m > NMax(pl, ty) THEN Ok(m - Pow2(Bits(pl, ty))) ELSE Ok(m)
  ELSE IF IsSigned(ty) \/ v >= 0 THEN Ok(v)
  ELSE Abandon("negative value converted to an unsigned type of 32 or more bits")

\* Result r (already computed inside TLC's range) of an arithmetic operator of type ty.
Norm(pl, ty, r) ==
  IF Narrow(pl, ty)
  THEN IF IsSigned(ty)
       THEN IF NMin(pl, ty) <= r /\ r <= NMax(pl, ty) THEN Ok(r) ELSE Ub("signed overflow")
       ELSE Ok(r % Pow2(Bits(pl, ty)))
  ELSE IF IsSigned(ty) \/ r >= 0 THEN Ok(r)
  ELSE Abandon("wrap-around of an unsigned type of 32 or more bits")

Wide == Abandon("result outside TLC's integers")
InRep(r) == IF r < -TMAX THEN Wide ELSE Ok(r)      \* -2^31 itself is kept out of the explored range

-----------------------------------------------------------------------------
(* Bitwise operators on two's complement values.  And/Or/Xor on naturals    *)
(* are defined bit by bit; negative operands use x = ~(-x-1).                *)
RECURSIVE NatAnd(_, _), NatOr(_, _), NatXor(_, _)
NatAnd(x, y) == IF x = 0 \/ y = 0 THEN 0 ELSE (x % 2) * (y % 2) + 2 * NatAnd(x \div 2, y \div 2)
NatOr(x, y)  == IF x = 0 THEN y ELSE IF y = 0 THEN x
                ELSE (IF x % 2 = 1 \/ y % 2 = 1 THEN 1 ELSE 0) + 2 * NatOr(x \div 2, y \div 2)
NatXor(x, y) == IF x = 0 THEN y ELSE IF y = 0 THEN x
                ELSE (IF x % 2 = y % 2 THEN 0 ELSE 1) + 2 * NatXor(x \div 2, y \div 2)

Inv(x) == (-x) - 1       \* ~x in two's complement, any width

BitAnd(x, y) ==
  CASE x >= 0 /\ y >= 0 -> NatAnd(x, y)
    [] x >= 0 /\ y < 0  -> x - NatAnd(x, Inv(y))                \* x & ~n = x - (x & n)
    [] x < 0 /\ y >= 0  -> y - NatAnd(y, Inv(x))
    [] OTHER            -> Inv(NatOr(Inv(x), Inv(y)))           \* ~m & ~n = ~(m | n)
BitOr(x, y) ==
  CASE x >= 0 /\ y >= 0 -> NatOr(x, y)
    [] x >= 0 /\ y < 0  -> Inv(Inv(y) - NatAnd(Inv(y), x))      \* x | ~n = ~(n & ~x)
    [] x < 0 /\ y >= 0  -> Inv(Inv(x) - NatAnd(Inv(x), y))
    [] OTHER            -> Inv(NatAnd(Inv(x), Inv(y)))
BitXor(x, y) ==
  CASE x >= 0 /\ y >= 0 -> NatXor(x, y)
    [] x >= 0 /\ y < 0  -> Inv(NatXor(x, Inv(y)))
    [] x < 0 /\ y >= 0  -> Inv(NatXor(Inv(x), y))
    [] OTHER            -> NatXor(Inv(x), Inv(y))

-----------------------------------------------------------------------------
(* Binary arithmetic on operands a, b that already have the operator's type *)
(* ty (the common type).  6.5.5, 6.5.6, 6.5.10-12.                           *)
Arith(pl, ty, op, a, b) ==
  CASE op = "+" -> IF SafeAdd(a, b) THEN Norm(pl, ty, a + b) ELSE Wide
    [] op = "-" -> IF SafeSub(a, b) THEN Norm(pl, ty, a - b) ELSE Wide
    [] op = "*" -> IF SafeMul(a, b) THEN Norm(pl, ty, a * b)
                   ELSE IF Narrow(pl, ty) /\ ~IsSigned(ty) THEN Ok(MulMod(a, b, Bits(pl, ty)))
                   ELSE Wide
    [] op = "/" -> IF b = 0 THEN Ub("division by zero") ELSE Norm(pl, ty, TruncDiv(a, b))
    [] op = "%" -> IF b = 0 THEN Ub("division by zero")
                   ELSE IF IsSigned(ty) /\ Narrow(pl, ty) /\ a = NMin(pl, ty) /\ b = -1 THEN Ub("signed overflow")
                   ELSE Ok(TruncRem(a, b))
    [] op = "&" -> InRep(BitAnd(a, b))
    [] op = "|" -> InRep(BitOr(a, b))
    [] op = "^" -> InRep(BitXor(a, b))

\* Shifts (6.5.7): ty is the promoted type of the left operand, a has that type, n is the count (any integer type).
Shift(pl, ty, op, a, n) ==
  IF n < 0 \/ n >= Bits(pl, ty) THEN Ub("shift count out of range")
  ELSE IF op = ">>"
       THEN IF n >= 31 THEN Ok(IF a < 0 THEN -1 ELSE 0) ELSE Ok(a \div Pow2(n))     \* floor = arithmetic shift
  ELSE IF IsSigned(ty) /\ a < 0 THEN Ub("left shift of a negative value")
  ELSE IF a = 0 THEN Ok(0)
  ELSE IF n >= 31 THEN (IF Narrow(pl, ty) /\ ~IsSigned(ty) THEN Ok(0) ELSE Wide)
  ELSE IF IsSigned(ty)
       THEN IF a <= RMax(pl, ty) \div Pow2(n)
            THEN Ok(a * Pow2(n))
            ELSE IF Bits(pl, ty) <= 32 THEN Ub("left shift overflows") ELSE Wide
  ELSE IF Narrow(pl, ty)
       THEN Ok(MulMod(a, Pow2(n) % Pow2(16), Bits(pl, ty)))       \* narrow unsigned types have at most 16 bits
       ELSE IF a <= TMAX \div Pow2(n) THEN Ok(a * Pow2(n)) ELSE Wide

Compare(op, a, b) ==
  LET t == CASE op = "<" -> a < b [] op = "<=" -> a <= b [] op = ">" -> a > b
             [] op = ">=" -> a >= b [] op = "==" -> a = b [] op = "!=" -> a # b
  IN IF t THEN 1 ELSE 0

\* Unary operators; ty is the promoted operand type, a has that type.
Unary(pl, ty, op, a) ==
  CASE op = "-" -> Norm(pl, ty, -a)
    [] op = "+" -> Ok(a)
    [] op = "~" -> IF IsSigned(ty) THEN InRep(Inv(a))
                   ELSE IF Narrow(pl, ty) THEN Ok(NMax(pl, ty) - a) ELSE Abandon("~ of a wide unsigned value")
    [] op = "!" -> Ok(IF a = 0 THEN 1 ELSE 0)

=============================================================================
