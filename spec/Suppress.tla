------------------------------ MODULE Suppress ------------------------------
(***************************************************************************)
(* C23: suppressions hide exactly the matching findings.                    *)
(*                                                                         *)
(* Written from man/manual.md, chapter "Suppressions" (plain text           *)
(* suppressions, suppressions in a file, XML suppressions, inline           *)
(* suppressions: format, comment before code or on the same line, multiple  *)
(* suppressions, symbol name, comment about suppression), the pattern rules *)
(* the manual states for `**`, `*`, `?` and the directory examples it gives *)
(* for path patterns ("-itest": test/somefile.cpp yes, test1.cpp no).       *)
(* Nothing here follows Suppression::isSuppressed, parseLine or             *)
(* addInlineSuppressions.                                                   *)
(*                                                                         *)
(* The definition is three-valued: "yes" (the documentation says the        *)
(* suppression matches the finding), "no" (it says it does not), "open"     *)
(* (the documentation does not decide; never judged).                       *)
(*                                                                         *)
(*    Reported(F, S): f in F MUST be reported if every s in S says "no",    *)
(*                    MUST NOT be reported if some s in S says "yes".       *)
(*    Entries of --exitcode-suppressions are not members of S.              *)
(*                                                                         *)
(* Steps (IOEnv.MODE):                                                      *)
(*   gen     write the skeleton project, the palette of planted findings,   *)
(*           the table of suppression forms, every compatible set of at     *)
(*           most two (IOEnv.TRIPLES = "yes": three) forms, and the strata  *)
(*           of (suppression, finding) pairs for the unit harness           *)
(*   render  read picks (form set, present snippets, layout and syntax      *)
(*           variants), check that each is in the case space and that every *)
(*           surface form of it means the same, write for each pick one     *)
(*           project per surface form (command line / suppressions file /   *)
(*           XML file / inline comments)                                    *)
(*   judge   read the findings the real binary printed for every run and    *)
(*           write the runs that contradict Reported and the cases whose    *)
(*           surface forms disagree; judge that the unsuppressed project    *)
(*           reports the palette; judge the answers of the unit harness     *)
(*           (SuppressionList::parseLine / addSuppression / isSuppressed)   *)
(*   laws    check the laws of the definitions in this module               *)
(***************************************************************************)
EXTENDS Integers, Sequences, FiniteSets, TLC, Json, IOUtils, SequencesExt

Mode == IOEnv.MODE

(***************************************************************************)
(* Strings.  TLC can take the length and sub-strings of a string, so a      *)
(* string is looked into as the sequence of its 1-character strings.        *)
(***************************************************************************)
Chars(s) == [i \in 1..Len(s) |-> SubSeq(s, i, i)]
Sep == "/"

RECURSIVE Str(_)
Str(cs) == IF cs = <<>> THEN "" ELSE Head(cs) \o Str(Tail(cs))

(***************************************************************************)
(* Patterns (manual: "The error id and filename patterns may contain `**`,  *)
(* `*` or `?`"):                                                            *)
(*    `**` matches zero or more characters, including path separators       *)
(*    `*`  matches zero or more characters, excluding path separators       *)
(*    `?`  matches any single character except path separators              *)
(* every other character matches itself.  GlobC(p, r): the whole of r is in *)
(* the language of p.                                                       *)
(***************************************************************************)
RECURSIVE InLangAt(_, _, _, _)
InLangAt(p, r, i, j) ==
  IF i > Len(p) THEN j > Len(r)
  ELSE IF p[i] = "*" THEN
         IF i < Len(p) /\ p[i + 1] = "*"
         THEN \E k \in j..(Len(r) + 1) : InLangAt(p, r, i + 2, k)
         ELSE \E k \in j..(Len(r) + 1) : (\A n \in j..(k - 1) : r[n] # Sep) /\ InLangAt(p, r, i + 1, k)
  ELSE IF j > Len(r) THEN FALSE
  ELSE IF p[i] = "?" THEN r[j] # Sep /\ InLangAt(p, r, i + 1, j + 1)
  ELSE p[i] = r[j] /\ InLangAt(p, r, i + 1, j + 1)

GlobC(p, r) == InLangAt(p, r, 1, 1)
Glob(p, s)  == GlobC(Chars(p), Chars(s))

(***************************************************************************)
(* File patterns.  The file of a finding is the path as cppcheck prints it  *)
(* (relative to the directory it runs in when the sources are given         *)
(* relative).  A leading `./` of a pattern names that same directory.       *)
(*   yes   the pattern matches the whole path; or the pattern is a plain    *)
(*         directory name (no wildcard) and the path lies below it - the    *)
(*         manual's "-itest": test/somefile.cpp yes, test1.cpp no           *)
(*   open  a wildcard pattern matches only a leading part of the path that  *)
(*         ends where a directory name ends (the manual's file-filter       *)
(*         example `src/test*` excludes src/test/file1.cpp, the class       *)
(*         comment of lib/pathmatch.h includes it); or the pattern only     *)
(*         matches a part of the path that starts after a path separator (a *)
(*         pattern without its directories: the manual is silent on whether *)
(*         `h.h` or `*.h` reaches inc/h.h)                                  *)
(*   no    otherwise                                                        *)
(***************************************************************************)
RECURSIVE StripDotSlash(_)
StripDotSlash(p) ==
  IF Len(p) >= 2 /\ p[1] = "." /\ p[2] = Sep THEN StripDotSlash(SubSeq(p, 3, Len(p))) ELSE p

HasWild(p) == \E i \in 1..Len(p) : p[i] \in {"*", "?"}

FileMatchC(pc, t) ==
  LET p      == StripDotSlash(pc)
      ends   == {j \in 1..(Len(t) - 1) : t[j + 1] = Sep}
      starts == {i \in 2..Len(t) : t[i - 1] = Sep}
      whole  == GlobC(p, t)
      prefix == \E j \in ends : GlobC(p, SubSeq(t, 1, j))
      part   == \E i \in starts : \E j \in ends \cup {Len(t)} : j >= i /\ GlobC(p, SubSeq(t, i, j))
  IN IF whole \/ (prefix /\ ~HasWild(p)) THEN "yes" ELSE IF prefix \/ part THEN "open" ELSE "no"

FileMatch3(pat, path) == FileMatchC(Chars(pat), Chars(path))

\* conjunction of three-valued verdicts
And3(vs) == IF "no" \in vs THEN "no" ELSE IF "open" \in vs THEN "open" ELSE "yes"
B3(b) == IF b THEN "yes" ELSE "no"

(***************************************************************************)
(* The skeleton project.  Every file is a sequence of lines:                *)
(*   slot   a line of its own that holds no code: blank, an ordinary         *)
(*          comment, or a suppression comment                               *)
(*   code   a planted snippet (or its harmless replacement when the snippet *)
(*          is not present in a case); a comment may follow the code        *)
(*   fixed  other code (directives, the lines of the multi-line function)   *)
(* Because suppression comments only ever replace slot lines or follow code *)
(* on its own line, the line numbers of all findings are the same for every *)
(* surface form of a case.                                                  *)
(***************************************************************************)
SlotL == [t |-> "slot", snip |-> "", text |-> "", alt |-> ""]
Fixed(text) == [t |-> "fixed", snip |-> "", text |-> text, alt |-> text]
Code(snip, text, alt) == [t |-> "code", snip |-> snip, text |-> text, alt |-> alt]

FileNames == <<"f0.c", "f1.c", "inc/h.h">>
Sources   == <<"f0.c", "f1.c">>              \* given on the command line; f0.c includes inc/h.h

Skel(f) ==
  CASE f = "f0.c" ->
       << SlotL,                                                                                \*  1
          Fixed("#include \"inc/h.h\""),                                                        \*  2
          SlotL,                                                                                \*  3
          SlotL,                                                                                \*  4
          Code("zd", "int zd1(int x) { return x / 0; }", "int ok1(int a) { return a + 1; }"),   \*  5
          SlotL,                                                                                \*  6
          SlotL,                                                                                \*  7
          Code("np", "int np1(void) { int *p = 0; int *q = 0; return *p + *q; }",
                     "int ok2(int a) { return a + 2; }"),                                       \*  8
          SlotL,                                                                                \*  9
          Code("uv", "int uv1(void) { int u; return u; }", "int ok3(int a) { return a + 3; }"), \* 10
          SlotL,                                                                                \* 11
          Code("ai", "int ai1(void) { int a[2]; a[3] = 0; return a[0]; }",
                     "int ok4(int a) { return a + 4; }"),                                       \* 12
          SlotL,                                                                                \* 13
          Code("ur", "void ur1(void) { int v; v = 1; }", "int ok5(int a) { return a + 5; }"),   \* 14
          SlotL,                                                                                \* 15
          Fixed("#define DIV(x) (100 / (x))"),                                                  \* 16
          Code("zm", "int zm1(void) { return DIV(0); }", "int ok6(void) { return DIV(1); }"),   \* 17
          SlotL,                                                                                \* 18
          Fixed("int zb1(int x)"),                                                              \* 19
          Fixed("{"),                                                                           \* 20
          Code("zb", "  return x / 0;", "  return x + 1;"),                                     \* 21
          Fixed("}"),                                                                           \* 22
          SlotL >>                                                                              \* 23
    [] f = "f1.c" ->
       << SlotL,                                                                                \*  1
          Code("zd2", "int zd2(int x) { return x / 0; }", "int ok7(int a) { return a + 7; }"),  \*  2
          SlotL,                                                                                \*  3
          Code("np2", "int np2(void) { int *r = 0; return *r; }",
                      "int ok8(int a) { return a + 8; }"),                                      \*  4
          SlotL >>                                                                              \*  5
    [] f = "inc/h.h" ->
       << SlotL,                                                                                \*  1
          SlotL,                                                                                \*  2
          Code("hai", "static int hai(void) { int h[2]; h[4] = 0; return h[0]; }",
                      "static int hok1(int a) { return a + 1; }"),                              \*  3
          SlotL,                                                                                \*  4
          Code("hzd", "static int hzd(int y) { return y / 0; }",
                      "static int hok2(int a) { return a + 2; }"),                              \*  5
          SlotL >>                                                                              \*  6

Snips == {"zd", "np", "uv", "ai", "ur", "zm", "zb", "zd2", "np2", "hai", "hzd"}
LineOfSnip(f, sn) == CHOOSE l \in DOMAIN Skel(f) : Skel(f)[l].snip = sn
HasCode(f, l) == Skel(f)[l].t # "slot"
IsSlot(f, l)  == l \in DOMAIN Skel(f) /\ Skel(f)[l].t = "slot"
\* "The comment can be put before the code ... may be separated by additional comments or empty lines":
\* a suppression comment on a line of its own refers to the next line that holds code.
NextCode(f, l) == IF \E k \in DOMAIN Skel(f) : k > l /\ HasCode(f, k)
                  THEN CHOOSE k \in DOMAIN Skel(f) : k > l /\ HasCode(f, k) /\ \A j \in (l + 1)..(k - 1) : ~HasCode(f, j)
                  ELSE 0

(***************************************************************************)
(* The palette: what each planted snippet makes cppcheck report (id, column *)
(* and <symbol> as printed by --xml; verified against the real binary by    *)
(* the step "baseline" before anything is judged).  style = TRUE: only      *)
(* reported with --enable=style.                                            *)
(***************************************************************************)
Fd(k, sn, f, id, col, syms, macros, style) ==
  [k |-> k, snip |-> sn, file |-> f, line |-> LineOfSnip(f, sn), col |-> col, id |-> id, syms |-> syms, macros |-> macros, style |-> style]

Palette == TLCEval(
  { Fd(1, "zd",  "f0.c", "zerodiv", 27, {}, {}, FALSE),
    Fd(2, "np",  "f0.c", "nullPointer", 49, {"p"}, {}, FALSE),
    Fd(3, "np",  "f0.c", "nullPointer", 54, {"q"}, {}, FALSE),
    Fd(4, "np",  "f0.c", "constVariablePointer", 22, {"p"}, {}, TRUE),
    Fd(5, "np",  "f0.c", "constVariablePointer", 34, {"q"}, {}, TRUE),
    Fd(6, "uv",  "f0.c", "uninitvar", 31, {"u"}, {}, FALSE),
    Fd(7, "uv",  "f0.c", "unassignedVariable", 21, {"u"}, {}, TRUE),
    Fd(8, "ai",  "f0.c", "arrayIndexOutOfBounds", 28, {}, {}, FALSE),
    Fd(9, "ur",  "f0.c", "unreadVariable", 27, {"v"}, {}, TRUE),
    Fd(10, "zm",  "f0.c", "zerodiv", 24, {}, {"DIV"}, FALSE),
    Fd(11, "zb",  "f0.c", "zerodiv", 12, {}, {}, FALSE),
    Fd(12, "zd2", "f1.c", "zerodiv", 27, {}, {}, FALSE),
    Fd(13, "np2", "f1.c", "nullPointer", 37, {"r"}, {}, FALSE),
    Fd(14, "np2", "f1.c", "constVariablePointer", 22, {"r"}, {}, TRUE),
    Fd(15, "hai", "inc/h.h", "arrayIndexOutOfBounds", 35, {}, {}, FALSE),
    Fd(16, "hzd", "inc/h.h", "zerodiv", 34, {}, {}, FALSE) } )

Findings(present, style) == {f \in Palette : f.snip \in present /\ (style \/ ~f.style)}
Key(f) == <<f.file, f.line, f.col, f.id>>

(***************************************************************************)
(* Suppression forms.  A form is what the user means; it can be written in  *)
(* several surface forms.                                                   *)
(*  k = "std"  [error id]:[filename]:[line] (+ symbolName in XML / inline). *)
(*             file "" / line 0 / sym "" = not given.  `at` is where the    *)
(*             inline comment goes when the form can be written inline      *)
(*             (pos "tail": after the code on the same line, "own": on a    *)
(*             slot line before the code; line = 0: cppcheck-suppress-file  *)
(*             at the top of the file).                                     *)
(*  k = "blk"  cppcheck-suppress-begin at slot line b ... -end at slot e    *)
(*  k = "beg" / "end"  a begin without end / an end without begin           *)
(*  k = "mac"  cppcheck-suppress-macro before `#define DIV`                 *)
(*  k = "two"  the documented special case `{ // cppcheck-suppress id`:     *)
(*             this line and the next                                       *)
(***************************************************************************)
NoAt == [file |-> "", line |-> 0, pos |-> ""]
Own(f, l)   == [file |-> f, line |-> l, pos |-> "own"]
TailOf(f, l) == [file |-> f, line |-> l, pos |-> "tail"]

Std(n, id, file, line, sym, at) == [n |-> n, k |-> "std", id |-> id, file |-> file, line |-> line, sym |-> sym, b |-> 0, e |-> 0, at |-> at]
Blk(n, id, file, b, e, sym)     == [n |-> n, k |-> "blk", id |-> id, file |-> file, line |-> 0, sym |-> sym, b |-> b, e |-> e, at |-> NoAt]
BegOnly(n, id, file, b)         == [n |-> n, k |-> "beg", id |-> id, file |-> file, line |-> 0, sym |-> "", b |-> b, e |-> 0, at |-> NoAt]
EndOnly(n, id, file, e)         == [n |-> n, k |-> "end", id |-> id, file |-> file, line |-> 0, sym |-> "", b |-> 0, e |-> e, at |-> NoAt]
Mac(n, id, sym)                 == [n |-> n, k |-> "mac", id |-> id, file |-> "f0.c", line |-> 0, sym |-> sym, b |-> 0, e |-> 0, at |-> Own("f0.c", 15)]
Two(n, id)                      == [n |-> n, k |-> "two", id |-> id, file |-> "f0.c", line |-> 20, sym |-> "", b |-> 0, e |-> 0, at |-> TailOf("f0.c", 20)]

MacroName == "DIV"

Forms ==
  { \* ---- error id only: exact, globs, near misses
    Std("g-zd", "zerodiv", "", 0, "", NoAt),
    Std("g-np", "nullPointer", "", 0, "", NoAt),
    Std("g-uv", "uninitvar", "", 0, "", NoAt),
    Std("g-ur", "unreadVariable", "", 0, "", NoAt),
    Std("g-star", "*", "", 0, "", NoAt),
    Std("g-zero*", "zero*", "", 0, "", NoAt),
    Std("g-*Pointer", "*Pointer", "", 0, "", NoAt),
    Std("g-z?rodiv", "z?rodiv", "", 0, "", NoAt),
    Std("g-un*Var*", "un*Var*", "", 0, "", NoAt),
    Std("g-zerodi", "zerodi", "", 0, "", NoAt),               \* a literal is not a prefix pattern
    Std("g-erodiv?", "?erodiv?", "", 0, "", NoAt),            \* `?` is exactly one character
    Std("g-null*r", "n**r", "", 0, "", NoAt),
    Std("g-*lPointer", "*lPointer", "", 0, "", NoAt),         \* the first `l` of nullPointer is not the one the `*` must stop at
    \* ---- id:file
    Std("f-zd-f0", "zerodiv", "f0.c", 0, "", Own("f0.c", 1)),
    Std("f-zd-f1", "zerodiv", "f1.c", 0, "", Own("f1.c", 1)),
    Std("f-zd-h", "zerodiv", "inc/h.h", 0, "", Own("inc/h.h", 1)),
    Std("f-np-f0", "nullPointer", "f0.c", 0, "", Own("f0.c", 1)),
    Std("f-ai-h", "arrayIndexOutOfBounds", "inc/h.h", 0, "", Own("inc/h.h", 1)),
    Std("f-star-f0", "*", "f0.c", 0, "", NoAt),
    Std("f-star-h", "*", "inc/h.h", 0, "", NoAt),
    Std("f-zd-nofile", "zerodiv", "f2.c", 0, "", NoAt),       \* a file that does not exist
    Std("f-zd-f0cpp", "zerodiv", "f0.cpp", 0, "", NoAt),      \* a longer name
    \* ---- globbed and relative file patterns
    Std("p-zd-f?", "zerodiv", "f?.c", 0, "", NoAt),
    Std("p-zd-*.c", "zerodiv", "*.c", 0, "", NoAt),
    Std("p-star-*.c", "*", "*.c", 0, "", NoAt),
    Std("p-ai-inc/*.h", "arrayIndexOutOfBounds", "inc/*.h", 0, "", NoAt),
    Std("p-zd-inc/*", "zerodiv", "inc/*", 0, "", NoAt),
    Std("p-zd-**.h", "zerodiv", "**.h", 0, "", NoAt),
    Std("p-ai-**/h.h", "arrayIndexOutOfBounds", "**/h.h", 0, "", NoAt),
    Std("p-zd-*", "zerodiv", "*", 0, "", NoAt),               \* `*` does not cross `/`: inc/h.h via directory prefix "inc"
    Std("p-zd-**", "zerodiv", "**", 0, "", NoAt),
    Std("p-zd-inc", "zerodiv", "inc", 0, "", NoAt),           \* a directory
    Std("p-zd-in", "zerodiv", "in", 0, "", NoAt),             \* not a directory name
    Std("p-zd-./f0", "zerodiv", "./f0.c", 0, "", NoAt),
    Std("p-ai-./inc/h.h", "arrayIndexOutOfBounds", "./inc/h.h", 0, "", NoAt),
    Std("p-zd-h.h", "zerodiv", "h.h", 0, "", NoAt),           \* without its directory: open for inc/h.h
    Std("p-ai-*.h", "arrayIndexOutOfBounds", "*.h", 0, "", NoAt),
    \* ---- id:file:line, with the places an inline comment can take
    Std("l-zd-5-tail", "zerodiv", "f0.c", 5, "", TailOf("f0.c", 5)),
    Std("l-np-8-own", "nullPointer", "f0.c", 8, "", Own("f0.c", 7)),
    Std("l-np-8-own2", "nullPointer", "f0.c", 8, "", Own("f0.c", 6)),       \* a blank / comment / suppression line in between
    Std("l-cvp-8-tail", "constVariablePointer", "f0.c", 8, "", TailOf("f0.c", 8)),
    Std("l-uv-10-own", "uninitvar", "f0.c", 10, "", Own("f0.c", 9)),
    Std("l-star-8-own", "*", "f0.c", 8, "", Own("f0.c", 7)),
    Std("l-zd-17-tail", "zerodiv", "f0.c", 17, "", TailOf("f0.c", 17)),
    Std("l-zd-21", "zerodiv", "f0.c", 21, "", TailOf("f0.c", 21)),
    Std("l-zd-h5-own", "zerodiv", "inc/h.h", 5, "", Own("inc/h.h", 4)),
    Std("l-ai-h3-own2", "arrayIndexOutOfBounds", "inc/h.h", 3, "", Own("inc/h.h", 1)),
    Std("l-ai-h3-tail", "arrayIndexOutOfBounds", "./inc/h.h", 3, "", NoAt),
    Std("l-zd-f1-2", "zerodiv", "f1.c", 2, "", Own("f1.c", 1)),
    Std("l-zd-glob-5", "zero*", "f?.c", 5, "", NoAt),
    \* wrong line / wrong file
    Std("w-zd-4", "zerodiv", "f0.c", 4, "", NoAt),                          \* the line before (a comment line)
    Std("w-zd-6", "zerodiv", "f0.c", 6, "", NoAt),                          \* the line after
    Std("w-zd-8", "zerodiv", "f0.c", 8, "", Own("f0.c", 6)),                \* a comment put before other code
    Std("w-zd-3", "zerodiv", "f0.c", 3, "", NoAt),
    Std("w-zd-16", "zerodiv", "f0.c", 16, "", Own("f0.c", 15)),             \* before the #define: not the line after it
    Std("w-zd-f1-5", "zerodiv", "f1.c", 5, "", NoAt),                       \* right line number, other file
    Std("w-np-h3", "nullPointer", "inc/h.h", 3, "", Own("inc/h.h", 2)),     \* right line, other id
    \* ---- symbol names (XML and inline only)
    Std("s-np-p", "nullPointer", "", 0, "p", NoAt),
    Std("s-np-q-8", "nullPointer", "f0.c", 8, "q", TailOf("f0.c", 8)),
    Std("s-np-p-8", "nullPointer", "f0.c", 8, "p", Own("f0.c", 7)),
    Std("s-np-x", "nullPointer", "", 0, "x", NoAt),                         \* no such symbol
    Std("s-star-u", "*", "", 0, "u", NoAt),
    Std("s-uv-10-u", "uninitvar", "f0.c", 10, "u", Own("f0.c", 9)),
    Std("s-uv-10-v", "uninitvar", "f0.c", 10, "v", TailOf("f0.c", 10)),     \* symbol of another finding
    Std("s-star-?", "*", "", 0, "?", NoAt),                                 \* glob (see SymMatch)
    Std("s-np-f0-[pq]", "nullPointer", "f0.c", 0, "?", Own("f0.c", 1)),
    Std("s-zd-p", "zerodiv", "", 0, "p", NoAt),                             \* finding without symbol
    \* ---- blocks
    Blk("b-zd-3-6", "zerodiv", "f0.c", 3, 6, ""),
    Blk("b-zd-4-18", "zerodiv", "f0.c", 4, 18, ""),
    Blk("b-zd-6-18", "zerodiv", "f0.c", 6, 18, ""),
    Blk("b-np-6-9", "nullPointer", "f0.c", 6, 9, ""),
    Blk("b-np-3-9", "nullPointer", "f0.c", 3, 9, ""),
    Blk("b-np-7-11-q", "nullPointer", "f0.c", 7, 11, "q"),
    Blk("b-uv-9-13", "uninitvar", "f0.c", 9, 13, ""),
    Blk("b-star-9-13", "*", "f0.c", 9, 13, ""),
    Blk("b-ai-11-13", "arrayIndexOutOfBounds", "f0.c", 11, 13, ""),
    Blk("b-zd-9-11", "zerodiv", "f0.c", 9, 11, ""),                          \* covers no zerodiv
    Blk("b-zd-4-9", "zerodiv", "f0.c", 4, 9, ""),
    Blk("b-np-6-11", "nullPointer", "f0.c", 6, 11, ""),
    Blk("b-star-6-11", "*", "f0.c", 6, 11, ""),
    Blk("b-zd-h-4-6", "zerodiv", "inc/h.h", 4, 6, ""),
    Blk("b-ai-h-1-4", "arrayIndexOutOfBounds", "inc/h.h", 1, 4, ""),
    Blk("b-zd-f1-1-3", "zerodiv", "f1.c", 1, 3, ""),
    BegOnly("u-beg-zd-6", "zerodiv", "f0.c", 6),
    EndOnly("u-end-zd-13", "zerodiv", "f0.c", 13),
    BegOnly("u-beg-np-f1-3", "nullPointer", "f1.c", 3),
    \* ---- macro, brace
    Mac("m-zd", "zerodiv", ""),
    Mac("m-star", "*", ""),
    Mac("m-np", "nullPointer", ""),
    Two("t-zd", "zerodiv"),
    Two("t-np", "nullPointer") }

FormNames == {s.n : s \in Forms}
FormTab == TLCEval([n \in FormNames |-> CHOOSE s \in Forms : s.n = n])
FormOf(n) == FormTab[n]

\* what the user means, without the place of the inline comment
Meaning(s) == [k |-> s.k, id |-> s.id, file |-> s.file, line |-> s.line, sym |-> s.sym, b |-> s.b, e |-> s.e]

(***************************************************************************)
(* Match.                                                                   *)
(*  SymMatch: "the suppression only applies to a specific symbol": one of   *)
(*  the finding's symbols is the named one; test/testsuppressions.cpp       *)
(*  (symbolName "array*") fixes that the name is a pattern like the id.     *)
(*  unbal = the files that contain an unbalanced begin / end: the manual    *)
(*  gives no meaning to such a file's block comments, so a block there is   *)
(*  "open" for every finding of its id in the file.                         *)
(***************************************************************************)
IdMatch(s, f)  == Glob(s.id, f.id)
SymMatch(s, f) == s.sym = "" \/ \E y \in f.syms : Glob(s.sym, y)

Match3(s, f, unbal) ==
  CASE s.k = "std" ->
         And3({ B3(IdMatch(s, f)),
                IF s.file = "" THEN "yes" ELSE FileMatch3(s.file, f.file),
                B3(s.line = 0 \/ s.line = f.line),
                B3(SymMatch(s, f)) })
    [] s.k = "blk" ->
         IF ~(IdMatch(s, f) /\ SymMatch(s, f) /\ s.file = f.file) THEN "no"
         ELSE IF s.file \in unbal THEN "open"
         ELSE B3(s.b < f.line /\ f.line < s.e)        \* begin and end comments stand on lines of their own
    [] s.k \in {"beg", "end"} ->
         IF IdMatch(s, f) /\ s.file = f.file THEN "open" ELSE "no"
    [] s.k = "mac" ->
         \* "warnings are suppressed where the macro is used"; a macro of that name used in another file: not generated
         IF ~(IdMatch(s, f) /\ SymMatch(s, f) /\ MacroName \in f.macros) THEN "no"
         ELSE IF s.file = f.file THEN "yes" ELSE "open"
    [] s.k = "two" ->
         B3(IdMatch(s, f) /\ s.file = f.file /\ f.line \in {s.line, s.line + 1})

Unbal(S) == {s.file : s \in {x \in S : x.k \in {"beg", "end"}}}

\* the table form x palette finding, computed once
\* (every zero-arity definition is evaluated when TLC starts: the heavy ones are guarded by the step that needs them)
MatchTab == IF Mode \in {"judge", "laws"}
            THEN TLCEval([n \in FormNames |-> [k \in 1..Cardinality(Palette) |-> [u \in BOOLEAN |->
                            Match3(FormOf(n), CHOOSE f \in Palette : f.k = k, IF u THEN {FormOf(n).file} ELSE {})]]])
            ELSE <<>>
M3(n, f, S) == MatchTab[n][f.k][FormOf(n).file \in Unbal(S)]

MustHide(F, S)   == {f \in F : \E s \in S : M3(s.n, f, S) = "yes"}
MustReport(F, S) == {f \in F : \A s \in S : M3(s.n, f, S) = "no"}

(***************************************************************************)
(* Surface forms.                                                           *)
(*   cmd   --suppress=<text>          text = id[:file[:line]]               *)
(*   list  --suppressions-list=<file> one text per line, comments allowed   *)
(*   xml   --suppress-xml=<file>      <id> <fileName> <lineNumber>          *)
(*                                    <symbolName>                          *)
(*   inl   comments, with --inline-suppr                                    *)
(***************************************************************************)
Surfaces(s) ==
  (IF s.k = "std" /\ s.sym = "" THEN {"cmd", "list"} ELSE {})
  \cup (IF s.k = "std" THEN {"xml"} ELSE {})
  \cup (IF s.k # "std" \/ s.at # NoAt THEN {"inl"} ELSE {})

Modes == <<"cmd", "list", "xml", "inl">>
\* the surface a form takes in a run whose preferred surface is d
Surf(s, d) == IF d \in Surfaces(s) THEN d
              ELSE IF d = "inl" /\ "cmd" \in Surfaces(s) THEN "cmd"
              ELSE IF "xml" \in Surfaces(s) THEN "xml" ELSE "inl"

\* the inline comments of a form: <<place, keyword>>
Kw(s) == IF s.k = "std" /\ s.line = 0 THEN "-file" ELSE IF s.k = "mac" THEN "-macro" ELSE ""
Places(s) ==
  CASE s.k = "blk" -> {<<Own(s.file, s.b), "-begin">>, <<Own(s.file, s.e), "-end">>}
    [] s.k = "beg" -> {<<Own(s.file, s.b), "-begin">>}
    [] s.k = "end" -> {<<Own(s.file, s.e), "-end">>}
    [] OTHER -> IF s.at = NoAt THEN {} ELSE {<<s.at, Kw(s)>>}

\* Two forms can be in one case when they do not mean the same and their comments can share the slot lines: one
\* comment per place (several ids of one keyword are written as a [list]).  Two blocks of the same id and symbol in
\* one file must be nested or apart and must not share a begin or an end line: otherwise the comments would not say
\* which end belongs to which begin.  (Blocks of DIFFERENT ids may overlap in any way.)
Crossing(s, t) == (s.b < t.b /\ t.b < s.e /\ s.e < t.e) \/ (t.b < s.b /\ s.b < t.e /\ t.e < s.e)
\* (cppcheck refuses a suppression given twice; the manual does not speak about it: not part of the case space)
CanonMeaning(s) == [Meaning(s) EXCEPT !.file = Str(StripDotSlash(Chars(s.file)))]
Compat2(s, t) ==
  /\ CanonMeaning(s) # CanonMeaning(t)
  /\ \A x \in Places(s), y \in Places(t) : x[1] = y[1] => x[2] = y[2]
  /\ (s.k = "blk" /\ t.k = "blk" /\ s.file = t.file /\ s.id = t.id /\ s.sym = t.sym)
        => (s.b # t.b /\ s.e # t.e /\ ~Crossing(s, t))
Compatible(S) == \A s, t \in S : s # t => Compat2(s, t)

(***************************************************************************)
(* Rendering.  pick = [forms: sequence of form names, present, style,       *)
(* fill (what the unused slot lines hold), var (syntax variant), nofail,    *)
(* modes (the preferred surfaces to run)]                                   *)
(***************************************************************************)
TextOf(s) == s.id \o (IF s.file = "" THEN "" ELSE ":" \o s.file \o (IF s.line = 0 THEN "" ELSE ":" \o ToString(s.line)))

\* --suppressions-list file: "you may add empty lines and comments ... Comments must start with # or // and be at the
\* start of the line, or after the suppression line"
ListTrail(v, i) == LET k == (v + i) % 3 IN IF k = 0 THEN "" ELSE IF k = 1 THEN " // reason" ELSE " # reason " \o ToString(i)
ListLines(ss, v) ==
  (IF v % 2 = 0 THEN <<"// suppressions of this project", "">> ELSE <<"# suppressions">>)
  \o [i \in 1..Len(ss) |-> TextOf(ss[i]) \o ListTrail(v, i)]
  \o (IF v % 4 = 1 THEN <<"", "# end">> ELSE <<>>)

XmlOf(s) == [id |-> s.id, fileName |-> s.file, lineNumber |-> IF s.line = 0 THEN "" ELSE ToString(s.line), symbolName |-> s.sym]

\* one inline comment: keyword kw, items <<[id, sym]>>, syntax variant v
Item(it) == it.id \o (IF it.sym = "" THEN "" ELSE " symbolName=" \o it.sym)
RECURSIVE Join(_, _)
Join(xs, sep) == IF xs = <<>> THEN "" ELSE IF Len(xs) = 1 THEN xs[1] ELSE xs[1] \o sep \o Join(Tail(xs), sep)

CommentText(kw, items, v) ==
  LET syn == IF Len(items) > 1 THEN 2 + (v % 2) ELSE v % 4
      tr  == (v \div 4) % 3
      one == "cppcheck-suppress" \o kw \o " " \o Item(items[1])
      lst(sp, sep) == "cppcheck-suppress" \o kw \o sp \o "[" \o Join([i \in 1..Len(items) |-> Item(items[i])], sep) \o "]"
  IN CASE syn = 0 -> "// " \o one \o (IF tr = 1 THEN " ; reason" ELSE IF tr = 2 THEN " // reason" ELSE "")
       [] syn = 1 -> "/* " \o one \o " */"
       [] syn = 2 -> "// " \o lst(" ", ", ") \o (IF tr = 1 THEN " some reason" ELSE "")
       [] syn = 3 -> "// " \o lst(IF kw = "" THEN "" ELSE " ", ",") \o (IF tr = 2 THEN " some reason" ELSE "")

\* the structured content of every place used by the inline forms of a run
PlacesOf(ss) == UNION {{x[1] : x \in Places(ss[i])} : i \in 1..Len(ss)}
ItemsAt(ss, pl) ==
  LET hit(s) == \E x \in Places(s) : x[1] = pl
      hs == SelectSeq(ss, hit)
  IN [kw |-> (CHOOSE x \in Places(hs[1]) : x[1] = pl)[2],
      items |-> [i \in 1..Len(hs) |-> [id |-> hs[i].id, sym |-> hs[i].sym]]]

SlotsOf(ss, v) ==
  LET pls == SetToSeq(PlacesOf(ss))
  IN [i \in 1..Len(pls) |->
        LET c == ItemsAt(ss, pls[i])
        IN [file |-> pls[i].file, line |-> pls[i].line, pos |-> pls[i].pos, kw |-> c.kw, items |-> c.items,
            text |-> CommentText(c.kw, c.items, v + i)]]

Run(ss, d, v) ==
  LET of(x) == SelectSeq(ss, LAMBDA s : Surf(s, d) = x)
      inl   == of("inl")
  IN [cmd   |-> [i \in 1..Len(of("cmd")) |-> TextOf(of("cmd")[i])],
      list  |-> IF of("list") = <<>> THEN <<>> ELSE ListLines(of("list"), v),
      xml   |-> [i \in 1..Len(of("xml")) |-> XmlOf(of("xml")[i])],
      slots |-> SlotsOf(inl, v),
      inline |-> inl # <<>>]

\* the distinct runs of a pick for the preferred surfaces ms, each with the preferred surfaces that lead to it
Runs(ss, v, ms) ==
  LET all == [i \in 1..Len(ms) |-> Run(ss, ms[i], v)]
      rs  == SetToSeq({all[i] : i \in 1..Len(ms)})
  IN [k \in 1..Len(rs) |-> [modes |-> SelectSeq(ms, LAMBDA d : all[CHOOSE i \in 1..Len(ms) : ms[i] = d] = rs[k]), run |-> rs[k]]]

NoFailSets == { <<>>, <<"zerodiv">>, <<"*">>, <<"nullPointer:f0.c", "zerodiv:f0.c:5">> }
Fills == {"blank", "comment", "mixed"}
MaxVar == 23

PickOK(p) ==
  /\ Len(p.forms) <= 3
  /\ \A i \in 1..Len(p.forms) : p.forms[i] \in FormNames
  /\ \A i, j \in 1..Len(p.forms) : i # j => p.forms[i] # p.forms[j]
  /\ Compatible({FormOf(p.forms[i]) : i \in 1..Len(p.forms)})
  /\ ToSet(p.present) \subseteq Snips
  /\ p.style \in BOOLEAN /\ p.fill \in Fills /\ p.var \in 0..MaxVar
  /\ p.nofail \in NoFailSets
  /\ Len(p.modes) >= 1 /\ \A i \in 1..Len(p.modes) : p.modes[i] \in ToSet(Modes) /\ \A j \in 1..Len(p.modes) : i # j => p.modes[i] # p.modes[j]

FormSeq(p) == [i \in 1..Len(p.forms) |-> FormOf(p.forms[i])]

(***************************************************************************)
(* What the rendered artefacts mean when read by the manual's rules - used  *)
(* by the laws: every surface form of a form means the form.                *)
(***************************************************************************)
\* [error id]:[filename]:[line] with an optional comment after the suppression
IsDigit(c) == c \in {"0", "1", "2", "3", "4", "5", "6", "7", "8", "9"}
RECURSIVE Num(_, _)
Num(cs, acc) == IF cs = <<>> THEN acc
                ELSE Num(Tail(cs), 10 * acc + (CHOOSE d \in 0..9 : ToString(d) = Head(cs)))
CutComment(cs) ==
  LET cut == {i \in 1..Len(cs) : cs[i] = "#" \/ (cs[i] = "/" /\ i < Len(cs) /\ cs[i + 1] = "/")}
      n   == IF cut = {} THEN Len(cs) ELSE (CHOOSE i \in cut : \A j \in cut : i <= j) - 1
      RECURSIVE rtrim(_)
      rtrim(x) == IF x # <<>> /\ Last(x) = " " THEN rtrim(Front(x)) ELSE x
  IN rtrim(SubSeq(cs, 1, n))
ParseText(line) ==
  LET cs   == CutComment(Chars(line))
      cols == {i \in 1..Len(cs) : cs[i] = ":"}
      c1   == IF cols = {} THEN 0 ELSE CHOOSE i \in cols : \A j \in cols : i <= j
      c2   == IF Cardinality(cols) < 2 THEN 0 ELSE CHOOSE i \in cols : \A j \in cols : j <= i
      last == IF c2 = 0 THEN <<>> ELSE SubSeq(cs, c2 + 1, Len(cs))
      isln == c2 # 0 /\ last # <<>> /\ \A i \in 1..Len(last) : IsDigit(last[i])
  IN IF c1 = 0 THEN [id |-> Str(cs), file |-> "", line |-> 0]
     ELSE IF isln THEN [id |-> Str(SubSeq(cs, 1, c1 - 1)), file |-> Str(SubSeq(cs, c1 + 1, c2 - 1)), line |-> Num(last, 0)]
     ELSE [id |-> Str(SubSeq(cs, 1, c1 - 1)), file |-> Str(SubSeq(cs, c1 + 1, Len(cs))), line |-> 0]

StdMeaning(id, file, line, sym) == [k |-> "std", id |-> id, file |-> file, line |-> line, sym |-> sym, b |-> 0, e |-> 0]

\* meanings of the inline comments of a run, by the attachment rules of the manual
SlotMeanings(slots) ==
  LET S == ToSet(slots)
      items(c) == ToSet(c.items)
      line(c) == IF c.pos = "tail" THEN c.line ELSE NextCode(c.file, c.line)
      brace(c) == c.pos = "tail" /\ Skel(c.file)[c.line].text = "{"
      uniq == UNION {{IF brace(c) THEN [k |-> "two", id |-> it.id, file |-> c.file, line |-> c.line, sym |-> it.sym, b |-> 0, e |-> 0]
                      ELSE StdMeaning(it.id, c.file, line(c), it.sym) : it \in items(c)} : c \in {x \in S : x.kw = ""}}
      file == UNION {{StdMeaning(it.id, c.file, 0, it.sym) : it \in items(c)} : c \in {x \in S : x.kw = "-file"}}
      mac  == UNION {{[k |-> "mac", id |-> it.id, file |-> c.file, line |-> 0, sym |-> it.sym, b |-> 0, e |-> 0] : it \in items(c)}
                      : c \in {x \in S : x.kw = "-macro" /\ Skel(x.file)[NextCode(x.file, x.line)].text = "#define DIV(x) (100 / (x))"}}
      begs == UNION {{[id |-> it.id, sym |-> it.sym, file |-> c.file, l |-> c.line] : it \in items(c)} : c \in {x \in S : x.kw = "-begin"}}
      ends == UNION {{[id |-> it.id, sym |-> it.sym, file |-> c.file, l |-> c.line] : it \in items(c)} : c \in {x \in S : x.kw = "-end"}}
      \* an end closes the nearest begin before it of the same id (and symbol) in the same file that is still open;
      \* Compatible keeps the pairing unambiguous: per file, id, symbol the blocks of a case are nested or apart or
      \* overlapping with distinct begin and end lines - then "k-th end closes ..." is decided by counting
      same(x, y) == x.id = y.id /\ x.sym = y.sym /\ x.file = y.file
      \* number of begins minus ends of the same kind strictly between b and e
      bal(b, e) == Cardinality({x \in begs : same(x, b) /\ x.l > b.l /\ x.l < e.l}) - Cardinality({x \in ends : same(x, b) /\ x.l > b.l /\ x.l < e.l})
      pairs == {<<b, e>> \in begs \X ends : same(b, e) /\ b.l < e.l /\ bal(b, e) = 0
                   /\ \A e2 \in ends : (same(b, e2) /\ e2.l > b.l /\ e2.l < e.l) => bal(b, e2) # 0}
      blks == {[k |-> "blk", id |-> x[1].id, file |-> x[1].file, line |-> 0, sym |-> x[1].sym, b |-> x[1].l, e |-> x[2].l] : x \in pairs}
      ubeg == {[k |-> "beg", id |-> b.id, file |-> b.file, line |-> 0, sym |-> "", b |-> b.l, e |-> 0] : b \in {y \in begs : \A x \in pairs : x[1] # y}}
      uend == {[k |-> "end", id |-> e.id, file |-> e.file, line |-> 0, sym |-> "", b |-> 0, e |-> e.l] : e \in {y \in ends : \A x \in pairs : x[2] # y}}
  IN uniq \cup file \cup mac \cup blks \cup ubeg \cup uend

RunMeanings(r) ==
  {LET t == ParseText(r.cmd[i]) IN StdMeaning(t.id, t.file, t.line, "") : i \in 1..Len(r.cmd)}
  \cup {LET t == ParseText(r.list[i]) IN StdMeaning(t.id, t.file, t.line, "")
          : i \in {j \in 1..Len(r.list) : CutComment(Chars(r.list[j])) # <<>>}}
  \cup {StdMeaning(r.xml[i].id, r.xml[i].fileName, IF r.xml[i].lineNumber = "" THEN 0 ELSE Num(Chars(r.xml[i].lineNumber), 0), r.xml[i].symbolName)
          : i \in 1..Len(r.xml)}
  \cup SlotMeanings(r.slots)


(***************************************************************************)
(* Step "gen": the case space.                                              *)
(***************************************************************************)
FormList == TLCEval(SetToSeq(Forms))                 \* fixed order of the forms for this TLC run; picks refer to names
NF == Len(FormList)
PC == IF Mode = "gen" THEN TLCEval([i \in 1..NF |-> [j \in 1..NF |-> i # j /\ Compat2(FormList[i], FormList[j])]]) ELSE <<>>
\* every compatible set of at most three forms (Compatible is a pairwise condition); the triples are only written
\* when IOEnv.TRIPLES = "yes" (a set of three is in the space iff its three pairs are)
Singles == IF Mode = "gen" THEN {<<i>> : i \in 1..NF} ELSE {}
Pairs   == IF Mode = "gen" THEN UNION {{<<i, j>> : j \in {j \in (i + 1)..NF : PC[i][j]}} : i \in 1..NF} ELSE {}
Triples == IF Mode = "gen" /\ IOEnv.TRIPLES = "yes"
           THEN UNION {UNION {{<<i, j, k>> : k \in {k \in (j + 1)..NF : PC[i][k] /\ PC[j][k]}}
                               : j \in {j \in (i + 1)..NF : PC[i][j]}} : i \in 1..NF}
           ELSE {}

Meta == IF Mode # "gen" THEN <<>> ELSE
  [files   |-> [i \in 1..Len(FileNames) |-> [name |-> FileNames[i], lines |-> Skel(FileNames[i])]],
   sources |-> Sources,
   snips   |-> SetToSeq(Snips),
   palette |-> SetToSeq({[snip |-> f.snip, file |-> f.file, line |-> f.line, col |-> f.col, id |-> f.id,
                          syms |-> SetToSeq(f.syms), style |-> f.style] : f \in Palette}),
   forms   |-> [i \in 1..NF |-> [n |-> FormList[i].n, k |-> FormList[i].k, file |-> FormList[i].file, surfaces |-> SetToSeq(Surfaces(FormList[i]))]],
   nofail  |-> SetToSeq(NoFailSets),
   fills   |-> SetToSeq(Fills),
   maxvar  |-> MaxVar]

ASSUME Mode = "gen" =>
         /\ Cardinality(FormNames) = Cardinality(Forms)          \* names are unique
         /\ PrintT(<<"FORMS", NF, "SPACE", Cardinality(Singles), Cardinality(Pairs), Cardinality(Triples)>>)
         /\ ndJsonSerialize(IOEnv.OUT, <<Meta>>)
         /\ ndJsonSerialize(IOEnv.OUT2, SetToSeq(Singles) \o SetToSeq(Pairs) \o SetToSeq(Triples))

(***************************************************************************)
(* Step "render".                                                           *)
(***************************************************************************)
Picks == IF Mode = "render" THEN ndJsonDeserialize(IOEnv.PICKS) ELSE <<>>
Rendered == TLCEval([i \in 1..Len(Picks) |-> [pick |-> Picks[i], runs |-> Runs(FormSeq(Picks[i]), Picks[i].var, Picks[i].modes)]])

\* every surface form of a case means the case (blocks of a file with an unbalanced begin / end are not compared:
\* their comments do not say which begin an end belongs to)
MeaningsOK(p, r) ==
  LET S  == {FormOf(p.forms[i]) : i \in 1..Len(p.forms)}
      ub == Unbal(S)
      keep(m) == ~(m.k \in {"blk", "beg", "end"} /\ m.file \in ub)
  IN {m \in RunMeanings(r) : keep(m)} = {m \in {Meaning(s) : s \in S} : keep(m)}

ASSUME Mode = "render" =>
         /\ \A i \in 1..Len(Picks) : PickOK(Picks[i]) \/ (PrintT(<<"BADPICK", i, Picks[i]>>) /\ FALSE)
         /\ \A i \in 1..Len(Picks) : \A j \in 1..Len(Rendered[i].runs) :
               MeaningsOK(Picks[i], Rendered[i].runs[j].run) \/ (PrintT(<<"BADRENDER", i, j, Rendered[i]>>) /\ FALSE)
         /\ PrintT(<<"RENDERED", Len(Picks)>>)
         /\ ndJsonSerialize(IOEnv.OUT, Rendered)

(***************************************************************************)
(* Step "judge", baseline: the unsuppressed project reports exactly the palette    *)
(* (id, file, line, column, symbols as printed by --xml).                   *)
(***************************************************************************)
Base == IF Mode = "judge" THEN ndJsonDeserialize(IOEnv.BASE) ELSE <<>>
BaseOK(o) ==
  {<<f.file, f.line, f.col, f.id, ToSet(f.syms)>> : f \in ToSet(o.findings)}
     = {<<f.file, f.line, f.col, f.id, f.syms>> : f \in Findings(ToSet(o.present), o.style)}
BaseBad == {i \in DOMAIN Base : ~BaseOK(Base[i])}
ASSUME Mode = "judge" =>
         /\ PrintT(<<"BASELINE", Len(Base), "BAD", Cardinality(BaseBad)>>)
         /\ ndJsonSerialize(IOEnv.BASEOUT, [i \in 1..Cardinality(BaseBad) |-> Base[SetToSeq(BaseBad)[i]]])

(***************************************************************************)
(* Step "judge".  An observation: [pick, runs: <<[modes, run: [inline],     *)
(* rc, findings]>>], the findings as <<[file, line, col, id]>>.             *)
(***************************************************************************)
Obs == IF Mode = "judge" THEN ndJsonDeserialize(IOEnv.OBS) ELSE <<>>

ObsKeys(r) == {<<f.file, f.line, f.col, f.id>> : f \in ToSet(r.findings)}
FormsOfPick(p) == {FormOf(p.forms[i]) : i \in 1..Len(p.forms)}

\* per case: the keys of the findings that must be reported, must be hidden, and of all findings of the project
CaseV == IF Mode # "judge" THEN <<>> ELSE
  [i \in 1..Len(Obs) |-> TLCEval(
     LET p == Obs[i].pick
         S == FormsOfPick(p)
         F == Findings(ToSet(p.present), p.style)
     IN [rep |-> {Key(f) : f \in MustReport(F, S)}, hide |-> {Key(f) : f \in MustHide(F, S)}, all |-> {Key(f) : f \in F},
         unbal |-> Unbal(S) # {}])]

\* What is wrong with one run: findings that must be reported and are not, findings that must be hidden and are
\* shown, findings that are not findings of the project at all.  A report about a malformed suppression comment is
\* tolerated (not demanded) where the case contains an unbalanced begin / end.
Wrong(i, r) ==
  LET v == CaseV[i]
      o == ObsKeys(r)
  IN [missing |-> v.rep \ o,
      shown   |-> v.hide \cap o,
      extra   |-> {k \in o \ v.all : ~(k[4] = "invalidSuppression" /\ v.unbal)},
      refused |-> r.rc # 0]                \* cppcheck did not accept the command line / files (default exit code is 0)
IsWrong(w) == w.missing # {} \/ w.shown # {} \/ w.extra # {} \/ w.refused

SurfacesAgree(c) == Cardinality({ObsKeys(c.runs[j]) : j \in 1..Len(c.runs)}) <= 1

(***************************************************************************)
(* Classes of deviations (the identity of a known finding).  A class is an  *)
(* alternative reading under which the observation would be right; it       *)
(* names the deviation, it never excuses it.  The smallest set of           *)
(* alternatives that explains a wrong run names its class ("a+b" when two   *)
(* are needed); a run that no set explains is "other:<forms>".              *)
(*                                                                         *)
(*  1 end-closes-latest-begin   a cppcheck-suppress-end closes the most     *)
(*      recent open begin (the begins of the last begin line) of the same   *)
(*      symbol whatever its id, instead of the begin of its own id; with    *)
(*      overlapping blocks of different ids the ranges are swapped, an end  *)
(*      that finds no begin of its symbol there is dropped                  *)
(*  2 same-id-file-line-dropped   a suppression is ignored when another one *)
(*      with the same id, file, line and symbol was given before, although  *)
(*      the two differ in kind: a block (its line = the line of its begin   *)
(*      comment) or a file-level comment vs. id:file:line                   *)
(*  3 double-star-inside-id-matches-nothing   an id pattern in which `**`   *)
(*      is followed by further characters matches no id                     *)
(*  error-id-with-?-refused   an id pattern containing `?` is rejected      *)
(*      ("Invalid id") and nothing is analysed                              *)
(***************************************************************************)
\* alternative 1: pair every end with the latest begin before it that is still open, in file order (ss = the forms
\* in the order in which their ids stand in a [list] comment)
AltBlocks(ss, file) ==
  LET idx  == {i \in 1..Len(ss) : ss[i].file = file /\ ss[i].k \in {"blk", "beg", "end"}}
      evs  == SortSeq(SetToSeq({[t |-> "b", o |-> i, id |-> ss[i].id, sym |-> ss[i].sym, l |-> ss[i].b] : i \in {j \in idx : ss[j].k \in {"blk", "beg"}}}
                               \cup {[t |-> "e", o |-> i, id |-> ss[i].id, sym |-> ss[i].sym, l |-> ss[i].e] : i \in {j \in idx : ss[j].k \in {"blk", "end"}}}),
                      LAMBDA u, v : u.l < v.l \/ (u.l = v.l /\ u.o < v.o))
      RECURSIVE go(_, _, _)
      \* open: sequence of open begins (latest last); res: set of blocks [id, sym, b, e]
      go(i, open, res) ==
        IF i > Len(evs) THEN res
        ELSE IF evs[i].t = "b" THEN go(i + 1, Append(open, evs[i]), res)
        ELSE IF open = <<>> THEN go(i + 1, open, res)
        ELSE LET lastl == Last(open).l
                 cand  == {k \in 1..Len(open) : open[k].l = lastl /\ open[k].sym = evs[i].sym}
             IN IF cand = {} THEN go(i + 1, open, res)
                ELSE LET k == CHOOSE k \in cand : \A k2 \in cand : k <= k2
                     IN go(i + 1, [n \in 1..(Len(open) - 1) |-> IF n < k THEN open[n] ELSE open[n + 1]],
                           res \cup {[id |-> evs[i].id, sym |-> evs[i].sym, b |-> open[k].l, e |-> evs[i].l]})
  IN go(1, <<>>, {})

\* alternative 2: of two suppressions with the same id, file, line and symbol - the line of a block being the line of
\* its begin comment, the line of a file-level comment the line it stands on - only the one given first (command
\* line and files come before inline comments) takes effect
CommentLine(s) == IF s.k = "std" THEN (IF s.line = 0 /\ s.at # NoAt THEN 1 ELSE s.line) ELSE IF s.k = "blk" THEN s.b ELSE -1
SameParams(s, t) == s.id = t.id /\ s.sym = t.sym /\ CommentLine(s) = CommentLine(t) /\ CommentLine(s) > 0
                    /\ s.file # "" /\ StripDotSlash(Chars(s.file)) = Chars(t.file)
FirstGiven(S) == {s \in S : s.k = "std" /\ s.line # 0 /\ s.at = NoAt}            \* never written as a comment
Dropped(S) == {t \in S : t.k \in {"blk", "std"} /\ (t.k = "blk" \/ t.line = 0) /\ \E s \in FirstGiven(S) : s # t /\ SameParams(s, t)}

\* alternative 3: an id pattern with `**` before further characters matches nothing
StarStarInside(id) == \E i \in 1..(Len(id) - 2) : SubSeq(id, i, i + 1) = "**"
HasQuestion(id) == \E i \in 1..Len(id) : SubSeq(id, i, i) = "?"

\* hidden / reported under a set of alternatives a \subseteq {1, 2, 3}
AltForms(ss, a) == SelectSeq(ss, LAMBDA s : ~(3 \in a /\ StarStarInside(s.id)) /\ ~(2 \in a /\ 1 \notin a /\ s \in Dropped(ToSet(ss))))
AltBlocksKept(ss, file, a) ==
  {b \in AltBlocks(ss, file) :
     ~(2 \in a /\ \E s \in FirstGiven(ToSet(ss)) : s.id = b.id /\ s.sym = b.sym /\ s.line = b.b /\ StripDotSlash(Chars(s.file)) = Chars(file))}
InAltBlock(ss, f, a) ==
  \E b \in AltBlocksKept(ss, f.file, a) : Glob(b.id, f.id) /\ (b.sym = "" \/ \E y \in f.syms : Glob(b.sym, y)) /\ b.b <= f.line /\ f.line <= b.e
NonBlock(S) == {x \in S : x.k \notin {"blk", "beg", "end"}}
AltHide(F, ss, a) ==
  LET ss2 == AltForms(ss, a)
      S2  == ToSet(ss2)
      nb  == NonBlock(S2) \ (IF 2 \in a THEN Dropped(ToSet(ss)) ELSE {})
  IN IF 1 \in a THEN {f \in F : (\E s \in nb : M3(s.n, f, {}) = "yes") \/ InAltBlock(ss2, f, a)} ELSE MustHide(F, S2)
AltReport(F, ss, a) ==
  LET ss2 == AltForms(ss, a)
      S2  == ToSet(ss2)
      nb  == NonBlock(S2) \ (IF 2 \in a THEN Dropped(ToSet(ss)) ELSE {})
  IN IF 1 \in a THEN {f \in F : (\A s \in nb : M3(s.n, f, {}) = "no") /\ ~InAltBlock(ss2, f, a)} ELSE MustReport(F, S2)

Consistent(o, hide, report) == {Key(f) : f \in report} \subseteq o /\ {Key(f) : f \in hide} \cap o = {}

RECURSIVE JoinNames(_)
JoinNames(ns) == IF ns = <<>> THEN "" ELSE IF Len(ns) = 1 THEN ns[1] ELSE ns[1] \o "+" \o JoinNames(Tail(ns))

AltName(i) == CASE i = 1 -> "end-closes-latest-begin" [] i = 2 -> "same-id-file-line-dropped" [] i = 3 -> "double-star-inside-id-matches-nothing"
AltSets == << {1}, {2}, {3}, {1, 2}, {1, 3}, {2, 3}, {1, 2, 3} >>      \* the smallest explaining set names the class

Class(p, r, w) ==
  LET ss == FormSeq(p)
      S  == ToSet(ss)
      F  == Findings(ToSet(p.present), p.style)
      o  == ObsKeys(r)
      onlyInvalid == \A k \in w.extra : k[4] = "invalidSuppression"
      applies(a) == /\ (1 \in a => (\E s \in S : s.k = "blk") /\ r.run.inline)
                    /\ (2 \in a => Dropped(S) # {} \/ (1 \in a /\ FirstGiven(S) # {}))
                    /\ (2 \in a => r.run.inline)
                    /\ (3 \in a => \E s \in S : StarStarInside(s.id))
                    /\ (IF 1 \in a THEN onlyInvalid ELSE w.extra = {})
      explains == {i \in 1..Len(AltSets) : applies(AltSets[i]) /\ Consistent(o, AltHide(F, ss, AltSets[i]), AltReport(F, ss, AltSets[i]))}
  IN IF w.refused THEN (IF \E s \in S : HasQuestion(s.id) THEN "error-id-with-?-refused" ELSE "refused:" \o JoinNames(p.forms))
     ELSE IF explains # {}
       THEN LET a == AltSets[CHOOSE i \in explains : \A j \in explains : i <= j]
            IN JoinNames([k \in 1..Cardinality(a) |-> AltName(SetToSeq(a)[k])])
     ELSE "other:" \o JoinNames(p.forms)

BadRuns ==
  UNION {{[case |-> i, run |-> j] : j \in {j \in 1..Len(Obs[i].runs) : IsWrong(Wrong(i, Obs[i].runs[j]))}} : i \in 1..Len(Obs)}
BadSurf == {i \in 1..Len(Obs) : ~SurfacesAgree(Obs[i])}

BadOut ==
  [n \in 1..Cardinality(BadRuns) |->
     LET b == SetToSeq(BadRuns)[n]
         c == Obs[b.case]
         r == c.runs[b.run]
         w == Wrong(b.case, r)
     IN [kind |-> "run", case |-> b.case, run |-> b.run, pick |-> c.pick, modes |-> r.modes,
         missing |-> SetToSeq(w.missing), shown |-> SetToSeq(w.shown), extra |-> SetToSeq(w.extra),
         class |-> Class(c.pick, r, w)]]
  \o [n \in 1..Cardinality(BadSurf) |->
        LET i == SetToSeq(BadSurf)[n]
        IN [kind |-> "surface", case |-> i, run |-> 0, pick |-> Obs[i].pick,
            modes |-> [j \in 1..Len(Obs[i].runs) |-> Obs[i].runs[j].modes],
            missing |-> <<>>, shown |-> <<>>, extra |-> <<>>,
            class |-> IF \E j \in 1..Len(Obs[i].runs) : IsWrong(Wrong(i, Obs[i].runs[j])) THEN "follows-from-run" ELSE "surface-forms-disagree"]]

\* measured for the evidence: decided / open verdicts over all judged (run, finding) pairs
Decided ==
  LET n(i) == Len(Obs[i].runs)
      sum(f(_)) == FoldLeft(LAMBDA a, b : a + b, 0, [i \in 1..Len(Obs) |-> f(i)])
      rep(i) == n(i) * Cardinality(CaseV[i].rep)
      hid(i) == n(i) * Cardinality(CaseV[i].hide)
      all(i) == n(i) * Cardinality(CaseV[i].all)
  IN <<sum(rep), sum(hid), sum(all)>>

ASSUME Mode = "judge" =>
         /\ PrintT(<<"JUDGED", Len(Obs), "BADRUNS", Cardinality(BadRuns), "BADSURF", Cardinality(BadSurf)>>)
         /\ PrintT(<<"VERDICTS", Decided[1], Decided[2], Decided[3]>>)
         /\ ndJsonSerialize(IOEnv.OUT, BadOut)

(***************************************************************************)
(* Unit level: (suppression, finding) pairs for SuppressionList.            *)
(* A suppression is given as a text line (parseLine, the format of          *)
(* --suppress / --suppressions-list) or as the fields the XML reader and    *)
(* the inline comment reader fill in (id, file, line, symbol; type block    *)
(* with its first and last line; type file; type macro with the macro       *)
(* name).  A finding is what isSuppressed is asked about: id, file, line,   *)
(* symbol names, names of the macros used on its line.                      *)
(***************************************************************************)
UIdPats   == {"zerodiv", "nullPointer", "uninitvar", "*", "zero*", "*div", "*Pointer", "null*", "z?rodiv", "zerodi", "zerodivx",
              "?erodiv", "*o*", "**", "nullPointer*", "?", "zero**", "*z*d*", "zerodiv*", "??????v", "zero?*", "n**r", "z**v", "**div", "**r", "*ndantCheck", "*lPointer", "*di*", "z*v"}
UFIds     == {"zerodiv", "nullPointer", "nullPointerRedundantCheck", "uninitvar", "zerodivcond", "v"}
UFilePats == {"", "f0.c", "f1.c", "inc/h.h", "h.h", "*.c", "*.h", "f?.c", "inc/*.h", "inc/*", "**.h", "**/h.h", "inc", "in",
              "./f0.c", "./inc/h.h", "*", "**", "i*/h.h", "inc/h.?", "inc/sub", "inc/**", "*/h.h", "f0.?", "f0.c*", "src/f0.c",
              "inc/sub/h.h", "inc/*/h.h", "inc/?/h.h", "f0", "**f0.c"}
UFFiles   == {"f0.c", "f1.c", "inc/h.h", "inc/sub/h.h", "f0.cpp", "xf0.c", "inc2/h.h", "src/f0.c"}
USymPats  == {"", "p", "p*", "?", "q", "arr*"}
UFSyms    == {<<>>, <<"p">>, <<"q", "p">>, <<"arr1">>, <<"pp">>}

USup(via, text, id, file, line, sym, type, lb, le, macro) ==
  [via |-> via, text |-> text, id |-> id, file |-> file, line |-> line, sym |-> sym, type |-> type, lb |-> lb, le |-> le, macro |-> macro]
UText(id, file, line) == id \o (IF file = "" THEN "" ELSE ":" \o file \o (IF line = 0 THEN "" ELSE ":" \o ToString(line)))
ULine(id, file, line, trail) == USup("line", UText(id, file, line) \o trail, id, file, line, "", "unique", 0, 0, "")
UStruct(id, file, line, sym) == USup("struct", "", id, file, line, sym, "unique", 0, 0, "")
UFind(id, file, line, syms, macros) == [id |-> id, file |-> file, line |-> line, syms |-> syms, macros |-> macros]

UStrata == IF Mode # "gen" THEN <<>> ELSE
  << [name |-> "id-x-file",
      sups  |-> SetToSeq({ULine(i, f, 0, "") : i \in UIdPats, f \in UFilePats}),
      finds |-> SetToSeq({UFind(i, f, 5, y, <<>>) : i \in UFIds, f \in UFFiles, y \in {<<>>, <<"p">>}})],
     [name |-> "line-sym",
      sups  |-> SetToSeq({IF y = "" THEN ULine(i, f, l, "") ELSE UStruct(i, f, l, y)
                            : i \in {"zerodiv", "*", "zero*", "nullPointer"}, f \in {"", "f0.c", "*.c"}, l \in {0, 5, 6}, y \in USymPats}
                         \ {ULine(i, "", l, "") : i \in UIdPats, l \in {5, 6}}),       \* a line needs a file in the text format
      finds |-> SetToSeq({UFind(i, f, l, y, <<>>) : i \in {"zerodiv", "nullPointer"}, f \in {"f0.c", "f1.c", "inc/h.h"}, l \in {4, 5, 6}, y \in UFSyms})],
     [name |-> "kinds",
      sups  |-> SetToSeq({USup("struct", "", i, "f0.c", 3, y, "block", 3, 8, "") : i \in {"zerodiv", "*"}, y \in {"", "p"}}
                         \cup {USup("struct", "", i, f, 1, "", "file", 0, 0, "") : i \in {"zerodiv", "*"}, f \in {"f0.c", "inc/h.h"}}
                         \cup {USup("struct", "", i, "f0.c", 3, "", "macro", 0, 0, "DIV") : i \in {"zerodiv", "*", "nullPointer"}}),
      finds |-> SetToSeq({UFind(i, f, l, y, m) : i \in {"zerodiv", "nullPointer"}, f \in {"f0.c", "inc/h.h"}, l \in {2, 3, 5, 8, 9},
                                                y \in {<<>>, <<"p">>}, m \in {<<>>, <<"DIV">>, <<"MUL">>}})],
     [name |-> "text-syntax",
      sups  |-> SetToSeq({ULine(i, f, l, t) : i \in {"zerodiv", "null*"}, f \in {"f0.c", "inc/*.h"}, l \in {0, 5},
                                              t \in {" // reason", " # reason", " // memleak:f1.c", "  # a:b:7", " //"}}
                         \cup {ULine(i, "", 0, t) : i \in {"zerodiv", "null*"}, t \in {" // suppress all", " # 5"}}),
      finds |-> SetToSeq({UFind(i, f, l, <<>>, <<>>) : i \in {"zerodiv", "nullPointer", "memleak", "a"}, f \in {"f0.c", "f1.c", "inc/h.h", "b"}, l \in {5, 7}})] >>

\* verdict of a unit pair, from the same definitions as above; t = the id / file / line the suppression states
\* (a text line is read by ParseText); idm / fm / sm = the pattern verdicts of id, file and symbol
UVerdictT(s, t, f, idm, fm, sm) ==
  IF ~idm THEN "no"
  ELSE CASE s.type = "unique" -> IF ~(t.line = 0 \/ t.line = f.line) \/ ~sm THEN "no" ELSE fm
         [] s.type = "file"   -> IF ~sm THEN "no" ELSE fm                                 \* the line of the comment does not count
         [] s.type = "block"  -> IF ~sm \/ f.line < s.lb \/ f.line > s.le THEN "no"
                                 ELSE IF s.lb < f.line /\ f.line < s.le THEN fm
                                 ELSE And3({fm, "open"})                                  \* the comment lines themselves
         [] s.type = "macro"  -> IF ~(\E i \in 1..Len(f.macros) : f.macros[i] = s.macro) \/ ~sm THEN "no"
                                 ELSE IF fm = "yes" THEN "yes" ELSE "open"

UStated(s) == IF s.via = "line" THEN ParseText(s.text) ELSE [id |-> s.id, file |-> s.file, line |-> s.line]
UFileV(pat, file) == IF pat = "" THEN "yes" ELSE FileMatch3(pat, file)
USymV(pat, syms) == pat = "" \/ \E i \in 1..Len(syms) : Glob(pat, syms[i])
UVerdict(s, f) == LET t == UStated(s) IN UVerdictT(s, t, f, Glob(t.id, f.id), UFileV(t.file, f.file), USymV(s.sym, f.syms))

ASSUME Mode = "gen" =>
         /\ PrintT(<<"UNIT", [i \in 1..Len(UStrata) |-> Len(UStrata[i].sups) * Len(UStrata[i].finds)]>>)
         /\ ndJsonSerialize(IOEnv.UOUT, UStrata)

\* judge: UCASES = the strata as written by gen, UOBS = the harness answers [st, s, err, hit]
UCases == IF Mode = "judge" THEN ndJsonDeserialize(IOEnv.UCASES) ELSE <<>>
UObs   == IF Mode = "judge" THEN ndJsonDeserialize(IOEnv.UOBS) ELSE <<>>
UStratum(name) == CHOOSE i \in 1..Len(UCases) : UCases[i].name = name
\* the pattern verdicts are tabulated once per distinct (pattern, subject) of the strata
UStatedAll == IF Mode # "judge" THEN <<>> ELSE TLCEval([k \in 1..Len(UCases) |-> [i \in 1..Len(UCases[k].sups) |-> UStated(UCases[k].sups[i])]])
UAllSups  == UNION {{<<k, i>> : i \in 1..Len(UCases[k].sups)} : k \in 1..Len(UCases)}
UAllFinds == UNION {ToSet(UCases[k].finds) : k \in 1..Len(UCases)}
UIdTab   == IF Mode # "judge" THEN <<>> ELSE
              TLCEval([p \in {UStatedAll[x[1]][x[2]].id : x \in UAllSups} |-> [y \in {f.id : f \in UAllFinds} |-> Glob(p, y)]])
UFileTab == IF Mode # "judge" THEN <<>> ELSE
              TLCEval([p \in {UStatedAll[x[1]][x[2]].file : x \in UAllSups} |-> [y \in {f.file : f \in UAllFinds} |-> UFileV(p, y)]])
USymTab  == IF Mode # "judge" THEN <<>> ELSE
              TLCEval([p \in {UCases[x[1]].sups[x[2]].sym : x \in UAllSups} |-> [y \in {f.syms : f \in UAllFinds} |-> USymV(p, y)]])
URowAt(k, i) ==
  LET s == UCases[k].sups[i]
      t == UStatedAll[k][i]
      fs == UCases[k].finds
      idr == UIdTab[t.id]
      fr  == UFileTab[t.file]
      sr  == USymTab[s.sym]
  IN [j \in 1..Len(fs) |-> UVerdictT(s, t, fs[j], idr[fs[j].id], fr[fs[j].file], sr[fs[j].syms])]
URows == IF Mode = "judge" THEN [i \in 1..Len(UObs) |-> TLCEval(URowAt(UStratum(UObs[i].st), UObs[i].s))] ELSE <<>>
UBadOf(i) ==
  LET o   == UObs[i]
      st  == UCases[UStratum(o.st)]
      s   == st.sups[o.s]
      hit == ToSet(o.hit)
      row == URows[i]
  IN IF o.err # "" THEN {[st |-> o.st, s |-> o.s, f |-> 0, sup |-> s, find |-> <<>>, expected |-> "accepted", got |-> o.err,
                          class |-> IF HasQuestion(s.id) THEN "unit:error-id-with-?-refused" ELSE "unit:refused:" \o s.text \o s.id]}
     ELSE {[st |-> o.st, s |-> o.s, f |-> j, sup |-> s, find |-> st.finds[j], expected |-> row[j], got |-> IF j \in hit THEN "yes" ELSE "no",
            class |-> IF StarStarInside(s.id) /\ row[j] = "yes" THEN "unit:double-star-inside-id-matches-nothing"
                      ELSE "unit:" \o o.st \o ":" \o s.type \o ":specified-" \o row[j]]
             : j \in {j \in 1..Len(st.finds) : (row[j] = "yes" /\ j \notin hit) \/ (row[j] = "no" /\ j \in hit)}}
UBad == UNION {UBadOf(i) : i \in 1..Len(UObs)}
UCount(v) == FoldLeft(LAMBDA a, b : a + b, 0, [i \in 1..Len(UObs) |-> Cardinality({j \in 1..Len(URows[i]) : URows[i][j] = v})])
ASSUME Mode = "judge" =>
         /\ PrintT(<<"UNITJUDGED", Len(UObs), "BAD", Cardinality(UBad), "YES", UCount("yes"), "NO", UCount("no"), "OPEN", UCount("open")>>)
         /\ ndJsonSerialize(IOEnv.UBADOUT, SetToSeq(UBad))

(***************************************************************************)
(* Step "laws": laws of the definitions (they guard against a wrong spec).  *)
(* (TLC evaluates every zero-arity definition when it starts, in every      *)
(* step: each law is guarded by the step.)                                  *)
(***************************************************************************)
RECURSIVE SeqsUpTo(_, _)
SeqsUpTo(A, n) == IF n = 0 THEN {<<>>} ELSE LET r == SeqsUpTo(A, n - 1) IN r \cup {Append(x, a) : x \in {y \in r : Len(y) = n - 1}, a \in A}
LPats == IF Mode # "laws" THEN {} ELSE SeqsUpTo({"a", "b", "*", "?", Sep}, 3)
LStrs == IF Mode # "laws" THEN {} ELSE SeqsUpTo({"a", "b", Sep}, 4)
Subst(p, i, x) == SubSeq(p, 1, i - 1) \o x \o SubSeq(p, i + 1, Len(p))
Ord(v) == IF v = "no" THEN 0 ELSE IF v = "open" THEN 1 ELSE 2

LawGlob == Mode = "laws" =>
  /\ \A p \in LPats : (~HasWild(p)) => \A r \in LStrs : GlobC(p, r) <=> (p = r)                   \* a literal matches itself only
  /\ \A r \in LStrs : GlobC(<<"*">>, r) <=> (\A i \in 1..Len(r) : r[i] # Sep)                     \* `*`: no separator
  /\ \A r \in LStrs : GlobC(<<"*", "*">>, r)                                                      \* `**`: everything
  /\ \A r \in LStrs : GlobC(<<"?">>, r) <=> (Len(r) = 1 /\ r[1] # Sep)                            \* `?`: one character
  /\ \A p \in LPats : \A i \in 1..Len(p) : (p[i] \notin {"*", "?", Sep}) =>
        \A r \in LStrs : GlobC(p, r) => (GlobC(Subst(p, i, <<"?">>), r) /\ GlobC(Subst(p, i, <<"*">>), r))   \* `?`, `*` match what a literal matches
  /\ \A p \in LPats : \A i \in 1..Len(p) : p[i] = "?" => \A r \in LStrs : GlobC(p, r) => GlobC(Subst(p, i, <<"*">>), r)
  /\ \A p \in LPats : \A i \in 1..Len(p) : p[i] = "*" => \A r \in LStrs : GlobC(p, r) => GlobC(Subst(p, i, <<"*", "*">>), r)

LawFile == Mode = "laws" =>
  /\ \A f \in UFFiles : FileMatch3(f, f) = "yes" /\ FileMatch3("./" \o f, f) = "yes"
  /\ \A p \in UFilePats \ {""} : \A f \in UFFiles : Glob(p, f) => FileMatch3(p, f) = "yes"
  \* the examples of the manual
  /\ FileMatch3("test", "test/somefile.cpp") = "yes" /\ FileMatch3("test", "test1.cpp") = "no"
  /\ FileMatch3("src/*.c", "test1.c") = "no" /\ FileMatch3("src/*.c", "src/test2.c") = "yes" /\ FileMatch3("src/*.c", "src/test3.cpp") = "no"
  /\ FileMatch3("src/test*", "src/test1.cpp") = "yes" /\ FileMatch3("src/test*", "src/file2.cpp") = "no"
  /\ FileMatch3("src/test*", "src/test/file1.cpp") = "open"
  /\ FileMatch3("src/file1.cpp", "src/file1.cpp") = "yes"
  /\ FileMatch3("h.h", "inc/h.h") = "open" /\ FileMatch3("*.h", "inc/h.h") = "open" /\ FileMatch3("in", "inc/h.h") = "no"

LawParse == Mode = "laws" =>
  /\ ParseText("memleak:src/file1.cpp") = [id |-> "memleak", file |-> "src/file1.cpp", line |-> 0]
  /\ ParseText("uninitvar // suppress all uninitvar errors in all files") = [id |-> "uninitvar", file |-> "", line |-> 0]
  /\ ParseText("uninitvar:src/file1.c:10") = [id |-> "uninitvar", file |-> "src/file1.c", line |-> 10]
  /\ ParseText("a*:b/**.c:7 # x:y:3") = [id |-> "a*", file |-> "b/**.c", line |-> 7]

\* the forms are placed where the manual's attachment rules put them
LawForms == Mode = "laws" =>
  \A s \in Forms :
    /\ (s.k = "std" /\ s.at # NoAt /\ s.line # 0) =>
          (s.file = s.at.file /\ IF s.at.pos = "tail" THEN s.at.line = s.line /\ HasCode(s.file, s.line)
                                 ELSE IsSlot(s.file, s.at.line) /\ NextCode(s.file, s.at.line) = s.line)
    /\ (s.k = "std" /\ s.at # NoAt /\ s.line = 0) => (s.file = s.at.file /\ s.at = Own(s.file, 1) /\ IsSlot(s.file, 1))
    /\ s.k \in {"blk", "beg"} => IsSlot(s.file, s.b)
    /\ s.k \in {"blk", "end"} => IsSlot(s.file, s.e)
    /\ s.k = "blk" => s.b < s.e
    /\ s.k = "mac" => (IsSlot(s.file, s.at.line) /\ Skel(s.file)[NextCode(s.file, s.at.line)].text = "#define DIV(x) (100 / (x))")
    /\ s.k = "two" => (Skel(s.file)[s.line].text = "{" /\ HasCode(s.file, s.line + 1))

\* every surface form of a form means the form, in every syntax variant
LawSurface == Mode = "laws" =>
  \A s \in Forms : \A v \in 0..MaxVar : \A d \in Surfaces(s) :
     LET r == Run(<<s>>, d, v) IN s.k \in {"beg", "end"} \/ RunMeanings(r) = {Meaning(s)}

\* more suppressions never show more; `*` as id matches whatever the literal id matches
Balanced == {s \in Forms : s.k \notin {"beg", "end"}}
LawMono == Mode = "laws" =>
  \A s, t \in Balanced :
     /\ MustHide(Palette, {s}) \subseteq MustHide(Palette, {s, t})
     /\ MustReport(Palette, {s, t}) \subseteq MustReport(Palette, {s})
     /\ MustReport(Palette, {s, t}) = MustReport(Palette, {s}) \cap MustReport(Palette, {t})
LawStar == Mode = "laws" =>
  \A s \in Forms : \A f \in Palette : Ord(Match3([s EXCEPT !.id = "*"], f, {})) >= Ord(Match3(s, f, {}))
\* every palette finding can be told apart by some form, and is hidden by some and kept by some
LawPalette == Mode = "laws" =>
  /\ \A f \in Palette : (\E s \in Forms : M3(s.n, f, {}) = "yes") /\ (\E s \in Forms : M3(s.n, f, {}) = "no")
  /\ \A f, g \in Palette : f # g => Key(f) # Key(g)

ASSUME Mode = "laws" =>
         /\ LawGlob /\ PrintT(<<"LAW", "glob", Cardinality(LPats), Cardinality(LStrs)>>)
         /\ LawFile /\ LawParse /\ PrintT(<<"LAW", "file+parse">>)
         /\ LawForms /\ PrintT(<<"LAW", "forms", Cardinality(Forms)>>)
         /\ LawSurface /\ PrintT(<<"LAW", "surface", Cardinality(Forms) * (MaxVar + 1)>>)
         /\ LawMono /\ LawStar /\ LawPalette /\ PrintT(<<"LAW", "mono+star+palette", Cardinality(Balanced) * Cardinality(Balanced)>>)
=============================================================================
