----------------------------- MODULE HtmlReport -----------------------------
(***************************************************************************)
(* C36: the HTML report lists every reported finding.                      *)
(*                                                                         *)
(* Input of cppcheck-htmlreport: a results file (XML version 2) = a        *)
(* sequence of findings [id, sev, msg, verbose, inconc, cwe, locs], locs a *)
(* sequence of [file, line, info] (the FIRST location is the primary one:  *)
(* "The primary location is listed first"), and a source directory in      *)
(* which a file is readable (with n lines), unreadable (not UTF-8) or      *)
(* missing.  Strings are sequences of byte tokens as in Report.tla; the    *)
(* classes are those a well-formed XML file can carry (no raw control      *)
(* characters, no invalid UTF-8): plain, space, < > & " ' \ { } %, tab,    *)
(* newline, cr (written as character references), 0x7f, a UTF-8 pair.      *)
(*                                                                         *)
(* Expected report:                                                        *)
(*   index.html   exactly one row per finding: primary file, line, id,     *)
(*                severity, message - every text HTML-escaped              *)
(*   N.html       one page per readable source file; it lists (menu) the   *)
(*                locations in that file of the findings of that file and  *)
(*                annotates each of them that lies on an existing line     *)
(*                with the location's info, or the message if it has none  *)
(*   unreadable / missing files: their findings are still in the index     *)
(*   summary      per id the number of findings, and the total             *)
(*   stats.html   per severity the number of findings that have a location *)
(*                                                                         *)
(* Modes (IOEnv.MODE): gen (cases to IOEnv.OUT), judge (observations       *)
(* IOEnv.OBS -> verdicts IOEnv.OUT), the laws are checked in gen.          *)
(***************************************************************************)
EXTENDS Integers, Sequences, FiniteSets, TLC, Json, IOUtils, SequencesExt

Mode == IOEnv.MODE
StrTab == JsonDeserialize(IOEnv.STRTAB)        \* S("abc") = <<"a","b","c">> (table from the module text, drivers/report_conv.py)
S(x) == StrTab[x]

NL == "x0A"
TAB == "x09"
CR == "x0D"
U2 == <<"xC3", "xA9">>

RECURSIVE CatR(_, _, _)
CatR(ss, a, b) == IF a > b THEN <<>> ELSE IF a = b THEN ss[a] ELSE CatR(ss, a, (a + b) \div 2) \o CatR(ss, ((a + b) \div 2) + 1, b)
Cat(ss) == CatR(ss, 1, Len(ss))
RECURSIVE Digits(_)
Digits(n) == IF n < 10 THEN <<S("0123456789")[n + 1]>> ELSE Digits(n \div 10) \o <<S("0123456789")[(n % 10) + 1]>>
Has(s, tokset) == \E i \in 1..Len(s) : s[i] \in tokset
Bag(seq) == [x \in ToSet(seq) |-> Cardinality({i \in 1..Len(seq) : seq[i] = x})]

\* ------------------------------------------------------------------------
\* 1. HTML text: what must be written for a text to be shown as it is
\* ------------------------------------------------------------------------
Entities == <<[e |-> S("&lt;"), c |-> "<"], [e |-> S("&gt;"), c |-> ">"], [e |-> S("&amp;"), c |-> "&"],
              [e |-> S("&quot;"), c |-> "\""], [e |-> S("&apos;"), c |-> "'"]>>
EntityAt(r, i) == IF r[i] = "&" /\ \E k \in 1..Len(Entities) : IsPrefix(Entities[k].e, SubSeq(r, i, Len(r)))
                  THEN CHOOSE k \in 1..Len(Entities) : IsPrefix(Entities[k].e, SubSeq(r, i, Len(r))) ELSE 0
Unescape(r) == Cat([i \in 1..Len(r) |->
                     IF r[i] = "&" THEN (IF EntityAt(r, i) # 0 THEN <<Entities[EntityAt(r, i)].c>> ELSE <<"?bad-reference?">>)
                     ELSE IF \E j \in (IF i > 5 THEN i - 5 ELSE 1)..(i - 1) : r[j] = "&" /\ EntityAt(r, j) # 0 /\ j + Len(Entities[EntityAt(r, j)].e) > i /\ \A m \in (j + 1)..(i - 1) : r[m] # "&"
                          THEN <<>> ELSE <<r[i]>>])
\* the source text raw shows exactly the text value: no raw <, every & starts a reference, the references resolve to value
HtmlTextOK(raw, value) == ~Has(raw, {"<"}) /\ Unescape(raw) = value
\* the minimal escaping (quotes may stay)
Escape(s) == Cat([i \in 1..Len(s) |-> CASE s[i] = "<" -> S("&lt;") [] s[i] = ">" -> S("&gt;") [] s[i] = "&" -> S("&amp;") [] OTHER -> <<s[i]>>])
NeedsEscape(s) == Has(s, {"<", "&"})

\* ------------------------------------------------------------------------
\* 2. The expected report
\* ------------------------------------------------------------------------
Sevs == <<"error", "warning", "style", "performance", "portability", "information">>
HasLoc(f) == f.locs # <<>>
PFile(f) == IF HasLoc(f) THEN f.locs[1].file ELSE <<>>
\* an inconclusive finding is marked in the severity column
SevT(s) == CASE s = "error" -> S("error") [] s = "warning" -> S("warning") [] s = "style" -> S("style") [] s = "performance" -> S("performance")
             [] s = "portability" -> S("portability") [] s = "information" -> S("information")
SevCell(f) == SevT(f.sev) \o (IF f.inconc THEN S(", inconcl.") ELSE <<>>)
IndexRow(f) == [file |-> PFile(f), line |-> IF HasLoc(f) THEN Digits(f.locs[1].line) ELSE <<>>, id |-> f.id, sev |-> SevCell(f), msg |-> f.msg]

FileState(c, file) == IF \E i \in 1..Len(c.files) : c.files[i].name = file THEN (CHOOSE x \in ToSet(c.files) : x.name = file).state ELSE "missing"
FileLines(c, file) == IF \E i \in 1..Len(c.files) : c.files[i].name = file THEN (CHOOSE x \in ToSet(c.files) : x.name = file).nlines ELSE 0
PrimaryFiles(c) == {PFile(c.findings[i]) : i \in {j \in 1..Len(c.findings) : HasLoc(c.findings[j])}}
\* the locations a page shows: those locations of the findings of this file that lie in this file
PageLocs(c, file) == Cat([i \in 1..Len(c.findings) |->
                           IF PFile(c.findings[i]) = file /\ HasLoc(c.findings[i])
                           THEN LET f == c.findings[i] IN SelectSeq([k \in 1..Len(f.locs) |-> [f |-> i, line |-> f.locs[k].line, id |-> f.id,
                                                                                           text |-> IF f.locs[k].info = <<>> THEN f.msg ELSE f.locs[k].info,
                                                                                           here |-> f.locs[k].file = file]],
                                                                   LAMBDA x : x.here)
                           ELSE <<>>])
Menu(c, file) == LET ls == PageLocs(c, file) IN Bag([i \in 1..Len(ls) |-> [line |-> ls[i].line, id |-> ls[i].id]])
Annotations(c, file) == LET ls == SelectSeq(PageLocs(c, file), LAMBDA x : x.line >= 1 /\ x.line <= FileLines(c, file))
                        IN Bag([i \in 1..Len(ls) |-> [line |-> ls[i].line, text |-> ls[i].text]])
Summary(c) == LET ids == {c.findings[i].id : i \in 1..Len(c.findings)}
              IN {[id |-> x, count |-> Cardinality({i \in 1..Len(c.findings) : c.findings[i].id = x})] : x \in ids}
Stats(c, countInconclusive) ==
  {[sev |-> Sevs[s], total |-> Cardinality({i \in 1..Len(c.findings) : HasLoc(c.findings[i]) /\ c.findings[i].sev = Sevs[s] /\ (countInconclusive \/ ~c.findings[i].inconc)})]
     : s \in {t \in 1..Len(Sevs) : \E i \in 1..Len(c.findings) : HasLoc(c.findings[i]) /\ c.findings[i].sev = Sevs[t] /\ (countInconclusive \/ ~c.findings[i].inconc)}}

\* ------------------------------------------------------------------------
\* 3. The case space
\* ------------------------------------------------------------------------
Plain == {"a", "b", "1"}
Special == {" ", "<", ">", "&", "\"", "'", "\\", "{", "}", "%"}
One(T) == {<<t>> : t \in T}
TextAtoms == One(Plain \cup Special \cup {TAB, NL, CR, "x7F"}) \cup {U2, S("&amp;"), S("&lt;"), S("<a>"), S("%s")}
IdAtoms == One(Plain \cup Special \cup {TAB, "x7F"}) \cup {U2, S("&amp;")}
FileAtoms == One((Plain \cup Special) \ {"\\"}) \cup {U2, S("&amp;"), S("%41")}
Pairs(A) == {a \o b : a \in A, b \in A}
Triples(A) == {a \o b \o c : a \in A, b \in A, c \in A}

NCases == atoi(IOEnv.NCASES)
Seed == atoi(IOEnv.SEED)
Deep == IOEnv.DEEP = "1"
Pick(seq, n) == seq[(n % Len(seq)) + 1]
Walk(first, rest, q) == IF q <= Len(first) THEN first[q] ELSE IF rest = <<>> THEN Pick(first, q) ELSE Pick(rest, (q - Len(first)) * 7 + Seed * 101)
Pool(A) == IF Mode = "gen" THEN SetToSeq(A) ELSE <<>>
MsgFirst == Pool(TextAtoms)
MsgRest == Pool(Pairs(TextAtoms) \cup (IF Deep THEN Triples(TextAtoms) ELSE {}))
IdFirst == Pool({S("id") \o a : a \in IdAtoms})
IdRest == Pool({S("id") \o a : a \in Pairs(IdAtoms)})
FileFirst == Pool({a \o S(".c") : a \in FileAtoms})
FileRest == Pool({a \o S(".c") : a \in Pairs(FileAtoms) \cup (IF Deep THEN Triples(FileAtoms) ELSE {})})

\* the harmless source tree: a.c and b.h are readable, bin.c is not UTF-8, gone.c does not exist
BFiles == <<[name |-> S("a.c"), state |-> "readable", nlines |-> 4], [name |-> S("b.h"), state |-> "readable", nlines |-> 2],
            [name |-> S("bin.c"), state |-> "unreadable", nlines |-> 0], [name |-> S("gone.c"), state |-> "missing", nlines |-> 0]>>
BMsgs == <<S("plain text"), S("second message"), S("third")>>

Dims == <<"msg", "shape", "file", "msg", "id", "shape", "info", "shape">>
DimOf(c) == Pick(Dims, c - 1)
KOf(dim) == CASE dim = "msg" -> 5 [] dim = "file" -> 3 [] dim = "id" -> 3 [] dim = "info" -> 3 [] dim = "shape" -> 3
Ord(c) == Cardinality({d \in 1..c : DimOf(d) = DimOf(c)})

\* shapes: several findings on one line, a finding without location, locations in several files, lines outside the
\* file (0, beyond the end), unreadable / missing files, inconclusive findings, a verbose text that differs
ShapeLocs(q, j) ==
  LET k == q % 8 IN
  CASE k = 0 -> <<[file |-> S("a.c"), line |-> 3, info |-> <<>>]>>                                                   \* all on a.c:3
    [] k = 1 -> IF j = 2 THEN <<>> ELSE <<[file |-> S("a.c"), line |-> j, info |-> <<>>]>>                           \* one without location
    [] k = 2 -> <<[file |-> S("a.c"), line |-> 2, info |-> S("info one")], [file |-> S("b.h"), line |-> 1, info |-> S("info two")],
                  [file |-> S("a.c"), line |-> 4, info |-> <<>>]>>                                                   \* several locations, two files
    [] k = 3 -> <<[file |-> Pick(<<S("gone.c"), S("bin.c"), S("a.c")>>, j), line |-> 1 + j, info |-> <<>>]>>         \* missing / unreadable / readable
    [] k = 4 -> <<[file |-> S("a.c"), line |-> Pick(<<0, 5, 4>>, j), info |-> <<>>]>>                                \* line 0, beyond the end, last line
    [] k = 5 -> <<[file |-> S("b.h"), line |-> 2, info |-> <<>>], [file |-> S("b.h"), line |-> 2, info |-> S("info one")]>>   \* same line twice in one finding
    [] k = 6 -> <<[file |-> Pick(<<S("gone.c"), S("gone.c"), S("bin.c")>>, j), line |-> 7, info |-> <<>>]>>          \* only files without page
    [] k = 7 -> <<[file |-> Pick(<<S("b.h"), S("a.c"), S("b.h")>>, j), line |-> 1, info |-> <<>>]>>

Finding(c, j) ==
  LET dim == DimOf(c)
      q == (Ord(c) - 1) * KOf(dim) + j
      n == q + Seed * 7919
      msg == IF dim = "msg" THEN Walk(MsgFirst, MsgRest, q) ELSE Pick(BMsgs, n)
      file == IF dim = "file" THEN Walk(FileFirst, FileRest, q) ELSE Pick(<<S("a.c"), S("b.h"), S("a.c"), S("gone.c")>>, n)
      line == Pick(<<1, 2, 2, 4>>, n \div 2)
  IN [id |-> IF dim = "id" THEN Walk(IdFirst, IdRest, q) ELSE IF dim = "shape" /\ (Ord(c) - 1) % 3 = 0 THEN S("id") ELSE S("id") \o Digits(j),
      sev |-> Pick(Sevs, n), msg |-> msg,
      verbose |-> IF n % 3 = 0 THEN msg \o S(" more") ELSE msg,
      inconc |-> (n % 5 = 1), cwe |-> Pick(<<0, 398>>, n \div 3),
      locs |-> IF dim = "shape" THEN ShapeLocs(Ord(c) - 1 + Seed, j)
               ELSE IF dim = "info" THEN <<[file |-> file, line |-> line, info |-> Walk(MsgFirst, MsgRest, q)], [file |-> file, line |-> 1, info |-> <<>>]>>
               ELSE <<[file |-> file, line |-> line, info |-> <<>>]>>]

Case(c) ==
  LET dim == DimOf(c)
      fs == [j \in 1..KOf(dim) |-> Finding(c, j)]
      exotic == UNION {{fs[j].locs[k].file : k \in 1..Len(fs[j].locs)} : j \in 1..Len(fs)} \ {BFiles[i].name : i \in 1..Len(BFiles)}
  IN [cid |-> c, dim |-> dim, findings |-> fs,
      \* the source tree: the harmless files, and the exotic names (readable with 4 lines, every third one missing)
      files |-> BFiles \o LET ex == SetToSeq(exotic) IN [i \in 1..Len(ex) |-> [name |-> ex[i], state |-> IF (c + i) % 3 = 0 THEN "missing" ELSE "readable", nlines |-> 4]]]

Cases == [c \in 1..NCases |-> Case(c)]

\* ------------------------------------------------------------------------
\* 4. The judge
\* ------------------------------------------------------------------------
Obs == IF Mode = "judge" THEN ndJsonDeserialize(IOEnv.OBS) ELSE <<>>
Dev(part, key, what) == [part |-> part, key |-> key, what |-> what]

ObsRows(o) == Cat([g \in 1..Len(o.index.groups) |-> [r \in 1..Len(o.index.groups[g].rows) |->
                     LET x == o.index.groups[g].rows[r] IN
                     [file |-> o.index.groups[g].file, line |-> x.line, id |-> x.id, sev |-> x.sev, msg |-> x.msg, ncells |-> x.ncells]]])
Columns == <<"file", "line", "id", "sev", "msg">>
Col(row, n) == CASE n = "file" -> row.file [] n = "line" -> row.line [] n = "id" -> row.id [] n = "sev" -> row.sev [] n = "msg" -> row.msg

IndexDevs(o) ==
  LET c == o.case
      exp == [i \in 1..Len(c.findings) |-> IndexRow(c.findings[i])]
      rows == ObsRows(o)
      got == [i \in 1..Len(rows) |-> [file |-> rows[i].file.text, line |-> rows[i].line.text, id |-> rows[i].id.text, sev |-> rows[i].sev.text, msg |-> rows[i].msg.text]]
      colDevs(n) ==
        LET gt == Bag([i \in 1..Len(rows) |-> Col(rows[i], n).text])
            gr == Bag([i \in 1..Len(rows) |-> Col(rows[i], n).raw])
            ex == Bag([i \in 1..Len(exp) |-> Col(exp[i], n)])
            badraw == {i \in 1..Len(rows) : ~HtmlTextOK(Col(rows[i], n).raw, Col(rows[i], n).text)}
        IN IF gt = ex /\ badraw = {} THEN {}
           ELSE IF gr = ex /\ \E i \in 1..Len(exp) : NeedsEscape(Col(exp[i], n)) THEN {Dev("index", "index:" \o n \o "-not-escaped", "the text is written into the page as it is")}
           ELSE IF gt = ex THEN {Dev("index", "index:" \o n \o "-source-is-not-a-proper-escaping", "row " \o ToString(CHOOSE i \in badraw : TRUE))}
           ELSE {Dev("index", "index:" \o n \o "-differs", "the column does not show the values of the findings")}
  IN IF ~o.index.ok THEN {Dev("index", "index:not-produced", o.index.err)}
     ELSE (IF Len(rows) # Len(exp) THEN {Dev("index", "index:rows-" \o (IF Len(rows) < Len(exp) THEN "missing" ELSE "too-many"), ToString(Len(rows)) \o " rows for " \o ToString(Len(exp)) \o " findings")}
           ELSE UNION {colDevs(Columns[k]) : k \in 1..Len(Columns)}
                \cup (IF Bag(got) # Bag(exp) /\ \A k \in 1..Len(Columns) : colDevs(Columns[k]) = {} THEN {Dev("index", "index:values-mixed-between-rows", "every column is complete but the rows differ")} ELSE {}))
          \cup (IF o.index.parser_rows # Len(exp) /\ Len(rows) = Len(exp) /\ \A k \in 1..Len(Columns) : colDevs(Columns[k]) = {}
                THEN {Dev("index", "index:rows-seen-by-the-html-parser", ToString(o.index.parser_rows))} ELSE {})

PageDevs(o) ==
  LET c == o.case
      need == {f \in PrimaryFiles(c) : f # <<>> /\ FileState(c, f) = "readable"}
      pagesOf(f) == {i \in 1..Len(o.pages) : o.pages[i].file.text = f \/ o.pages[i].file.raw = f}
      one(f) ==
        IF Cardinality(pagesOf(f)) # 1 THEN {Dev("page", "page:file-not-exactly-once-in-the-index", "a readable file")}
        ELSE LET p == o.pages[CHOOSE i \in pagesOf(f) : TRUE]
                 menu == Bag([i \in 1..Len(p.menu) |-> [line |-> p.menu[i].line, id |-> p.menu[i].id.text]])
                 menuraw == Bag([i \in 1..Len(p.menu) |-> [line |-> p.menu[i].line, id |-> p.menu[i].id.raw]])
                 ann == Bag([i \in 1..Len(p.ann) |-> [line |-> p.ann[i].line, text |-> p.ann[i].msg.text]])
                 annraw == Bag([i \in 1..Len(p.ann) |-> [line |-> p.ann[i].line, text |-> p.ann[i].msg.raw]])
                 badraw == {i \in 1..Len(p.ann) : ~HtmlTextOK(p.ann[i].msg.raw, p.ann[i].msg.text)}
                 expAnn == Annotations(c, f)
             IN IF ~p.exists THEN {Dev("page", "page:missing-for-a-readable-file", "no page")}
                ELSE (IF menu = Menu(c, f) /\ \A i \in 1..Len(p.menu) : HtmlTextOK(p.menu[i].id.raw, p.menu[i].id.text) THEN {}
                      ELSE IF menuraw = Menu(c, f) THEN {Dev("page", "page:menu-id-not-escaped", "the id is written into the page as it is")}
                      ELSE {Dev("page", "page:menu-differs", "the list of locations of the page")})
                     \cup (IF ann = expAnn /\ badraw = {} THEN {}
                           ELSE IF annraw = expAnn /\ \E x \in DOMAIN expAnn : NeedsEscape(x.text) THEN {Dev("page", "page:annotation-not-escaped", "the text is written into the page as it is")}
                           ELSE IF ann = expAnn THEN {Dev("page", "page:annotation-source-is-not-a-proper-escaping", "an annotation")}
                           ELSE IF \E x \in DOMAIN expAnn : Has(x.text, {NL}) THEN {Dev("page", "page:annotation-with-newline-in-the-text", "annotations of the page")}
                           ELSE IF \E x \in DOMAIN expAnn : NeedsEscape(x.text) THEN {Dev("page", "page:annotation-not-escaped", "annotations of the page (markup in the text)")}
                           ELSE {Dev("page", "page:annotations-differ", "annotations of the page")})
  IN IF ~o.index.ok THEN {} ELSE UNION {one(f) : f \in need}

SummaryDevs(o) ==
  LET c == o.case
      got == {[id |-> o.index.summary[i].id.text, count |-> o.index.summary[i].count] : i \in 1..Len(o.index.summary)}
      gotraw == {[id |-> o.index.summary[i].id.raw, count |-> o.index.summary[i].count] : i \in 1..Len(o.index.summary)}
  IN IF ~o.index.ok THEN {}
     ELSE (IF o.index.total = Len(c.findings) THEN {} ELSE {Dev("summary", "summary:total-differs", ToString(o.index.total))})
          \cup (IF got = Summary(c) /\ Len(o.index.summary) = Cardinality(Summary(c)) /\ \A i \in 1..Len(o.index.summary) : HtmlTextOK(o.index.summary[i].id.raw, o.index.summary[i].id.text) THEN {}
                ELSE IF gotraw = Summary(c) THEN {Dev("summary", "summary:id-not-escaped", "the id is written into the page as it is")}
                ELSE {Dev("summary", "summary:counts-per-id-differ", "the defect summary table")})
          \cup (LET st == {[sev |-> o.stats[i].sev, total |-> o.stats[i].total] : i \in 1..Len(o.stats)}
                IN IF st = Stats(c, TRUE) THEN {}
                   ELSE IF st = Stats(c, FALSE) THEN {Dev("stats", "stats:inconclusive-findings-not-counted", "stats.html")}
                   ELSE {Dev("stats", "stats:counts-per-severity-differ", "stats.html")})

Judge(o) == [cid |-> o.case.cid, nfindings |-> Len(o.case.findings),
             devs |-> SetToSeq(IF o.rc # 0 THEN {Dev("run", "run:script-failed", o.err)} ELSE IndexDevs(o) \cup PageDevs(o) \cup SummaryDevs(o))]
Verdicts == [i \in 1..Len(Obs) |-> Judge(Obs[i])]

\* ------------------------------------------------------------------------
\* 5. Laws
\* ------------------------------------------------------------------------
LawStrings == TextAtoms \cup Pairs(TextAtoms)
C0 == [cid |-> 0, dim |-> "law", files |-> BFiles,
       findings |-> <<[id |-> S("id"), sev |-> "error", msg |-> S("plain text"), verbose |-> S("plain text"), inconc |-> FALSE, cwe |-> 0,
                       locs |-> <<[file |-> S("a.c"), line |-> 3, info |-> <<>>], [file |-> S("b.h"), line |-> 1, info |-> S("info one")], [file |-> S("a.c"), line |-> 9, info |-> S("info two")]>>],
                      [id |-> S("id"), sev |-> "style", msg |-> S("third"), verbose |-> S("third"), inconc |-> TRUE, cwe |-> 0, locs |-> <<[file |-> S("a.c"), line |-> 3, info |-> <<>>]>>],
                      [id |-> S("id") \o <<"1">>, sev |-> "style", msg |-> S("third"), verbose |-> S("third"), inconc |-> FALSE, cwe |-> 0, locs |-> <<>>]>>]
Laws ==
  /\ \A s \in LawStrings : HtmlTextOK(Escape(s), s)                         \* the minimal escaping is a proper escaping
  /\ \A s \in LawStrings : NeedsEscape(s) => ~HtmlTextOK(s, s)              \* ... and it is needed exactly for < and &
  /\ \A s \in LawStrings : ~NeedsEscape(s) => HtmlTextOK(s, s)
  /\ PrimaryFiles(C0) = {S("a.c")}
  /\ Menu(C0, S("a.c")) = Bag(<<[line |-> 3, id |-> S("id")], [line |-> 9, id |-> S("id")], [line |-> 3, id |-> S("id")]>>)
  /\ Annotations(C0, S("a.c")) = Bag(<<[line |-> 3, text |-> S("plain text")], [line |-> 3, text |-> S("third")]>>)      \* line 9 does not exist
  /\ Summary(C0) = {[id |-> S("id"), count |-> 2], [id |-> S("id") \o <<"1">>, count |-> 1]}
  /\ Stats(C0, TRUE) = {[sev |-> "error", total |-> 1], [sev |-> "style", total |-> 1]}
  /\ IndexRow(C0.findings[3]).file = <<>> /\ IndexRow(C0.findings[2]).sev = S("style") \o S(", inconcl.")

ASSUME Mode = "gen" =>
         /\ Laws
         /\ PrintT(<<"CASES", NCases, "TEXTS", Len(MsgFirst) + Len(MsgRest), "IDS", Len(IdFirst) + Len(IdRest), "FILES", Len(FileFirst) + Len(FileRest)>>)
         /\ ndJsonSerialize(IOEnv.OUT, Cases)
ASSUME Mode = "judge" =>
         /\ PrintT(<<"JUDGED", Len(Obs)>>)
         /\ ndJsonSerialize(IOEnv.OUT, Verdicts)
=============================================================================
