\* clang's default (carets shown) on a merged stream: Intact must be violated (expected counterexample)
SPECIFICATION Spec
CONSTANTS
  CaretsSet = {TRUE}
  MergedSet = {TRUE}
  BufSet = {1, 2, 3, 4}
  MaxDump = 9
  MaxDiag = 3
  MaxSum = 2
INVARIANT TypeOK
INVARIANT Intact
CHECK_DEADLOCK FALSE
