INIT Init
NEXT Next
INVARIANT SizeFactsHold
