------------------------------- MODULE MiniCSem -------------------------------
(***************************************************************************)
(* Small-step operational semantics of MiniC (the C subset of ProgGen.tla)  *)
(* with explicit detection of undefined behaviour, and the properties       *)
(* C01 / C03 / C04 stated over its executions:                              *)
(*                                                                         *)
(*   FactsHold   every fact the analyser printed about a node (value-flow   *)
(*               value of the dump, or an always-true/false verdict) is      *)
(*               respected by every evaluation of that node in every         *)
(*               execution that completes without undefined behaviour.       *)
(*   NeverReached  a node flagged with a definite runtime error is not       *)
(*               evaluated by any execution that completes without UB.       *)
(*                                                                         *)
(* State.  store = stack of frames, a frame holds one sequence of cells per *)
(* variable (length 1 for scalars, n for arrays); a cell is <<>> (never      *)
(* written) or <<value>>.  Addresses are numbers frame*10000+var*100+offset  *)
(* (0 is the null pointer), so pointers to locals and to parameters of a     *)
(* caller alias for real.  kont = continuation stack of items <<tag, node>>: *)
(*   S  execute statement          W / D  re-test of while / do-while        *)
(*   T  test of a for loop         F  step of a for loop                     *)
(*   B  end of a loop or switch (target of break)   R  return point of call  *)
(* One step executes the item on top: at most one full expression is         *)
(* evaluated per step.  evals (ghost) = <<node, value>> for every            *)
(* sub-expression of integer type evaluated by the last step, in evaluation   *)
(* order; only the evaluated side of && || ?: appears.                        *)
(*                                                                         *)
(* Evaluation order inside a full expression is left to right.  C leaves it  *)
(* unspecified; the program generator guarantees that an object modified     *)
(* inside a full expression is not accessed elsewhere in it, so the order     *)
(* cannot be observed.                                                        *)
(***************************************************************************)
EXTENDS ProgGen, Json, IOUtils

Batch == TLCEval(ndJsonDeserialize(IOEnv.BATCH))      \* programs with their facts (field nf: facts per node)
Cap   == atoi(IOEnv.CAP)                     \* bound on the number of input vectors per program
Fuel  == atoi(IOEnv.FUEL)                    \* bound on the number of steps of one execution

P(pi) == Batch[pi]
N(pi, id) == Batch[pi].nodes[id]
PL(pi) == Batch[pi].plat

-----------------------------------------------------------------------------
(* Store *)
AddrOf(depth, x, off) == depth * 10000 + x * 100 + off
ADepth(a) == a \div 10000
AVar(a)   == (a % 10000) \div 100
AOff(a)   == a % 100
ValidAddr(st, a) == a > 0 /\ ADepth(a) \in 1..Len(st) /\ AVar(a) \in 1..Len(st[ADepth(a)].cells)
                    /\ AOff(a) < Len(st[ADepth(a)].cells[AVar(a)])
Load(st, a)     == st[ADepth(a)].cells[AVar(a)][AOff(a) + 1]
Write(st, a, v) == [st EXCEPT ![ADepth(a)].cells[AVar(a)][AOff(a) + 1] = <<v>>]

NewFrame(pi, f, args) ==      \* args: values of the parameters, already converted
  [fn |-> f,
   cells |-> [j \in 1..Len(P(pi).funcs[f].vars) |->
                IF j <= Len(args) THEN <<<<args[j]>>>>
                ELSE LET vr == P(pi).funcs[f].vars[j] IN
                     IF vr.ty = "arr" THEN [i \in 1..vr.n |-> <<>>] ELSE <<<<>>>>]]

-----------------------------------------------------------------------------
(* Expression evaluation.  Result: [s, w, v, st, ev]                          *)
(*   s = "ok" | "ub" | "abandon", w = reason, v = value, st = store after,     *)
(*   ev = evaluations in order.                                                *)
Res(v, st, ev)   == [s |-> "ok", w |-> "", v |-> v, st |-> st, ev |-> ev]
Fail(o, st, ev)  == [s |-> o.s, w |-> o.w, v |-> 0, st |-> st, ev |-> ev]      \* o: a failed outcome of MiniCTypes
UbR(w, st, ev)   == [s |-> "ub", w |-> w, v |-> 0, st |-> st, ev |-> ev]

\* record an evaluation (nodes of integer or pointer type; value facts exist for integer nodes only): <<node, value, alt>>.  alt = value, except for a simple
\* assignment where alt is the value of the right operand before its conversion to the type of the left one:
\* cppcheck copies the values of the right operand to the `=` token unchanged (lib/vf_settokenvalue.cpp), so a
\* fact printed on `=` is read as a fact about either of the two.
Note2(pi, id, v, alt) == IF N(pi, id).ty \in IntTypes \cup {"ptr"} THEN <<<<id, v, alt>>>> ELSE <<>>
Note(pi, id, v) == Note2(pi, id, v, v)

\* finish an operator node: o is the outcome of the value computation
Done1(pi, id, o, st, ev) == IF o.s = "ok" THEN Res(o.v, st, ev \o Note(pi, id, o.v)) ELSE Fail(o, st, ev)

RECURSIVE E(_, _, _), LV(_, _, _)

(* lvalue: v = address *)
LV(pi, id, st) ==
  LET n == N(pi, id) IN
  CASE n.k = "var" -> Res(AddrOf(Len(st), n.v, 0), st, <<>>)
    [] n.k = "deref" ->
         LET r == E(pi, n.a, st) IN
         IF r.s # "ok" THEN r
         ELSE IF r.v = 0 THEN UbR("null pointer dereference", r.st, r.ev)
         ELSE IF ~ValidAddr(r.st, r.v) THEN UbR("dangling pointer dereference", r.st, r.ev)
         ELSE r
    [] n.k = "idx" ->
         LET r == E(pi, n.b, st)
             x == N(pi, n.a).v
             len == Len(st[Len(st)].cells[x])
         IN IF r.s # "ok" THEN r
            ELSE IF r.v < 0 \/ r.v >= len THEN UbR("array index out of bounds", r.st, r.ev)
            ELSE Res(AddrOf(Len(st), x, r.v), r.st, r.ev)

ReadAt(pi, id, a, st, ev) ==          \* lvalue-to-rvalue conversion of the object at address a
  LET c == Load(st, a) IN
  IF c = <<>> THEN UbR("read of an uninitialised object", st, ev) ELSE Res(c[1], st, ev \o Note(pi, id, c[1]))

E(pi, id, st) ==
  LET n == N(pi, id) pl == PL(pi) IN
  CASE n.k = "num" -> Res(n.v, st, <<>>)
    [] n.k \in {"var", "deref", "idx"} ->
         LET l == LV(pi, id, st) IN IF l.s # "ok" THEN l ELSE ReadAt(pi, id, l.v, l.st, l.ev)
    [] n.k = "addr" -> LV(pi, n.a, st)
    [] n.k = "cast" ->
         LET r == E(pi, n.a, st) IN
         IF r.s # "ok" THEN r ELSE Done1(pi, id, Conv(pl, n.ty, r.v), r.st, r.ev)
    [] n.k = "un" ->
         LET r == E(pi, n.a, st) IN
         IF r.s # "ok" THEN r
         ELSE IF n.op = "!" THEN Done1(pi, id, Ok(IF r.v = 0 THEN 1 ELSE 0), r.st, r.ev)
         ELSE LET c == Conv(pl, n.ty, r.v) IN
              IF c.s # "ok" THEN Fail(c, r.st, r.ev) ELSE Done1(pi, id, Unary(pl, n.ty, n.op, c.v), r.st, r.ev)
    [] n.k = "bin" ->
         LET l == E(pi, n.a, st) IN
         IF l.s # "ok" THEN l ELSE
         LET r == E(pi, n.b, l.st) IN
         IF r.s # "ok" THEN [r EXCEPT !.ev = l.ev \o r.ev] ELSE
         LET ev == l.ev \o r.ev
             ta == N(pi, n.a).ty
             tb == N(pi, n.b).ty
         IN IF ta = "ptr" \/ tb = "ptr" THEN Done1(pi, id, Ok(Compare(n.op, l.v, r.v)), r.st, ev)
            ELSE IF n.op \in ShiftOps
                 THEN LET c == Conv(pl, n.ty, l.v) IN
                      IF c.s # "ok" THEN Fail(c, r.st, ev) ELSE Done1(pi, id, Shift(pl, n.ty, n.op, c.v, r.v), r.st, ev)
            ELSE LET ct == Common(pl, ta, tb)
                     ca == Conv(pl, ct, l.v)
                     cb == Conv(pl, ct, r.v)
                 IN IF ca.s # "ok" THEN Fail(ca, r.st, ev)
                    ELSE IF cb.s # "ok" THEN Fail(cb, r.st, ev)
                    ELSE IF n.op \in CmpOps THEN Done1(pi, id, Ok(Compare(n.op, ca.v, cb.v)), r.st, ev)
                    ELSE Done1(pi, id, Arith(pl, ct, n.op, ca.v, cb.v), r.st, ev)
    [] n.k \in {"land", "lor"} ->
         LET l == E(pi, n.a, st) IN
         IF l.s # "ok" THEN l
         ELSE IF (n.k = "land" /\ l.v = 0) \/ (n.k = "lor" /\ l.v # 0)
              THEN Done1(pi, id, Ok(IF n.k = "land" THEN 0 ELSE 1), l.st, l.ev)
         ELSE LET r == E(pi, n.b, l.st) IN
              IF r.s # "ok" THEN [r EXCEPT !.ev = l.ev \o r.ev]
              ELSE Done1(pi, id, Ok(IF r.v # 0 THEN 1 ELSE 0), r.st, l.ev \o r.ev)
    [] n.k = "cond" ->
         LET c == E(pi, n.a, st) IN
         IF c.s # "ok" THEN c ELSE
         LET r == E(pi, IF c.v # 0 THEN n.b ELSE n.c, c.st) IN
         IF r.s # "ok" THEN [r EXCEPT !.ev = c.ev \o r.ev]
         ELSE Done1(pi, id, Conv(pl, n.ty, r.v), r.st, c.ev \o r.ev)
    [] n.k = "asg" /\ n.op = "=" ->
         LET r == E(pi, n.b, st) IN
         IF r.s # "ok" THEN r ELSE
         LET l == LV(pi, n.a, r.st) IN
         IF l.s # "ok" THEN [l EXCEPT !.ev = r.ev \o l.ev] ELSE
         LET c == IF n.ty = "ptr" THEN Ok(r.v) ELSE Conv(pl, n.ty, r.v)
             ev == r.ev \o l.ev
             \* the designated object a[i] / *p counts as evaluated (a runtime-error finding may sit on it); it has no
             \* value of its own here, so the fact converter attaches no value fact to the left side of a simple assignment
             lvn == IF N(pi, n.a).k \in {"idx", "deref"} THEN <<<<n.a, 0, 0>>>> ELSE <<>>
         IN IF c.s # "ok" THEN Fail(c, l.st, ev) ELSE Res(c.v, Write(l.st, l.v, c.v), ev \o lvn \o Note2(pi, id, c.v, r.v))
    [] n.k = "asg" /\ n.op # "=" ->           \* E1 op= E2  is  E1 = E1 op E2  with E1 evaluated once (6.5.16.2)
         LET l == LV(pi, n.a, st) IN
         IF l.s # "ok" THEN l ELSE
         LET old == ReadAt(pi, n.a, l.v, l.st, l.ev) IN
         IF old.s # "ok" THEN old ELSE
         LET r == E(pi, n.b, old.st) IN
         IF r.s # "ok" THEN [r EXCEPT !.ev = old.ev \o r.ev] ELSE
         LET ev == old.ev \o r.ev
             op == BaseOp(n.op)
             tb == N(pi, n.b).ty
             ct == IF op \in ShiftOps THEN Promote(pl, n.ty) ELSE Common(pl, n.ty, tb)
             ca == Conv(pl, ct, old.v)
             cb == IF op \in ShiftOps THEN Ok(r.v) ELSE Conv(pl, ct, r.v)
         IN IF ca.s # "ok" THEN Fail(ca, r.st, ev)
            ELSE IF cb.s # "ok" THEN Fail(cb, r.st, ev)
            ELSE LET o == IF op \in ShiftOps THEN Shift(pl, ct, op, ca.v, cb.v) ELSE Arith(pl, ct, op, ca.v, cb.v) IN
                 IF o.s # "ok" THEN Fail(o, r.st, ev)
                 ELSE LET c == Conv(pl, n.ty, o.v) IN
                      IF c.s # "ok" THEN Fail(c, r.st, ev)
                      ELSE Res(c.v, Write(r.st, l.v, c.v), ev \o Note(pi, id, c.v))
    [] n.k = "inc" ->                          \* ++E is E += 1; E++ yields the old value (6.5.2.4, 6.5.3.1)
         LET l == LV(pi, n.a, st) IN
         IF l.s # "ok" THEN l ELSE
         LET old == ReadAt(pi, n.a, l.v, l.st, l.ev) IN
         IF old.s # "ok" THEN old ELSE
         LET ct == Common(pl, n.ty, "int")
             ca == Conv(pl, ct, old.v)
         IN IF ca.s # "ok" THEN Fail(ca, old.st, old.ev)
            ELSE LET o == Arith(pl, ct, IF n.op = "++" THEN "+" ELSE "-", ca.v, 1) IN
                 IF o.s # "ok" THEN Fail(o, old.st, old.ev)
                 ELSE LET c == Conv(pl, n.ty, o.v) IN
                      IF c.s # "ok" THEN Fail(c, old.st, old.ev)
                      ELSE Res(IF n.v = 1 THEN c.v ELSE old.v, Write(old.st, l.v, c.v),
                               old.ev \o Note(pi, id, IF n.v = 1 THEN c.v ELSE old.v))

-----------------------------------------------------------------------------
(* Statements.  Result of executing one continuation item:                   *)
(*   [s, w, st, kont, ev, rv, pre, post, res]                                 *)
(* pre / post = the store as the function that owns the evaluated nodes sees  *)
(* it before / after the step (they differ from the step's stores only for    *)
(* call and return, where a frame is pushed / popped).                        *)
Item(tag, id) == <<tag, id>>
Stmts(ss) == [i \in 1..Len(ss) |-> Item("S", ss[i])]

RECURSIVE Strip(_), PopBreak(_), PopCont(_), PopRet(_)
Strip(k)    == IF k # <<>> /\ Head(k)[1] = "B" THEN Strip(Tail(k)) ELSE k
PopBreak(k) == IF k = <<>> THEN <<>> ELSE IF Head(k)[1] = "B" THEN Tail(k) ELSE PopBreak(Tail(k))
PopCont(k)  == IF k = <<>> THEN <<>> ELSE IF Head(k)[1] \in {"W", "D", "F"} THEN k ELSE PopCont(Tail(k))
PopRet(k)   == IF k = <<>> THEN <<>> ELSE IF Head(k)[1] = "R" THEN k ELSE PopRet(Tail(k))

Go(st, k, ev, pre, post, rvv) ==
  [s |-> "ok", w |-> "", st |-> st, kont |-> Strip(k), ev |-> ev, rv |-> rvv, pre |-> pre, post |-> post]
Stop(r, st0) ==            \* r: failed expression result
  [s |-> r.s, w |-> r.w, st |-> r.st, kont |-> <<>>, ev |-> r.ev, rv |-> <<>>, pre |-> st0, post |-> r.st]

\* evaluate the controlling expression id (0 = absent = true) and continue with kt / kf
Branch(pi, id, st, rvv, kt, kf) ==
  IF id = 0 THEN Go(st, kt, <<>>, st, st, rvv)
  ELSE LET r == E(pi, id, st) IN
       IF r.s # "ok" THEN Stop(r, st) ELSE Go(r.st, IF r.v # 0 THEN kt ELSE kf, r.ev, st, r.st, rvv)

RECURSIVE EvalArgs(_, _, _, _, _)
\* arguments left to right; acc = [s, w, st, ev, vs]
EvalArgs(pi, ss, f, i, acc) ==
  IF i > Len(ss) \/ acc.s # "ok" THEN acc
  ELSE LET r == E(pi, ss[i], acc.st)
           pty == P(pi).funcs[f].vars[i].ty
       IN IF r.s # "ok" THEN [s |-> r.s, w |-> r.w, st |-> r.st, ev |-> acc.ev \o r.ev, vs |-> acc.vs]
          ELSE LET c == IF pty = "ptr" THEN Ok(r.v) ELSE Conv(PL(pi), pty, r.v) IN
               IF c.s # "ok" THEN [s |-> c.s, w |-> c.w, st |-> r.st, ev |-> acc.ev \o r.ev, vs |-> acc.vs]
               ELSE EvalArgs(pi, ss, f, i + 1, [acc EXCEPT !.st = r.st, !.ev = acc.ev \o r.ev, !.vs = Append(acc.vs, c.v)])

\* the statements a switch jumps to: from the first matching case (else default) to the end, falling through
SwitchTarget(pi, n, v) ==
  LET cs == n.ss
      sel == Promote(PL(pi), N(pi, n.a).ty)
      lab(i) == Conv(PL(pi), sel, N(pi, cs[i]).v)
      hits == {i \in 1..Len(cs) : N(pi, cs[i]).op = "case" /\ lab(i).s = "ok" /\ lab(i).v = v}
      defs == {i \in 1..Len(cs) : N(pi, cs[i]).op = "default"}
      from == IF hits # {} THEN CHOOSE i \in hits : \A j \in hits : i <= j
              ELSE IF defs # {} THEN CHOOSE i \in defs : TRUE ELSE Len(cs) + 1
      RECURSIVE Flat(_)
      Flat(i) == IF i > Len(cs) THEN <<>> ELSE Stmts(N(pi, cs[i]).ss) \o Flat(i + 1)
  IN Flat(from)

Exec(pi, item, st, rest, rvv) ==
  LET tag == item[1] id == item[2] n == N(pi, id) IN
  CASE tag = "S" /\ n.k = "expr" ->
         LET r == E(pi, n.a, st) IN IF r.s # "ok" THEN Stop(r, st) ELSE Go(r.st, rest, r.ev, st, r.st, rvv)
    [] tag = "S" /\ n.k = "block"  -> Go(st, Stmts(n.ss) \o rest, <<>>, st, st, rvv)
    [] tag = "S" /\ n.k = "if" ->
         Branch(pi, n.a, st, rvv, <<Item("S", n.b)>> \o rest, IF n.c # 0 THEN <<Item("S", n.c)>> \o rest ELSE rest)
    [] tag = "S" /\ n.k = "while" ->
         Branch(pi, n.a, st, rvv, <<Item("S", n.b), Item("W", id), Item("B", id)>> \o rest, rest)
    [] tag = "W" -> Branch(pi, n.a, st, rvv, <<Item("S", n.b), Item("W", id)>> \o rest, rest)
    [] tag = "S" /\ n.k = "dowhile" -> Go(st, <<Item("S", n.b), Item("D", id), Item("B", id)>> \o rest, <<>>, st, st, rvv)
    [] tag = "D" -> Branch(pi, n.a, st, rvv, <<Item("S", n.b), Item("D", id)>> \o rest, rest)
    [] tag = "S" /\ n.k = "for" ->
         IF n.a = 0 THEN Go(st, <<Item("T", id), Item("B", id)>> \o rest, <<>>, st, st, rvv)
         ELSE LET r == E(pi, n.a, st) IN
              IF r.s # "ok" THEN Stop(r, st) ELSE Go(r.st, <<Item("T", id), Item("B", id)>> \o rest, r.ev, st, r.st, rvv)
    [] tag = "T" -> Branch(pi, n.b, st, rvv, <<Item("S", n.d), Item("F", id)>> \o rest, rest)
    [] tag = "F" ->
         IF n.c = 0 THEN Go(st, <<Item("T", id)>> \o rest, <<>>, st, st, rvv)
         ELSE LET r == E(pi, n.c, st) IN
              IF r.s # "ok" THEN Stop(r, st) ELSE Go(r.st, <<Item("T", id)>> \o rest, r.ev, st, r.st, rvv)
    [] tag = "S" /\ n.k = "switch" ->
         LET r == E(pi, n.a, st) IN
         IF r.s # "ok" THEN Stop(r, st)
         ELSE LET c == Conv(PL(pi), Promote(PL(pi), N(pi, n.a).ty), r.v) IN
              IF c.s # "ok" THEN Stop(Fail(c, r.st, r.ev), st)
              ELSE Go(r.st, SwitchTarget(pi, n, c.v) \o <<Item("B", id)>> \o rest, r.ev, st, r.st, rvv)
    [] tag = "S" /\ n.k = "break"    -> Go(st, PopBreak(rest), <<>>, st, st, rvv)
    [] tag = "S" /\ n.k = "continue" -> Go(st, PopCont(rest), <<>>, st, st, rvv)
    [] tag = "S" /\ n.k = "ret" ->
         LET f == P(pi).funcs[st[Len(st)].fn] IN
         IF n.a = 0 THEN Go(st, PopRet(rest), <<>>, st, st, <<>>)
         ELSE LET r == E(pi, n.a, st) IN
              IF r.s # "ok" THEN Stop(r, st)
              ELSE LET c == Conv(PL(pi), f.ret, r.v) IN
                   IF c.s # "ok" THEN Stop(Fail(c, r.st, r.ev), st)
                   ELSE Go(r.st, PopRet(rest), r.ev, st, r.st, <<c.v>>)
    [] tag = "S" /\ n.k = "call" ->
         LET cx == N(pi, n.b)
             a == EvalArgs(pi, cx.ss, cx.v, 1, [s |-> "ok", w |-> "", st |-> st, ev |-> <<>>, vs |-> <<>>])
         IN IF a.s # "ok" THEN Stop([s |-> a.s, w |-> a.w, st |-> a.st, ev |-> a.ev], st)
            ELSE Go(Append(a.st, NewFrame(pi, cx.v, a.vs)),
                    <<Item("S", P(pi).funcs[cx.v].body), Item("R", id)>> \o rest, a.ev, st, a.st, <<>>)
    [] tag = "R" ->        \* the callee finished (by return or by reaching its end): pop its frame, deliver the value
         LET caller == SubSeq(st, 1, Len(st) - 1)
             cx == N(pi, n.b)
         IN IF n.a = 0
            THEN Go(caller, rest, IF rvv # <<>> THEN Note(pi, n.b, rvv[1]) ELSE <<>>, caller, caller, <<>>)
            ELSE IF rvv = <<>> THEN Stop(UbR("value of a function that returned none is used", caller, <<>>), caller)
            ELSE LET asg == N(pi, n.a)
                     l == LV(pi, asg.a, caller)
                 IN IF l.s # "ok" THEN Stop(l, caller)
                    ELSE LET c == Conv(PL(pi), asg.ty, rvv[1]) IN
                         IF c.s # "ok" THEN Stop(Fail(c, l.st, l.ev), caller)
                         ELSE Go(Write(l.st, l.v, c.v), rest,
                                 l.ev \o Note(pi, n.b, rvv[1]) \o Note2(pi, n.a, c.v, rvv[1]), caller, Write(l.st, l.v, c.v), <<>>)
    [] tag = "B" -> Go(st, rest, <<>>, st, st, rvv)

-----------------------------------------------------------------------------
NoBad == [set |-> FALSE, node |-> 0, v |-> 0, fact |-> 0, cls |-> ""]

(* Facts.  P(pi).nf[node] = sequence of facts [k, v, t, par] about the node.  *)
(*   eq ne gt lt       the value v' of the node satisfies v' = v, # v, > v, < v *)
(*   seq sne sgt slt   the same against E(t) + v, t a side-effect free node     *)
(*   never             no value of the explored range satisfies the claim       *)
(*   true false        verdict of a finding: the node is non-zero / zero        *)
(* cppcheck stores a known value on an operand AFTER the implicit conversion    *)
(* its parent applies (lib/vf_settokenvalue.cpp truncateImplicitConversion), so  *)
(* an `eq` fact holds if the value or the converted value equals v; the         *)
(* conversion meant is the one C defines for that parent (usual arithmetic      *)
(* conversions, assignment to the type of the left operand).                     *)
CtxType(pi, id, par) ==
  IF par = 0 THEN ""
  ELSE LET q == N(pi, par) pl == PL(pi) IN
       IF q.k = "bin" /\ q.op \notin ShiftOps /\ N(pi, q.a).ty \in IntTypes /\ N(pi, q.b).ty \in IntTypes
       THEN Common(pl, N(pi, q.a).ty, N(pi, q.b).ty)
       ELSE IF q.k = "asg" /\ q.ty \in IntTypes /\ N(pi, q.b).ty \in IntTypes
            THEN IF q.op = "=" THEN (IF q.b = id THEN q.ty ELSE "")
                 ELSE IF BaseOp(q.op) \in ShiftOps THEN "" ELSE Common(pl, q.ty, N(pi, q.b).ty)
       ELSE ""

SymVal(pi, f, pre, post) ==      \* value of the symbolic expression, defined only if the step did not change it
  LET a == E(pi, f.t, pre)
      b == E(pi, f.t, post)
  IN IF a.s = "ok" /\ b.s = "ok" /\ a.v = b.v THEN <<a.v>> ELSE <<>>

Holds(pi, id, f, v, pre, post) ==
  CASE f.k = "eq" -> \/ v = f.v
                     \/ LET ct == CtxType(pi, id, f.par) IN ct # "" /\ Conv(PL(pi), ct, v) = Ok(f.v)
    [] f.k = "ne" -> v # f.v
    [] f.k = "gt" -> v > f.v
    [] f.k = "lt" -> v < f.v
    [] f.k = "never" -> FALSE
    [] f.k = "true" -> v # 0
    [] f.k = "false" -> v = 0
    [] f.k \in {"seq", "sne", "sgt", "slt"} ->
         LET sv == SymVal(pi, f, pre, post) IN
         IF sv = <<>> \/ ~SafeAdd(sv[1], f.v) THEN TRUE
         ELSE LET x == sv[1] + f.v IN
              (CASE f.k = "seq" -> v = x [] f.k = "sne" -> v # x [] f.k = "sgt" -> v > x [] f.k = "slt" -> v < x)
    [] f.k = "flag" -> TRUE                    \* C04 marker, judged by NeverReached

\* <<i, j>>: the j-th fact of the node of the i-th evaluation is contradicted
Contradictions(pi, ev, pre, post) ==
  UNION {{<<i, j>> : j \in {j \in 1..Len(P(pi).nf[ev[i][1]]) :
                               /\ ~Holds(pi, ev[i][1], P(pi).nf[ev[i][1]][j], ev[i][2], pre, post)
                               /\ (ev[i][3] # ev[i][2] => ~Holds(pi, ev[i][1], P(pi).nf[ev[i][1]][j], ev[i][3], pre, post))}}
         : i \in 1..Len(ev)}

\* Defect classes.  A contradicted symbolic equality whose two sides differ by a multiple of 256 is the known
\* cppcheck defect "symbolic values ignore narrowing conversions" (a value that went through unsigned char / short
\* keeps its symbolic relation, a decrement of an unsigned char is recorded as +255): such contradictions are
\* reported under the class key "sym-mod256" instead of a per-program key.  Everything else has class "".
\* A second class: where cppcheck knows that an expression used as a truth value (operand of ! && ||, controlling
\* expression) is non-zero, it writes the known value 1 on it although any non-zero value is possible
\* ("truthy-known-1": fact x == 1 on a node in boolean context, actual value non-zero).
BoolCtx(pi, id, par) ==
  par # 0 /\ LET q == N(pi, par) IN
             \/ q.k \in {"land", "lor"}
             \/ q.k = "un" /\ q.op = "!"
             \/ q.k \in {"if", "while", "dowhile", "cond"} /\ q.a = id
             \/ q.k = "for" /\ q.b = id
\* "bitnot-range": the impossible ranges cppcheck attaches to a ~ node do not follow from the operand (they are
\*     contradictory for ~(a < b), have the wrong sign for operands narrower than int, are off for int operands).
\* "unsigned-nowrap": on a node of a narrow unsigned type (all of them on p16, where unsigned int has 16 bits) the fact
\*     holds for the mathematical result v + 2^N or v - 2^N but not for the wrapped value v: the analysis ignored the
\*     wrap-around of unsigned arithmetic.
WrapHolds(pi, id, f, v, pre, post) ==
  LET ty == N(pi, id).ty pl == PL(pi) IN
  /\ ty \in IntTypes /\ ~IsSigned(ty) /\ Narrow(pl, ty) /\ f.k \in {"eq", "gt", "lt"}
  /\ (f.k = "eq" => N(pi, id).k # "var")       \* a wrong KNOWN value of a variable is never put into this class
  /\ \/ Holds(pi, id, f, v + Pow2(Bits(pl, ty)), pre, post)
     \/ Holds(pi, id, f, v - Pow2(Bits(pl, ty)), pre, post)
\* "narrowing-range": on a node of a signed type of less than 32 bits the impossible range holds for v + 2^N or v - 2^N
\*     but not for v: the range of the wider source expression was kept across the conversion to the narrow type.
\* "cast-unconverted" / "call-return-unconverted": the known value of a cast / of a call is the value before the
\*     conversion to the cast type / return type (congruent modulo 2^N, e.g. (signed char)(-2) known 254).
\* "ternary-other-branch": the fact on c ? a : b holds for the branch that was NOT taken (values of one branch are
\*     attached to the whole conditional expression).
NarrowRangeHolds(pi, id, f, v, pre, post) ==
  LET ty == N(pi, id).ty pl == PL(pi) IN
  /\ ty \in IntTypes /\ IsSigned(ty) /\ Narrow(pl, ty) /\ f.k \in {"gt", "lt"}
  /\ \/ Holds(pi, id, f, v + Pow2(Bits(pl, ty)), pre, post)
     \/ Holds(pi, id, f, v - Pow2(Bits(pl, ty)), pre, post)
Congruent(pi, id, f, v) ==
  LET ty == N(pi, id).ty pl == PL(pi) IN
  ty \in IntTypes /\ Narrow(pl, ty) /\ f.k = "eq" /\ f.v # v /\ f.v % Pow2(Bits(pl, ty)) = v % Pow2(Bits(pl, ty))
OtherBranchHolds(pi, id, f, pre, post) ==
  LET n == N(pi, id) IN
  /\ n.k = "cond"
  /\ LET c == E(pi, n.a, pre) IN
     /\ c.s = "ok"
     /\ LET o == E(pi, IF c.v # 0 THEN n.c ELSE n.b, c.st) IN
        /\ o.s = "ok"
        /\ LET cv == Conv(PL(pi), n.ty, o.v) IN cv.s = "ok" /\ Holds(pi, id, f, cv.v, pre, post)
Place(pi, id, par) == N(pi, id).k \o N(pi, id).op \o ":" \o (IF par = 0 THEN "top" ELSE N(pi, par).k \o N(pi, par).op)
ClassOf(pi, id, f, v, pre, post) ==
  IF f.k = "eq" /\ f.v = 1 /\ v # 0 /\ BoolCtx(pi, id, f.par) THEN "truthy-known-1"
  ELSE IF f.k \in {"gt", "lt"} /\ N(pi, id).k = "un" /\ N(pi, id).op = "~" THEN "bitnot-range"
  \* "logical-non-boolean": a known value other than 0 / 1 on && || ! or a comparison (the value of an operand was
  \* copied to the operator, e.g. j || (x > 5) known 2 because j is 2)
  ELSE IF f.k = "eq" /\ f.v \notin {0, 1}
          /\ (N(pi, id).k \in {"land", "lor"} \/ (N(pi, id).k = "un" /\ N(pi, id).op = "!") \/ (N(pi, id).k = "bin" /\ N(pi, id).op \in CmpOps))
       THEN "logical-non-boolean"
  ELSE IF OtherBranchHolds(pi, id, f, pre, post) THEN "ternary-other-branch"
  ELSE IF N(pi, id).k = "cast" /\ Congruent(pi, id, f, v) THEN "cast-unconverted"
  ELSE IF N(pi, id).k = "callx" /\ Congruent(pi, id, f, v) THEN "call-return-unconverted"
  ELSE IF WrapHolds(pi, id, f, v, pre, post) THEN "unsigned-nowrap"
  ELSE IF NarrowRangeHolds(pi, id, f, v, pre, post) THEN "narrowing-range"
  ELSE IF f.k = "seq" /\ LET sv == SymVal(pi, f, pre, post) IN
                         sv # <<>> /\ SafeAdd(sv[1], f.v) /\ v % 256 = (sv[1] + f.v) % 256 THEN "sym-mod256"
  \* Impossible values and symbolic values are the unreliable fact kinds of cppcheck's value flow: contradictions that
  \* fit none of the classes above are keyed by the syntactic place of the fact (kind of the node and of its parent)
  \* instead of by program, e.g. "range:bin%:bin!=" = impossible range on a % node that is an operand of !=.
  \* Contradicted KNOWN values (eq) and verdicts keep their per-program key.
  ELSE IF f.k \in {"gt", "lt", "ne"} THEN "range:" \o Place(pi, id, f.par)
  ELSE IF f.k \in {"seq", "sne", "sgt", "slt"} THEN "sym:" \o Place(pi, id, f.par)
  ELSE ""

FirstContradiction(pi, ev, pre, post) ==
  LET cs == Contradictions(pi, ev, pre, post) IN
  IF cs = {} THEN NoBad
  ELSE LET c == CHOOSE c \in cs : \A d \in cs : c[1] < d[1] \/ (c[1] = d[1] /\ c[2] <= d[2])
           f == P(pi).nf[ev[c[1]][1]][c[2]]
       IN [set |-> TRUE, node |-> ev[c[1]][1], v |-> ev[c[1]][2], fact |-> c[2], cls |-> ClassOf(pi, ev[c[1]][1], f, ev[c[1]][2], pre, post)]

\* nodes carrying facts among the evaluated ones (ghost `seen`: which facts an execution exercised)
FactNodes(pi, ev) == {ev[i][1] : i \in {i \in 1..Len(ev) : P(pi).nf[ev[i][1]] # <<>>}}

IsFlagged(pi, id) == \E j \in 1..Len(P(pi).nf[id]) : P(pi).nf[id][j].k = "flag"

-----------------------------------------------------------------------------
(* Input domain: for every parameter the boundary values of its type and the *)
(* constants of the program (+-1); the richest level whose number of vectors  *)
(* does not exceed Cap is used (level 0 = boundary values only).               *)
Boundary(pl, ty) ==
  {v \in {RMin(pl, ty), RMin(pl, ty) + 1, -1, 0, 1, 2, RMax(pl, ty) - 1, RMax(pl, ty)} : v >= RMin(pl, ty) /\ v <= RMax(pl, ty)}
Consts(pi) == {P(pi).consts[i] : i \in 1..Len(P(pi).consts)}
Dom(pi, ty, level) ==
  LET pl == PL(pi)
      cs == CASE level = 0 -> {}
              [] level = 1 -> Consts(pi)
              [] level = 2 -> Consts(pi) \cup {c + 1 : c \in {c \in Consts(pi) : c < TMAX}} \cup {c - 1 : c \in {c \in Consts(pi) : c > -TMAX}}
  IN Boundary(pl, ty) \cup {c \in cs : c >= RMin(pl, ty) /\ c <= RMax(pl, ty)}
ParamTypes(pi) == [j \in 1..P(pi).funcs[1].np |-> P(pi).funcs[1].vars[j].ty]
RECURSIVE Prod(_, _, _)
Prod(pi, level, j) == IF j > Len(ParamTypes(pi)) THEN 1
                      ELSE LET r == Prod(pi, level, j + 1) c == Cardinality(Dom(pi, ParamTypes(pi)[j], level))
                           IN IF r > Cap THEN r ELSE c * r        \* (stays far below TLC's integer limit)
Level(pi) == IF Prod(pi, 2, 1) <= Cap THEN 2 ELSE IF Prod(pi, 1, 1) <= Cap THEN 1 ELSE 0
RECURSIVE Vecs(_, _, _)
Vecs(pi, lv, j) == IF j > Len(ParamTypes(pi)) THEN {<<>>}
                   ELSE {<<x>> \o t : x \in Dom(pi, ParamTypes(pi)[j], lv), t \in Vecs(pi, lv, j + 1)}
\* a program may pin one input vector (field only; used by --replay and by the trace of a counterexample)
Inputs(pi) == IF P(pi).only # <<>> THEN {P(pi).only} ELSE Vecs(pi, Level(pi), 1)


(* The batch respects the program format and the type annotations are the derived types. *)
BatchOK == \A pi \in 1..Len(Batch) : WFProg(Batch[pi]) /\ Len(Batch[pi].nf) = Len(Batch[pi].nodes)
=============================================================================
