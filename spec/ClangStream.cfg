\* the command line of CppCheck::checkClang: -fno-caret-diagnostics, with ("2> file") and without ("2>&1") build directory
SPECIFICATION Spec
CONSTANTS
  CaretsSet = {FALSE}
  MergedSet = {TRUE, FALSE}
  BufSet = {1, 2, 3, 4}
  MaxDump = 9
  MaxDiag = 3
  MaxSum = 2
INVARIANT TypeOK
INVARIANT Intact
INVARIANT Delivered
CHECK_DEADLOCK FALSE
