SPECIFICATION Spec
CONSTANTS
  Files = {"a", "b"}
  Funs = {"f", "g"}
  RoundTrip = "Faithful"
INVARIANT StoreIndependent
INVARIANT ReportedOnce
CHECK_DEADLOCK FALSE
