---------------------------- MODULE PathMatchMC ----------------------------
(***************************************************************************)
(* Conformance of the real PathMatch::match (lib/pathmatch.cpp) with        *)
(* PathMatch.tla, and the laws of PathMatch.tla.  One TLC run = one step,   *)
(* selected by the environment variable STEP:                               *)
(*                                                                         *)
(*  laws  : the laws of PathMatch.tla: L1, L2 for all strings over the      *)
(*          pattern alphabet up to length lawn+2, L3-L5 for all (pattern,   *)
(*          path, base) with both strings up to length lawn                 *)
(*  gen   : enumerates the case space - every pattern over the pattern      *)
(*          alphabet up to the pattern bound, every path over the path      *)
(*          alphabet up to the path bound - and writes both lists; a case   *)
(*          is (pattern, path, base, mode) for every base of PARAMS and     *)
(*          mode in {reg, dir}                                              *)
(*  judge : reads the lists and the observations of the harness (for every  *)
(*          pattern and base: which paths matched, per mode), computes the  *)
(*          verdict of every case from PathMatch.tla and writes the cases   *)
(*          whose observed result differs from a decided verdict            *)
(*                                                                         *)
(* PARAMS (ndjson, one record): pa, ta = alphabets; pn, tn = length bounds; *)
(*   bases = sequence of base paths; lawn = string bound for the laws;      *)
(*   syntax = "unix" or "windows" (the syntax argument given to the real    *)
(*   matcher; see WinNorm in PathMatch.tla).                                *)
(* A run may be restricted to the patterns i with i % SHARDS = SHARD (the   *)
(* check runs the shards as parallel TLC processes).                        *)
(***************************************************************************)
EXTENDS PathMatch, TLC, Json, IOUtils

Params == ndJsonDeserialize(IOEnv.PARAMS)[1]
Bases == Params.bases

-----------------------------------------------------------------------------
(* gen *)
\* (the step operators take a dummy argument: TLC evaluates argument-less constant definitions eagerly
\*  in every run, which is wanted for the tables of the judge below but not for a whole step)
Gen(dummy) ==
  LET pats  == SetToSeq(Strings(ToSet(Params.pa), Params.pn) \ {<<>>})
      paths == SetToSeq(Strings(ToSet(Params.ta), Params.tn))
  IN /\ ndJsonSerialize(IOEnv.PATS, [i \in DOMAIN pats |-> [s |-> pats[i]]])
     /\ ndJsonSerialize(IOEnv.PATHS, [i \in DOMAIN paths |-> [s |-> paths[i]]])
     /\ PrintT(<<"GEN", Len(pats), Len(paths)>>)

-----------------------------------------------------------------------------
(* judge *)
InJudge == IOEnv.STEP = "judge"
Pats  == IF InJudge THEN ndJsonDeserialize(IOEnv.PATS) ELSE <<>>
Paths == IF InJudge THEN ndJsonDeserialize(IOEnv.PATHS) ELSE <<>>
\* rows [p, b, reg, dir, split]: for pattern p and base b, the indices of the paths reported as matching per
\* mode; split: cases in which the two entry points of the real matcher disagreed with each other
Rows  == IF InJudge THEN ndJsonDeserialize(IOEnv.OBS) ELSE <<>>
NB == Len(Bases)
NT == Len(Paths)

\* (TLC evaluates the argument-less definitions below once, eagerly; TLCEval forces the tables)
\* per base: the PathInfo of every path, the distinct ones, the index of each path's info among them, and
\* the paths that share each distinct info
\* windows syntax: the strings are judged in their normal form; a string that starts with a backslash is not
\* judged (on this platform the real code would see a root but not an absolute path)
Win == "syntax" \in DOMAIN Params /\ Params.syntax = "windows"
Norm(s) == IF Win THEN WinNorm(s) ELSE s
\* ... nor one that starts with two separators (a UNC-like root)
Backslashed(s) == Win /\ s # <<>> /\ (s[1] = "\\" \/ (Len(s) >= 2 /\ WinNorm(s)[1] = Sep /\ WinNorm(s)[2] = Sep))
PathInfoN(t, base) == LET ti == PathInfo(Norm(t), Norm(base)) IN [ti EXCEPT !.undoc = @ \/ Backslashed(t)]
PatInfoN(p, base)  == LET pi == PatInfo(Norm(p), Norm(base)) IN [pi EXCEPT !.undoc = @ \/ Backslashed(p)]
TI == TLCEval([b \in 1..NB |-> [j \in 1..NT |-> PathInfoN(Paths[j].s, Bases[b])]])
DistTI == TLCEval([b \in 1..NB |-> SetToSeq(ToSet(TI[b]))])
TIdx == TLCEval([b \in 1..NB |-> [j \in 1..NT |-> CHOOSE d \in DOMAIN DistTI[b] : DistTI[b][d] = TI[b][j]]])
Spelt == TLCEval([b \in 1..NB |-> [d \in DOMAIN DistTI[b] |-> {j \in 1..NT : TIdx[b][j] = d}]])

\* the distinct (PatInfo, base) of the rows
RowPI(o) == [pi |-> PatInfoN(Pats[o.p].s, Bases[o.b]), b |-> o.b]
DistPI == {RowPI(Rows[r]) : r \in DOMAIN Rows}

\* tabulated Regions and InLang: every string in which a match is looked for, its regions, and for every
\* canonical pattern of the rows the regions that are in its language
HayOf(ti) == {ti.tc, ti.dir, ti.dirsep}
Hay == TLCEval(UNION {UNION {HayOf(DistTI[b][d]) : d \in DOMAIN DistTI[b]} : b \in 1..NB})
RegTab == TLCEval([h \in Hay |-> [real \in BOOLEAN |-> [lax \in BOOLEAN |-> Regions(h, real, lax)]]])
AllRegions == TLCEval(UNION {RegTab[h][TRUE][TRUE] \cup RegTab[h][FALSE][TRUE] : h \in Hay})
LangTab == TLCEval([pc \in {x.pi.pc : x \in DistPI} |-> {r \in AllRegions : InLang(pc, r)}])
TabRegions(t, real, lax) == RegTab[t][real][lax]

\* the verdict of every distinct (pattern info, base) against every distinct path info, per mode, and the
\* (indices of the) paths that must match.  (Intermediate values are handed on as operator arguments: TLC
\* evaluates an argument once, whereas a LET definition is evaluated again at every use.)
VerdictRowIn(x, mode, lang) ==
  LET TabIn(pc, r) == r \in lang
  IN TLCEval([d \in DOMAIN DistTI[x.b] |-> VerdictWith(TabRegions, TabIn, x.pi, DistTI[x.b][d], mode)])
VerdictRow(x, mode) == VerdictRowIn(x, mode, LangTab[x.pi.pc])
MustSet(b, v) == UNION {Spelt[b][d] : d \in {e \in DOMAIN v : v[e] = "T"}}
Entry3(reg, dir, regT, dirT) == [reg |-> reg, dir |-> dir, regT |-> regT, dirT |-> dirT]
Entry2(x, reg, dir, regT) == Entry3(reg, dir, regT, IF x.pi.trail THEN MustSet(x.b, dir) ELSE regT)
Entry1(x, reg) == Entry2(x, reg, IF x.pi.trail THEN VerdictRow(x, "dir") ELSE reg, MustSet(x.b, reg))
Table == TLCEval([x \in DistPI |-> Entry1(x, VerdictRow(x, "reg"))])

\* a row and a mode disagree with the specification on: miss = paths that must match and did not,
\* extra = paths that must not match and did
Disagreement(o, mode, got, want, wantT) ==
  [p |-> o.p, b |-> o.b, mode |-> mode,
   miss  |-> SetToSeq(wantT \ got),
   extra |-> SetToSeq({j \in got : want[TIdx[o.b][j]] = "F"})]

BadOfRowTab(o, tab) ==
  {y \in {Disagreement(o, "reg", ToSet(o.reg), tab.reg, tab.regT),
          Disagreement(o, "dir", ToSet(o.dir), tab.dir, tab.dirT)} : y.miss # <<>> \/ y.extra # <<>>}
    \cup (IF o.split = <<>> THEN {} ELSE {[p |-> o.p, b |-> o.b, mode |-> "split", miss |-> <<>>, extra |-> <<o.split[1][1]>>]})
BadOfRow(o) == BadOfRowTab(o, Table[RowPI(o)])

Bad == UNION {BadOfRow(Rows[r]) : r \in DOMAIN Rows}

\* measured coverage: per distinct (canonical pattern, class, trailing, base): verdict counts over the
\* distinct canonical paths (mode counted twice only where it can matter, i.e. trailing patterns)
CountOf(f, v) == Cardinality({d \in DOMAIN f : f[d] = v})
StatOfTab(x, tab) ==
  [pc |-> x.pi.pc, real |-> x.pi.real, trail |-> x.pi.trail, b |-> x.b,
   t |-> CountOf(tab.reg, "T") + (IF x.pi.trail THEN CountOf(tab.dir, "T") ELSE 0),
   f |-> CountOf(tab.reg, "F") + (IF x.pi.trail THEN CountOf(tab.dir, "F") ELSE 0),
   open |-> CountOf(tab.reg, "Open") + (IF x.pi.trail THEN CountOf(tab.dir, "Open") ELSE 0)]
StatOf(x) == StatOfTab(x, Table[x])

\* raw counts over all cases of the rows (every path, both modes)
Mult == TLCEval([b \in 1..NB |-> [d \in DOMAIN DistTI[b] |-> Cardinality(Spelt[b][d])]])
\* sum of f over lo..hi by halving (TLC's evaluation stack is shallow)
RECURSIVE SumRange(_, _, _)
SumRange(f(_), lo, hi) == IF lo > hi THEN 0 ELSE IF lo = hi THEN f(lo)
                          ELSE LET mid == (lo + hi) \div 2 IN SumRange(f, lo, mid) + SumRange(f, mid + 1, hi)
RowCountTab(tab, b, v) ==
  LET W(d) == (IF tab.reg[d] = v THEN Mult[b][d] ELSE 0) + (IF tab.dir[d] = v THEN Mult[b][d] ELSE 0)
  IN SumRange(W, 1, Len(DistTI[b]))
RowCount(r, v) == RowCountTab(Table[RowPI(Rows[r])], Rows[r].b, v)
RawCount(v) == LET R(r) == RowCount(r, v) IN SumRange(R, 1, Len(Rows))
BadSeq == SetToSeq(Bad)
NBad == LET N(k) == Len(BadSeq[k].miss) + Len(BadSeq[k].extra) IN SumRange(N, 1, Len(BadSeq))

Judge(dummy) ==
         /\ ndJsonSerialize(IOEnv.OUT, BadSeq)
         /\ ndJsonSerialize(IOEnv.STATS, SetToSeq({StatOf(x) : x \in DistPI}))
         /\ PrintT(<<"JUDGE", "ROWS", Len(Rows), "CASES", 2 * NT * Len(Rows), "BAD", NBad,
                     "T", RawCount("T"), "F", RawCount("F"), "OPEN", RawCount("Open")>>)

-----------------------------------------------------------------------------
(* laws *)
LawP(dummy) == Strings(ToSet(Params.pa), Params.lawn)
LawT(dummy) == Strings(ToSet(Params.ta), Params.lawn)
LawB(dummy) == ToSet(Bases)
Mine(S) == LET q == SetToSeq(S) IN {q[i] : i \in {k \in DOMAIN q : k % atoi(IOEnv.SHARDS) = atoi(IOEnv.SHARD)}}

Holds(name, refuting) == IF refuting = {} THEN TRUE ELSE Assert(FALSE, <<name, "refuted by", refuting>>)
Laws(dummy) ==
  LET P == Mine(LawP(0))
      T == LawT(0)
      B == LawB(0)
      Long == Mine(Strings(ToSet(Params.pa), Params.lawn + 2))
  IN /\ Holds("L1 canonical form", Refuting1(LawCanon, Long))
     /\ Holds("L2 re-spelling of paths", Refuting2(LawRespellPath, Long, B))
     /\ Holds("L2 re-spelling of patterns", Refuting2(LawRespellPat, Long, B))
     /\ Holds("L3 widening", Refuting3(LawWiden, P, T, B))
     /\ Holds("L4 literal patterns", Refuting3(LawLiteral, P, T, B))
     /\ Holds("L5 below a matched directory", Refuting3(LawBelow, P, T, B))
     /\ PrintT(<<"LAWS", "STRINGS", Cardinality(Long), "TRIPLES", Cardinality(P) * Cardinality(T) * Cardinality(B)>>)

ASSUME CASE IOEnv.STEP = "gen"   -> Gen(0)
         [] IOEnv.STEP = "judge" -> Judge(0)
         [] IOEnv.STEP = "laws"  -> Laws(0)
=============================================================================
