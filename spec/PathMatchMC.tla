---------------------------- MODULE PathMatchMC ----------------------------
(***************************************************************************)
(* Conformance of the real PathMatch::match (lib/pathmatch.cpp) with        *)
(* PathMatch.tla, and the laws of PathMatch.tla.  One TLC run = one step,   *)
(* selected by the environment variable STEP:                               *)
(*                                                                         *)
(*  laws  : the laws L1-L5 of PathMatch.tla for all strings within the      *)
(*          bounds of IOEnv.PARAMS                                          *)
(*  gen   : enumerates the case space - every pattern over the pattern      *)
(*          alphabet up to the pattern bound, every path over the path      *)
(*          alphabet up to the path bound - and writes both lists; a case   *)
(*          is (pattern, path, base, mode) for every base of PARAMS and     *)
(*          mode in {reg, dir}                                              *)
(*  judge : reads the lists and the observations of the harness (for every  *)
(*          pattern and base: which paths matched, per mode), computes the  *)
(*          verdict of every case from PathMatch.tla and writes the cases   *)
(*          whose observed result differs from a decided verdict            *)
(*                                                                         *)
(* PARAMS (ndjson, one record): pa, ta = alphabets; pn, tn = length bounds; *)
(*   bases = sequence of base paths; lawn = string bound for the laws.      *)
(* A run may be restricted to the patterns i with i % SHARDS = SHARD (the   *)
(* check runs the shards as parallel TLC processes).                        *)
(***************************************************************************)
EXTENDS PathMatch, TLC, Json, IOUtils

Params == ndJsonDeserialize(IOEnv.PARAMS)[1]
Bases == Params.bases

-----------------------------------------------------------------------------
(* gen *)
\* (the step operators take a dummy argument: TLC evaluates argument-less constant definitions eagerly
\*  in every run, which is wanted for the tables of the judge below but not for a whole step)
Gen(dummy) ==
  LET pats  == SetToSeq(Strings(ToSet(Params.pa), Params.pn) \ {<<>>})
      paths == SetToSeq(Strings(ToSet(Params.ta), Params.tn))
  IN /\ ndJsonSerialize(IOEnv.PATS, [i \in DOMAIN pats |-> [s |-> pats[i]]])
     /\ ndJsonSerialize(IOEnv.PATHS, [i \in DOMAIN paths |-> [s |-> paths[i]]])
     /\ PrintT(<<"GEN", Len(pats), Len(paths)>>)

-----------------------------------------------------------------------------
(* judge *)
InJudge == IOEnv.STEP = "judge"
Pats  == IF InJudge THEN ndJsonDeserialize(IOEnv.PATS) ELSE <<>>
Paths == IF InJudge THEN ndJsonDeserialize(IOEnv.PATHS) ELSE <<>>
\* rows [p, b, reg, dir]: for pattern p and base b, the indices of the paths reported as matching per mode
Rows  == IF InJudge THEN ndJsonDeserialize(IOEnv.OBS) ELSE <<>>
NB == Len(Bases)
NT == Len(Paths)

\* per base: the PathInfo of every path, the distinct ones, and the index of each path's info among them
TI == TLCEval([b \in 1..NB |-> [j \in 1..NT |-> PathInfo(Paths[j].s, Bases[b])]])
DistTI == TLCEval([b \in 1..NB |-> SetToSeq(ToSet(TI[b]))])
TIdx == TLCEval([b \in 1..NB |-> [j \in 1..NT |-> CHOOSE d \in DOMAIN DistTI[b] : DistTI[b][d] = TI[b][j]]])

\* the distinct (PatInfo, base) of the rows and the verdict table of each
RowPI(o) == [pi |-> PatInfo(Pats[o.p].s, Bases[o.b]), b |-> o.b]
DistPI == {RowPI(Rows[r]) : r \in DOMAIN Rows}
\* tabulated Regions and InLang: every string in which a match is looked for, its regions, and for every
\* canonical pattern of the rows the regions that are in its language
HayOf(tc) == {tc, DirOf(tc), DirOfSep(tc)}
Hay == TLCEval(UNION {UNION {HayOf(DistTI[b][d].tc) : d \in DOMAIN DistTI[b]} : b \in 1..NB})
RegTab == TLCEval([h \in Hay |-> [real \in BOOLEAN |-> [lax \in BOOLEAN |-> Regions(h, real, lax)]]])
AllRegions == TLCEval(UNION {RegTab[h][TRUE][TRUE] \cup RegTab[h][FALSE][TRUE] : h \in Hay})
LangTab == TLCEval([pc \in {x.pi.pc : x \in DistPI} |-> {r \in AllRegions : InLang(pc, r)}])
TabRegions(t, real, lax) == RegTab[t][real][lax]
TabIn(pc, r) == r \in LangTab[pc]

Table == TLCEval([x \in DistPI |->
            LET reg == [d \in DOMAIN DistTI[x.b] |-> VerdictWith(TabRegions, TabIn, x.pi, DistTI[x.b][d], "reg")]
            IN [reg |-> reg,
                dir |-> IF x.pi.trail THEN [d \in DOMAIN DistTI[x.b] |-> VerdictWith(TabRegions, TabIn, x.pi, DistTI[x.b][d], "dir")] ELSE reg]])

BadOf(o, mode, got, want) ==
  {[p |-> Pats[o.p].s, t |-> Paths[j].s, base |-> Bases[o.b], mode |-> mode,
    got |-> (j \in got), want |-> want[TIdx[o.b][j]], pi |-> o.p, ti |-> j, bi |-> o.b] :
     j \in {k \in 1..NT : LET w == want[TIdx[o.b][k]] IN w # "Open" /\ ((w = "T") # (k \in got))}}

BadOfRow(o) ==
  LET tab == Table[RowPI(o)] IN
  BadOf(o, "reg", ToSet(o.reg), tab.reg) \cup BadOf(o, "dir", ToSet(o.dir), tab.dir)

Bad == UNION {BadOfRow(Rows[r]) : r \in DOMAIN Rows}

\* measured coverage: per distinct (canonical pattern, class, trailing, base): verdict counts over the
\* distinct canonical paths (mode counted twice only where it can matter, i.e. trailing patterns)
CountOf(f, v) == Cardinality({d \in DOMAIN f : f[d] = v})
StatOf(x) ==
  LET tab == Table[x] IN
  [pc |-> x.pi.pc, real |-> x.pi.real, trail |-> x.pi.trail, b |-> x.b,
   t |-> CountOf(tab.reg, "T") + (IF x.pi.trail THEN CountOf(tab.dir, "T") ELSE 0),
   f |-> CountOf(tab.reg, "F") + (IF x.pi.trail THEN CountOf(tab.dir, "F") ELSE 0),
   open |-> CountOf(tab.reg, "Open") + (IF x.pi.trail THEN CountOf(tab.dir, "Open") ELSE 0)]

\* raw counts over all cases of the rows (every path, both modes)
Mult == TLCEval([b \in 1..NB |-> [d \in DOMAIN DistTI[b] |-> Cardinality({j \in 1..NT : TIdx[b][j] = d})]])
\* sum of f over lo..hi by halving (TLC's evaluation stack is shallow)
RECURSIVE SumRange(_, _, _)
SumRange(f(_), lo, hi) == IF lo > hi THEN 0 ELSE IF lo = hi THEN f(lo)
                          ELSE LET mid == (lo + hi) \div 2 IN SumRange(f, lo, mid) + SumRange(f, mid + 1, hi)
RowCount(r, v) ==
  LET tab == Table[RowPI(Rows[r])]
      b == Rows[r].b
      W(d) == (IF tab.reg[d] = v THEN Mult[b][d] ELSE 0) + (IF tab.dir[d] = v THEN Mult[b][d] ELSE 0)
  IN SumRange(W, 1, Len(DistTI[b]))
RawCount(v) == LET R(r) == RowCount(r, v) IN SumRange(R, 1, Len(Rows))

Judge(dummy) ==
         /\ ndJsonSerialize(IOEnv.OUT, SetToSeq(Bad))
         /\ ndJsonSerialize(IOEnv.STATS, SetToSeq({StatOf(x) : x \in DistPI}))
         /\ PrintT(<<"JUDGE", "ROWS", Len(Rows), "CASES", 2 * NT * Len(Rows), "BAD", Cardinality(Bad),
                     "T", RawCount("T"), "F", RawCount("F"), "OPEN", RawCount("Open")>>)

-----------------------------------------------------------------------------
(* laws *)
LawP(dummy) == Strings(ToSet(Params.pa), Params.lawn)
LawT(dummy) == Strings(ToSet(Params.ta), Params.lawn)
LawB(dummy) == ToSet(Bases)
Mine(S) == LET q == SetToSeq(S) IN {q[i] : i \in {k \in DOMAIN q : k % atoi(IOEnv.SHARDS) = atoi(IOEnv.SHARD)}}

Holds(name, refuting) == IF refuting = {} THEN TRUE ELSE Assert(FALSE, <<name, "refuted by", refuting>>)
Laws(dummy) ==
  LET P == Mine(LawP(0))
      T == LawT(0)
      B == LawB(0)
  IN /\ Holds("L1 canonical form", Refuting1(LawCanon, Mine(Strings(ToSet(Params.pa), Params.lawn + 2))))
     /\ Holds("L2 re-spelling", Refuting3(LawRespell, P, T, B))
     /\ Holds("L3 widening", Refuting3(LawWiden, P, T, B))
     /\ Holds("L4 literal patterns", Refuting3(LawLiteral, P, T, B))
     /\ Holds("L5 below a matched directory", Refuting3(LawBelow, P, T, B))
     /\ PrintT(<<"LAWS", Cardinality(P) * Cardinality(T) * Cardinality(B)>>)

ASSUME CASE IOEnv.STEP = "gen"   -> Gen(0)
         [] IOEnv.STEP = "judge" -> Judge(0)
         [] IOEnv.STEP = "laws"  -> Laws(0)
=============================================================================
