---------------------------- MODULE PathMatchMC ----------------------------
(***************************************************************************)
(* Conformance of the real PathMatch::match (lib/pathmatch.cpp) with        *)
(* PathMatch.tla, and the laws of PathMatch.tla.  One TLC run = one step,   *)
(* selected by the environment variable STEP:                               *)
(*                                                                         *)
(*  laws  : the laws L1-L5 of PathMatch.tla for all strings within the      *)
(*          bounds of IOEnv.PARAMS                                          *)
(*  gen   : enumerates the case space - every pattern over the pattern      *)
(*          alphabet up to the pattern bound, every path over the path      *)
(*          alphabet up to the path bound - and writes both lists; a case   *)
(*          is (pattern, path, base, mode) for every base of PARAMS and     *)
(*          mode in {reg, dir}                                              *)
(*  judge : reads the lists and the observations of the harness (for every  *)
(*          pattern and base: which paths matched, per mode), computes the  *)
(*          verdict of every case from PathMatch.tla and writes the cases   *)
(*          whose observed result differs from a decided verdict            *)
(*                                                                         *)
(* PARAMS (ndjson, one record): pa, ta = alphabets; pn, tn = length bounds; *)
(*   bases = sequence of base paths; lawn = string bound for the laws.      *)
(* A run may be restricted to the patterns i with i % SHARDS = SHARD (the   *)
(* check runs the shards as parallel TLC processes).                        *)
(***************************************************************************)
EXTENDS PathMatch, TLC, Json, IOUtils

Params == ndJsonDeserialize(IOEnv.PARAMS)[1]
Bases == Params.bases

-----------------------------------------------------------------------------
(* gen *)
GenPats  == SetToSeq(Strings(ToSet(Params.pa), Params.pn) \ {<<>>})
GenPaths == SetToSeq(Strings(ToSet(Params.ta), Params.tn))

Gen == /\ ndJsonSerialize(IOEnv.PATS, [i \in DOMAIN GenPats |-> [s |-> GenPats[i]]])
       /\ ndJsonSerialize(IOEnv.PATHS, [i \in DOMAIN GenPaths |-> [s |-> GenPaths[i]]])
       /\ PrintT(<<"GEN", Len(GenPats), Len(GenPaths)>>)

-----------------------------------------------------------------------------
(* judge *)
Pats  == ndJsonDeserialize(IOEnv.PATS)
Paths == ndJsonDeserialize(IOEnv.PATHS)
Rows  == ndJsonDeserialize(IOEnv.OBS)     \* [p, b, reg, dir]: indices of the paths reported as matching
NB == Len(Bases)
NT == Len(Paths)

\* per base: the PathInfo of every path, the distinct ones, and the index of each path's info among them
TI == TLCEval([b \in 1..NB |-> [j \in 1..NT |-> PathInfo(Paths[j].s, Bases[b])]])
DistTI == TLCEval([b \in 1..NB |-> SetToSeq(ToSet(TI[b]))])
TIdx == TLCEval([b \in 1..NB |-> [j \in 1..NT |-> CHOOSE d \in DOMAIN DistTI[b] : DistTI[b][d] = TI[b][j]]])

\* the distinct (PatInfo, base) of the rows and the verdict table of each
RowPI(o) == [pi |-> PatInfo(Pats[o.p].s, Bases[o.b]), b |-> o.b]
DistPI == {RowPI(Rows[r]) : r \in DOMAIN Rows}
Table == TLCEval([x \in DistPI |->
            LET reg == [d \in DOMAIN DistTI[x.b] |-> VerdictI(x.pi, DistTI[x.b][d], "reg")]
            IN [reg |-> reg,
                dir |-> IF x.pi.trail THEN [d \in DOMAIN DistTI[x.b] |-> VerdictI(x.pi, DistTI[x.b][d], "dir")] ELSE reg]])

BadOf(o, mode, got, want) ==
  {[p |-> Pats[o.p].s, t |-> Paths[j].s, base |-> Bases[o.b], mode |-> mode,
    got |-> (j \in got), want |-> want[TIdx[o.b][j]], pi |-> o.p, ti |-> j, bi |-> o.b] :
     j \in {k \in 1..NT : LET w == want[TIdx[o.b][k]] IN w # "Open" /\ ((w = "T") # (k \in got))}}

BadOfRow(o) ==
  LET tab == Table[RowPI(o)] IN
  BadOf(o, "reg", ToSet(o.reg), tab.reg) \cup BadOf(o, "dir", ToSet(o.dir), tab.dir)

Bad == UNION {BadOfRow(Rows[r]) : r \in DOMAIN Rows}

\* measured coverage: per distinct (canonical pattern, class, trailing, base): verdict counts over the
\* distinct canonical paths (mode counted twice only where it can matter, i.e. trailing patterns)
CountOf(f, v) == Cardinality({d \in DOMAIN f : f[d] = v})
StatOf(x) ==
  LET tab == Table[x] IN
  [pc |-> x.pi.pc, real |-> x.pi.real, trail |-> x.pi.trail, b |-> x.b,
   t |-> CountOf(tab.reg, "T") + (IF x.pi.trail THEN CountOf(tab.dir, "T") ELSE 0),
   f |-> CountOf(tab.reg, "F") + (IF x.pi.trail THEN CountOf(tab.dir, "F") ELSE 0),
   open |-> CountOf(tab.reg, "Open") + (IF x.pi.trail THEN CountOf(tab.dir, "Open") ELSE 0)]

\* raw counts over all cases of the rows
RawCount(v) ==
  LET RECURSIVE Sum(_)
      Sum(r) == IF r = 0 THEN 0
                ELSE LET tab == Table[RowPI(Rows[r])]
                         b == Rows[r].b
                     IN Sum(r - 1) + Cardinality({j \in 1..NT : tab.reg[TIdx[b][j]] = v})
                                   + Cardinality({j \in 1..NT : tab.dir[TIdx[b][j]] = v})
  IN Sum(Len(Rows))

Judge == /\ ndJsonSerialize(IOEnv.OUT, SetToSeq(Bad))
         /\ ndJsonSerialize(IOEnv.STATS, SetToSeq({StatOf(x) : x \in DistPI}))
         /\ PrintT(<<"JUDGE", "ROWS", Len(Rows), "CASES", 2 * NT * Len(Rows), "BAD", Cardinality(Bad),
                     "T", RawCount("T"), "F", RawCount("F"), "OPEN", RawCount("Open")>>)

-----------------------------------------------------------------------------
(* laws *)
LawP == Strings(ToSet(Params.pa), Params.lawn)
LawT == Strings(ToSet(Params.ta), Params.lawn)
LawB == ToSet(Bases)
Mine(S) == LET q == SetToSeq(S) IN {q[i] : i \in {k \in DOMAIN q : k % atoi(IOEnv.SHARDS) = atoi(IOEnv.SHARD)}}

Laws == /\ Assert(LawCanon(Mine(Strings(ToSet(Params.pa), Params.lawn + 2))), "L1 canonical form")
        /\ Assert(LawRespell(Mine(LawP), LawT, LawB), "L2 re-spelling")
        /\ Assert(LawWiden(Mine(LawP), LawT, LawB), "L3 widening")
        /\ Assert(LawLiteral(Mine(LawP), LawT, LawB), "L4 literal patterns")
        /\ Assert(LawBelow(Mine(LawP), LawT, LawB), "L5 below a matched directory")
        /\ PrintT(<<"LAWS", Cardinality(Mine(LawP)), Cardinality(LawT), Cardinality(LawB)>>)

ASSUME CASE IOEnv.STEP = "gen"   -> Gen
         [] IOEnv.STEP = "judge" -> Judge
         [] IOEnv.STEP = "laws"  -> Laws
=============================================================================
