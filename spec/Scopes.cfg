\* behaviours of Scopes.tla = programs; bounds and feature switches come from IOEnv.PARAMS
SPECIFICATION Spec
INVARIANT SpecInv
INVARIANT Emit
