\* behaviours of Scopes.tla = programs; bounds and feature switches come from IOEnv.PARAMS
SPECIFICATION Spec
INVARIANT UsesBound
INVARIANT DeclsDistinct
INVARIANT UsesVisible
INVARIANT PendingOnlyInClass
INVARIANT Emit
