SPECIFICATION TraceSpec
CONSTANTS
  CaretsSet = {TRUE, FALSE}
  MergedSet = {TRUE, FALSE}
  BufSet = {1}
  MaxDump = 1000000000
  MaxDiag = 1000000
  MaxSum = 1000000
INVARIANT TypeOK
INVARIANT Intact
INVARIANT Delivered
INVARIANT NotAccepted
CHECK_DEADLOCK FALSE
