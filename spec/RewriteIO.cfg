INIT IOInit
NEXT IONext
CONSTANTS
  Variant = "ideal"
  UseTable = TRUE
  MaxLen = 0
CHECK_DEADLOCK FALSE
