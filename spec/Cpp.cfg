
