--------------------------------- MODULE Run ---------------------------------
(***************************************************************************)
(* The run layer of cppcheck: what happens to a finding after a check      *)
(* produced it, and how a run turns into output and an exit status.        *)
(*                                                                         *)
(* One action per logged event of the hooked implementation (one event per *)
(* critical section / linearization point):                                *)
(*   CppCheckLogger::reportErr   Raw LibraryDrop Query Gate LocalDup        *)
(*                               QueryNoFail Query2 ExitFlag Forward        *)
(*   Executor::hasToLog          ExecQuerySuppr ExecPass ExecDup ExecDone   *)
(*   StdLogger::reportErr        Emit                                       *)
(*   PipeWriter / handleRead     SendErr Sent Recv RecvErr PipeEof Reap     *)
(*   SuppressionList             SupprAdd SupprUpdate SupprMark             *)
(*   CppCheck::checkInternal     CheckBegin DupClear CheckEnd               *)
(*   CppCheckExecutor            ExecFinished WholeProgram Unmatched Exit   *)
(*                                                                         *)
(* Actions take the finding / suppression results as explicit arguments.   *)
(* RunMC.tla feeds them from constants (exhaustive model check, all         *)
(* interleavings); RunTrace.tla feeds them from events recorded from the    *)
(* real binary (trace validation).                                          *)
(***************************************************************************)
EXTENDS Integers, Sequences, FiniteSets, TLC

CONSTANTS Mode,       \* "single" | "thread" | "process"
          ExitCode,   \* value of --error-exitcode
          EmitDup     \* --emit-duplicates

VARIABLES
  sl,        \* [space -> [key -> [inl, local, wild, line, checked, matched]]]  the nomsg suppression lists
  wk,        \* [worker -> pipeline record]
  ldup,      \* [worker -> set of rendered-text keys]     CppCheckLogger::mErrorList
  edup,      \* set of rendered-text keys                 Executor::mErrorList
  shown,     \* set of rendered-text keys                 StdLogger::mShownErrors
  emitted,   \* sequence of findings written to the report
  xflag,     \* [worker -> BOOLEAN]                       CppCheckLogger::mExitCode
  result,    \* Nat: the executor's result / returnValue of check_internal
  pipe,      \* [child -> sequence of frames in flight]
  chst,      \* [child -> [alive, eof, reaped, ended, file]]
  phase,     \* "exec" | "wp" | "post" | "done"
  unm,       \* set of suppression keys reported as unmatched
  nfm,       \* set of findings that an exit-code suppression matched (ghost, for ExitOK)
  exit       \* process exit status, -1 while running

vars == <<sl, wk, ldup, edup, shown, emitted, xflag, result, pipe, chst, phase, unm, nfm, exit>>

NoX == [id |-> "-"]

\* ------------------------------------------------------------------ helpers
Space(w)  == IF Mode = "process" /\ w # "main" THEN w ELSE "main"
UseGlobal(w) == w = "main"            \* CppCheck(..., useGlobalSuppressions) is true only for the main instance
Down(w)   == IF w = "main" THEN "std" ELSE IF Mode = "thread" THEN "exec" ELSE "pipe"

AnyM(res) == \E s \in DOMAIN res : res[s] = "M"

\* SuppressionList::isSuppressed marks every consulted entry: Checked and Matched results set `checked',
\* a Matched result also sets `matched'. res maps the consulted keys with a result # None to "C" / "M".
MarkQ(list, res) ==
  [s \in DOMAIN list |->
     IF s \in DOMAIN res
     THEN [list[s] EXCEPT !.checked = TRUE, !.matched = @ \/ res[s] = "M"]
     ELSE list[s]]

\* a query may only report entries that are in the list and that the call was allowed to consult
QueryOK(a, glob, res) ==
  /\ a \in DOMAIN sl
  /\ \A s \in DOMAIN res : s \in DOMAIN sl[a] /\ (glob \/ sl[a][s].local)

NoPl == [k |-> "-", ck |-> FALSE, mt |-> FALSE]
Idle == [st |-> "idle", f |-> "", x |-> NoX, fk |-> "", supp |-> FALSE, nf |-> FALSE, nm |-> FALSE, pl |-> NoPl, pend |-> {}]

SetSt(w, s) == wk' = [wk EXCEPT ![w].st = s]

\* ------------------------------------------------------------------ per-file framing
\* A worker starts a file (thread: ThreadData::next, process: fork, single: loop iteration)
StartWorker(w, f) ==
  /\ phase = "exec"
  /\ IF w \in DOMAIN wk
     THEN /\ wk[w].st = "idle"
          /\ wk' = [wk EXCEPT ![w] = [Idle EXCEPT !.st = "pre", !.f = f]]
          /\ UNCHANGED <<ldup, xflag>>
     ELSE /\ wk' = wk @@ (w :> [Idle EXCEPT !.st = "pre", !.f = f])
          /\ ldup' = ldup @@ (w :> {})
          /\ xflag' = xflag @@ (w :> FALSE)
  /\ UNCHANGED <<sl, edup, shown, emitted, result, pipe, chst, phase, unm, nfm, exit>>

\* CppCheck::check(file): dummy query so that wildcard/global entries get `checked'
DummyQuery(w, res) ==
  /\ wk[w].st = "pre"
  /\ QueryOK(Space(w), TRUE, res)
  /\ \A s \in DOMAIN res : res[s] = "C"          \* the empty id can never match
  /\ sl' = [sl EXCEPT ![Space(w)] = MarkQ(@, res)]
  /\ UNCHANGED <<wk, ldup, edup, shown, emitted, xflag, result, pipe, chst, phase, unm, nfm, exit>>

\* a new CppCheck instance (per file in the thread/process executors and for project entries; once for the
\* single executor's plain file list): empty duplicate list, cleared exit flag
NewChecker(w) ==
  /\ w \in DOMAIN wk
  /\ wk[w].st \in {"idle", "pre"}
  /\ ldup' = [ldup EXCEPT ![w] = {}]
  /\ xflag' = [xflag EXCEPT ![w] = FALSE]
  /\ UNCHANGED <<sl, wk, edup, shown, emitted, result, pipe, chst, phase, unm, nfm, exit>>

\* checkInternal entry: resetExitCode (the duplicate list is NOT reset here)
CheckBegin(w, f) ==
  /\ wk[w].st = "pre" /\ wk[w].f = f
  /\ SetSt(w, "file")
  /\ xflag' = [xflag EXCEPT ![w] = FALSE]
  /\ UNCHANGED <<sl, ldup, edup, shown, emitted, result, pipe, chst, phase, unm, nfm, exit>>

\* mLogger->clear() on the normal path of checkInternal
DupClear(w) ==
  /\ wk[w].st = "file"
  /\ ldup' = [ldup EXCEPT ![w] = {}]
  /\ UNCHANGED <<sl, wk, edup, shown, emitted, xflag, result, pipe, chst, phase, unm, nfm, exit>>

\* every return of checkInternal; e = the exit code the function returns
\* single executor: `result += mCppcheck.check(file)' follows immediately
CheckEnd(w, e) ==
  /\ wk[w].st = "file"
  /\ e = (IF xflag[w] THEN 1 ELSE 0)
  /\ IF Mode = "single"
     THEN SetSt(w, "idle") /\ result' = result + e
     ELSE SetSt(w, "ended") /\ UNCHANGED result
  /\ UNCHANGED <<sl, ldup, edup, shown, emitted, xflag, pipe, chst, phase, unm, nfm, exit>>

\* ------------------------------------------------------------------ suppression list maintenance
SupprAdd(a, key, rec, res) ==
  /\ a \in DOMAIN sl
  /\ IF res = "added"
     THEN /\ key \notin DOMAIN sl[a]
          /\ sl' = [sl EXCEPT ![a] = @ @@ (key :> rec)]
     ELSE /\ key \in DOMAIN sl[a]
          /\ UNCHANGED sl
  /\ UNCHANGED <<wk, ldup, edup, shown, emitted, xflag, result, pipe, chst, phase, unm, nfm, exit>>

SupprUpdate(a, key, checked, matched, found) ==
  /\ a \in DOMAIN sl
  /\ found = (key \in DOMAIN sl[a])
  /\ sl' = IF found
           THEN [sl EXCEPT ![a][key].checked = @ \/ checked, ![a][key].matched = @ \/ matched]
           ELSE sl
  /\ UNCHANGED <<wk, ldup, edup, shown, emitted, xflag, result, pipe, chst, phase, unm, nfm, exit>>

\* markUnmatchedInlineSuppressionsAsChecked: keys = entries that flipped to checked
SupprMark(a, keys) ==
  /\ a \in DOMAIN sl
  /\ \A k \in keys : k \in DOMAIN sl[a] /\ ~sl[a][k].checked
  /\ sl' = [sl EXCEPT ![a] = [s \in DOMAIN @ |-> IF s \in keys THEN [@[s] EXCEPT !.checked = TRUE] ELSE @[s]]]
  /\ UNCHANGED <<wk, ldup, edup, shown, emitted, xflag, result, pipe, chst, phase, unm, nfm, exit>>

\* ------------------------------------------------------------------ CppCheckLogger::reportErr
Raw(w, x) ==
  /\ wk[w].st = "file"
  /\ x.sev # "internal"
  /\ wk' = [wk EXCEPT ![w].st = "raw", ![w].x = x, ![w].supp = FALSE, ![w].nf = FALSE, ![w].nm = FALSE, ![w].fk = ""]
  /\ UNCHANGED <<sl, ldup, edup, shown, emitted, xflag, result, pipe, chst, phase, unm, nfm, exit>>

LibraryDrop(w, x) ==
  /\ wk[w].st = "raw" /\ wk[w].x = x
  /\ SetSt(w, "file")
  /\ UNCHANGED <<sl, ldup, edup, shown, emitted, xflag, result, pipe, chst, phase, unm, nfm, exit>>

\* nomsg.isSuppressed(errorMessage, mUseGlobalSuppressions)
Query1(w, glob, res) ==
  /\ wk[w].st = "raw"
  /\ glob = UseGlobal(w)
  /\ QueryOK(Space(w), glob, res)
  /\ sl' = [sl EXCEPT ![Space(w)] = MarkQ(@, res)]
  /\ wk' = [wk EXCEPT ![w].st = "q1", ![w].supp = AnyM(res)]
  /\ UNCHANGED <<ldup, edup, shown, emitted, xflag, result, pipe, chst, phase, unm, nfm, exit>>

\* the rendered text is computed; empty text drops the finding; otherwise the per-check duplicate filter
Gate(w, x, fk, suppressed, empty) ==
  /\ wk[w].st = "q1" /\ wk[w].x = x
  /\ suppressed = wk[w].supp
  /\ IF empty THEN SetSt(w, "file") /\ UNCHANGED ldup
     ELSE IF ~EmitDup /\ fk \in ldup[w]
          THEN wk' = [wk EXCEPT ![w].st = "dup", ![w].fk = fk] /\ UNCHANGED ldup
          ELSE /\ ldup' = [ldup EXCEPT ![w] = @ \cup {fk}]
               /\ wk' = [wk EXCEPT ![w].st = IF suppressed THEN "file" ELSE "gated", ![w].fk = fk]
  /\ UNCHANGED <<sl, edup, shown, emitted, xflag, result, pipe, chst, phase, unm, nfm, exit>>

LocalDup(w, x) ==
  /\ wk[w].st = "dup" /\ wk[w].x = x
  /\ SetSt(w, "file")
  /\ UNCHANGED <<sl, ldup, edup, shown, emitted, xflag, result, pipe, chst, phase, unm, nfm, exit>>

\* nofail.isSuppressed(errorMessage)   (the nofail list's own flags are not observable, only the verdict is)
QueryNoFail(w, matched) ==
  /\ wk[w].st = "gated"
  /\ wk' = [wk EXCEPT ![w].st = "qf", ![w].nf = matched]
  /\ nfm' = IF matched THEN nfm \cup {wk[w].x} ELSE nfm
  /\ UNCHANGED <<sl, ldup, edup, shown, emitted, xflag, result, pipe, chst, phase, unm, exit>>

\* ... && !nomsg.isSuppressed(errorMessage)   global = true, only evaluated when nofail did not match
Query2(w, glob, res) ==
  /\ wk[w].st = "qf" /\ ~wk[w].nf
  /\ glob = TRUE
  /\ QueryOK(Space(w), TRUE, res)
  /\ sl' = [sl EXCEPT ![Space(w)] = MarkQ(@, res)]
  /\ wk' = [wk EXCEPT ![w].st = "q2", ![w].nm = AnyM(res)]
  /\ UNCHANGED <<ldup, edup, shown, emitted, xflag, result, pipe, chst, phase, unm, nfm, exit>>

ExitFlag(w, x) ==
  /\ wk[w].st = "q2" /\ ~wk[w].nm /\ wk[w].x = x
  /\ xflag' = [xflag EXCEPT ![w] = TRUE]
  /\ SetSt(w, "xf")
  /\ UNCHANGED <<sl, ldup, edup, shown, emitted, result, pipe, chst, phase, unm, nfm, exit>>

\* the finding leaves the CppCheck instance; only allowed for a finding that passed the gate,
\* and only after the exit flag decision was taken
Forward(w, x) ==
  /\ wk[w].x = x
  /\ \/ wk[w].st = "xf"
     \/ wk[w].st = "qf" /\ wk[w].nf
     \/ wk[w].st = "q2" /\ wk[w].nm
  /\ SetSt(w, "fwd")
  /\ UNCHANGED <<sl, ldup, edup, shown, emitted, xflag, result, pipe, chst, phase, unm, nfm, exit>>

\* ------------------------------------------------------------------ Executor::hasToLog (thread worker / parent process)
\* e = the executing context: a thread worker w (its own forwarded finding) or a child c whose frame the
\* parent is handling. ex[e] lives in wk[e] for threads and in wk["parent:c"] for the parent.
ExecSupprQuery(e, res) ==
  /\ wk[e].st = "fwd"
  /\ QueryOK("main", TRUE, res)
  /\ sl' = [sl EXCEPT !["main"] = MarkQ(@, res)]
  /\ wk' = [wk EXCEPT ![e].st = "eq", ![e].supp = AnyM(res)]
  /\ UNCHANGED <<ldup, edup, shown, emitted, xflag, result, pipe, chst, phase, unm, nfm, exit>>

ExecReady(e) == \/ wk[e].st = "eq" /\ ~wk[e].supp
                \/ wk[e].st = "fwd" /\ DOMAIN sl["main"] = {}     \* empty list: no query at all

ExecPass(e, x, fk) ==
  /\ ExecReady(e) /\ wk[e].x = x
  /\ ~EmitDup /\ fk \notin edup
  /\ edup' = edup \cup {fk}
  /\ SetSt(e, "epass")
  /\ UNCHANGED <<sl, ldup, shown, emitted, xflag, result, pipe, chst, phase, unm, nfm, exit>>

ExecDup(e, x, fk) ==
  /\ ExecReady(e) /\ wk[e].x = x
  /\ ~EmitDup /\ fk \in edup
  /\ SetSt(e, "edrop")
  /\ UNCHANGED <<sl, ldup, edup, shown, emitted, xflag, result, pipe, chst, phase, unm, nfm, exit>>

\* where an executor context continues after a finding: a thread goes on with its file, the parent is idle
Back(e) == IF e = "main" \/ Mode = "thread" THEN "file" ELSE "idle"

\* return of hasToLog with its verdict
ExecDone(e, x, r) ==
  /\ wk[e].x = x
  /\ \/ r = "pass" /\ (wk[e].st = "epass" \/ (EmitDup /\ ExecReady(e))) /\ SetSt(e, "std")
     \/ r = "dup" /\ wk[e].st = "edrop" /\ SetSt(e, Back(e))
     \/ r = "suppressed" /\ wk[e].st = "eq" /\ wk[e].supp /\ SetSt(e, Back(e))
     \/ r = "empty" /\ ExecReady(e) /\ SetSt(e, Back(e))
  /\ UNCHANGED <<sl, ldup, edup, shown, emitted, xflag, result, pipe, chst, phase, unm, nfm, exit>>

\* ------------------------------------------------------------------ StdLogger::reportErr
\* who may hand a finding to the report: the main instance directly after Forward, an executor context
\* after hasToLog said pass
EmitReady(e) == \/ e = "main" /\ wk[e].st = "fwd"
                \/ e # "main" /\ wk[e].st = "std"

Emit(e, x, fk, dup) ==
  /\ EmitReady(e) /\ wk[e].x = x
  /\ dup = (~EmitDup /\ fk \in shown)
  /\ shown' = shown \cup {fk}
  /\ emitted' = IF dup THEN emitted ELSE Append(emitted, x)
  /\ SetSt(e, Back(e))
  /\ UNCHANGED <<sl, ldup, edup, xflag, result, pipe, chst, phase, unm, nfm, exit>>

\* ------------------------------------------------------------------ process executor: pipe protocol
\* frames: [t |-> type char, x |-> finding or NoX, n |-> CHILD_END payload or 0]
Spawn(c, f) ==
  /\ phase = "exec" /\ Mode = "process"
  /\ c \notin DOMAIN chst
  /\ "T" \in DOMAIN sl
  /\ chst' = chst @@ (c :> [alive |-> TRUE, eof |-> FALSE, reaped |-> FALSE, ended |-> FALSE, file |-> f])
  /\ pipe' = pipe @@ (c :> <<>>)
  /\ sl' = sl @@ (c :> sl["T"])               \* fork(): the child works on a copy of the template lists
  /\ wk' = wk @@ (c :> [Idle EXCEPT !.st = "pre", !.f = f])
  /\ ldup' = ldup @@ (c :> {})
  /\ xflag' = xflag @@ (c :> FALSE)
  /\ UNCHANGED <<edup, shown, emitted, result, phase, unm, nfm, exit>>

\* The forked worker is about to construct its CppCheck: its suppression lists are the pristine template, i.e. the
\* command-line state only - no inline entry and no checked/matched flag of a file analysed earlier in this run
\* (the parent's live list has those merged in; a worker starting from it would report state back twice and,
\* because the pipe encoding of an entry is lossy, would analyse with degraded inline suppressions)
ChildStart(c) ==
  /\ c \in DOMAIN chst /\ chst[c].alive /\ wk[c].st = "pre"
  /\ \A k \in DOMAIN sl[c] : ~sl[c][k].inl /\ ~sl[c][k].checked /\ ~sl[c][k].matched
  /\ UNCHANGED vars

\* PipeWriter::reportErr for a finding that was forwarded (internal-severity messages bypass the pipeline)
SendErr(c, x) ==
  /\ \/ wk[c].st = "fwd" /\ wk[c].x = x /\ wk' = [wk EXCEPT ![c].st = "sending"]
     \/ x.sev = "internal" /\ wk[c].st \in {"file", "pre", "ended"} /\ wk' = [wk EXCEPT ![c].x = x]
  /\ UNCHANGED <<sl, ldup, edup, shown, emitted, xflag, result, pipe, chst, phase, unm, nfm, exit>>

\* PipeWriter::writeSuppr: the child's state of one suppression entry goes into a REPORT_SUPPR(_INLINE) frame.
\* Inline entries are always sent, other entries only when they were consulted.
SendSuppr(c, k, inl, ck, mt) ==
  /\ wk[c].st = "reported"
  /\ k \in DOMAIN sl[c]
  /\ sl[c][k].inl = inl /\ sl[c][k].checked = ck /\ sl[c][k].matched = mt
  /\ inl \/ ck
  /\ wk' = [wk EXCEPT ![c].pl = [k |-> k, ck |-> ck, mt |-> mt]]
  /\ UNCHANGED <<sl, ldup, edup, shown, emitted, xflag, result, pipe, chst, phase, unm, nfm, exit>>

\* a complete frame was written
Sent(c, t, n) ==
  /\ chst[c].alive
  /\ pipe' = [pipe EXCEPT ![c] = Append(@, [t |-> t, x |-> IF t = "2" THEN wk[c].x ELSE NoX, n |-> n,
                                            pl |-> IF t \in {"3", "4"} THEN wk[c].pl ELSE NoPl])]
  /\ IF t = "2" /\ wk[c].st = "sending" THEN SetSt(c, "file") ELSE UNCHANGED wk
  /\ UNCHANGED <<sl, ldup, edup, shown, emitted, xflag, result, chst, phase, unm, nfm, exit>>

\* the child terminates (normally after CHILD_END, or by a fault anywhere)
ChildGone(c) ==
  /\ chst[c].alive
  /\ chst' = [chst EXCEPT ![c].alive = FALSE]
  /\ UNCHANGED <<sl, wk, ldup, edup, shown, emitted, xflag, result, pipe, phase, unm, nfm, exit>>

PName(c) == "parent:" \o c

\* handleRead consumed one complete frame of child c
Recv(c, t, n) ==
  /\ c \in DOMAIN pipe /\ pipe[c] # <<>> /\ ~chst[c].eof /\ ~chst[c].ended
  /\ Head(pipe[c]).t = t
  /\ pipe' = [pipe EXCEPT ![c] = Tail(@)]
  /\ IF t = "5"
     THEN /\ Head(pipe[c]).n = n
          /\ result' = result + n
          /\ chst' = [chst EXCEPT ![c].ended = TRUE]
          \* everything the child learned about suppressions has arrived before its end is accounted
          /\ \A s \in DOMAIN sl[c] :
                (sl[c][s].inl \/ sl[c][s].checked) =>
                   /\ s \in DOMAIN sl["main"]
                   /\ sl[c][s].checked => sl["main"][s].checked
                   /\ sl[c][s].matched => sl["main"][s].matched
          /\ UNCHANGED wk
     ELSE /\ UNCHANGED <<result, chst>>
          /\ LET ctx == IF t = "2" THEN [Idle EXCEPT !.st = "recv", !.x = Head(pipe[c]).x]
                        ELSE IF t \in {"3", "4"} THEN [Idle EXCEPT !.st = "rsup", !.pl = Head(pipe[c]).pl]
                        ELSE Idle
             IN wk' = IF PName(c) \in DOMAIN wk THEN [wk EXCEPT ![PName(c)] = ctx] ELSE wk @@ (PName(c) :> ctx)
  /\ UNCHANGED <<sl, ldup, edup, shown, emitted, xflag, phase, unm, nfm, exit>>

\* deserialize gave back the finding that was serialized
RecvErr(c, x) ==
  /\ PName(c) \in DOMAIN wk /\ wk[PName(c)].st = "recv"
  /\ wk[PName(c)].x = x
  /\ SetSt(PName(c), IF x.sev = "internal" THEN "idle" ELSE "fwd")
  /\ UNCHANGED <<sl, ldup, edup, shown, emitted, xflag, result, pipe, chst, phase, unm, nfm, exit>>

\* the parent merges a received suppression entry into its own list: addSuppression, and
\* updateSuppressionState when the entry is already there. The values are the ones the child sent.
ParentSupprAdd(c, key, rec, res) ==
  /\ PName(c) \in DOMAIN wk /\ wk[PName(c)].st = "rsup"
  /\ wk[PName(c)].pl = [k |-> key, ck |-> rec.checked, mt |-> rec.matched]
  /\ IF res = "added"
     THEN /\ key \notin DOMAIN sl["main"]
          /\ sl' = [sl EXCEPT !["main"] = @ @@ (key :> rec)]
          /\ SetSt(PName(c), "idle")
     ELSE /\ key \in DOMAIN sl["main"]
          /\ UNCHANGED sl
          /\ SetSt(PName(c), "rsup2")
  /\ UNCHANGED <<ldup, edup, shown, emitted, xflag, result, pipe, chst, phase, unm, nfm, exit>>

\* (the code first tries to add the entry and merges the state when it exists already; merging directly when the entry is
\* known - without the failing add - is the same step as far as the lists are concerned, so both are behaviours)
ParentSupprUpdate(c, key, checked, matched, found) ==
  /\ PName(c) \in DOMAIN wk /\ wk[PName(c)].st \in {"rsup", "rsup2"}
  /\ wk[PName(c)].st = "rsup" => key \in DOMAIN sl["main"]
  /\ wk[PName(c)].pl = [k |-> key, ck |-> checked, mt |-> matched]
  /\ found = (key \in DOMAIN sl["main"])
  /\ sl' = IF found
           THEN [sl EXCEPT !["main"][key].checked = @ \/ checked, !["main"][key].matched = @ \/ matched]
           ELSE sl
  /\ SetSt(PName(c), "idle")
  /\ UNCHANGED <<ldup, edup, shown, emitted, xflag, result, pipe, chst, phase, unm, nfm, exit>>

\* read() returned 0 before CHILD_END: the worker died
PipeEof(c) ==
  /\ c \in DOMAIN pipe /\ pipe[c] = <<>> /\ ~chst[c].alive /\ ~chst[c].eof /\ ~chst[c].ended
  /\ chst' = [chst EXCEPT ![c].eof = TRUE]
  /\ result' = result + 1
  /\ UNCHANGED <<sl, wk, ldup, edup, shown, emitted, xflag, pipe, phase, unm, nfm, exit>>

Reap(c) ==
  /\ c \in DOMAIN chst /\ ~chst[c].alive /\ ~chst[c].reaped
  /\ chst' = [chst EXCEPT ![c].reaped = TRUE]
  /\ UNCHANGED <<sl, wk, ldup, edup, shown, emitted, xflag, result, pipe, phase, unm, nfm, exit>>

\* reportInternalChildErr: the parent itself raises cppcheckError for the child's file
ChildErr(c, x) ==
  /\ chst[c].reaped
  /\ x.id = "cppcheckError" /\ x.file = chst[c].file
  /\ wk' = IF PName(c) \in DOMAIN wk
           THEN [wk EXCEPT ![PName(c)] = [Idle EXCEPT !.st = "fwd", !.x = x]]
           ELSE wk @@ (PName(c) :> [Idle EXCEPT !.st = "fwd", !.x = x])
  /\ UNCHANGED <<sl, ldup, edup, shown, emitted, xflag, result, pipe, chst, phase, unm, nfm, exit>>

\* ------------------------------------------------------------------ result accounting
\* thread executor: the per-thread sums are added after the join
AccountThread(w, r) ==
  /\ Mode = "thread" /\ wk[w].st = "ended"
  /\ r = (IF xflag[w] THEN 1 ELSE 0)
  /\ result' = result + r
  /\ SetSt(w, "idle")
  /\ UNCHANGED <<sl, ldup, edup, shown, emitted, xflag, pipe, chst, phase, unm, nfm, exit>>

\* process executor: the child reports its own result in CHILD_END (accounted in Recv)
ChildChecked(c, r) ==
  /\ Mode = "process" /\ wk[c].st = "ended"
  /\ r = (IF xflag[c] THEN 1 ELSE 0)
  /\ SetSt(c, "reported")
  /\ UNCHANGED <<sl, ldup, edup, shown, emitted, xflag, result, pipe, chst, phase, unm, nfm, exit>>

AllQuiet == \A w \in DOMAIN wk : wk[w].st \in {"idle", "reported", "ended"} \/ (w \in DOMAIN chst /\ ~chst[w].alive)

\* the executor returned `r'
ExecFinished(r) ==
  /\ phase = "exec"
  /\ r = result
  /\ \A c \in DOMAIN chst : chst[c].reaped /\ (chst[c].eof \/ chst[c].ended)
  /\ phase' = "wp"
  /\ wk' = IF "main" \in DOMAIN wk THEN [wk EXCEPT !["main"].st = "file"] ELSE wk @@ ("main" :> [Idle EXCEPT !.st = "file"])
  /\ ldup' = IF "main" \in DOMAIN ldup THEN ldup ELSE ldup @@ ("main" :> {})
  /\ xflag' = IF "main" \in DOMAIN xflag THEN xflag ELSE xflag @@ ("main" :> FALSE)
  /\ UNCHANGED <<sl, edup, shown, emitted, result, pipe, chst, unm, nfm, exit>>

\* single executor only: `if (mCppcheck.analyseWholeProgram()) result++' (in-memory summaries); findings
\* raised in between run through the main instance's pipeline
WpMemBegin ==
  /\ phase = "exec" /\ Mode = "single" /\ wk["main"].st = "idle"
  /\ SetSt("main", "file")
  /\ UNCHANGED <<sl, ldup, edup, shown, emitted, xflag, result, pipe, chst, phase, unm, nfm, exit>>

WpMemEnd(bump) ==
  /\ phase = "exec" /\ Mode = "single" /\ wk["main"].st = "file"
  /\ result' = result + (IF bump THEN 1 ELSE 0)
  /\ bump => xflag["main"]
  /\ SetSt("main", "idle")
  /\ UNCHANGED <<sl, ldup, edup, shown, emitted, xflag, pipe, chst, phase, unm, nfm, exit>>

\* returnValue |= analyseWholeProgram(buildDir, ...)  == main logger's exit flag
WpDone ==
  /\ phase = "wp" /\ wk["main"].st = "file"
  /\ result' = IF xflag["main"] /\ result = 0 THEN 1 ELSE result
  /\ phase' = "post"
  /\ UNCHANGED <<sl, wk, ldup, edup, shown, emitted, xflag, pipe, chst, unm, nfm, exit>>

\* ------------------------------------------------------------------ unmatched suppressions, exit
\* one unmatchedSuppression report: never for a matched entry, line-specific and inline entries only when
\* they were consulted, a never-consulted wildcard/global entry is not reported; at most once per entry
Unmatched(key) ==
  /\ phase = "post"
  /\ key \in DOMAIN sl["main"]
  /\ LET s == sl["main"][key] IN
       /\ ~s.matched
       /\ s.inl => s.checked
       /\ (~s.inl /\ s.local /\ s.line # -1) => s.checked
       /\ (~s.inl /\ ~s.local /\ s.wild) => s.checked
  /\ key \notin unm
  /\ unm' = unm \cup {key}
  /\ wk' = [wk EXCEPT !["main"].pend = @ \cup {key}]      \* its report is due
  /\ UNCHANGED <<sl, ldup, edup, shown, emitted, xflag, result, pipe, chst, phase, nfm, exit>>

\* a finding that goes straight to the report after the executor finished: the unmatchedSuppression report of the
\* entry just selected - at the suppression's own location, naming its id - or the checkers summary
EmitDirect(x, fk, dup) ==
  /\ phase = "post"
  /\ IF x.id \in {"unmatchedSuppression", "unmatchedPolyspaceSuppression"}
     THEN \E k \in wk["main"].pend :
            /\ LET s == sl["main"][k] IN
                 /\ x.file = s.file
                 /\ x.line = (IF s.line = -1 THEN 0 ELSE s.line)
                 /\ x.msg = "Unmatched suppression: " \o s.id
            /\ wk' = [wk EXCEPT !["main"].pend = @ \ {k}]
     ELSE x.id = "checkersReport" /\ UNCHANGED wk
  /\ dup = (~EmitDup /\ fk \in shown)
  /\ shown' = shown \cup {fk}
  /\ emitted' = IF dup THEN emitted ELSE Append(emitted, x)
  /\ UNCHANGED <<sl, ldup, edup, xflag, result, pipe, chst, phase, unm, nfm, exit>>

\* an entry that has to be reported (C24): it matched nothing and it applied to analysed code - an inline entry
\* whose line was reached, a global entry (unless it is a wildcard that was never consulted), a file-local entry
\* that was consulted. For a never-consulted file-local entry the outcome depends on whether its file was analysed
\* and is left open here.
MustReport(s) ==
  /\ ~s.matched
  /\ s.id \notin {"checkersReport", "unmatchedSuppression"}
  /\ \/ s.inl /\ s.checked
     \/ ~s.inl /\ ~s.local /\ (s.checked \/ ~s.wild)
     \* a consulted command-line entry for one file is reported when that file is one of the ANALYSED SOURCE files (the
     \* unmatched entries are collected per analysed file); an entry that names a header is never collected. The run layer
     \* does not know which names are source files, so nothing is demanded here - Unmatched.tla (O4) demands the report for
     \* entries that name a source file.

\* `--suppress=unmatchedSuppression...' silences (some of) the reports: then nothing is demanded
Silenced == \E k \in DOMAIN sl["main"] : sl["main"][k].id = "unmatchedSuppression"

UnmatchedDone(err) ==
  /\ phase = "post"
  /\ err = (unm # {})
  /\ Silenced \/ \A k \in DOMAIN sl["main"] : MustReport(sl["main"][k]) => k \in unm
  /\ result' = IF err /\ result = 0 THEN ExitCode ELSE result
  /\ UNCHANGED <<sl, wk, ldup, edup, shown, emitted, xflag, pipe, chst, phase, unm, nfm, exit>>

Exit(code) ==
  /\ phase = "post"
  /\ wk["main"].pend = {}                      \* every selected unmatched entry was reported
  /\ code = (IF result # 0 THEN ExitCode ELSE 0)
  /\ exit' = code
  /\ phase' = "done"
  /\ UNCHANGED <<sl, wk, ldup, edup, shown, emitted, xflag, result, pipe, chst, unm, nfm>>

\* ------------------------------------------------------------------ properties (state invariants)
Range(s) == {s[i] : i \in DOMAIN s}

\* C26/C15: nothing is written to the report twice (unless duplicates were asked for)
NoDoubleEmit == EmitDup \/ \A i, j \in DOMAIN emitted : i # j => emitted[i] # emitted[j]

\* C25: outside --safety the exit status is the error exit code iff some reported finding other than the
\* checkers summary was not matched by an exit-code suppression
Counts(x) == x.id # "checkersReport" /\ x \notin nfm
ExitOK == phase = "done" =>
            exit = (IF \E x \in Range(emitted) : Counts(x) THEN ExitCode ELSE 0)

\* C24: a suppression that matched is never reported as unmatched
UnmatchedSound == \A k \in unm : k \in DOMAIN sl["main"] /\ ~sl["main"][k].matched

\* flags only ever go from false to true (checked in RunMC as an action property)
FlagsMonotone ==
  [][\A a \in DOMAIN sl : \A s \in DOMAIN sl[a] :
        a \in DOMAIN sl' /\ s \in DOMAIN sl'[a] =>
          /\ sl[a][s].checked => sl'[a][s].checked
          /\ sl[a][s].matched => sl'[a][s].matched]_vars
=============================================================================
