------------------------------ MODULE CfgSelect ------------------------------
(***************************************************************************)
(* C12 - configuration selection honours -D/-U and covers guarded code.    *)
(*                                                                         *)
(* A *structure* is a forest of conditional nodes.  A node is one of       *)
(*     #ifdef M | #ifndef M | #if defined(M) | #if !defined(M)             *)
(* with a then-block, an optional #else-block and #endif.  Every block     *)
(* (the file itself is the root block) consists of code lines and child    *)
(* nodes in alternation: code, child, code, child, ..., code.  The macros  *)
(* of the nodes are pairwise distinct (M1, M2, ... in preorder) and are    *)
(* never #define'd or #undef'd in the file - the family of the statement.  *)
(*                                                                         *)
(* A *configuration* is the set of macros that are defined.  A code line   *)
(* with guard g (the set of <<macro, must-be-defined>> pairs of the        *)
(* enclosing branches) is compiled in configuration c iff Active(g, c).    *)
(*                                                                         *)
(* The property speaks about the SET of configurations cppcheck analyses   *)
(* for a file under an option set (-D, -U, --max-configs, --force).  The   *)
(* spec does NOT say which configurations are to be chosen; any set Cs     *)
(* with HonourD, HonourU and Cover is accepted.  What the code really      *)
(* analysed is observed from the hooked binary (Config / ConfigChecked /   *)
(* HashSkip events) and from the findings: every code line holds a         *)
(* division by zero of its own, so "line r was analysed" is visible to the *)
(* user as a zerodiv finding at line r.                                    *)
(*                                                                         *)
(* Steps (IOEnv.STEP):                                                     *)
(*   "gen"    enumerate the structures and option sets -> IOEnv.OUT        *)
(*   "judge"  read IOEnv.CASES (the structures) and IOEnv.OBS (what the    *)
(*            binary did), evaluate the formulas, write the failing cases  *)
(*            to IOEnv.OUT                                                 *)
(*   "laws"   check the laws that justify the formulas on all structures   *)
(***************************************************************************)
EXTENDS Integers, Sequences, FiniteSets, TLC, Json, IOUtils, SequencesExt

Step == IOEnv.STEP

(***************************************************************************)
(* Structures                                                              *)
(***************************************************************************)
AllKinds == {"ifdef", "ifndef", "ifdefined", "ifnotdefined"}
PolKinds == {"ifdef", "ifndef"}
\* then-branch compiled iff the macro is defined
Positive(k) == k \in {"ifdef", "ifdefined"}

\* All nodes with exactly n conditional nodes, nesting depth <= d, macros f..f+n-1 in preorder, kinds from K.
\* A forest is a sequence of nodes (sibling order matters).
RECURSIVE Nodes(_, _, _, _), Forests(_, _, _, _)
Nodes(n, d, f, K) ==
  IF n < 1 \/ d < 1 THEN {}
  ELSE {[k |-> kk, m |-> f, he |-> FALSE, t |-> tf, e |-> <<>>] :
            kk \in K, tf \in Forests(n - 1, d - 1, f + 1, K)}
       \cup
       UNION {{[k |-> kk, m |-> f, he |-> TRUE, t |-> tf, e |-> ef] :
                  kk \in K, tf \in Forests(j, d - 1, f + 1, K), ef \in Forests(n - 1 - j, d - 1, f + 1 + j, K)}
              : j \in 0..(n - 1)}
Forests(n, d, f, K) ==
  IF n = 0 THEN {<<>>}
  ELSE IF d < 1 THEN {}
  ELSE UNION {{<<x>> \o r : x \in Nodes(j, d, f, K), r \in Forests(n - j, d, f + j, K)} : j \in 1..n}

RECURSIVE NNodes(_)
NNodes(fo) == IF fo = <<>> THEN 0 ELSE 1 + NNodes(Head(fo).t) + NNodes(Head(fo).e) + NNodes(Tail(fo))
Macros(fo) == 1..NNodes(fo)

(***************************************************************************)
(* The file of a structure: one record per source line.  Line i of the     *)
(* sequence is line i of the file; code lines carry their guard.           *)
(***************************************************************************)
CodeLine(g) == [op |-> "code", m |-> 0, g |-> g]
RECURSIVE BlockLines(_, _), NodeLines(_, _)
BlockLines(fo, g) ==
  IF fo = <<>> THEN <<CodeLine(g)>>
  ELSE <<CodeLine(g)>> \o NodeLines(Head(fo), g) \o BlockLines(Tail(fo), g)
NodeLines(x, g) ==
  <<[op |-> x.k, m |-> x.m, g |-> {}]>>
  \o BlockLines(x.t, g \cup {<<x.m, Positive(x.k)>>})
  \o (IF x.he THEN <<[op |-> "else", m |-> x.m, g |-> {}]>> \o BlockLines(x.e, g \cup {<<x.m, ~Positive(x.k)>>})
      ELSE <<>>)
  \o <<[op |-> "endif", m |-> x.m, g |-> {}]>>

Lines(fo) == BlockLines(fo, {})
\* what the renderer needs: the directive of every line (the text templates live in drivers/c12_render.py)
LinesOut(fo) == LET L == Lines(fo) IN [i \in DOMAIN L |-> [op |-> L[i].op, m |-> L[i].m]]

Regions(L) == {i \in DOMAIN L : L[i].op = "code"}
Guards(L) == {L[i].g : i \in Regions(L)}
\* number of distinct guard combinations over the regions (the root's empty guard included)
Combos(L) == Cardinality(Guards(L))

(***************************************************************************)
(* Semantics                                                               *)
(***************************************************************************)
Active(g, c) == \A p \in g : (p[1] \in c) = p[2]
ActiveSet(L, c) == {i \in Regions(L) : Active(L[i].g, c)}

(***************************************************************************)
(* Option sets.  d, u: sets of macro numbers given with -D / -U;           *)
(* mc: value of --max-configs (0 = not given); force: --force.             *)
(***************************************************************************)
DefaultMaxConfigs == 12      \* cppcheck --help: "--max-configs=<limit> ... The default limit is 12"
Opt(d, u, mc, force) == [d |-> d, u |-> u, mc |-> mc, force |-> force]
NoOpt == Opt({}, {}, 0, FALSE)

\* the number of configurations the user allows (Infinity = 1000000 with --force)
Infinity == 1000000
Limit(o) == IF o.force THEN Infinity
            ELSE IF o.mc > 0 THEN o.mc
            ELSE IF o.d # {} THEN 1          \* manual: "When -D is used, Cppcheck will only check 1 configuration unless these are used"
            ELSE DefaultMaxConfigs

(***************************************************************************)
(* The property: formulas over the observed run of one case.               *)
(*   started  = configurations the configuration loop began with           *)
(*   checked  = configurations whose token list was handed to the checkers *)
(*   skipped  = configurations dropped because their token list was equal  *)
(*              to that of an earlier one (a legitimate optimisation: the   *)
(*              code lines are pairwise different, so equal token lists     *)
(*              mean equal sets of compiled lines)                          *)
(***************************************************************************)
HonourD(o, started) == \A c \in started : o.d \subseteq c
HonourU(o, started) == \A c \in started : c \cap o.u = {}

\* regions that some configuration allowed by -U compiles
Reachable(L, o) == {i \in Regions(L) : \A p \in L[i].g : p[2] => p[1] \notin o.u}

CoverDemanded(L, o) == o.d = {} /\ Combos(L) <= Limit(o)
Cover(L, o, checked) ==
  CoverDemanded(L, o) => \A i \in Reachable(L, o) : \E c \in checked : Active(L[i].g, c)

\* the i-th started configuration was skipped: an earlier checked one compiles the same lines
SkipSound(L, cfgs) ==
  \A i \in DOMAIN cfgs : cfgs[i].st = "skipped" =>
     \E j \in 1..(i - 1) : cfgs[j].st = "checked" /\ ActiveSet(L, cfgs[j].c) = ActiveSet(L, cfgs[i].c)

\* the findings are exactly the divisions of the lines compiled in some checked configuration
ReportExact(L, checked, reported, others) ==
  /\ others = 0
  /\ reported = UNION {ActiveSet(L, c) : c \in checked}

\* every started configuration ends up checked or skipped (no preprocessor / syntax failure on this family)
AllSettled(cfgs) == \A i \in DOMAIN cfgs : cfgs[i].st \in {"checked", "skipped"}

(***************************************************************************)
(* Classes of Cover failures.  A region that no analysed configuration     *)
(* compiles is described by where it sits in the structure; failures with  *)
(* the same description are reported under one key (the description says   *)
(* nothing about cppcheck's algorithm, only about the shape of the input): *)
(*   "nested-under-if-not-defined"  an enclosing conditional is spelled    *)
(*        `#if !defined(M)` and the region lies in a further conditional   *)
(*        nested in it                                                     *)
(*   "after-else-of-nested-sibling" before the region, inside one of the   *)
(*        conditionals that enclose it, a conditional with #else was       *)
(*        closed                                                           *)
(*   both, or "other" (then the case is reduced and keyed by its core)     *)
(***************************************************************************)
LineOf(L, m, ops) == IF \E i \in DOMAIN L : L[i].m = m /\ L[i].op \in ops
                     THEN CHOOSE i \in DOMAIN L : L[i].m = m /\ L[i].op \in ops ELSE 0
IfLine(L, m) == LineOf(L, m, AllKinds)
ElseLine(L, m) == LineOf(L, m, {"else"})
EndLine(L, m) == LineOf(L, m, {"endif"})
Enclosing(L, i) == {p[1] : p \in L[i].g}
UnderNotDefined(L, i) ==
  \E m \in Enclosing(L, i) : L[IfLine(L, m)].op = "ifnotdefined" /\ \E m2 \in Enclosing(L, i) : IfLine(L, m2) > IfLine(L, m)
AfterElseSibling(L, i, n) ==
  \E x \in (1..n) \ Enclosing(L, i) :
     /\ ElseLine(L, x) > 0 /\ EndLine(L, x) < i
     /\ \E a \in Enclosing(L, i) : IfLine(L, a) < IfLine(L, x) /\ EndLine(L, x) < EndLine(L, a)
RegionClass(L, i, n) ==
  IF UnderNotDefined(L, i) /\ AfterElseSibling(L, i, n) THEN "nested-under-if-not-defined+after-else-of-nested-sibling"
  ELSE IF UnderNotDefined(L, i) THEN "nested-under-if-not-defined"
  ELSE IF AfterElseSibling(L, i, n) THEN "after-else-of-nested-sibling"
  ELSE "other"

(***************************************************************************)
(* Laws of the definitions (step "laws"), checked for every structure of   *)
(* the bound: they justify Cover's premise and guard against a wrong spec. *)
(***************************************************************************)
\* the naive strategy: one configuration per guard (define exactly the macros the guard wants defined)
NaiveCs(L) == {{p[1] : p \in {q \in g : q[2]}} : g \in Guards(L)}
LawNaiveCovers(L) == /\ Cardinality(NaiveCs(L)) <= Combos(L)
                     /\ \A i \in Regions(L) : \E c \in NaiveCs(L) : Active(L[i].g, c)
\* with -U u the naive strategy restricted to configurations without u still covers Reachable
LawNaiveCoversU(L, n) ==
  \A x \in 1..n : LET o == Opt({}, {x}, 0, FALSE)
                      cs == {c \in NaiveCs(L) : x \notin c}
                  IN \A i \in Reachable(L, o) : \E c \in cs : Active(L[i].g, c)
\* the first and the last line of the file are compiled in every configuration; directives balance
LawShape(L, n) ==
  /\ L[1].op = "code" /\ L[1].g = {} /\ L[Len(L)].op = "code" /\ L[Len(L)].g = {}
  /\ Cardinality({i \in DOMAIN L : L[i].op \in AllKinds}) = n
  /\ Cardinality({i \in DOMAIN L : L[i].op = "endif"}) = n
  /\ {L[i].m : i \in {j \in DOMAIN L : L[j].op \in AllKinds}} = 1..n
\* a conditional with #else compiles exactly one of its two first lines whenever its own guard holds
LawExclusive(L, n) ==
  \A c \in SUBSET (1..n) : \A i \in Regions(L), j \in Regions(L) :
     (\E x \in 1..n : <<x, TRUE>> \in L[i].g /\ <<x, FALSE>> \in L[j].g) => ~(Active(L[i].g, c) /\ Active(L[j].g, c))

LawsHold(fo) == LET L == Lines(fo) n == NNodes(fo)
                IN LawNaiveCovers(L) /\ LawNaiveCoversU(L, n) /\ LawShape(L, n) /\ LawExclusive(L, n)

(***************************************************************************)
(* Case enumeration (step "gen").                                          *)
(*   NFULL : structures with <= NFULL nodes, all four spellings            *)
(*   NPOL  : structures with NFULL < n <= NPOL nodes are enumerated by     *)
(*           polarity (ifdef/ifndef) and every node is respelled           *)
(*           (#ifdef M <-> #if defined(M)) by a seeded bit                 *)
(*   DEPTH : nesting bound;  MOD : of the largest stratum every MOD-th     *)
(*           structure (offset SEED) is kept; MOD = 1 keeps all            *)
(*   NOPT  : structures with <= NOPT nodes get the full option profile,    *)
(*           larger ones the light (seeded) profile                        *)
(***************************************************************************)
EnvInt(s) == atoi(s)
Seed == EnvInt(IOEnv.SEED) % 1000

Bit(salt, m) == ((((salt % 65521) * (2 * m + 7)) \div 8) + (salt \div 65521)) % 2
Alt(k) == CASE k = "ifdef" -> "ifdefined" [] k = "ifndef" -> "ifnotdefined"
            [] k = "ifdefined" -> "ifdef" [] k = "ifnotdefined" -> "ifndef"
RECURSIVE Respell(_, _)
Respell(fo, salt) ==
  [i \in DOMAIN fo |-> [fo[i] EXCEPT !.k = IF Bit(salt, fo[i].m) = 1 THEN Alt(@) ELSE @,
                                     !.t = Respell(@, salt), !.e = Respell(@, salt)]]

\* the option sets tried on a structure with n macros and c guard combinations
MaxCfgValues(c) == {k \in {1, 2, c - 1, c, c + 1} : k >= 1}
Pairs(n) == {p \in (1..n) \X (1..n) : p[1] # p[2]}
FullOpts(n, c) ==
  {NoOpt, Opt({}, {}, 0, TRUE)}
  \cup {Opt({}, {}, k, FALSE) : k \in MaxCfgValues(c)}
  \cup {Opt({i}, {}, 0, FALSE) : i \in 1..n}
  \cup {Opt({}, {i}, 0, FALSE) : i \in 1..n}
  \cup {Opt({i}, {}, 0, TRUE) : i \in 1..n}
  \cup {Opt({}, {i}, 0, TRUE) : i \in 1..n}
  \cup {Opt({i}, {}, 2, FALSE) : i \in 1..n}
  \cup {Opt({}, {i}, c, FALSE) : i \in 1..n}
  \cup {Opt({i}, {j}, 0, FALSE) : <<i, j>> \in Pairs(n)}
  \cup {Opt({i}, {j}, 0, TRUE) : <<i, j>> \in Pairs(n)}
  \cup {Opt({i, j}, {}, 0, FALSE) : <<i, j>> \in Pairs(n)}
  \cup {Opt({}, {i, j}, 0, FALSE) : <<i, j>> \in Pairs(n)}
LightOpts(n, c, salt) ==
  LET i == 1 + (salt % n)
      j == 1 + ((salt \div 7 + i) % n)
  IN {NoOpt, Opt({}, {}, c, FALSE), Opt({}, {i}, 0, FALSE), Opt({i}, {}, 0, FALSE), Opt({i}, {}, 0, TRUE),
      IF i # j THEN Opt({i}, {j}, 0, TRUE) ELSE Opt({}, {j}, c, FALSE)}

OptOut(o) == [d |-> SetToSeq(o.d), u |-> SetToSeq(o.u), mc |-> o.mc, force |-> o.force]
OptIn(r) == Opt({r.d[i] : i \in DOMAIN r.d}, {r.u[i] : i \in DOMAIN r.u}, r.mc, r.force)

GenCases(u) ==
  LET NFull == EnvInt(IOEnv.NFULL)
      NPol == EnvInt(IOEnv.NPOL)
      Depth == EnvInt(IOEnv.DEPTH)
      Mod == EnvInt(IOEnv.MOD)
      full == UNION {Forests(n, Depth, 1, AllKinds) : n \in 0..NFull}
      fullSeq == SetToSeq(full)
      Keep(n, i) == n < NPol \/ Mod <= 1 \/ (i + Seed) % Mod = 0
      PolSeq(n) == LET s == SetToSeq(Forests(n, Depth, 1, PolKinds))
                       idx == SelectSeq([i \in DOMAIN s |-> i], LAMBDA i : Keep(n, i))
                   IN [j \in DOMAIN idx |-> Respell(s[idx[j]], Seed * 1000 + (idx[j] % 1000000))]
      polSeq == FoldLeft(LAMBDA acc, n : acc \o PolSeq(n), <<>>,
                         [k \in 1..(IF NPol > NFull THEN NPol - NFull ELSE 0) |-> NFull + k])
      NOpt == EnvInt(IOEnv.NOPT)
      CaseOf(fo, idx) ==
        LET L == Lines(fo) n == NNodes(fo) c == Combos(L)
            os == IF n = 0 THEN {NoOpt, Opt({}, {}, 0, TRUE), Opt({}, {}, 1, FALSE)}
                  ELSE IF n > NOpt THEN LightOpts(n, c, Seed + idx) ELSE FullOpts(n, c)
            oseq == SetToSeq(os)
        IN [id |-> idx, n |-> n, combos |-> c, forest |-> fo, lines |-> LinesOut(fo),
            opts |-> [k \in DOMAIN oseq |-> OptOut(oseq[k])]]
  IN [i \in 1..(Len(fullSeq) + Len(polSeq)) |->
        IF i <= Len(fullSeq) THEN CaseOf(fullSeq[i], i) ELSE CaseOf(polSeq[i - Len(fullSeq)], i)]

ASSUME Step = "gen" =>
  LET cs == GenCases(0)
  IN /\ ndJsonSerialize(IOEnv.OUT, cs)
     /\ PrintT(<<"GEN", Len(cs), "OPTCASES", FoldLeft(LAMBDA a, x : a + Len(x.opts), 0, cs)>>)

(***************************************************************************)
(* Well-formedness of a structure that was not built by Forests (cases    *)
(* reduced by the driver, replays); used by the judge's RenderOk.          *)
(***************************************************************************)
RECURSIVE MacroSeq(_)
MacroSeq(fo) == IF fo = <<>> THEN <<>>
                ELSE <<Head(fo).m>> \o MacroSeq(Head(fo).t) \o MacroSeq(Head(fo).e) \o MacroSeq(Tail(fo))
RECURSIVE KindsOk(_)
KindsOk(fo) == \A i \in DOMAIN fo : /\ fo[i].k \in AllKinds /\ KindsOk(fo[i].t) /\ KindsOk(fo[i].e)
                                     /\ (~fo[i].he => fo[i].e = <<>>)
\* macros pairwise distinct, numbered in preorder
WellFormed(fo) == KindsOk(fo) /\ MacroSeq(fo) = [i \in 1..NNodes(fo) |-> i]

(***************************************************************************)
(* Laws (step "laws"): all structures with <= NFULL nodes in all spellings *)
(* and <= NPOL nodes by polarity.                                          *)
(***************************************************************************)
ASSUME Step = "laws" =>
  LET NFull == EnvInt(IOEnv.NFULL)
      NPol == EnvInt(IOEnv.NPOL)
      Depth == EnvInt(IOEnv.DEPTH)
      all == UNION {Forests(n, Depth, 1, AllKinds) : n \in 0..NFull}
             \cup UNION {Forests(n, Depth, 1, PolKinds) : n \in (NFull + 1)..NPol}
      bad == {fo \in all : ~LawsHold(fo)}
  IN /\ PrintT(<<"LAWS", Cardinality(all), "BAD", Cardinality(bad)>>)
     /\ bad = {}

(***************************************************************************)
(* Judge (step "judge").  IOEnv.CASES: the gen output; IOEnv.OBS: one line *)
(* per structure [id, runs], runs[k] = observation under opts[k]:          *)
(*   cfgs     sequence of [names (macro names defined), st]                *)
(*   reported sequence of the lines with a zerodiv finding                 *)
(*   others   number of findings that are not such a zerodiv               *)
(* Everything is recomputed from the structure; nothing the renderer or    *)
(* the runner derived is trusted.                                          *)
(***************************************************************************)
MacroName(m) == "M" \o ToString(m)
\* a configuration as a set of macro numbers; names that are not macros of the family are kept as 0 (never
\* a member of any guard; a -D/-U on it cannot be honoured by accident)
CfgSet(names, n) == {IF \E m \in 1..n : MacroName(m) = names[i]
                     THEN CHOOSE m \in 1..n : MacroName(m) = names[i] ELSE 0 : i \in DOMAIN names}

Judge(case, run, o, kk) ==
  LET L == Lines(case.forest)
      n == NNodes(case.forest)
      cfgs == [i \in DOMAIN run.cfgs |-> [c |-> CfgSet(run.cfgs[i].names, n), st |-> run.cfgs[i].st]]
      started == {cfgs[i].c : i \in DOMAIN cfgs}
      checked == {cfgs[i].c : i \in {j \in DOMAIN cfgs : cfgs[j].st = "checked"}}
      reported == {run.reported[i] : i \in DOMAIN run.reported}
      verdicts == <<[f |-> "HonourD", ok |-> HonourD(o, started)],
                    [f |-> "HonourU", ok |-> HonourU(o, started)],
                    [f |-> "Cover", ok |-> Cover(L, o, checked)],
                    [f |-> "SkipSound", ok |-> SkipSound(L, cfgs)],
                    [f |-> "AllSettled", ok |-> AllSettled(cfgs)],
                    [f |-> "ReportExact", ok |-> ReportExact(L, checked, reported, run.others)],
                    [f |-> "RunOk", ok |-> run.rc = 0],
                    \* a case that was not rendered by this module (reductions, replays) must be the file of its structure
                    [f |-> "RenderOk", ok |-> IF "lines" \in DOMAIN case
                                              THEN WellFormed(case.forest) /\ case.lines = LinesOut(case.forest) ELSE TRUE]>>
      failed == SelectSeq(verdicts, LAMBDA v : ~v.ok)
  IN [id |-> case.id, k |-> kk,
      failed |-> [i \in DOMAIN failed |-> failed[i].f],
      uncovered |-> SetToSeq({i \in Reachable(L, o) : ~\E c \in checked : Active(L[i].g, c)}),
      \* the classes of the failure: of every uncovered region if only Cover failed, "other" for any other formula
      classes |-> SetToSeq((IF \E j \in DOMAIN failed : failed[j].f # "Cover" THEN {"other"} ELSE {})
                           \cup {RegionClass(L, i, n) : i \in {r \in Reachable(L, o) : ~\E c \in checked : Active(L[r].g, c)}}),
      expected |-> SetToSeq(UNION {ActiveSet(L, c) : c \in checked}),
      coverDemanded |-> CoverDemanded(L, o),
      nontrivial |-> \/ (CoverDemanded(L, o) /\ Cardinality(checked) >= 2)
                     \/ o.d \cap (1..n) # {} \/ o.u \cap (1..n) # {}]

\* cases and observations are aligned line by line
JudgeAll(u) ==
  LET cases == ndJsonDeserialize(IOEnv.CASES)
      obs == ndJsonDeserialize(IOEnv.OBS)
      J(i) == [k \in DOMAIN obs[i].runs |-> Judge(cases[i], obs[i].runs[k], OptIn(cases[i].opts[k]), k)]
      res == [i \in DOMAIN obs |-> J(i)]
      complete == /\ Len(obs) = Len(cases)
                  /\ \A i \in DOMAIN obs : obs[i].id = cases[i].id /\ Len(obs[i].runs) = Len(cases[i].opts)
      Count(P(_)) == FoldLeft(LAMBDA a, r : a + Len(SelectSeq(r, P)), 0, res)
  IN [complete |-> complete,
      bad |-> FoldLeft(LAMBDA acc, r : acc \o SelectSeq(r, LAMBDA v : Len(v.failed) > 0), <<>>, res),
      judged |-> Count(LAMBDA v : TRUE),
      coverDemanded |-> Count(LAMBDA v : v.coverDemanded),
      nontrivial |-> Count(LAMBDA v : v.nontrivial)]

ASSUME Step = "judge" =>
  LET r == JudgeAll(0)
  IN /\ r.complete
     /\ ndJsonSerialize(IOEnv.OUT, r.bad)
     /\ PrintT(<<"JUDGED", r.judged, "BAD", Len(r.bad), "COVERDEMANDED", r.coverDemanded, "NONTRIVIAL", r.nontrivial>>)
=============================================================================
